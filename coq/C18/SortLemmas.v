(* C18 -- the stable sort by saved index is the inverse of any permutation (restoreOrder), given that the
   keys are pairwise distinct. *)
From Coq Require Import List NArith Bool Arith Lia Permutation Sorted.
Import ListNotations.
Require Import V.C18.Nested.

Section SortFacts.
  Context {A : Type} (r : A -> nat).

  Lemma insert_by_perm x l : Permutation (insert_by r x l) (x :: l).
  Proof.
    induction l as [|y t IH]; simpl; [reflexivity|].
    destruct (r x <=? r y); [reflexivity|].
    rewrite IH. apply perm_swap.
  Qed.

  Lemma sort_by_perm l : Permutation (sort_by r l) l.
  Proof.
    induction l as [|x t IH]; simpl; [reflexivity|].
    rewrite insert_by_perm. constructor. exact IH.
  Qed.

  Definition le_r (a b : A) : Prop := r a <= r b.
  Definition lt_r (a b : A) : Prop := r a < r b.

  Lemma insert_by_sorted x l : StronglySorted le_r l -> StronglySorted le_r (insert_by r x l).
  Proof.
    induction l as [|y t IH]; simpl; intros H.
    - constructor; constructor.
    - inversion H as [|? ? Ht Hy]; subst.
      destruct (r x <=? r y) eqn:E.
      + apply Nat.leb_le in E. constructor; [exact H|].
        constructor; [exact E|]. eapply Forall_impl; [|exact Hy]. unfold le_r. intros; lia.
      + apply Nat.leb_gt in E. constructor; [apply IH; exact Ht|].
        apply (Permutation_Forall (Permutation_sym (insert_by_perm x t))).
        constructor; [unfold le_r; lia | exact Hy].
  Qed.

  Lemma sort_by_sorted l : StronglySorted le_r (sort_by r l).
  Proof. induction l; simpl; [constructor | apply insert_by_sorted; assumption]. Qed.

  Lemma sorted_filter (R : A -> A -> Prop) p l : StronglySorted R l -> StronglySorted R (filter p l).
  Proof.
    induction 1 as [|x t Ht IH Hx]; simpl; [constructor|].
    destruct (p x); [|exact IH]. constructor; [exact IH|].
    apply Forall_forall. intros y Hy. apply filter_In in Hy as [Hy _].
    rewrite Forall_forall in Hx. apply Hx; exact Hy.
  Qed.

  (* a strictly sorted list is the only sorted permutation of itself *)
  Lemma sorted_unique l : forall l', StronglySorted lt_r l -> Permutation l l' -> StronglySorted le_r l' -> l' = l.
  Proof.
    induction l as [|x t IH]; intros l' Hs Hp Hs'.
    - apply Permutation_nil in Hp. exact Hp.
    - destruct l' as [|y t']; [apply Permutation_sym, Permutation_nil in Hp; discriminate|].
      inversion Hs as [|? ? Hst Hx]; subst. inversion Hs' as [|? ? Hst' Hy]; subst.
      rewrite Forall_forall in Hx, Hy.
      assert (y = x).
      { assert (Hyin : In y (x :: t)) by (apply (Permutation_in _ (Permutation_sym Hp)); left; reflexivity).
        assert (Hxin : In x (y :: t')) by (apply (Permutation_in _ Hp); left; reflexivity).
        destruct Hyin as [E|Hyt]; [symmetry; exact E|].
        destruct Hxin as [E|Hxt]; [exact E|].
        apply Hx in Hyt. apply Hy in Hxt. unfold lt_r, le_r in *. lia. }
      subst y. f_equal. apply IH; [exact Hst | apply Permutation_cons_inv in Hp; exact Hp | exact Hst'].
  Qed.
End SortFacts.

Lemma StronglySorted_ext_in {A} (R R' : A -> A -> Prop) l :
  (forall a b, In a l -> In b l -> R a b -> R' a b) -> StronglySorted R l -> StronglySorted R' l.
Proof.
  intros H Hs. induction Hs as [|x t Ht IH Hx]; [constructor|].
  constructor.
  - apply IH. intros a b Ha Hb. apply H; right; assumption.
  - rewrite Forall_forall in *. intros y Hy. apply H; [left; reflexivity | right; exact Hy | apply Hx; exact Hy].
Qed.

(* ---- last_idx ---- *)
Section LastIdxFacts.
  Context {K : Type} (eqb : K -> K -> bool).
  Hypothesis eqb_eq : forall x y, eqb x y = true <-> x = y.
  Notation li := (last_idx eqb).

  Lemma li_notin k ks : ~ In k ks -> li k ks = None.
  Proof.
    induction ks as [|x t IH]; simpl; intro H; [reflexivity|].
    rewrite IH by tauto. destruct (eqb k x) eqn:E; [|reflexivity].
    apply eqb_eq in E. subst. exfalso. apply H. left; reflexivity.
  Qed.

  Lemma li_some_in k ks j : li k ks = Some j -> In k ks.
  Proof.
    revert j. induction ks as [|x t IH]; simpl; intros j H; [discriminate|].
    destruct (li k t) eqn:E.
    - right. eapply IH. reflexivity.
    - destruct (eqb k x) eqn:E2; [|discriminate]. apply eqb_eq in E2. left. congruence.
  Qed.

  Lemma li_in k ks : In k ks -> exists j, li k ks = Some j /\ j < length ks.
  Proof.
    induction ks as [|x t IH]; simpl; intro H; [contradiction|].
    destruct (li k t) as [j|] eqn:E.
    - assert (Hin : In k t) by (eapply li_some_in; exact E).
      destruct (IH Hin) as [j' [E' L]]. assert (j' = j) by congruence. subst.
      exists (S j). split; [reflexivity|lia].
    - destruct H as [H|H].
      + subst. assert (Hkk : eqb k k = true) by (apply eqb_eq; reflexivity). rewrite Hkk.
        exists 0. split; [reflexivity|lia].
      + destruct (IH H) as [j' [E' _]]. congruence.
  Qed.

  Lemma li_app_found k ks1 ks2 j : li k ks2 = Some j -> li k (ks1 ++ ks2) = Some (length ks1 + j).
  Proof.
    intro H. induction ks1 as [|x t IH]; simpl; [exact H|]. rewrite IH. reflexivity.
  Qed.

  (* rank with a default for missing keys *)
  Definition rk {A} (f : A -> K) (full : list K) (d : nat) (a : A) : nat :=
    match li (f a) full with Some i => i | None => d end.

  (* no LATER element has the same key as a selected element *)
  Fixpoint nolater {A} (f : A -> K) (p : A -> bool) (l : list A) : Prop :=
    match l with
    | [] => True
    | x :: t => (p x = true -> ~ In (f x) (map f t)) /\ nolater f p t
    end.

  Lemma ranks_sorted {A} (f : A -> K) (p : A -> bool) d :
    forall l pre, nolater f p l ->
      StronglySorted (lt_r (rk f (pre ++ map f l) d)) (filter p l).
  Proof.
    induction l as [|x t IH]; intros pre Hn; simpl; [constructor|].
    destruct Hn as [Hx Hn].
    assert (E : pre ++ f x :: map f t = (pre ++ [f x]) ++ map f t) by (rewrite <- app_assoc; reflexivity).
    specialize (IH (pre ++ [f x]) Hn). rewrite <- E in IH.
    destruct (p x) eqn:Px; [|exact IH].
    constructor; [exact IH|].
    apply Forall_forall. intros b Hb. apply filter_In in Hb as [Hb _].
    unfold lt_r, rk.
    assert (Lx : li (f x) (pre ++ f x :: map f t) = Some (length pre + 0)).
    { apply li_app_found. simpl. rewrite (li_notin _ _ (Hx eq_refl)).
      assert (eqb (f x) (f x) = true) by (apply eqb_eq; reflexivity). rewrite H. reflexivity. }
    rewrite Lx.
    destruct (li_in (f b) (map f t) (in_map f _ _ Hb)) as [j [Ej _]].
    assert (Lb : li (f b) (pre ++ f x :: map f t) = Some (length pre + S j)).
    { apply li_app_found. simpl. rewrite Ej. reflexivity. }
    rewrite Lb. lia.
  Qed.

  Lemma nolater_NoDup {A} (f : A -> K) l : NoDup (map f l) -> nolater f (fun _ => true) l.
  Proof.
    induction l as [|x t IH]; simpl; intro H; [exact I|].
    inversion H; subst. split; [intros _; assumption | apply IH; assumption].
  Qed.
End LastIdxFacts.

Lemma perm_filter {A} (p : A -> bool) l l' : Permutation l l' -> Permutation (filter p l) (filter p l').
Proof.
  induction 1 as [|x l l' H IH|x y l|l l' l'' H1 IH1 H2 IH2]; simpl.
  - constructor.
  - destruct (p x); [constructor|]; exact IH.
  - destruct (p x), (p y); try reflexivity. apply perm_swap.
  - etransitivity; eassumption.
Qed.

(* restoring by saved index: the general statement used for g.Objects, g.Edges and Root.ChildrenArray.
   l0: the saved list, f0: key at save time; l': the current list, f': key now, p: the elements compared *)
Lemma restore_generic {A K} (eqb : K -> K -> bool) (eqb_eq : forall x y, eqb x y = true <-> x = y)
      (f0 f' : A -> K) (p : A -> bool) (d : nat) (l0 l' : list A) :
  nolater f0 p l0 ->
  Permutation (filter p l0) (filter p l') ->
  (forall a, In a l0 -> p a = true -> f' a = f0 a) ->
  filter p (sort_by (rk eqb f' (map f0 l0) d) l') = filter p l0.
Proof.
  intros Hn Hp Hk.
  set (r' := rk eqb f' (map f0 l0) d).
  apply sorted_unique with (r := r').
  - apply StronglySorted_ext_in with (R := lt_r (rk eqb f0 (map f0 l0) d)).
    + intros a b Ha Hb. apply filter_In in Ha as [Ha Pa]. apply filter_In in Hb as [Hb Pb].
      unfold lt_r, r', rk. rewrite (Hk a Ha Pa), (Hk b Hb Pb). tauto.
    + apply (ranks_sorted eqb eqb_eq f0 p d l0 [] Hn).
  - rewrite Hp. apply perm_filter. symmetry. apply sort_by_perm.
  - apply sorted_filter. apply sort_by_sorted.
Qed.
