(* C18 -- AbsID paths: sibling names distinct <-> AbsIDs distinct <-> the path determines the object *)
From Coq Require Import List NArith Bool Arith Lia Permutation.
Import ListNotations.
Require Import V.C18.Nested V.C18.Spec V.C18.Dec V.C18.Forest.

Lemma path_t_unfold i j n k ks :
  path_t i (T j n k ks) = if N.eqb i j then Some [n] else option_map (cons n) (path_f i ks).
Proof. reflexivity. Qed.

Lemma path_t_none i : forall t, ~ In i (tids t) -> path_t i t = None.
Proof.
  induction t as [j n k ks IH] using tree_ind'. rewrite tids_T, path_t_unfold. intro H.
  destruct (N.eqb i j) eqn:E; [apply N.eqb_eq in E; subst; exfalso; apply H; left; reflexivity|].
  unfold path_f. rewrite first_some_none; [reflexivity|]. intros x Hx. rewrite Forall_forall in IH. apply IH; [exact Hx|].
  intro Hi. apply H. right. apply in_fids. eauto.
Qed.

Lemma path_t_some_in i : forall t p, path_t i t = Some p -> In i (tids t) /\ exists q, p = t_name t :: q.
Proof.
  induction t as [j n k ks IH] using tree_ind'. intros p. rewrite tids_T, path_t_unfold.
  destruct (N.eqb i j) eqn:E.
  - apply N.eqb_eq in E. subst. intro H. inversion H. split; [left; reflexivity | exists []; reflexivity].
  - destruct (path_f i ks) as [q|] eqn:Eq; simpl; [|discriminate]. intro H. inversion H; subst.
    split; [|exists q; reflexivity]. right. apply first_some_in in Eq as [x [Hx Ex]].
    rewrite Forall_forall in IH. destruct (IH x Hx q Ex) as [Hi _]. apply in_fids. eauto.
Qed.

Lemma path_t_in i t : In i (tids t) -> exists p, path_t i t = Some p.
Proof.
  revert t. induction t as [j n k ks IH] using tree_ind'. rewrite tids_T, path_t_unfold. intros [H|H].
  - subst. rewrite N.eqb_refl. eauto.
  - destruct (N.eqb i j); [eauto|]. apply in_fids in H as [x [Hx Hi]]. rewrite Forall_forall in IH.
    destruct (IH x Hx Hi) as [p Ep].
    destruct (path_f i ks) eqn:Eq; simpl; [eauto|]. exfalso.
    unfold path_f in Eq. rewrite (first_some_none_inv _ _ Eq x Hx) in Ep. discriminate.
Qed.

Lemma path_f_none i F : ~ In i (fids F) -> path_f i F = None.
Proof. intro H. apply first_some_none. intros x Hx. apply path_t_none. intro Hi. apply H, in_fids; eauto. Qed.

Lemma path_f_some_in i F p : path_f i F = Some p -> In i (fids F).
Proof.
  intro H. apply first_some_in in H as [x [Hx Ex]]. apply path_t_some_in in Ex as [Hi _]. apply in_fids; eauto.
Qed.

Lemma path_f_in i F : In i (fids F) -> exists p, path_f i F = Some p.
Proof.
  intro H. destruct (path_f i F) eqn:E; [eauto|]. exfalso. apply in_fids in H as [t [Ht Hi]].
  destruct (path_t_in i t Hi) as [p Ep]. unfold path_f in E. rewrite (first_some_none_inv _ _ E t Ht) in Ep. discriminate.
Qed.

Lemma path_f_app i F1 F2 :
  path_f i (F1 ++ F2) = match path_f i F1 with Some p => Some p | None => path_f i F2 end.
Proof. apply first_some_app. Qed.

Lemma path_f_app_l i F1 F2 : In i (fids F1) -> path_f i (F1 ++ F2) = path_f i F1.
Proof. intro H. rewrite path_f_app. destruct (path_f_in i F1 H) as [p E]. rewrite E. reflexivity. Qed.

Lemma path_f_app_r i F1 F2 : ~ In i (fids F1) -> path_f i (F1 ++ F2) = path_f i F2.
Proof. intro H. rewrite path_f_app, (path_f_none i F1 H). reflexivity. Qed.

Lemma path_f_perm i F F' : NoDup (fids F) -> Permutation F F' -> path_f i F = path_f i F'.
Proof.
  intros ND P. unfold path_f. apply (first_some_perm (path_t i) tids i); [|exact P|exact ND].
  intros x b H. apply path_t_some_in in H as [Hi _]. exact Hi.
Qed.

(* inside the tree that contains the object *)
Lemma path_f_tree i F1 t F2 : NoDup (fids (F1 ++ t :: F2)) -> In i (tids t) -> path_f i (F1 ++ t :: F2) = path_t i t.
Proof.
  intros ND Hi. pose proof (NoDup_fids_disj F1 t F2 i ND Hi) as D. rewrite fids_app, in_app_iff in D.
  rewrite path_f_app_r by tauto. unfold path_f. simpl. destruct (path_t_in i t Hi) as [p E]. rewrite E. reflexivity.
Qed.

Lemma path_f_root F t : NoDup (fids F) -> In t F -> path_f (t_id t) F = Some [t_name t].
Proof.
  intros ND Hin. apply in_split in Hin as [F1 [F2 E]]. subst. rewrite (path_f_tree _ F1 t F2 ND (tids_self t)).
  destruct t. rewrite path_t_unfold. simpl. rewrite N.eqb_refl. reflexivity.
Qed.

(* ---------- sibling names distinct ---------- *)
Inductive sibs_t : tree -> Prop :=
| sibs_T i n k ks : NoDup (map t_name ks) -> Forall sibs_t ks -> sibs_t (T i n k ks).
Definition sibs_ok (F : list tree) : Prop := NoDup (map t_name F) /\ Forall sibs_t F.

Lemma sibs_t_kids t : sibs_t t -> sibs_ok (t_kids t).
Proof. intro H. inversion H; subst. split; assumption. Qed.

Lemma sibs_find_t i : forall t c, sibs_t t -> find_t i t = Some c -> sibs_t c.
Proof.
  induction t as [j n k ks IH] using tree_ind'. intros c Hs. simpl. destruct (N.eqb i j).
  - intro H. inversion H; subst. exact Hs.
  - intro H. apply first_some_in in H as [x [Hx Ex]]. rewrite Forall_forall in IH.
    inversion Hs as [? ? ? ? _ Hk]; subst. rewrite Forall_forall in Hk. eapply IH; eauto.
Qed.

Lemma sibs_find i F c : sibs_ok F -> find_f i F = Some c -> sibs_ok (t_kids c).
Proof.
  intros [_ Hs] H. apply first_some_in in H as [x [Hx Ex]]. rewrite Forall_forall in Hs.
  apply sibs_t_kids. eapply sibs_find_t; eauto.
Qed.

Lemma sibs_ok_perm F F' : Permutation F F' -> sibs_ok F -> sibs_ok F'.
Proof.
  intros P [H1 H2]. split.
  - eapply Permutation_NoDup; [apply Permutation_map; exact P | exact H1].
  - eapply Permutation_Forall; eassumption.
Qed.

Lemma sibs_ok_single t : sibs_t t -> sibs_ok [t].
Proof. intro H. split; [simpl; constructor; [tauto | constructor] | constructor; [exact H | constructor]]. Qed.

Lemma sibs_t_set_near v t : sibs_t t -> sibs_t (set_near v t).
Proof. intro H. destruct H. simpl. constructor; assumption. Qed.

(* the path determines the object *)
Definition pinj (F : list tree) : Prop :=
  forall i j, In i (fids F) -> In j (fids F) -> path_f i F = path_f j F -> i = j.

Lemma NoDup_map_same {A B C} (f : A -> B) (g : A -> C) l :
  NoDup (map f l) -> (forall x y, In x l -> In y l -> g x = g y -> f x = f y) -> NoDup (map g l).
Proof.
  induction l as [|a r IH]; simpl; intros ND H; [constructor|]. inversion ND as [|? ? H1 H2]; subst. constructor.
  - intro Hin. apply in_map_iff in Hin as [y [Ey Hy]]. apply H1. rewrite (H a y); [apply in_map; exact Hy | left; reflexivity | right; exact Hy | symmetry; exact Ey].
  - apply IH; [assumption|]. intros; apply H; try (right; assumption); assumption.
Qed.

Lemma NoDup_map_in_inj {A B} (f : A -> B) l x y : NoDup (map f l) -> In x l -> In y l -> f x = f y -> x = y.
Proof.
  induction l as [|a r IH]; simpl; intros ND Hx Hy E; [contradiction|]. inversion ND as [|? ? H1 H2]; subst.
  destruct Hx as [Hx|Hx], Hy as [Hy|Hy]; subst; try reflexivity.
  - exfalso. apply H1. rewrite E. apply in_map. exact Hy.
  - exfalso. apply H1. rewrite <- E. apply in_map. exact Hx.
  - apply IH; assumption.
Qed.

Lemma NoDup_map_ids F : NoDup (fids F) -> NoDup (map t_id F).
Proof.
  induction F as [|t r IH]; intro ND; [constructor|]. cbn [map]. rewrite fids_cons in ND. constructor.
  - intro Hin. apply in_map_iff in Hin as [y [Ey Hy]].
    eapply (NoDup_app_disj (tids t) (fids r)); [exact ND | apply tids_self|]. rewrite <- Ey. apply in_fids. exists y. split; [exact Hy | apply tids_self].
  - apply IH. eapply NoDup_app_r; exact ND.
Qed.

Definition pinj_t (t : tree) : Prop :=
  forall i j, In i (tids t) -> In j (tids t) -> path_t i t = path_t j t -> i = j.

Lemma pinj_forest F :
  Forall (fun t => NoDup (tids t) -> sibs_t t -> pinj_t t) F -> NoDup (fids F) -> sibs_ok F -> pinj F.
Proof.
  intros HF ND [Hn Hs] i j Hi Hj E.
  apply in_fids in Hi as [t1 [Ht1 Hi]]. apply in_fids in Hj as [t2 [Ht2 Hj]].
  assert (E1 : path_f i F = path_t i t1).
  { apply in_split in Ht1 as [A [B EF]]. subst F. apply path_f_tree; assumption. }
  assert (E2 : path_f j F = path_t j t2).
  { apply in_split in Ht2 as [A [B EF]]. subst F. apply path_f_tree; assumption. }
  rewrite E1, E2 in E.
  destruct (path_t_in i t1 Hi) as [p Ep]. rewrite Ep in E. symmetry in E.
  destruct (path_t_some_in _ _ _ Ep) as [_ [q1 Eq1]]. destruct (path_t_some_in _ _ _ E) as [_ [q2 Eq2]].
  assert (t1 = t2) by (apply (NoDup_map_in_inj t_name F); try assumption; congruence). subst t2.
  rewrite Forall_forall in HF, Hs. apply (HF t1 Ht1 (NoDup_fids_in _ _ ND Ht1) (Hs t1 Ht1)); try assumption. congruence.
Qed.

Lemma pinj_tree : forall t, NoDup (tids t) -> sibs_t t -> pinj_t t.
Proof.
  induction t as [a n k ks IH] using tree_ind'. intros ND Hs i j. rewrite tids_T, !path_t_unfold.
  rewrite tids_T in ND. inversion ND as [|? ? Ha ND']; subst.
  pose proof (pinj_forest ks IH ND' (sibs_t_kids _ Hs)) as PF. simpl in PF.
  intros [Hi|Hi] [Hj|Hj]; subst; try reflexivity.
  - rewrite N.eqb_refl. destruct (N.eqb j i) eqn:E; [apply N.eqb_eq in E; congruence|].
    destruct (path_f_in j ks Hj) as [p Ep]. rewrite Ep. simpl. intro H. inversion H; subst.
    apply first_some_in in Ep as [x [_ Ex]]. apply path_t_some_in in Ex as [_ [q Eq]]. discriminate.
  - rewrite N.eqb_refl. destruct (N.eqb i j) eqn:E; [apply N.eqb_eq in E; congruence|].
    destruct (path_f_in i ks Hi) as [p Ep]. rewrite Ep. simpl. intro H. inversion H; subst.
    apply first_some_in in Ep as [x [_ Ex]]. apply path_t_some_in in Ex as [_ [q Eq]]. discriminate.
  - assert (N.eqb i a = false) by (apply N.eqb_neq; intro; subst; contradiction).
    assert (N.eqb j a = false) by (apply N.eqb_neq; intro; subst; contradiction).
    rewrite H, H0. destruct (path_f_in i ks Hi) as [p Ep]. destruct (path_f_in j ks Hj) as [q Eq].
    rewrite Ep, Eq. simpl. intro E. apply PF; try assumption. congruence.
Qed.

Lemma inj_of_sibs F : NoDup (fids F) -> sibs_ok F -> pinj F.
Proof. intros. apply pinj_forest; try assumption. apply Forall_forall. intros; apply pinj_tree; assumption. Qed.

Lemma sibs_forest F :
  Forall (fun t => NoDup (tids t) -> pinj_t t -> sibs_t t) F -> NoDup (fids F) -> pinj F -> sibs_ok F.
Proof.
  intros HF ND PJ. split.
  - apply (NoDup_map_same t_id t_name F (NoDup_map_ids F ND)). intros x y Hx Hy E.
    apply PJ.
    + apply in_fids. exists x. split; [exact Hx | apply tids_self].
    + apply in_fids. exists y. split; [exact Hy | apply tids_self].
    + rewrite (path_f_root F x ND Hx), (path_f_root F y ND Hy). congruence.
  - apply Forall_forall. intros t Ht. rewrite Forall_forall in HF. apply (HF t Ht (NoDup_fids_in _ _ ND Ht)).
    intros i j Hi Hj E. apply PJ.
    + apply in_fids; eauto.
    + apply in_fids; eauto.
    + apply in_split in Ht as [A [B EF]]. subst F. rewrite !path_f_tree by assumption. exact E.
Qed.

Lemma sibs_tree : forall t, NoDup (tids t) -> pinj_t t -> sibs_t t.
Proof.
  induction t as [a n k ks IH] using tree_ind'. intros ND PJ.
  rewrite tids_T in ND. inversion ND as [|? ? Ha ND']; subst.
  assert (PF : pinj ks).
  { intros i j Hi Hj E. apply PJ; try (rewrite tids_T; right; assumption). rewrite !path_t_unfold.
    assert (N.eqb i a = false) by (apply N.eqb_neq; intro; subst; contradiction).
    assert (N.eqb j a = false) by (apply N.eqb_neq; intro; subst; contradiction).
    rewrite H, H0, E. reflexivity. }
  destruct (sibs_forest ks IH ND' PF) as [H1 H2]. constructor; assumption.
Qed.

Lemma sibs_of_inj F : NoDup (fids F) -> pinj F -> sibs_ok F.
Proof. intros. apply sibs_forest; try assumption. apply Forall_forall. intros; apply sibs_tree; assumption. Qed.

(* object AbsIDs pairwise distinct (as SaveOrder sees them) -> sibling names distinct *)
Lemma sibs_of_absids g :
  NoDup (fids (g_roots g)) -> Permutation (g_objs g) (fids (g_roots g)) ->
  NoDup (map (absid g) (g_objs g)) -> sibs_ok (g_roots g).
Proof.
  intros ND P NK. apply sibs_of_inj; [exact ND|]. intros i j Hi Hj E.
  apply (NoDup_map_in_inj (absid g) (g_objs g)); try assumption.
  - eapply Permutation_in; [symmetry; exact P | exact Hi].
  - eapply Permutation_in; [symmetry; exact P | exact Hj].
Qed.
