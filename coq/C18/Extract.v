(* C18 -- ExtractSubgraph preserves the invariant (both forms: contents only / container included) *)
From Coq Require Import List NArith Bool Arith Lia Permutation.
Import ListNotations.
Require Import V.Lib.RunCases V.C18.Nested V.C18.Spec V.C18.Dec V.C18.SortLemmas V.C18.Forest V.C18.Paths
        V.C18.Fill V.C18.Restore V.C18.Pieces V.C18.Inv.

Lemma perm_rearr {A} (a b c d : list A) : Permutation (a ++ (b ++ c) ++ d) ((c ++ a) ++ b ++ d).
Proof.
  rewrite <- !app_assoc. rewrite (app_assoc a b). rewrite (Permutation_app_swap_app (a ++ b) c d).
  rewrite <- !app_assoc. reflexivity.
Qed.

Lemma perm_rearr4 {A} (a b c d e f : list A) :
  Permutation (a ++ (d ++ b) ++ e ++ (f ++ c)) ((a ++ b ++ c) ++ d ++ e ++ f).
Proof.
  rewrite <- !app_assoc. apply Permutation_app_head. rewrite (Permutation_app_swap_app d b). apply Permutation_app_head.
  rewrite (app_assoc d), (app_assoc (d ++ e)), (Permutation_app_comm ((d ++ e) ++ f) c). rewrite <- !app_assoc. reflexivity.
Qed.

Lemma perm_rearr5 {A} (a b c d e f : list A) :
  Permutation (a ++ d ++ (e ++ b) ++ (f ++ c)) ((a ++ b ++ c) ++ d ++ e ++ f).
Proof.
  rewrite <- !app_assoc. apply Permutation_app_head.
  transitivity (b ++ d ++ e ++ f ++ c).
  - rewrite (app_assoc d e). rewrite (Permutation_app_swap_app (d ++ e) b). rewrite <- !app_assoc. reflexivity.
  - apply Permutation_app_head. rewrite (app_assoc d), (app_assoc (d ++ e)), (Permutation_app_comm ((d ++ e) ++ f) c).
    rewrite <- !app_assoc. reflexivity.
Qed.

Lemma Forall2_impl_in {A B} (P Q : A -> B -> Prop) l r :
  (forall a b, In a l -> P a b -> Q a b) -> Forall2 P l r -> Forall2 Q l r.
Proof.
  intros H F. induction F; constructor.
  - apply H; [left; reflexivity | assumption].
  - apply IHF. intros; apply H; [right|]; assumption.
Qed.

Lemma map_xe_mk (g : graph) l : map x_e (map (fun e => mkX e (absid g (e_src e)) (absid g (e_dst e))) l) = l.
Proof. rewrite map_map. simpl. apply map_id. Qed.

Lemma ext_objs_snoc ext p ng : ext_objs (ext ++ [(p, ng)]) = ext_objs ext ++ g_objs ng.
Proof. unfold ext_objs. rewrite flat_map_app. simpl. rewrite app_nil_r. reflexivity. Qed.
Lemma ext_edges_snoc ext p ng : ext_edges (ext ++ [(p, ng)]) = ext_edges ext ++ nonlife (g_edges ng).
Proof. unfold ext_edges. rewrite flat_map_app. simpl. rewrite app_nil_r. reflexivity. Qed.
Lemma near_objs_snoc ns ng : near_objs (ns ++ [ng]) = near_objs ns ++ g_objs ng.
Proof. unfold near_objs. rewrite flat_map_app. simpl. rewrite app_nil_r. reflexivity. Qed.
Lemma near_edges_snoc ns ng : near_edges (ns ++ [ng]) = near_edges ns ++ nonlife (g_edges ng).
Proof. unfold near_edges. rewrite flat_map_app. simpl. rewrite app_nil_r. reflexivity. Qed.
Lemma near_roots_snoc ns ng : near_roots (ns ++ [ng]) = near_roots ns ++ g_roots ng.
Proof. unfold near_roots. rewrite flat_map_app. simpl. rewrite app_nil_r. reflexivity. Qed.

Section ExtractSteps.
  Variables (g0 g : graph) (ext : list (okey * graph)) (xs : list xedge) (nears : list graph) (cs : list N).
  Hypothesis G0 : good g0.
  Hypothesis I : inv g0 g ext xs nears cs.

  (* the cross-diagram edges of an extraction carry the original AbsIDs of their end points *)
  Lemma ex_xs_ok c self : Forall (x_ok g0) (ex_xs c self g).
  Proof.
    apply Forall_forall. intros x Hx. unfold ex_xs in Hx. apply in_map_iff in Hx as [e [Ex He]]. subst x.
    apply filter_In in He as [He Hc]. apply N.eqb_eq in Hc. pose proof (cls2_nonlife _ _ Hc) as L.
    assert (Hn : In e (nonlife (g_edges g))) by (apply filter_In; split; [exact He | rewrite L; reflexivity]).
    destruct (iv_ends _ _ _ _ _ _ I e Hn) as [Hs Hd]. unfold x_ok. simpl. repeat split; [exact L | |].
    - apply (inv_absid g0 g ext xs nears cs G0 I). exact Hs.
    - apply (inv_absid g0 g ext xs nears cs G0 I). exact Hd.
  Qed.

  Lemma ex_rem_ends c self e :
    In e (nonlife (g_edges (ex_rem c self g))) ->
    In (e_src e) (g_objs (ex_rem c self g)) /\ In (e_dst e) (g_objs (ex_rem c self g)).
  Proof.
    simpl. intro He. apply filter_In in He as [He L]. apply filter_In in He as [He Hc].
    apply N.eqb_eq in Hc. apply negb_true_iff in L.
    assert (Hn : In e (nonlife (g_edges g))) by (apply filter_In; split; [exact He | rewrite L; reflexivity]).
    destruct (iv_ends _ _ _ _ _ _ I e Hn) as [Hs Hd]. destruct (cls0_ends _ _ L Hc) as [Ns Nd].
    split; apply filter_In; split; try assumption; rewrite ?Ns, ?Nd; reflexivity.
  Qed.

  Lemma ex_ng_ends c self e :
    In e (nonlife (g_edges (ex_ng c self g))) ->
    In (e_src e) (g_objs (ex_ng c self g)) /\ In (e_dst e) (g_objs (ex_ng c self g)).
  Proof.
    simpl. intro He. apply filter_In in He as [He L]. apply filter_In in He as [He Hc].
    apply N.eqb_eq in Hc. apply negb_true_iff in L.
    assert (Hn : In e (nonlife (g_edges g))) by (apply filter_In; split; [exact He | rewrite L; reflexivity]).
    destruct (iv_ends _ _ _ _ _ _ I e Hn) as [Hs Hd]. destruct (cls1_ends _ _ L Hc) as [Ns Nd].
    split; apply filter_In; split; assumption.
  Qed.

  Lemma ex_ng_trip c self : NoDup (map etriple (nonlife (g_edges (ex_ng c self g)))).
  Proof.
    simpl. rewrite nonlife_filter. apply NoDup_map_filter. apply (inv_trip g0 g ext xs nears cs G0 I).
  Qed.

  Lemma edges_split c self :
    Permutation (nonlife (g_edges (ex_rem c self g)) ++ nonlife (g_edges (ex_ng c self g)) ++ map x_e (ex_xs c self g))
                (nonlife (g_edges g)).
  Proof.
    unfold ex_xs. rewrite map_xe_mk. simpl. rewrite <- (nonlife_cls2 (ex_in c self) (g_edges g)). apply edges_partition.
  Qed.

  (* ---- ExtractSubgraph(c, false) ---- *)
  Lemma inv_clear c ng' :
    find_f (t_id c) (g_roots g) = Some c -> (forall d, In d cs -> ~ In d (tids c)) -> same ng' (ex_ng c false g) ->
    inv g0 (ex_rem c false g) (ext ++ [(absid (ex_rem c false g) (t_id c), ng')]) (xs ++ ex_xs c false g) nears
        (cs ++ [t_id c]).
  Proof.
    intros Hf Hno [SL SR SO SE]. simpl in SR, SO, SE.
    pose proof (inv_nd g0 g ext xs nears cs G0 I) as ND.
    pose proof (inv_nd_objs g0 g ext xs nears cs G0 I) as NDO.
    pose proof (find_f_NoDup _ _ _ ND Hf) as NDc. destruct (NoDup_kids c NDc) as [NDK HcK].
    assert (IncK : incl (fids (t_kids c)) (fids (g_roots g))).
    { apply find_f_some in Hf as [_ Inc]. intros a Ha. apply Inc. destruct c. rewrite tids_T. right. exact Ha. }
    assert (HcF : In (t_id c) (fids (g_roots g))) by (apply find_f_some in Hf as [_ Inc]; apply Inc, tids_self).
    destruct (iv_cs _ _ _ _ _ _ I) as [NDcs Lcs].
    assert (Hcn : ~ In (t_id c) cs) by (intro H; apply (Hno _ H), tids_self).
    destruct (iv_forest _ _ _ _ _ _ I) as [R [HF HP]].
    assert (HF' : fillF (holes_of (cs ++ [t_id c]) (ext ++ [(absid (ex_rem c false g) (t_id c), ng')]))
                        (upd_f (t_id c) clear_kids (g_roots g)) R).
    { unfold holes_of, eroots. rewrite map_app. simpl. rewrite combine_snoc by (rewrite map_length; exact Lcs).
      rewrite SR. apply fillF_clear; try assumption.
      fold (eroots ext). fold (holes_of cs ext). rewrite (inv_hdom _ _ _ _ _ _ I). exact Hno. }
    assert (InClr : forall x, In x (fids (upd_f (t_id c) clear_kids (g_roots g))) <->
                              In x (fids (g_roots g)) /\ ~ In x (fids (t_kids c))).
    { apply in_fids_clear; assumption. }
    constructor.
    - simpl. apply (iv_level _ _ _ _ _ _ I).
    - split.
      + apply NoDup_app_intro; [exact NDcs | constructor; [tauto | constructor]|].
        intros x H1 [H2|[]]. subst. contradiction.
      + rewrite !app_length. simpl. lia.
    - exists R. split; [exact HF' | exact HP].
    - rewrite ext_objs_snoc, SO. simpl. rewrite perm_rearr.
      rewrite (filter_partition_perm (ex_in c false) (g_objs g)). apply (iv_objs _ _ _ _ _ _ I).
    - split; [|apply ex_rem_ends]. simpl. apply perm_filter_notmem; [exact NDO | apply NoDup_fids_clear; exact ND|].
      intro x. rewrite InClr, (inv_obj_in g0 g ext xs nears cs I). tauto.
    - apply Forall_app. split; [apply (iv_piece_ext _ _ _ _ _ _ I)|]. constructor; [|constructor].
      split.
      + simpl. rewrite SO, SR. apply perm_filter_mem; [exact NDO | exact NDK|].
        intros a Ha. apply (inv_obj_in g0 g ext xs nears cs I). apply IncK. exact Ha.
      + cbn [snd]. rewrite SE, SO. apply (ex_ng_ends c false).
    - apply (iv_piece_near _ _ _ _ _ _ I).
    - rewrite ext_edges_snoc, SE, map_app. rewrite perm_rearr4.
      rewrite (edges_split c false). apply (iv_edges _ _ _ _ _ _ I).
    - apply Forall_app. split; [apply (iv_x _ _ _ _ _ _ I) | apply ex_xs_ok].
    - apply Forall2_app.
      + eapply Forall2_impl_in; [|apply (iv_extp _ _ _ _ _ _ I)]. cbv beta. intros d pe Hd [H1 H2]. split; [exact H1|].
        simpl. apply InClr. split; [exact H2|]. intro Hk. apply (Hno d Hd). destruct c. rewrite tids_T. right. exact Hk.
      + constructor; [|constructor]. simpl. split.
        * unfold absid. simpl. eapply path_inv; [exact HF' | exact HP | apply (gd_nd g0 G0)|].
          apply InClr. split; assumption.
        * apply InClr. split; assumption.
  Qed.

  (* the nested graph of an extraction is again a good graph *)
  Lemma ex_ng_good_kids c :
    near_f g -> find_f (t_id c) (g_roots g) = Some c -> find_f (t_id c) (g_roots g0) = Some c -> good (ex_ng c false g).
  Proof.
    intros NF Hf Hf0.
    pose proof (inv_nd g0 g ext xs nears cs G0 I) as ND.
    pose proof (inv_nd_objs g0 g ext xs nears cs G0 I) as NDO.
    pose proof (find_f_NoDup _ _ _ ND Hf) as NDc. destruct (NoDup_kids c NDc) as [NDK HcK].
    assert (IncK : incl (fids (t_kids c)) (fids (g_roots g))).
    { apply find_f_some in Hf as [_ Inc]. intros a Ha. apply Inc. destruct c. rewrite tids_T. right. exact Ha. }
    constructor.
    - exact NDK.
    - simpl. apply perm_filter_mem; [exact NDO | exact NDK|].
      intros a Ha. apply (inv_obj_in g0 g ext xs nears cs I). apply IncK. exact Ha.
    - simpl. eapply sibs_find; [apply (gd_sibs g0 G0) | exact Hf0].
    - apply ex_ng_ends.
    - apply ex_ng_trip.
    - simpl. apply forallb_root_ok_of_no_near.
      apply (root_near_find _ _ _ NF Hf).
  Qed.

  (* ---- ExtractSubgraph(c, true) for a child of the root ---- *)
  Lemma in_fids_remove F1 c F2 : NoDup (fids (F1 ++ c :: F2)) ->
    forall x, In x (fids (F1 ++ F2)) <-> In x (fids (F1 ++ c :: F2)) /\ ~ In x (tids c).
  Proof.
    intros ND x. pose proof (NoDup_fids_disj F1 c F2 x ND) as D.
    rewrite !fids_app, fids_cons, !in_app_iff in *. tauto.
  Qed.

  Lemma inv_remove c ng' :
    In c (g_roots g) -> (forall d, In d cs -> ~ In d (tids c)) ->
    g_roots ng' = [c] -> g_objs ng' = g_objs (ex_ng c true g) ->
    nonlife (g_edges ng') = nonlife (g_edges (ex_ng c true g)) ->
    (exists cl, k_near (t_kind c) = Some cl /\ (cl < 3)%N) ->
    inv g0 (ex_rem c true g) ext (xs ++ ex_xs c true g) (nears ++ [ng']) cs.
  Proof.
    intros Hin Hno SR SO SE Hcl. simpl in SO, SE.
    pose proof (inv_nd g0 g ext xs nears cs G0 I) as ND.
    pose proof (inv_nd_objs g0 g ext xs nears cs G0 I) as NDO.
    apply in_split in Hin as [F1 [F2 EF]].
    assert (NDc : NoDup (tids c)).
    { eapply NoDup_fids_in; [exact ND | rewrite EF; apply in_elt]. }
    assert (Incc : incl (tids c) (fids (g_roots g))).
    { intros a Ha. rewrite EF. apply in_fids. exists c. split; [apply in_elt | exact Ha]. }
    assert (Erem : g_roots (ex_rem c true g) = F1 ++ F2).
    { simpl. rewrite EF. apply rem_f_root. rewrite <- EF. exact ND. }
    assert (InRem : forall x, In x (fids (F1 ++ F2)) <-> In x (fids (g_roots g)) /\ ~ In x (tids c)).
    { rewrite EF. apply in_fids_remove. rewrite <- EF. exact ND. }
    destruct (iv_forest _ _ _ _ _ _ I) as [R [HF HP]].
    rewrite EF in HF. apply Forall2_app_inv_l in HF as [R1 [R2' [HF1 [HF2 ER]]]].
    inversion HF2 as [|? rc ? R2 Hc HF3]; subst R2'. subst R.
    assert (rc = c).
    { symmetry. eapply fill_nohole_eq; [exact Hc|]. rewrite (inv_hdom _ _ _ _ _ _ I). exact Hno. }
    subst rc.
    constructor.
    - simpl. apply (iv_level _ _ _ _ _ _ I).
    - apply (iv_cs _ _ _ _ _ _ I).
    - exists (R1 ++ R2). split.
      + rewrite Erem. apply Forall2_app; assumption.
      + rewrite near_roots_snoc, SR. rewrite <- HP.
        rewrite <- !app_assoc. apply Permutation_app_head. simpl.
        rewrite (Permutation_app_comm (near_roots nears) [c]). simpl.
        rewrite (Permutation_middle R2 (near_roots nears) c). reflexivity.
    - rewrite near_objs_snoc, SO. simpl.
      transitivity ((filter (ex_in c true) (g_objs g) ++ filter (fun i => negb (ex_in c true i)) (g_objs g))
                      ++ ext_objs ext ++ near_objs nears).
      + rewrite <- !app_assoc. rewrite (Permutation_app_swap_app (filter (ex_in c true) (g_objs g))).
        apply Permutation_app_head. rewrite (app_assoc (ext_objs ext)).
        apply Permutation_app_comm.
      + rewrite (filter_partition_perm (ex_in c true) (g_objs g)). apply (iv_objs _ _ _ _ _ _ I).
    - split; [|apply ex_rem_ends]. rewrite Erem. simpl. apply perm_filter_notmem.
      + exact NDO.
      + pose proof ND as ND2. rewrite EF in ND2. rewrite fids_app, fids_cons in ND2. rewrite fids_app.
        apply NoDup_app_intro; [eapply NoDup_app_l; exact ND2 | apply NoDup_app_r in ND2; eapply NoDup_app_r; exact ND2|].
        intros y H1 H2. eapply NoDup_app_disj; [exact ND2 | exact H1 | apply in_app_iff; right; exact H2].
      + intro y. rewrite InRem, (inv_obj_in g0 g ext xs nears cs I). tauto.
    - apply (iv_piece_ext _ _ _ _ _ _ I).
    - apply Forall_app. split; [apply (iv_piece_near _ _ _ _ _ _ I)|]. constructor; [|constructor].
      split; [split|].
      + rewrite SO, SR. simpl. rewrite app_nil_r. apply perm_filter_mem; [exact NDO | exact NDc|].
        intros a Ha. apply (inv_obj_in g0 g ext xs nears cs I). apply Incc. exact Ha.
      + cbn [snd]. rewrite SE, SO. apply (ex_ng_ends c true).
      + destruct Hcl as [cl [E1 E2]]. exists c, cl. auto.
    - rewrite near_edges_snoc, SE, map_app. rewrite perm_rearr5.
      rewrite (edges_split c true). apply (iv_edges _ _ _ _ _ _ I).
    - apply Forall_app. split; [apply (iv_x _ _ _ _ _ _ I) | apply ex_xs_ok].
    - eapply Forall2_impl_in; [|apply (iv_extp _ _ _ _ _ _ I)]. cbv beta. intros d pe Hd [H1 H2]. split; [exact H1|].
      rewrite Erem. apply InRem. split; [exact H2 | apply Hno; exact Hd].
  Qed.

  Lemma near_f_clear c : near_f g -> near_f (ex_rem c false g).
  Proof. intro NF. unfold near_f. simpl. apply root_ok_clear. exact NF. Qed.

  Lemma near_f_remove c : In c (g_roots g) -> near_f g -> near_f (ex_rem c true g).
  Proof.
    intros Hin NF. pose proof (inv_nd g0 g ext xs nears cs G0 I) as ND. apply in_split in Hin as [F1 [F2 EF]].
    unfold near_f in *. simpl. rewrite EF in *. rewrite rem_f_root by exact ND.
    rewrite forallb_app in *. simpl in NF. apply andb_true_iff in NF as [H1 H2]. apply andb_true_iff in H2 as [_ H2].
    rewrite H1, H2. reflexivity.
  Qed.
End ExtractSteps.
