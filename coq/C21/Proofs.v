(* C21 — proofs about the model of SetDimensions / SizeToContent. *)
From Coq Require Import ZArith QArith Qround Bool Lqa Lia.
Require Import V.C27.Proofs V.C21.Model.
Open Scope Q_scope.

Lemma qmax_inject a b : qmax (inject_Z a) (inject_Z b) = inject_Z (Z.max a b).
Proof.
  unfold qmax. destruct (Qlt_le_dec (inject_Z a) (inject_Z b)) as [L|L].
  - rewrite <- Zlt_Qlt in L. now rewrite Z.max_r by lia.
  - rewrite <- Zle_Qle in L. now rewrite Z.max_l by lia.
Qed.

Lemma qmax_same a : qmax a a = a.
Proof. unfold qmax. now destruct (Qlt_le_dec a a). Qed.

Lemma is_set_some a : a <> 0%Z -> is_set (Some a) = true.
Proof. intros H. unfold is_set, zval. apply negb_true_iff. now apply Z.eqb_neq. Qed.

(* ---- explicit width and height ---- *)

Theorem explicit_size_honoured :
  forall i a b,
    dw i = Some a -> dh i = Some b -> a <> 0%Z -> b <> 0%Z ->
    aspect1 (k i) = false -> never_shrink i = false -> k i <> KImage ->
    set_dimensions i = (inject_Z a, inject_Z b).
Proof.
  intros i a b Ha Hb Na Nb HA HN HI.
  unfold set_dimensions, size_to_content. rewrite Ha, Hb, HA, HN, !is_set_some by assumption.
  cbn [zval negb orb].
  destruct (label_empty i && negb match k i with KImage | KSqlTable | KClass => true | _ => false end); [reflexivity|].
  destruct (content i) as [cw ch]. destruct (paddings i) as [px py].
  destruct (k i) eqn:K; try congruence; try discriminate HA;
    match goal with |- context [fit_of ?i ?a ?b ?c ?d] => destruct (fit_of i a b c d) end; reflexivity.
Qed.

Theorem image_explicit_size :
  forall i a b,
    k i = KImage -> dw i = Some a -> dh i = Some b -> a <> 0%Z -> b <> 0%Z ->
    set_dimensions i = (inject_Z (Z.max minShapeSize a), inject_Z (Z.max minShapeSize b)).
Proof.
  intros i a b K Ha Hb Na Nb. unfold set_dimensions. rewrite K, Ha, Hb, !is_set_some by assumption.
  rewrite andb_false_r. destruct (content i). reflexivity.
Qed.

Theorem square_circle_use_max :
  forall i a b,
    dw i = Some a -> dh i = Some b -> a <> 0%Z -> b <> 0%Z ->
    aspect1 (k i) = true -> never_shrink i = false ->
    set_dimensions i = (inject_Z (Z.max a b), inject_Z (Z.max a b)).
Proof.
  intros i a b Ha Hb Na Nb HA HN.
  unfold set_dimensions, size_to_content. rewrite Ha, Hb, HA, HN, !is_set_some by assumption.
  cbn [zval negb orb].
  destruct (label_empty i && negb match k i with KImage | KSqlTable | KClass => true | _ => false end); [reflexivity|].
  destruct (content i) as [cw ch]. destruct (paddings i) as [px py].
  destruct (k i) eqn:K; try discriminate HA;
    match goal with |- context [fit_of ?i ?a ?b ?c ?d] => destruct (fit_of i a b c d) end;
    rewrite qmax_inject; reflexivity.
Qed.

(* ---- tables, classes, code (and text with a language) never shrink below their content ---- *)

Lemma qmax_ge_l a b : a <= qmax a b.
Proof. unfold qmax. destruct (Qlt_le_dec a b); lra. Qed.
Lemma qmax_ge_r a b : b <= qmax a b.
Proof. unfold qmax. destruct (Qlt_le_dec a b); lra. Qed.

Definition plain_kind (kd : kind) : bool :=
  match kd with KText | KCode | KClass | KSqlTable => true | _ => false end.

Lemma plain_paddings i : plain_kind (k i) = true -> 0 <= fst (paddings i) /\ 0 <= snd (paddings i).
Proof.
  intros P. unfold paddings.
  destruct (k i); try discriminate P; cbn [default_padding plain_kind];
    destruct (is_set (dw i)), (is_set (dh i)), (icon i), (linktip i); cbn [negb andb fst snd]; split; lra.
Qed.

Theorem never_below_content :
  forall i,
    plain_kind (k i) = true -> never_shrink i = true ->
    (label_empty i = false \/ k i = KClass \/ k i = KSqlTable) ->
    let c := content i in
    let r := set_dimensions i in
    inject_Z (fst c) <= fst r /\ inject_Z (snd c) <= snd r /\
    inject_Z (zval (dw i)) <= fst r /\ inject_Z (zval (dh i)) <= snd r.
Proof.
  intros i P NS L. cbv zeta. destruct (plain_paddings i P) as [PX PY].
  unfold set_dimensions, size_to_content. rewrite NS.
  assert (E : label_empty i && negb match k i with KImage | KSqlTable | KClass => true | _ => false end = false).
  { destruct L as [L|[L|L]]; rewrite L; [reflexivity| |]; now rewrite andb_false_r. }
  rewrite E. destruct (content i) as [cw ch]. destruct (paddings i) as [px py]. cbn [fst snd] in *.
  assert (F : fit_of i (inject_Z cw) (inject_Z ch) px py = fit Plain (inject_Z cw) (inject_Z ch) px py)
    by (unfold fit_of; destruct (k i); try discriminate P; reflexivity).
  assert (A : aspect1 (k i) = false) by (destruct (k i); try discriminate P; reflexivity).
  rewrite F, A. unfold fit.
  assert (R : forall w h, (if negb (is_set (dh i)) || negb (is_set (dw i))
                then match k i with KPerson => limit_ar w h personAR | KOval => limit_ar w h ovalAR | _ => (w, h) end
                else (w, h)) = (w, h))
    by (intros; destruct (negb (is_set (dh i)) || negb (is_set (dw i))); destruct (k i); try discriminate P; reflexivity).
  rewrite R. cbn [fst snd].
  pose proof (ceil_ge (inject_Z cw + px)). pose proof (ceil_ge (inject_Z ch + py)).
  pose proof (qmax_ge_r (inject_Z (zval (dw i))) (ceilQ (inject_Z cw + px))).
  pose proof (qmax_ge_r (inject_Z (zval (dh i))) (ceilQ (inject_Z ch + py))).
  pose proof (qmax_ge_l (inject_Z (zval (dw i))) (ceilQ (inject_Z cw + px))).
  pose proof (qmax_ge_l (inject_Z (zval (dh i))) (ceilQ (inject_Z ch + py))).
  destruct (k i); try discriminate P; cbn [fst snd]; repeat split; lra.
Qed.

(* ---- automatically sized shapes fit their label ---- *)

Lemma content_auto i :
  dw i = None -> dh i = None -> label_empty i = false -> label_inside (k i) = true ->
  content i = (lw i + innerLabelPadding, lh i + innerLabelPadding)%Z.
Proof.
  intros Hw Hh L I. unfold content. rewrite Hw, Hh, L.
  destruct (k i); try discriminate I; reflexivity.
Qed.

Lemma paddings_auto_ge_loss i s :
  dw i = None -> dh i = None -> label_inside (k i) = true -> shape_of (k i) = Some s -> (0 <= lh i)%Z ->
  loss s <= fst (paddings i) /\ loss s <= snd (paddings i).
Proof.
  intros Hw Hh I S L. unfold paddings. rewrite Hw, Hh.
  assert (L' : 0 <= inject_Z (lh i + innerLabelPadding)).
  { change 0 with (inject_Z 0). rewrite <- Zle_Qle. unfold innerLabelPadding. lia. }
  set (lbl := inject_Z (lh i + innerLabelPadding)) in *.
  destruct (k i); try discriminate I; inversion S; subst s; cbn [default_padding loss is_set zval Z.eqb negb andb];
    destruct (icon i), (linktip i); cbn [negb andb fst snd]; consts; inv_consts; split; lra.
Qed.

Lemma set_dimensions_auto i s :
  dw i = None -> dh i = None -> label_empty i = false -> label_inside (k i) = true ->
  never_shrink i = false -> shape_of (k i) = Some s ->
  set_dimensions i =
    fit s (inject_Z (fst (content i))) (inject_Z (snd (content i))) (fst (paddings i)) (snd (paddings i)).
Proof.
  intros Hw Hh L I NS S. unfold set_dimensions, size_to_content. rewrite L, NS, Hw, Hh. cbn [andb].
  destruct (content i) as [cw ch]. destruct (paddings i) as [px py]. cbn [fst snd].
  destruct (k i) eqn:K; try discriminate I; inversion S; subst s; unfold fit_of; rewrite ?K; cbn [shape_of aspect1];
    try (destruct (fit _ _ _ _ _); reflexivity).
  - (* square *) unfold fit. cbn zeta. now rewrite qmax_same.
  - (* circle *) unfold fit. cbn zeta. now rewrite qmax_same.
Qed.

Theorem auto_size_fits_label :
  forall i s,
    dw i = None -> dh i = None -> label_empty i = false -> label_inside (k i) = true ->
    never_shrink i = false -> shape_of (k i) = Some s -> (0 <= lw i)%Z -> (0 <= lh i)%Z ->
    let c := content i in
    let p := paddings i in
    guard s (inject_Z (fst c)) (inject_Z (snd c)) (fst p) (snd p) = true ->
    let r := set_dimensions i in
    Contains (inject_Z (lw i)) (inject_Z (lh i))
             (inner s (fst r) (snd r) (inject_Z (fst c)) (inject_Z (snd c))).
Proof.
  intros i s Hw Hh L I NS S W0 H0. cbv zeta. intros G.
  rewrite (set_dimensions_auto i s Hw Hh L I NS S).
  destruct (paddings_auto_ge_loss i s Hw Hh I S H0) as [PX PY].
  rewrite (content_auto i Hw Hh L I) in *. cbn [fst snd] in *.
  assert (CW : 0 <= inject_Z (lw i + innerLabelPadding))
    by (change 0 with (inject_Z 0); rewrite <- Zle_Qle; unfold innerLabelPadding; lia).
  assert (CH : 0 <= inject_Z (lh i + innerLabelPadding))
    by (change 0 with (inject_Z 0); rewrite <- Zle_Qle; unfold innerLabelPadding; lia).
  pose proof (fit_contains_content s _ _ _ _ CW CH PX PY G) as C. cbv zeta in C.
  unfold Contains in *. destruct C as [C1 C2].
  assert (inject_Z (lw i) <= inject_Z (lw i + innerLabelPadding))
    by (rewrite <- Zle_Qle; unfold innerLabelPadding; lia).
  assert (inject_Z (lh i) <= inject_Z (lh i + innerLabelPadding))
    by (rewrite <- Zle_Qle; unfold innerLabelPadding; lia).
  split; lra.
Qed.

(* ---- the two shapes for which the automatic size does NOT fit the label ---- *)

Definition auto_input (kd : kind) (w h : Z) : input :=
  {| k := kd; label_empty := false; lang := false; lw := w; lh := h; font := 16; tw := 0; th := 0;
     dw := None; dh := None; icon := false; linktip := false; oc := 0; os := 0 |}.

Definition fits_label_b (i : input) (s : shape) : bool :=
  let c := content i in
  let r := set_dimensions i in
  contains_b 0 (inject_Z (lw i)) (inject_Z (lh i)) (inner s (fst r) (snd r) (inject_Z (fst c)) (inject_Z (snd c))).

(* c4-person with a label measured 75x355: sized 297x446, text area 267.3 x 301.6 *)
Lemma c4person_auto_refuted : fits_label_b (auto_input KC4Person 75 355) C4Person = false.
Proof. vm_compute. reflexivity. Qed.

(* cloud with a label measured 295x240: sized 416x484, text area 275.8 x 320.9 *)
Lemma cloud_auto_refuted : fits_label_b (auto_input KCloud 295 240) Cloud = false.
Proof. vm_compute. reflexivity. Qed.

Lemma auto_examples_fit :
  fits_label_b (auto_input KC4Person 300 40) C4Person = true /\ fits_label_b (auto_input KCloud 100 40) Cloud = true
  /\ fits_label_b (auto_input KCircle 57 21) Circle = true.
Proof. repeat split; vm_compute; reflexivity. Qed.

(* ---- only one of the two given (the property makes no claim; recorded for completeness) ---- *)

Definition ar_limited (kd : kind) : bool := match kd with KPerson | KOval => true | _ => false end.

Theorem explicit_width_alone_honoured :
  forall i a,
    dw i = Some a -> a <> 0%Z -> aspect1 (k i) = false -> never_shrink i = false -> k i <> KImage ->
    ar_limited (k i) = false -> (label_empty i = false \/ k i = KClass \/ k i = KSqlTable) ->
    fst (set_dimensions i) = inject_Z a.
Proof.
  intros i a Ha Na HA HN HI AR L.
  unfold set_dimensions, size_to_content. rewrite Ha, HA, HN, is_set_some by assumption.
  assert (E : label_empty i && negb match k i with KImage | KSqlTable | KClass => true | _ => false end = false).
  { destruct L as [L|[L|L]]; rewrite L; [reflexivity| |]; now rewrite andb_false_r. }
  rewrite E. destruct (content i) as [cw ch]. destruct (paddings i) as [px py].
  destruct (k i) eqn:K; try congruence; try discriminate HA; try discriminate AR;
    match goal with |- context [fit_of ?i ?a ?b ?c ?d] => destruct (fit_of i a b c d) end;
    destruct (negb (is_set (dh i)) || negb true); reflexivity.
Qed.

(* ... but on person and oval the aspect-ratio limit overrides an explicit width given alone:
   `x: <label 20x300> {shape: oval; width: 50}` is 160 wide *)
Lemma explicit_width_alone_overridden_oval :
  fst (set_dimensions {| k := KOval; label_empty := false; lang := false; lw := 20; lh := 300; font := 16;
                         tw := 0; th := 0; dw := Some 50%Z; dh := None; icon := false; linktip := false;
                         oc := 1 # 15; os := 1 |}) == 160.
Proof. vm_compute. reflexivity. Qed.

(* ---- the oval, relative to its trigonometric oracle (see V.C27.Model) ---- *)

Definition H_oval_b (i : input) : bool :=
  let c := content i in
  let p := paddings i in
  H_pad_b (oc i) (os i) (inject_Z (fst c)) (inject_Z (snd c)) (fst p) (snd p)
  && Qle_bool (- (1)) (fst p * oc i) && Qle_bool (- (1)) (snd p * os i).

Lemma set_dimensions_oval_auto i :
  k i = KOval -> dw i = None -> dh i = None -> label_empty i = false -> never_shrink i = false ->
  set_dimensions i =
    let r1 := fit_oval (oc i) (os i) (inject_Z (fst (content i))) (inject_Z (snd (content i)))
                       (fst (paddings i)) (snd (paddings i)) in
    limit_ar (fst r1) (snd r1) ovalAR.
Proof.
  intros K Hw Hh L NS. unfold set_dimensions, size_to_content, fit_of. rewrite K, L, NS, Hw, Hh. cbn [andb aspect1].
  destruct (content i) as [cw ch]. destruct (paddings i) as [px py]. cbn [fst snd is_set zval Z.eqb negb orb].
  destruct (fit_oval (oc i) (os i) (inject_Z cw) (inject_Z ch) px py). reflexivity.
Qed.

Theorem auto_size_fits_label_oval :
  forall i cr sr,
    k i = KOval -> dw i = None -> dh i = None -> label_empty i = false -> never_shrink i = false ->
    (0 <= lw i <= 100000)%Z -> (0 <= lh i <= 100000)%Z ->
    H_oval_b i = true ->
    let r := set_dimensions i in
    H_radius_b cr sr (fst r) (snd r) = true ->
    Contains (inject_Z (lw i)) (inject_Z (lh i)) (inner_oval cr sr (fst r) (snd r)).
Proof.
  intros i cr sr K Hw Hh L NS W0 H0 HO. cbv zeta.
  rewrite (set_dimensions_oval_auto i K Hw Hh L NS). cbv zeta.
  assert (I : label_inside (k i) = true) by (rewrite K; reflexivity).
  unfold H_oval_b in HO. rewrite (content_auto i Hw Hh L I) in *. cbn [fst snd] in *.
  destruct (paddings i) as [px py]. cbn [fst snd] in *.
  rewrite !andb_true_iff in HO. destruct HO as [[HP C1] S1]. apply Qle_bool_iff in C1, S1.
  unfold H_pad_b in HP. rewrite andb_true_iff, !Qle_bool_iff in HP. destruct HP as [PW PH].
  unfold fit_oval, ceilQ.
  set (cw := inject_Z (lw i + innerLabelPadding)) in *. set (ch := inject_Z (lh i + innerLabelPadding)) in *.
  set (pc := px * oc i) in *. set (ps := py * os i) in *.
  assert (A0 : (0 <= Qceiling (sqrt2f * (cw + pc)))%Z) by (apply ceil_nonneg_of_gt_m1; unfold sqrt2f; lra).
  assert (B0 : (0 <= Qceiling (sqrt2f * (ch + ps)))%Z) by (apply ceil_nonneg_of_gt_m1; unfold sqrt2f; lra).
  destruct (limit_ar_twice_grows _ _ A0 B0) as [GW GH].
  pose proof (Qle_ceiling (sqrt2f * (cw + pc))) as A1. pose proof (Qle_ceiling (sqrt2f * (ch + ps))) as B1.
  match goal with |- context [limit_ar (fst ?r1) (snd ?r1) ovalAR] =>
    set (W := fst (limit_ar (fst r1) (snd r1) ovalAR)) in *;
    set (H := snd (limit_ar (fst r1) (snd r1) ovalAR)) in * end.
  intros HR.
  destruct (oval_inner_contains W H (cw + pc) (ch + ps) cr sr ltac:(lra) ltac:(lra) HR) as [[C W1] _].
  assert (EW : cw == inject_Z (lw i) + 5) by (unfold cw, innerLabelPadding; rewrite inject_Z_plus; reflexivity).
  assert (EH : ch == inject_Z (lh i) + 5) by (unfold ch, innerLabelPadding; rewrite inject_Z_plus; reflexivity).
  assert (LW : inject_Z (lw i) <= 100000) by (change 100000 with (inject_Z 100000); rewrite <- Zle_Qle; lia).
  assert (LH : inject_Z (lh i) <= 100000) by (change 100000 with (inject_Z 100000); rewrite <- Zle_Qle; lia).
  unfold Contains in *. unfold rho in *. split; lra.
Qed.
