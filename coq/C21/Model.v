(* C21 — explicit sizes are honoured, automatic sizes fit the label.
   Model of the per-object body of d2graph.Graph.SetDimensions, of Object.GetDefaultSize (for the shapes
   whose content is their label), of Shape.GetDefaultPadding and of Object.SizeToContent, over exact
   rationals; the shape-specific fit formulas are those of V.C27.Model.

   Oracles (inputs of the model, observed from the real code by the harness):
     label dimensions (text ruler / pre-measured texts), the font size of Object.Text(),
     the content size GetDefaultSize computes for class and sql_table shapes,
     cos/sin of the content angle for the oval. *)
From Coq Require Import ZArith QArith Qround Bool.
Require Export V.C27.Model.
Open Scope Q_scope.

Inductive kind :=
  KRect      (* "", rectangle, and the other DSL shapes mapped to shape.SQUARE_TYPE *)
| KSquare | KPage | KParallelogram | KDocument | KCylinder | KQueue | KPackage | KStep | KCallout
| KStoredData | KPerson | KC4Person | KDiamond | KOval | KCircle | KHexagon | KCloud
| KText | KCode | KClass | KSqlTable | KImage.

(* d2target.DSL_SHAPE_TO_SHAPE_TYPE, then the C27 model's shape (None: oval) *)
Definition shape_of (k : kind) : option shape :=
  match k with
  | KRect | KText | KCode | KClass | KSqlTable | KImage => Some Plain
  | KSquare => Some RealSquare | KPage => Some Page | KParallelogram => Some Parallelogram
  | KDocument => Some Document | KCylinder => Some Cylinder | KQueue => Some Queue
  | KPackage => Some Package | KStep => Some Step | KCallout => Some Callout
  | KStoredData => Some StoredData | KPerson => Some Person | KC4Person => Some C4Person
  | KDiamond => Some Diamond | KCircle => Some Circle | KHexagon => Some Hexagon | KCloud => Some Cloud
  | KOval => None
  end.

(* Shape.GetDefaultPadding; defaultPadding = 40.  Circle: 40 / math.Sqrt2 as the float64 it is. *)
Definition default_padding (k : kind) : Q * Q :=
  match k with
  | KText | KCode | KClass | KSqlTable | KImage => (0, 0)
  | KDiamond => (10, 20)
  | KHexagon => (20, 20)
  | KStep => (10, 40 + stepWedgeWidth)
  | KCallout => (40, 20)
  | KDocument => (40, 40 * docPathInnerBottom / docPathHeight)
  | KCylinder => (40, 20)
  | KQueue => (20, 40)
  | KPackage => (40, 32)
  | KPage => (40, pageCornerHeight + 40)
  | KStoredData => (30, 40)
  | KPerson | KC4Person => (10, 40)
  | KCloud => (40, 20)
  | KCircle => (7961314590657215 # 281474976710656, 7961314590657215 # 281474976710656)
  | KRect | KSquare | KParallelogram | KOval => (40, 40)
  end.

Definition innerLabelPadding : Z := 5.
Definition defaultShapeSize : Q := 100.
Definition minShapeSize : Z := 5.

Record input := {
  k : kind;
  label_empty : bool;        (* obj.Label.Value == "" *)
  lang : bool;               (* obj.Language != "" (code, markdown, latex) *)
  lw : Z; lh : Z;            (* oracle: label dimensions *)
  font : Z;                  (* oracle: obj.Text().FontSize (used by code shapes) *)
  tw : Z; th : Z;            (* oracle: GetDefaultSize of class / sql_table shapes *)
  dw : option Z; dh : option Z;   (* width / height attributes (strconv.Atoi of the attribute) *)
  icon : bool;               (* obj.Icon != nil *)
  linktip : bool;            (* obj.Link != nil && obj.Tooltip != nil *)
  oc : Q; os : Q             (* oracle: cos / sin of the oval's content angle *)
}.

Definition zval (o : option Z) : Z := match o with Some z => z | None => 0%Z end.   (* desiredWidth *)
Definition is_set (o : option Z) : bool := negb (zval o =? 0)%Z.                    (* desiredWidth != 0 *)

(* obj.SQLTable != nil || obj.Class != nil || obj.Language != "" *)
Definition never_shrink (i : input) : bool :=
  match k i with KClass | KSqlTable => true | _ => lang i end.

Definition aspect1 (kd : kind) : bool := match kd with KSquare | KCircle => true | _ => false end.

(* GetDefaultSize (content box) *)
Definition content (i : input) : Z * Z :=
  let with_pad := negb (is_set (dw i)) && negb (is_set (dh i))
                  && negb (match k i with KText => true | _ => false end) && negb (label_empty i) in
  let p := if with_pad then innerLabelPadding else 0%Z in
  match k i with
  | KCode => (lw i + font i, lh i + font i)%Z
  | KText => (Z.max minShapeSize (lw i), Z.max minShapeSize (lh i))     (* with_pad is false for text *)
  | KImage => (128, 128)%Z
  | KClass | KSqlTable => (tw i, th i)
  | _ => (lw i + p, lh i + p)%Z
  end.

Definition paddings (i : input) : Q * Q :=
  let '(px, py) := default_padding (k i) in
  let px := if is_set (dw i) then 0 else px in
  let py := if is_set (dh i) then 0 else py in
  let plain := match k i with KText | KCode | KClass | KSqlTable => true | _ => false end in
  let label_h := inject_Z (lh i + innerLabelPadding) in
  let px := if icon i && negb plain && negb (is_set (dw i)) then px + label_h else px in
  let py := if icon i && negb plain && negb (is_set (dh i)) then py + label_h else py in
  let px := if negb (is_set (dw i)) && negb (match k i with KCode | KClass | KSqlTable => true | _ => false end)
               && linktip i then px + 64 else px in
  (px, py).

(* the fit used by SizeToContent: the person skips GetDimensionsToFit *)
Definition fit_of (i : input) (cw ch px py : Q) : Q * Q :=
  match k i with
  | KPerson => (cw + px, ch + py)
  | KOval => fit_oval (oc i) (os i) cw ch px py
  | kd => match shape_of kd with Some s => fit s cw ch px py | None => (cw, ch) end
  end.

(* Object.SizeToContent *)
Definition size_to_content (i : input) (cw ch px py : Q) : Q * Q :=
  let '(fw, fh) := fit_of i cw ch px py in
  let w := match dw i with Some z => inject_Z z | None => fw end in
  let h := match dh i with Some z => inject_Z z | None => fh end in
  let w := if never_shrink i then qmax (inject_Z (zval (dw i))) fw else w in
  let h := if never_shrink i then qmax (inject_Z (zval (dh i))) fh else h in
  if aspect1 (k i) then let l := qmax w h in (l, l)
  else if negb (is_set (dh i)) || negb (is_set (dw i)) then
    match k i with
    | KPerson => limit_ar w h personAR
    | KOval => limit_ar w h ovalAR
    | _ => (w, h)
    end
  else (w, h).

(* the loop body of Graph.SetDimensions *)
Definition set_dimensions (i : input) : Q * Q :=
  let dwz := zval (dw i) in
  let dhz := zval (dh i) in
  if label_empty i && negb (match k i with KImage | KSqlTable | KClass => true | _ => false end) then
    if aspect1 (k i) then
      let l := if is_set (dw i) || is_set (dh i) then inject_Z (Z.max dwz dhz) else defaultShapeSize in (l, l)
    else
      (if is_set (dw i) then inject_Z dwz else defaultShapeSize,
       if is_set (dh i) then inject_Z dhz else defaultShapeSize)
  else
    let '(cw, ch) := content i in
    match k i with
    | KImage =>
        (inject_Z (Z.max minShapeSize (if is_set (dw i) then dwz else cw)),
         inject_Z (Z.max minShapeSize (if is_set (dh i) then dhz else ch)))
    | _ =>
        let '(px, py) := paddings i in
        size_to_content i (inject_Z cw) (inject_Z ch) px py
    end.

(* ---- the property's clauses ---- *)

(* label drawn inside the shape: HasLabel() and not an outside-bottom default (person, image) *)
Definition label_inside (kd : kind) : bool :=
  match kd with KPerson | KImage | KText | KCode | KClass | KSqlTable => false | _ => true end.
