(* Executable checker for C21 cases.  The harness compiles a one-object diagram with d2compiler.Compile, runs
   the real Graph.SetDimensions (real text ruler, or pre-measured texts with chosen dimensions) and passes
   what it observed on the object.
   codes: 1  model (W,H) <> implementation's obj.Width/Height
          2  oracle hypothesis: label / class / table content dimensions are >= 0
          3  oracle hypothesis (oval): content + padding*cos / padding*sin (content angle) is >= -1/2, padding*cos >= -1
          4  oracle hypothesis (auto-sized oval): cos*r, sin*r of the final ellipse are rx/sqrt2, ry/sqrt2 within 1e-5
         10  explicit width and height not honoured exactly
         11  square / circle with explicit sizes is not max x max
         12  table / class / code / text-with-language smaller than its content or than the explicit size
         13  automatic size: the label does not fit into the shape's inner box (obj.ToShape().GetInnerBox())
         14  image with explicit size is not max(5, size)
         15  the size of the (leaf) shape after the real layout differs from the size SetDimensions chose                                            *)
From Coq Require Import ZArith QArith Qround Qabs List Bool.
Import ListNotations.
Require Import V.Lib.RunCases V.C27.Check.
Require Export V.C21.Model V.C21.Proofs.
Open Scope Q_scope.

Inductive case :=
| Case (kd : kind) (label_empty lang : bool) (lw lh font tw th : Z) (dw dh : option Z) (icon linktip : bool)
       (oc oce os ose : Z)            (* oval: cos / sin of the content angle, dyadic *)
       (cr cre sr sre : Z)            (* oval: cos*r, sin*r of the final ellipse (0 otherwise) *)
       (W We H He : Z)                (* obj.Width, obj.Height after SetDimensions *)
       (iw iwe ih ihe : Z)            (* inner box size of obj.ToShape() *)
       (LW LWe LH LHe : Z).           (* obj.Width, obj.Height after the real nested (dagre) layout, or = W, H *)

Definition close2 (m : Q * Q) (W H : Q) : bool := close (fst m) W && close (snd m) H.
Definition zset (o : option Z) : bool := match o with Some z => negb (z =? 0)%Z | None => false end.
Definition absent (o : option Z) : bool := match o with None => true | Some _ => false end.

Definition check_case (c : case) : list N :=
  match c with
  | Case kd le lg lw lh font tw th dw dh ic lt oc oce os ose cr cre sr sre W We H He iw iwe ih ihe LW LWe LH LHe =>
      let i := {| k := kd; label_empty := le; lang := lg; lw := lw; lh := lh; font := font; tw := tw; th := th;
                  dw := dw; dh := dh; icon := ic; linktip := lt; oc := qf (oc, oce); os := qf (os, ose) |} in
      let W := qf (W, We) in let H := qf (H, He) in
      let iw := qf (iw, iwe) in let ih := qf (ih, ihe) in
      let tol := eps * (1 + W + H) in
      let cnt := content i in
      let pad := paddings i in
      let stc := negb (le && negb (match kd with KImage | KSqlTable | KClass => true | _ => false end))
                 && negb (match kd with KImage => true | _ => false end) in
      let corr :=
        if close2 (set_dimensions i) W H then true
        else stc && lexists (fun d => let '(a, b) := d in
               close2 (size_to_content i (Qred (inject_Z (fst cnt) * a)) (Qred (inject_Z (snd cnt) * b))
                                         (Qred (fst pad * a)) (Qred (snd pad * b))) W H) variants in
      let hyp := (0 <=? lw)%Z && (0 <=? lh)%Z && (0 <=? tw)%Z && (0 <=? th)%Z in
      let oval_auto := match kd with KOval => absent dw && absent dh && negb le | _ => false end in
      let hyp_oval := match kd with KOval => H_oval_b i | _ => true end in
      let hyp_radius := if oval_auto then H_radius_b (qf (cr, cre)) (qf (sr, sre)) W H else true in
      let both := zset dw && zset dh in
      let a := inject_Z (zval dw) in let b := inject_Z (zval dh) in
      let is_image := match kd with KImage => true | _ => false end in
      let c10 := if both && negb (aspect1 kd) && negb (never_shrink i) && negb is_image
                 then Qeq_bool W a && Qeq_bool H b else true in
      let c11 := if both && aspect1 kd && negb (never_shrink i)
                 then Qeq_bool W (inject_Z (Z.max (zval dw) (zval dh))) && Qeq_bool H W else true in
      let c12 := if plain_kind kd && never_shrink i && (negb le || match kd with KClass | KSqlTable => true | _ => false end)
                 then Qle_bool (inject_Z (fst cnt)) W && Qle_bool (inject_Z (snd cnt)) H && Qle_bool a W && Qle_bool b H
                 else true in
      let c13 := if absent dw && absent dh && negb le && label_inside kd
                 then Qle_bool (inject_Z lw) (iw + tol) && Qle_bool (inject_Z lh) (ih + tol) else true in
      let c14 := if both && is_image
                 then Qeq_bool W (inject_Z (Z.max minShapeSize (zval dw))) && Qeq_bool H (inject_Z (Z.max minShapeSize (zval dh)))
                 else true in
      flag corr 1 ++ flag hyp 2 ++ flag hyp_oval 3 ++ flag hyp_radius 4 ++ flag c10 10 ++ flag c11 11 ++ flag c12 12 ++ flag c13 13 ++ flag c14 14
      ++ flag (Qeq_bool (qf (LW, LWe)) W && Qeq_bool (qf (LH, LHe)) H) 15
  end.
