(* C21 — Explicit sizes are honoured and automatic sizes fit the label.  Statements only.
   set_dimensions = the per-object body of d2graph.Graph.SetDimensions (with GetDefaultSize,
   GetDefaultPadding, SizeToContent); inner / fit / guard / loss are the C27 model of lib/shape. *)
From Coq Require Import ZArith QArith Bool.
Require Import V.C21.Model V.C21.Proofs.
Open Scope Q_scope.

(* Explicit width AND height (non-zero), any shape but square/circle/image, no table/class/language:
   exactly that size — whatever the label, icon, link or tooltip. *)
Theorem C21_explicit_size_honoured :
  forall i a b,
    dw i = Some a -> dh i = Some b -> a <> 0%Z -> b <> 0%Z ->
    aspect1 (k i) = false -> never_shrink i = false -> k i <> KImage ->
    set_dimensions i = (inject_Z a, inject_Z b).
Proof. exact explicit_size_honoured. Qed.

(* images: the explicit size, but never below MIN_SHAPE_SIZE = 5 *)
Theorem C21_image_explicit_size :
  forall i a b,
    k i = KImage -> dw i = Some a -> dh i = Some b -> a <> 0%Z -> b <> 0%Z ->
    set_dimensions i = (inject_Z (Z.max minShapeSize a), inject_Z (Z.max minShapeSize b)).
Proof. exact image_explicit_size. Qed.

(* squares and circles use the larger of the two for both *)
Theorem C21_square_circle_use_max :
  forall i a b,
    dw i = Some a -> dh i = Some b -> a <> 0%Z -> b <> 0%Z ->
    aspect1 (k i) = true -> never_shrink i = false ->
    set_dimensions i = (inject_Z (Z.max a b), inject_Z (Z.max a b)).
Proof. exact square_circle_use_max. Qed.

(* tables, classes, code (and text with a language): never below the content, never below the explicit size *)
Theorem C21_never_below_content :
  forall i,
    plain_kind (k i) = true -> never_shrink i = true ->
    (label_empty i = false \/ k i = KClass \/ k i = KSqlTable) ->
    let c := content i in
    let r := set_dimensions i in
    inject_Z (fst c) <= fst r /\ inject_Z (snd c) <= snd r /\
    inject_Z (zval (dw i)) <= fst r /\ inject_Z (zval (dh i)) <= snd r.
Proof. exact never_below_content. Qed.

(* Only the width given (the property makes no claim here): honoured on every shape without an aspect-ratio
   limit; on person and oval LimitAR overrides it (`x: <label 20x300> {shape: oval; width: 50}` is 160 wide). *)
Theorem C21_explicit_width_alone_honoured :
  forall i a,
    dw i = Some a -> a <> 0%Z -> aspect1 (k i) = false -> never_shrink i = false -> k i <> KImage ->
    ar_limited (k i) = false -> (label_empty i = false \/ k i = KClass \/ k i = KSqlTable) ->
    fst (set_dimensions i) = inject_Z a.
Proof. exact explicit_width_alone_honoured. Qed.

(* automatic size, label drawn inside: the label fits into the inner box of the final size — for every
   label size >= 0, with or without icon / link+tooltip, for every shape of the C27 model, under C27's side
   condition on the fitted content (true for all shapes but c4-person and cloud; person has an outside label).
   The oval has its own theorem below (relative to the trigonometric oracle). *)
Theorem C21_auto_size_fits_label :
  forall i s,
    dw i = None -> dh i = None -> label_empty i = false -> label_inside (k i) = true ->
    never_shrink i = false -> shape_of (k i) = Some s -> (0 <= lw i)%Z -> (0 <= lh i)%Z ->
    let c := content i in
    let p := paddings i in
    guard s (inject_Z (fst c)) (inject_Z (snd c)) (fst p) (snd p) = true ->
    let r := set_dimensions i in
    Contains (inject_Z (lw i)) (inject_Z (lh i))
             (inner s (fst r) (snd r) (inject_Z (fst c)) (inject_Z (snd c))).
Proof. exact auto_size_fits_label. Qed.

(* The oval, relative to its trigonometric oracle: oc, os = cos, sin of the content angle; cr, sr = cos*r, sin*r
   of the final ellipse (V.C27.Model); both hypotheses are evaluated by the harness on what Go's math package
   returns (codes 3, 4).  Label sizes up to 100000 px (the 1e-5 relative slack of the oracle must stay below the
   inner label padding). *)
Theorem C21_auto_size_fits_label_oval_partial :
  forall i cr sr,
    k i = KOval -> dw i = None -> dh i = None -> label_empty i = false -> never_shrink i = false ->
    (0 <= lw i <= 100000)%Z -> (0 <= lh i <= 100000)%Z ->
    H_oval_b i = true ->
    let r := set_dimensions i in
    H_radius_b cr sr (fst r) (snd r) = true ->
    Contains (inject_Z (lw i)) (inject_Z (lh i)) (inner_oval cr sr (fst r) (snd r)).
Proof. exact auto_size_fits_label_oval. Qed.

(* Without the side condition the statement is refuted on the faithful model (and on the real code):
   c4-person with a 75x355 label is sized 297x446 with a 267.3x301.6 text area; cloud with a 295x240 label is
   sized 416x484 with a 275.8x320.9 text area. *)
Theorem C21_auto_size_c4person_refuted : fits_label_b (auto_input KC4Person 75 355) C4Person = false.
Proof. exact c4person_auto_refuted. Qed.
Theorem C21_auto_size_cloud_refuted : fits_label_b (auto_input KCloud 295 240) Cloud = false.
Proof. exact cloud_auto_refuted. Qed.

(* non-vacuity *)
Example C21_hyps_satisfiable :
  fits_label_b (auto_input KC4Person 300 40) C4Person = true /\ fits_label_b (auto_input KCloud 100 40) Cloud = true
  /\ fits_label_b (auto_input KCircle 57 21) Circle = true.
Proof. exact auto_examples_fit. Qed.

Print Assumptions C21_explicit_size_honoured.
Print Assumptions C21_image_explicit_size.
Print Assumptions C21_square_circle_use_max.
Print Assumptions C21_never_below_content.
Print Assumptions C21_explicit_width_alone_honoured.
Print Assumptions C21_auto_size_fits_label.
Print Assumptions C21_auto_size_fits_label_oval_partial.
Print Assumptions C21_auto_size_c4person_refuted.
Print Assumptions C21_auto_size_cloud_refuted.
