(* Executable case checker for C34.  The harness renders a generated board tree with the real CLI into
   a sandbox (output path [out ++ ext] deep inside a private directory that also holds sentinel files
   and directories), and passes the listing of the sandbox before and after the run.  Files carry a
   content tag: sentinels have distinct tags >= 2, every file whose content is not a sentinel's has
   tag 1 (an output of this run). *)
From Coq Require Import List NArith Bool.
Import ListNotations.
Require Import V.Lib.RunCases.
Require Export V.C34.Model.
Open Scope N_scope.

Inductive case :=
| Case (ext : str) (out : path) (tree : board)
       (before_files : list (path * N)) (before_dirs : list path)
       (after_files : list (path * N)) (after_dirs : list path)
       (failed : bool).            (* the CLI exited with an error *)

Definition incl_b {A} (eqb : A -> A -> bool) (l1 l2 : list A) : bool :=
  forallb (fun x => existsb (eqb x) l2) l1.
Definition same_set {A} (eqb : A -> A -> bool) (l1 l2 : list A) : bool := incl_b eqb l1 l2 && incl_b eqb l2 l1.

Definition check_case (c : case) : list N :=
  match c with
  | Case ext out tree bf bd af ad failed =>
      let r := run (cli_events ext out tree) {| files := bf; dirs := bd |} in
      flag (ext_wf ext) 2
      ++ flag (ancestors_exist out {| files := bf; dirs := bd |}) 3
      ++ flag (fs_pre ext out tree {| files := bf; dirs := bd |} && negb (is_nil out)) 3
      ++ flag (same_set entry_eqb (files (fst r)) af && same_set path_eqb (dirs (fst r)) ad
               && Bool.eqb (snd r) (negb failed)) 1
      ++ flag (no_creation_outside ext out bf af bd ad) 10
      ++ flag (if refused tree then refused_cleanly bf af bd ad failed
               else one_file_per_board ext out tree af failed) 11
      ++ flag (no_deletion_outside ext out bf af bd ad) 12
  end.
