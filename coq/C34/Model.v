(* C34 — output path derivation of multi-board renders (d2cli/main.go: render), definitions only.

   Strings are lists of bytes.  A path is the list of its segments: an absolute, clean path
   ("/a/b" = [a; b]).  filepath.Join(dir, name) = Clean(dir + "/" + name) is modelled on segments:
   [name] is split at '/', empty and "." segments vanish, ".." removes the last segment (at the root it
   vanishes).  The extension handling of `render`

       ext := filepath.Ext(outputPath); p := strings.TrimSuffix(outputPath, ext)
       p = filepath.Join(p, name);      p += ext

   keeps the invariant outputPath = stem ++ ext with Ext(outputPath) = ext (lemma go_ext_app in
   Proofs.v, for a well-formed extension such as ".svg"), so the model carries the stem (segments) and
   appends [ext] to the last segment when a file is written. *)
From Coq Require Import List NArith Bool.
Import ListNotations.
Require Import V.Lib.RunCases.
Open Scope N_scope.

Definition str := list N.
Definition path := list str.

Definition str_eqb : str -> str -> bool := list_eqb N.eqb.
Definition path_eqb : path -> path -> bool := list_eqb str_eqb.

Definition s_dot : str := [46].
Definition s_dotdot : str := [46; 46].
Definition s_index : str := [105; 110; 100; 101; 120].
Definition s_layers : str := [108; 97; 121; 101; 114; 115].
Definition s_scenarios : str := [115; 99; 101; 110; 97; 114; 105; 111; 115].
Definition s_steps : str := [115; 116; 101; 112; 115].
Definition slash : N := 47.

(* ---- filepath.Ext on strings (used only to justify the stem/ext representation) ---- *)
Fixpoint ext_rev (r acc : str) : str :=
  match r with
  | [] => []
  | c :: r' => if N.eqb c 47 then [] else if N.eqb c 46 then c :: acc else ext_rev r' (c :: acc)
  end.
Definition go_ext (s : str) : str := ext_rev (rev s) [].
(* ".svg": a dot followed by characters that are neither '.' nor '/' *)
Definition ext_wf (e : str) : bool :=
  match e with
  | c :: e' => N.eqb c 46 && forallb (fun x => negb (N.eqb x 46) && negb (N.eqb x 47)) e'
  | [] => false
  end.

(* ---- filepath.Join / Clean on segments ---- *)
Fixpoint split_slash_aux (s cur : str) : list str :=
  match s with
  | [] => [rev cur]
  | c :: s' => if N.eqb c slash then rev cur :: split_slash_aux s' [] else split_slash_aux s' (c :: cur)
  end.
Definition split_slash (s : str) : list str := split_slash_aux s [].

Definition push (p : path) (seg : str) : path :=
  match seg with
  | [] => p
  | _ => if str_eqb seg s_dot then p else if str_eqb seg s_dotdot then removelast p else p ++ [seg]
  end.

Definition join (dir : path) (name : str) : path := fold_left push (split_slash name) dir.

(* stem ++ ext as a file path: the extension is appended to the last segment ("/" ++ ".svg" = "/.svg") *)
Definition file_of (ext : str) (stem : path) : path :=
  match stem with
  | [] => [ext]
  | _ => removelast stem ++ [last stem [] ++ ext]
  end.

(* ---- boards ---- *)
Inductive board := Board (name : str) (folder_only : bool) (layers scenarios steps : list board).

Definition bname (b : board) : str := match b with Board n _ _ _ _ => n end.

Definition is_nil {A} (l : list A) : bool := match l with [] => true | _ => false end.

Inductive event := RemoveAll (p : path) | WriteFile (p : path)
                   | Refuse.   (* the CLI stops with an error before touching the file system *)

Definition sub (cond : bool) (stem : path) (k : str) : path := if cond then join stem k else stem.

(* d2cli/main.go:render — the file-system effects in program order *)
Fixpoint render (ext : str) (out : path) (b : board) : list event :=
  match b with
  | Board name fo ls ss ts =>
      let stem := if is_nil name then out else join out name in
      let kids := nonempty ls || nonempty ss || nonempty ts in
      let lstem := sub (nonempty ss || nonempty ts) stem s_layers in
      let sstem := sub (nonempty ls || nonempty ts) stem s_scenarios in
      let tstem := sub (nonempty ls || nonempty ss) stem s_steps in
      (if kids then [RemoveAll stem] else [])
      ++ flat_map (render ext lstem) ls
      ++ flat_map (render ext sstem) ss
      ++ flat_map (render ext tstem) ts
      ++ (if fo then [] else [WriteFile (file_of ext (if kids then join stem s_index else stem))])
  end.

(* d2cli validateBoardFileName (since b8f1f57d8): a board name is refused when one of its elements,
   split at '/', is ".." *)
Definition has_dotdot (name : str) : bool := existsb (fun s => str_eqb s s_dotdot) (split_slash name).

Fixpoint names_below (b : board) : list str :=
  match b with
  | Board _ _ ls ss ts =>
      flat_map (fun c => bname c :: names_below c) ls
      ++ flat_map (fun c => bname c :: names_below c) ss
      ++ flat_map (fun c => bname c :: names_below c) ts
  end.

Definition refused (root : board) : bool := existsb has_dotdot (names_below root).

(* d2cli compile(): resolveLinks walks the whole tree first and returns the validation error of any
   board name before render() has done anything; otherwise render() runs (its own copy of the check
   can then no longer fire) *)
Definition cli_events (ext : str) (out : path) (root : board) : list event :=
  if refused root then [Refuse] else render ext out root.

Definition writes (es : list event) : list path :=
  flat_map (fun e => match e with WriteFile p => [p] | _ => [] end) es.
Definition removes (es : list event) : list path :=
  flat_map (fun e => match e with RemoveAll p => [p] | _ => [] end) es.

(* outputs : outpath -> board tree -> files written, directories removed *)
Definition outputs (ext : str) (out : path) (b : board) : list path * list path :=
  (writes (cli_events ext out b), removes (cli_events ext out b)).

Fixpoint count_boards (b : board) : nat :=
  match b with
  | Board _ fo ls ss ts =>
      (if fo then 0 else 1)
      + list_sum (map count_boards ls) + list_sum (map count_boards ss) + list_sum (map count_boards ts)
  end%nat.

(* ---- the output location derived from the output path ---- *)
Fixpoint prefix_b (p q : path) : bool :=
  match p, q with
  | [], _ => true
  | x :: p', y :: q' => str_eqb x y && prefix_b p' q'
  | _, [] => false
  end.

(* the location derived from the output path out.svg: the file out.svg itself and the directory out
   (the path `out` and everything below it) *)
Definition inside_file_b (ext : str) (out p : path) : bool :=
  path_eqb p (file_of ext out) || prefix_b out p.
(* a directory is inside iff it is the directory derived from the output path or lies below it *)
Definition inside_dir_b (out p : path) : bool := prefix_b out p.

(* ---- guard on board names ---- *)
Fixpoint suffix_b (e s : str) : bool :=
  str_eqb e s || match s with [] => false | _ :: s' => suffix_b e s' end.

Definition name_ok_b (ext name : str) : bool :=
  nonempty name
  && negb (existsb (N.eqb slash) name)
  && negb (str_eqb name s_dot) && negb (str_eqb name s_dotdot)
  && negb (str_eqb name s_index)
  && negb (suffix_b ext name).

Fixpoint nodup_b (l : list str) : bool :=
  match l with
  | [] => true
  | x :: l' => negb (existsb (str_eqb x) l') && nodup_b l'
  end.

(* every board below the root has an admissible name, and sibling names differ *)
Fixpoint safe_below (ext : str) (b : board) : bool :=
  match b with
  | Board _ _ ls ss ts =>
      let all := ls ++ ss ++ ts in
      forallb (fun c => name_ok_b ext (bname c)) all
      && nodup_b (map bname all)
      && forallb (safe_below ext) ls && forallb (safe_below ext) ss && forallb (safe_below ext) ts
  end.

Definition safe_names (ext : str) (root : board) : bool := is_nil (bname root) && safe_below ext root.

(* ---- a small file system to replay the events on (used by Check.v and the run theorems) ---- *)
Record fsys := { files : list (path * N); dirs : list path }.

Fixpoint prefixes_aux (acc p : path) : list path :=
  match p with
  | [] => []
  | s :: p' => (acc ++ [s]) :: prefixes_aux (acc ++ [s]) p'
  end.
(* all non-empty prefixes, shortest first, including p itself *)
Definition prefixes (p : path) : list path := prefixes_aux [] p.

Definition is_file (f : fsys) (p : path) : bool := existsb (fun e => path_eqb (fst e) p) (files f).
Definition is_dir (f : fsys) (p : path) : bool := existsb (path_eqb p) (dirs f).

Definition add_dir (ds : list path) (p : path) : list path :=
  if existsb (path_eqb p) ds then ds else ds ++ [p].

Definition step (f : fsys) (e : event) : fsys * bool :=
  match e with
  | RemoveAll p =>
      ({| files := filter (fun e => negb (prefix_b p (fst e))) (files f);
          dirs := filter (fun d => negb (prefix_b p d)) (dirs f) |}, true)
  | WriteFile p =>
      let parent := removelast p in
      (* os.MkdirAll(dir): fails (creating nothing) when a prefix is a regular file *)
      if existsb (is_file f) (prefixes parent) then (f, false)
      else
        let ds := fold_left add_dir (prefixes parent) (dirs f) in
        (* rename onto a directory (and the os.WriteFile fallback) fails *)
        if is_dir f p then ({| files := files f; dirs := ds |}, false)
        else ({| files := filter (fun e => negb (path_eqb (fst e) p)) (files f) ++ [(p, 1)];
                 dirs := ds |}, true)
  | Refuse => (f, false)
  end.

(* the run stops at the first failing operation (render returns the error) *)
Fixpoint run (es : list event) (f : fsys) : fsys * bool :=
  match es with
  | [] => (f, true)
  | e :: es' => let (f', ok) := step f e in if ok then run es' f' else (f', false)
  end.

(* ---- the property on the effects of a run: listings before (bf, bd) and after (af, ad) ---- *)
Definition entry_eqb (a b : path * N) : bool := path_eqb (fst a) (fst b) && N.eqb (snd a) (snd b).

(* nothing outside the location is created or overwritten *)
Definition no_creation_outside (ext : str) (out : path) (bf af : list (path * N)) (bd ad : list path) : bool :=
  forallb (fun e => inside_file_b ext out (fst e) || existsb (entry_eqb e) bf) af
  && forallb (fun d => inside_dir_b out d || existsb (path_eqb d) bd) ad.
(* nothing outside the location is deleted *)
Definition no_deletion_outside (ext : str) (out : path) (bf af : list (path * N)) (bd ad : list path) : bool :=
  forallb (fun e => inside_file_b ext out (fst e) || existsb (fun e' => path_eqb (fst e) (fst e')) af) bf
  && forallb (fun d => inside_dir_b out d || existsb (path_eqb d) ad) bd.
(* one distinct file per board inside the location (files written by this run carry tag 1) *)
Definition one_file_per_board (ext : str) (out : path) (tree : board) (af : list (path * N)) (failed : bool) : bool :=
  negb failed
  && Nat.eqb (length (filter (fun e => inside_file_b ext out (fst e) && N.eqb (snd e) 1) af)) (count_boards tree).

(* a tree with a refused board name: the CLI must fail and leave every file as it was *)
Definition refused_cleanly (bf af : list (path * N)) (bd ad : list path) (failed : bool) : bool :=
  failed
  && forallb (fun e => existsb (entry_eqb e) bf) af && forallb (fun e => existsb (entry_eqb e) af) bf
  && forallb (fun d => existsb (path_eqb d) bd) ad && forallb (fun d => existsb (path_eqb d) ad) bd.

(* the directories above the output location exist (the CLI is given an output path in an existing
   directory; otherwise MkdirAll legitimately creates the missing ancestors) *)
Definition ancestors_exist (out : path) (f : fsys) : bool :=
  forallb (fun d => is_dir f d) (prefixes (removelast out)).

(* ---- precondition on the file system for the "one file per board" theorem ---- *)
Definition has_kids (b : board) : bool :=
  match b with Board _ _ ls ss ts => nonempty ls || nonempty ss || nonempty ts end.

(* ancestors of the output directory are directories (and not files), no file inside the location
   already looks like an output of this run (tag 1), and for a single-board render the output path is
   not an existing directory *)
Definition fs_pre (ext : str) (out : path) (root : board) (f : fsys) : bool :=
  ancestors_exist out f
  && forallb (fun d => negb (is_file f d)) (prefixes (removelast out))
  && forallb (fun e => negb (inside_file_b ext out (fst e) && N.eqb (snd e) 1)) (files f)
  && (has_kids root || negb (is_dir f (file_of ext out))).
