(* C34 — Multi-board output stays inside the output location, one file per board.  Statements only.

   outputs ext out root = (files written, directories RemoveAll'ed) by the d2 CLI (resolveLinks'
   validation of the board names, then render) for the board tree [root] and output path  out ++ ext
   (out: segments of the path without its extension).
   Location derived from the output path: the file out.ext and the path `out` with everything below.
   safe_names: every board below the root has a non-empty name without '/', different from ".", "..",
   "index", not ending in the extension, and sibling names differ. *)
From Coq Require Import List NArith.
Import ListNotations.
Require Import V.C34.Model V.C34.Proofs V.C34.ProofsFs.
Open Scope N_scope.

(* Ext(s ++ ext) = ext: the code's repeated Ext/TrimSuffix/Join/+= ext keeps "stem + extension" *)
Theorem C34_ext_stable : forall ext s, ext_wf ext = true -> go_ext (s ++ ext) = ext.
Proof. exact go_ext_app. Qed.

(* all board trees, all output paths, all extensions *)
Theorem C34_outputs_inside_root : forall ext out root, safe_names ext root = true ->
  forall p, In p (fst (outputs ext out root)) -> inside_file_b ext out p = true.
Proof. exact outputs_inside_root. Qed.

Theorem C34_removed_inside_root : forall ext out root, safe_names ext root = true ->
  forall q, In q (snd (outputs ext out root)) -> inside_dir_b out q = true.
Proof. exact removed_inside_root. Qed.

Theorem C34_outputs_distinct : forall ext out root, safe_names ext root = true ->
  NoDup (fst (outputs ext out root)) /\ length (fst (outputs ext out root)) = count_boards root.
Proof. exact outputs_distinct. Qed.

(* On the file system, WHATEVER the board names are (no guard; since fix b8f1f57d8 refuses names with
   a '..' element): replaying the CLI's operations (refusal, or RemoveAll / MkdirAll + write, stopping
   at the first error) on ANY file system in which the ancestors of the output directory exist
   creates, overwrites and deletes nothing outside the location.  The two predicates are the ones
   check_case evaluates on the listings of the real sandbox. *)
Theorem C34_effects_confined_all_names : forall ext out root f,
  is_nil (bname root) = true -> ancestors_exist out f = true ->
  let f' := fst (run (cli_events ext out root) f) in
  no_creation_outside ext out (files f) (files f') (dirs f) (dirs f') = true
  /\ no_deletion_outside ext out (files f) (files f') (dirs f) (dirs f') = true.
Proof. exact cli_confined_all_names. Qed.

(* a tree with a '..' element in a board name is refused before anything is touched *)
Theorem C34_dotdot_names_refused : forall ext out root f,
  refused root = true -> run (cli_events ext out root) f = (f, false).
Proof. exact dotdot_refused. Qed.

(* the former escape witnesses (layer "../victim", with and without boards of its own) *)
Theorem C34_dotdot_witness_refused :
  let r1 := Board [] false [leaf x_victim] [] [] in
  let r2 := Board [] false [Board x_victim false [leaf [120]] [] []] [] [] in
  run (cli_events x_svg x_out r1) x_fs = (x_fs, false) /\ run (cli_events x_svg x_out r2) x_fs = (x_fs, false)
  /\ outputs x_svg x_out r2 = ([], []).
Proof. exact dotdot_witness_refused. Qed.

(* ... and the run succeeds and leaves exactly one file of this run per board inside the location:
   no file/directory clash, no board's file removed again by a later RemoveAll.  fs_pre: the ancestors
   of the output directory are directories, no file inside the location already carries the tag of
   this run's outputs, and for a single-board render the output path is not a directory. *)
Theorem C34_one_file_per_board_on_fs : forall ext out root f,
  safe_names ext root = true -> ext_wf ext = true -> out <> [] -> fs_pre ext out root f = true ->
  snd (run (cli_events ext out root) f) = true
  /\ one_file_per_board ext out root (files (fst (run (cli_events ext out root) f))) false = true.
Proof. exact one_file_per_board_on_fs. Qed.

(* Without the guard the distinctness clauses fail (each witness is a corpus case of the harness and
   fails on the real CLI in the same way). *)
Theorem C34_outputs_distinct_refuted_index : exists ext out root, ~ NoDup (fst (outputs ext out root)).
Proof. exact outputs_distinct_refuted_index. Qed.

Theorem C34_outputs_distinct_refuted_slash : exists ext out root, ~ NoDup (fst (outputs ext out root)).
Proof. exact outputs_distinct_refuted_slash. Qed.

Theorem C34_one_file_per_board_refuted_ext_suffix :
  exists ext out r1 r2,
    snd (run (render ext out r1) x_fs) = false
    /\ snd (run (render ext out r2) x_fs) = true
    /\ one_file_per_board ext out r2 (files (fst (run (render ext out r2) x_fs))) false = false.
Proof. exact one_file_per_board_refuted_ext_suffix. Qed.

(* non-vacuity: a three-level tree with all three kinds and dotted names satisfies the guard *)
Example C34_safe_names_satisfiable :
  let b n := Board n false [] [] [] in
  safe_names x_svg (Board [] false [Board [97; 46; 98] false [b [120]] [b [121]] []; b [108; 97; 121; 101; 114; 115]] [b [115]] [b [49]; b [50]]) = true
  /\ ancestors_exist x_out x_fs = true
  /\ fs_pre x_svg x_out (Board [] false [b [120]] [] []) x_fs = true.
Proof. repeat split; reflexivity. Qed.

Print Assumptions C34_ext_stable.
Print Assumptions C34_outputs_inside_root.
Print Assumptions C34_removed_inside_root.
Print Assumptions C34_outputs_distinct.
Print Assumptions C34_effects_confined_all_names.
Print Assumptions C34_dotdot_names_refused.
Print Assumptions C34_dotdot_witness_refused.
Print Assumptions C34_one_file_per_board_on_fs.
Print Assumptions C34_outputs_distinct_refuted_index.
Print Assumptions C34_outputs_distinct_refuted_slash.
Print Assumptions C34_one_file_per_board_refuted_ext_suffix.
