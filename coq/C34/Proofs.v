(* C34 — proofs about the output path derivation. *)
From Coq Require Import List NArith Bool Lia Arith.
Import ListNotations.
Require Import V.Lib.RunCases V.C34.Model.
Open Scope N_scope.

(* ---------- strings, paths ---------- *)

Lemma str_eqb_eq a b : str_eqb a b = true <-> a = b.
Proof. apply list_eqb_eq. intros; apply N.eqb_eq. Qed.

Lemma str_eqb_refl a : str_eqb a a = true.
Proof. now apply str_eqb_eq. Qed.

Lemma str_eqb_neq a b : str_eqb a b = false <-> a <> b.
Proof.
  split.
  - intros H E. apply str_eqb_eq in E. congruence.
  - intro H. destruct (str_eqb a b) eqn:E; [apply str_eqb_eq in E; contradiction | reflexivity].
Qed.

Lemma path_eqb_eq a b : path_eqb a b = true <-> a = b.
Proof. apply list_eqb_eq. exact str_eqb_eq. Qed.

(* ---------- filepath.Ext keeps returning the extension ---------- *)

Lemma ext_rev_app : forall l acc t,
  forallb (fun x => negb (N.eqb x 46) && negb (N.eqb x 47)) l = true ->
  ext_rev (l ++ 46 :: t) acc = 46 :: (rev l ++ acc).
Proof.
  induction l as [|c l IH]; intros acc t H; cbn [app ext_rev rev].
  - reflexivity.
  - cbn [forallb] in H. apply andb_prop in H as [Hc Hl]. apply andb_prop in Hc as [H46 H47].
    apply negb_true_iff in H46, H47. rewrite H47, H46. rewrite IH by exact Hl.
    now rewrite <- app_assoc.
Qed.

Lemma forallb_rev {A} (f : A -> bool) l : forallb f (rev l) = forallb f l.
Proof.
  induction l as [|x l IH]; [reflexivity|]. cbn. rewrite forallb_app, IH. cbn.
  rewrite andb_true_r. apply andb_comm.
Qed.

(* Ext(s ++ ext) = ext for every s: the representation "stem + extension" is stable *)
Lemma go_ext_app : forall ext s, ext_wf ext = true -> go_ext (s ++ ext) = ext.
Proof.
  intros [|c e] s H; [discriminate|]. cbn in H. apply andb_prop in H as [Hc He].
  apply N.eqb_eq in Hc. subst c. unfold go_ext.
  rewrite rev_app_distr. cbn [rev]. rewrite <- app_assoc. cbn [app].
  rewrite ext_rev_app by now rewrite forallb_rev.
  now rewrite rev_involutive, app_nil_r.
Qed.

(* ---------- Join on admissible names ---------- *)

Lemma split_slash_aux_noslash : forall s cur,
  existsb (N.eqb slash) s = false -> split_slash_aux s cur = [rev cur ++ s].
Proof.
  induction s as [|c s IH]; intros cur H; cbn [split_slash_aux].
  - now rewrite app_nil_r.
  - cbn [existsb] in H. apply orb_false_iff in H as [Hc Hs].
    rewrite N.eqb_sym in Hc. rewrite Hc. rewrite IH by exact Hs. cbn [rev].
    now rewrite <- app_assoc.
Qed.

Lemma split_slash_noslash s : existsb (N.eqb slash) s = false -> split_slash s = [s].
Proof. intro H. unfold split_slash. now rewrite split_slash_aux_noslash. Qed.

Record name_ok (ext name : str) : Prop := {
  nk_nonempty : name <> [];
  nk_noslash : existsb (N.eqb slash) name = false;
  nk_dot : name <> s_dot;
  nk_dotdot : name <> s_dotdot;
  nk_index : name <> s_index;
  nk_ext : suffix_b ext name = false }.

Lemma name_ok_b_iff ext name : name_ok_b ext name = true <-> name_ok ext name.
Proof.
  unfold name_ok_b. rewrite !andb_true_iff, !negb_true_iff, !str_eqb_neq. split.
  - intros [[[[[H1 H2] H3] H4] H5] H6]. constructor; auto. destruct name; [discriminate|discriminate].
  - intros [H1 H2 H3 H4 H5 H6]. repeat split; auto. destruct name; [contradiction|reflexivity].
Qed.

Lemma join_ok ext out name : name_ok ext name -> join out name = out ++ [name].
Proof.
  intros [H1 H2 H3 H4 _ _]. unfold join. rewrite split_slash_noslash by exact H2. cbn [fold_left].
  unfold push. destruct name as [|c name]; [contradiction|].
  apply str_eqb_neq in H3, H4. now rewrite H3, H4.
Qed.

Lemma join_index out : join out s_index = out ++ [s_index].
Proof. reflexivity. Qed.
Lemma join_layers out : join out s_layers = out ++ [s_layers].
Proof. reflexivity. Qed.
Lemma join_scenarios out : join out s_scenarios = out ++ [s_scenarios].
Proof. reflexivity. Qed.
Lemma join_steps out : join out s_steps = out ++ [s_steps].
Proof. reflexivity. Qed.

Lemma file_of_snoc ext s n : file_of ext (s ++ [n]) = s ++ [n ++ ext].
Proof.
  unfold file_of. destruct (s ++ [n]) eqn:E.
  - apply app_eq_nil in E as [_ E]. discriminate.
  - rewrite <- E. now rewrite removelast_last, last_last.
Qed.

(* ---------- writes / removes of event lists ---------- *)

Lemma flat_map_app' {A B} (f : A -> list B) l1 l2 : flat_map f (l1 ++ l2) = flat_map f l1 ++ flat_map f l2.
Proof. induction l1; cbn; [reflexivity|]. now rewrite IHl1, app_assoc. Qed.

Lemma writes_app a b : writes (a ++ b) = writes a ++ writes b.
Proof. apply flat_map_app'. Qed.
Lemma removes_app a b : removes (a ++ b) = removes a ++ removes b.
Proof. apply flat_map_app'. Qed.

Lemma writes_flat_map {A} (f : A -> list event) l :
  writes (flat_map f l) = flat_map (fun x => writes (f x)) l.
Proof. induction l; cbn; [reflexivity|]. now rewrite writes_app, IHl. Qed.
Lemma removes_flat_map {A} (f : A -> list event) l :
  removes (flat_map f l) = flat_map (fun x => removes (f x)) l.
Proof. induction l; cbn; [reflexivity|]. now rewrite removes_app, IHl. Qed.

Definition stem_of (out : path) (name : str) : path := if is_nil name then out else join out name.
Definition kids (ls ss ts : list board) : bool := nonempty ls || nonempty ss || nonempty ts.
Definition lstem stem (ss ts : list board) := sub (nonempty ss || nonempty ts) stem s_layers.
Definition sstem stem (ls ts : list board) := sub (nonempty ls || nonempty ts) stem s_scenarios.
Definition tstem stem (ls ss : list board) := sub (nonempty ls || nonempty ss) stem s_steps.
Definition own_file ext stem (ls ss ts : list board) : path :=
  file_of ext (if kids ls ss ts then join stem s_index else stem).

Lemma writes_render ext out name fo ls ss ts :
  writes (render ext out (Board name fo ls ss ts)) =
    let stem := stem_of out name in
    flat_map (fun c => writes (render ext (lstem stem ss ts) c)) ls
    ++ flat_map (fun c => writes (render ext (sstem stem ls ts) c)) ss
    ++ flat_map (fun c => writes (render ext (tstem stem ls ss) c)) ts
    ++ (if fo then [] else [own_file ext stem ls ss ts]).
Proof.
  cbn [render]. fold (stem_of out name). cbv zeta.
  rewrite !writes_app, !writes_flat_map.
  assert (E : forall (b : bool) p, writes (if b then [RemoveAll p] else []) = []) by (intros [] ?; reflexivity).
  rewrite E. cbn [app]. unfold lstem, sstem, tstem, own_file, kids. destruct fo; reflexivity.
Qed.

Lemma removes_render ext out name fo ls ss ts :
  removes (render ext out (Board name fo ls ss ts)) =
    let stem := stem_of out name in
    (if kids ls ss ts then [stem] else [])
    ++ flat_map (fun c => removes (render ext (lstem stem ss ts) c)) ls
    ++ flat_map (fun c => removes (render ext (sstem stem ls ts) c)) ss
    ++ flat_map (fun c => removes (render ext (tstem stem ls ss) c)) ts.
Proof.
  cbn [render]. fold (stem_of out name). cbv zeta.
  rewrite !removes_app, !removes_flat_map.
  assert (E : forall (b : bool) p, removes (if b then [] else [WriteFile p]) = []) by (intros [] ?; reflexivity).
  rewrite E, app_nil_r. unfold lstem, sstem, tstem, kids.
  destruct (nonempty ls || nonempty ss || nonempty ts); reflexivity.
Qed.

(* ---------- induction principle for the nested board type ---------- *)

Section board_ind_nested.
  Variable P : board -> Prop.
  Hypothesis H : forall n fo ls ss ts, Forall P ls -> Forall P ss -> Forall P ts -> P (Board n fo ls ss ts).
  Fixpoint board_ind' (b : board) : P b :=
    match b with
    | Board n fo ls ss ts =>
        let go := fix go (l : list board) : Forall P l :=
          match l with
          | [] => Forall_nil P
          | x :: l' => Forall_cons x (board_ind' x) (go l')
          end in
        H n fo ls ss ts (go ls) (go ss) (go ts)
    end.
End board_ind_nested.

(* ---------- guard, as a proposition ---------- *)

Lemma safe_below_unfold ext n fo ls ss ts :
  safe_below ext (Board n fo ls ss ts) = true ->
  Forall (fun c => name_ok ext (bname c)) (ls ++ ss ++ ts)
  /\ nodup_b (map bname (ls ++ ss ++ ts)) = true
  /\ Forall (fun c => safe_below ext c = true) ls
  /\ Forall (fun c => safe_below ext c = true) ss
  /\ Forall (fun c => safe_below ext c = true) ts.
Proof.
  cbn [safe_below]. rewrite !andb_true_iff, !forallb_forall.
  intros [[[[H1 H2] H3] H4] H5]. repeat split; auto; apply Forall_forall; auto.
  intros c Hc. apply name_ok_b_iff. auto.
Qed.

(* ---------- T1/T2: everything lies inside the location of the board ---------- *)

Definition under (s p : path) : Prop := exists r, r <> [] /\ p = s ++ r.

Lemma under_ext s l p : under (s ++ l) p -> under s p.
Proof.
  intros [r [Hr ->]]. exists (l ++ r). split.
  - intro E. apply app_eq_nil in E as [_ E]. contradiction.
  - now rewrite app_assoc.
Qed.

Lemma sub_shape c stem k : k = s_layers \/ k = s_scenarios \/ k = s_steps ->
  sub c stem k = stem \/ sub c stem k = stem ++ [k].
Proof.
  intros Hk. unfold sub. destruct c; [right|now left].
  destruct Hk as [->|[->| ->]]; reflexivity.
Qed.

(* what a named, admissible child board writes: its own file or something below its directory *)
Definition W (ext : str) (s : path) (n : str) (p : path) : Prop :=
  p = s ++ [n ++ ext] \/ under (s ++ [n]) p.

Lemma render_inside ext : forall b, safe_below ext b = true -> forall out,
  let stem := stem_of out (bname b) in
  (forall p, In p (writes (render ext out b)) -> p = file_of ext stem \/ under stem p)
  /\ (forall q, In q (removes (render ext out b)) -> exists r, q = stem ++ r).
Proof.
  induction b as [n fo ls ss ts IHl IHs IHt] using board_ind'.
  intros Hsafe out. cbn [bname]. cbv zeta.
  destruct (safe_below_unfold _ _ _ _ _ _ Hsafe) as [Hnames [_ [Sl [Ss St]]]].
  apply Forall_app in Hnames as [Nl Hnames]. apply Forall_app in Hnames as [Ns Nt].
  set (stem := stem_of out n).
  (* a child rendered at cs, where cs = stem or stem ++ [k] *)
  assert (Child : forall (l : list board) cs,
            Forall (fun c => safe_below ext c = true -> forall out,
                      let stem := stem_of out (bname c) in
                      (forall p, In p (writes (render ext out c)) -> p = file_of ext stem \/ under stem p)
                      /\ (forall q, In q (removes (render ext out c)) -> exists r, q = stem ++ r)) l ->
            Forall (fun c => name_ok ext (bname c)) l ->
            Forall (fun c => safe_below ext c = true) l ->
            (cs = stem \/ exists k, cs = stem ++ [k]) ->
            (forall p, In p (flat_map (fun c => writes (render ext cs c)) l) -> under stem p)
            /\ (forall q, In q (flat_map (fun c => removes (render ext cs c)) l) -> exists r, q = stem ++ r)).
  { intros l cs IH Nk Sk Hcs.
    assert (Hpre : exists l0, cs = stem ++ l0).
    { destruct Hcs as [->|[k ->]]; [exists []; now rewrite app_nil_r | now exists [k]]. }
    destruct Hpre as [l0 ->].
    split.
    - intros p Hp. apply in_flat_map in Hp as [c [Hc Hp]].
      rewrite Forall_forall in IH, Nk, Sk.
      destruct (IH c Hc (Sk c Hc) (stem ++ l0)) as [Hw _]. cbv zeta in Hw.
      assert (Es : stem_of (stem ++ l0) (bname c) = (stem ++ l0) ++ [bname c]).
      { unfold stem_of. pose proof (Nk c Hc) as Hn. destruct (bname c) eqn:En; [destruct Hn; contradiction|].
        cbn [is_nil]. rewrite <- En in *. now apply (join_ok ext). }
      rewrite Es in Hw. destruct (Hw p Hp) as [-> | Hu].
      + rewrite file_of_snoc. exists (l0 ++ [bname c ++ ext]). split.
        * intro E. apply app_eq_nil in E as [_ E]. discriminate.
        * now rewrite app_assoc.
      + rewrite <- app_assoc in Hu. now apply under_ext in Hu.
    - intros q Hq. apply in_flat_map in Hq as [c [Hc Hq]].
      rewrite Forall_forall in IH, Nk, Sk.
      destruct (IH c Hc (Sk c Hc) (stem ++ l0)) as [_ Hr]. cbv zeta in Hr.
      destruct (Hr q Hq) as [r ->].
      assert (Es : stem_of (stem ++ l0) (bname c) = (stem ++ l0) ++ [bname c]).
      { unfold stem_of. pose proof (Nk c Hc) as Hn. destruct (bname c) eqn:En; [destruct Hn; contradiction|].
        cbn [is_nil]. rewrite <- En in *. now apply (join_ok ext). }
      rewrite Es. exists (l0 ++ [bname c] ++ r). now rewrite <- !app_assoc. }
  assert (Hsub : forall c k, k = s_layers \/ k = s_scenarios \/ k = s_steps ->
                   sub c stem k = stem \/ exists k', sub c stem k = stem ++ [k']).
  { intros c k Hk. destruct (sub_shape c stem k Hk) as [E|E]; [now left | right; now exists k]. }
  destruct (Child ls (lstem stem ss ts) IHl Nl Sl (Hsub _ _ (or_introl eq_refl))) as [Wl Rl].
  destruct (Child ss (sstem stem ls ts) IHs Ns Ss (Hsub _ _ (or_intror (or_introl eq_refl)))) as [Ws Rs].
  destruct (Child ts (tstem stem ls ss) IHt Nt St (Hsub _ _ (or_intror (or_intror eq_refl)))) as [Wt Rt].
  split.
  - intros p Hp. rewrite writes_render in Hp. cbv zeta in Hp. fold stem in Hp.
    apply in_app_or in Hp as [Hp|Hp]; [right; now apply Wl|].
    apply in_app_or in Hp as [Hp|Hp]; [right; now apply Ws|].
    apply in_app_or in Hp as [Hp|Hp]; [right; now apply Wt|].
    destruct fo; [contradiction|]. destruct Hp as [<-|[]].
    unfold own_file. destruct (kids ls ss ts).
    + right. rewrite join_index, file_of_snoc. exists [s_index ++ ext]. split; [discriminate|reflexivity].
    + now left.
  - intros q Hq. rewrite removes_render in Hq. cbv zeta in Hq. fold stem in Hq.
    apply in_app_or in Hq as [Hq|Hq].
    { destruct (kids ls ss ts); [|contradiction]. destruct Hq as [<-|[]]. exists []. now rewrite app_nil_r. }
    apply in_app_or in Hq as [Hq|Hq]; [now apply Rl|].
    apply in_app_or in Hq as [Hq|Hq]; [now apply Rs|now apply Rt].
Qed.

(* ---------- T3: one distinct file per board ---------- *)

Lemma length_flat_map {A B} (f : A -> list B) l :
  length (flat_map f l) = list_sum (map (fun x => length (f x)) l).
Proof. induction l; cbn; [reflexivity|]. now rewrite app_length, IHl. Qed.

Lemma writes_count ext : forall b out, length (writes (render ext out b)) = count_boards b.
Proof.
  induction b as [n fo ls ss ts IHl IHs IHt] using board_ind'. intro out.
  rewrite writes_render. cbv zeta. rewrite !app_length, !length_flat_map. cbn [count_boards].
  assert (E : forall (l : list board) cs, Forall (fun b => forall out, length (writes (render ext out b)) = count_boards b) l ->
            map (fun x => length (writes (render ext cs x))) l = map count_boards l).
  { intros l cs Hl. apply map_ext_in. intros c Hc. rewrite Forall_forall in Hl. now apply Hl. }
  rewrite (E ls _ IHl), (E ss _ IHs), (E ts _ IHt). destruct fo; cbn [length]; lia.
Qed.

Lemma NoDup_app_intro {A} (a b : list A) :
  NoDup a -> NoDup b -> (forall x, In x a -> In x b -> False) -> NoDup (a ++ b).
Proof.
  induction a as [|x a IH]; intros Ha Hb Hd; [exact Hb|]. cbn. inversion Ha; subst. constructor.
  - intro Hin. apply in_app_or in Hin as [Hin|Hin]; [contradiction|]. apply (Hd x); [now left|exact Hin].
  - apply IH; auto. intros y Hy. apply Hd. now right.
Qed.

Lemma NoDup_app_inv {A} (a b : list A) : NoDup (a ++ b) -> NoDup a /\ NoDup b.
Proof.
  induction a as [|x a IH]; cbn; intro H; [split; [constructor|exact H]|].
  inversion H as [|? ? Hx H']; subst. destruct (IH H') as [Ha Hb]. split; [|exact Hb].
  constructor; [|exact Ha]. intro Hin. apply Hx. apply in_or_app. now left.
Qed.

Lemma NoDup_flat_map {A B} (f : A -> list B) (key : A -> str) l :
  (forall x, In x l -> NoDup (f x)) ->
  NoDup (map key l) ->
  (forall x y p, In x l -> In y l -> key x <> key y -> In p (f x) -> In p (f y) -> False) ->
  NoDup (flat_map f l).
Proof.
  induction l as [|x l IH]; intros Hn Hk Hd; cbn; [constructor|].
  cbn in Hk. inversion Hk as [|? ? Hx Hk']; subst.
  apply NoDup_app_intro.
  - apply Hn. now left.
  - apply IH; auto.
    + intros y Hy. apply Hn. now right.
    + intros a b p Ha Hb. apply Hd; now right.
  - intros p Hp Hq. apply in_flat_map in Hq as [y [Hy Hq]].
    apply (Hd x y p); auto; [now left | now right|].
    intro E. apply Hx. rewrite E. now apply in_map.
Qed.

Lemma nodup_b_NoDup l : nodup_b l = true -> NoDup l.
Proof.
  induction l as [|x l IH]; cbn; intro H; [constructor|].
  apply andb_prop in H as [H1 H2]. constructor; [|now apply IH].
  intro Hin. apply negb_true_iff in H1. rewrite <- not_true_iff_false in H1. apply H1.
  apply existsb_exists. exists x. split; [exact Hin | apply str_eqb_refl].
Qed.

Lemma W_under ext cs n p : W ext cs n p -> under cs p.
Proof.
  intros [->|H].
  - exists [n ++ ext]. split; [discriminate|reflexivity].
  - now apply under_ext in H.
Qed.

Lemma W_disjoint ext cs n1 n2 p : n1 <> n2 -> W ext cs n1 p -> W ext cs n2 p -> False.
Proof.
  intros Hn [E1|[r1 [Hr1 E1]]] [E2|[r2 [Hr2 E2]]]; subst p.
  - apply app_inv_head in E2. injection E2 as E2. apply app_inv_tail in E2. congruence.
  - rewrite <- app_assoc in E2. apply app_inv_head in E2. cbn in E2. injection E2 as Ha Hb.
    apply Hr2. now symmetry.
  - rewrite <- app_assoc in E2. apply app_inv_head in E2. cbn in E2. injection E2 as Ha Hb.
    now apply Hr1.
  - rewrite <- !app_assoc in E2. apply app_inv_head in E2. cbn in E2. injection E2 as Ha Hb.
    now apply Hn.
Qed.

Lemma under_kinds_disjoint stem k1 k2 p : k1 <> k2 -> under (stem ++ [k1]) p -> under (stem ++ [k2]) p -> False.
Proof.
  intros Hk [r1 [_ ->]] [r2 [_ E]]. rewrite <- !app_assoc in E. apply app_inv_head in E.
  cbn in E. injection E as E _. congruence.
Qed.

(* a child's writes, for a child with an admissible name *)
Lemma child_writes_W ext c cs p :
  safe_below ext c = true -> name_ok ext (bname c) -> In p (writes (render ext cs c)) -> W ext cs (bname c) p.
Proof.
  intros Hs Hn Hp. destruct (render_inside ext c Hs cs) as [Hw _]. cbv zeta in Hw.
  assert (Es : stem_of cs (bname c) = cs ++ [bname c]).
  { unfold stem_of. destruct (bname c) eqn:En; [destruct Hn; contradiction|].
    cbn [is_nil]. rewrite <- En in *. now apply (join_ok ext). }
  rewrite Es in Hw. destruct (Hw p Hp) as [->|Hu].
  - left. apply file_of_snoc.
  - now right.
Qed.

Lemma own_index_not_child ext stem cs nc p :
  (cs = stem \/ exists k, cs = stem ++ [k]) -> name_ok ext nc -> W ext cs nc p ->
  p <> stem ++ [s_index ++ ext].
Proof.
  intros Hcs Hn HW E. subst p. destruct Hcs as [->|[k ->]].
  - destruct HW as [E|[r [Hr E]]].
    + apply app_inv_head in E. injection E as E. change (s_index ++ ext = nc ++ ext) in E.
      apply app_inv_tail in E. destruct Hn. congruence.
    + rewrite <- app_assoc in E. apply app_inv_head in E. cbn in E. injection E as Ha Hb. now apply Hr.
  - destruct HW as [E|[r [Hr E]]].
    + rewrite <- app_assoc in E. apply app_inv_head in E. discriminate.
    + rewrite <- !app_assoc in E. apply app_inv_head in E. discriminate.
Qed.

Lemma kind_strs_distinct : s_layers <> s_scenarios /\ s_layers <> s_steps /\ s_scenarios <> s_steps.
Proof. repeat split; discriminate. Qed.

Lemma render_nodup ext : forall b, safe_below ext b = true -> forall out, NoDup (writes (render ext out b)).
Proof.
  induction b as [n fo ls ss ts IHl IHs IHt] using board_ind'.
  intros Hsafe out.
  destruct (safe_below_unfold _ _ _ _ _ _ Hsafe) as [Hnames [Hnd [Sl [Ss St]]]].
  apply Forall_app in Hnames as [Nl Hnames]. apply Forall_app in Hnames as [Ns Nt].
  apply nodup_b_NoDup in Hnd. rewrite !map_app in Hnd.
  destruct (NoDup_app_inv _ _ Hnd) as [Dl Hnd_st].
  destruct (NoDup_app_inv _ _ Hnd_st) as [Ds Dt].
  rewrite writes_render. cbv zeta. set (stem := stem_of out n).
  (* per kind: NoDup of the children's writes, and they are all W of their child *)
  assert (Kind : forall (l : list board) cs,
            Forall (fun b => safe_below ext b = true -> forall out, NoDup (writes (render ext out b))) l ->
            Forall (fun c => name_ok ext (bname c)) l -> Forall (fun c => safe_below ext c = true) l ->
            NoDup (map bname l) ->
            NoDup (flat_map (fun c => writes (render ext cs c)) l)
            /\ (forall p, In p (flat_map (fun c => writes (render ext cs c)) l) ->
                  exists c, In c l /\ W ext cs (bname c) p)).
  { intros l cs IH Nk Sk Dk. rewrite Forall_forall in IH, Nk, Sk. split.
    - apply (NoDup_flat_map _ bname); [ | exact Dk | ].
      + intros c Hc. exact (IH c Hc (Sk c Hc) cs).
      + intros x y p Hx Hy Hxy Hpx Hpy.
        apply (W_disjoint ext cs (bname x) (bname y) p Hxy); apply child_writes_W; auto.
    - intros p Hp. apply in_flat_map in Hp as [c [Hc Hp]]. exists c. split; [exact Hc|].
      apply child_writes_W; auto. }
  destruct (Kind ls (lstem stem ss ts) IHl Nl Sl Dl) as [NDl WLl].
  destruct (Kind ss (sstem stem ls ts) IHs Ns Ss Ds) as [NDs WLs].
  destruct (Kind ts (tstem stem ls ss) IHt Nt St Dt) as [NDt WLt].
  destruct kind_strs_distinct as [Kls [Klt Kst]].
  (* stems of two kinds that both have boards end in different segments *)
  assert (NE : forall (l : list board) (p : path) (f : board -> list path),
            In p (flat_map f l) -> nonempty l = true).
  { intros l p f Hp. destruct l; [contradiction|reflexivity]. }
  rewrite Forall_forall in Nl, Ns, Nt.
  apply NoDup_app_intro; [exact NDl | |].
  2:{ (* layers vs the rest *)
    intros p Hp Hq. pose proof (NE _ _ _ Hp) as El. destruct (WLl p Hp) as [c [Hc HW]].
    apply in_app_or in Hq as [Hq|Hq]; [|apply in_app_or in Hq as [Hq|Hq]].
    - pose proof (NE _ _ _ Hq) as Es. destruct (WLs p Hq) as [c' [Hc' HW']].
      unfold lstem, sstem, sub in HW, HW'. rewrite El, Es in *. cbn [orb] in *.
      rewrite join_layers in HW. rewrite join_scenarios in HW'.
      apply W_under in HW, HW'. exact (under_kinds_disjoint _ _ _ _ Kls HW HW').
    - pose proof (NE _ _ _ Hq) as Et. destruct (WLt p Hq) as [c' [Hc' HW']].
      unfold lstem, tstem, sub in HW, HW'. rewrite El, Et in *. rewrite ?orb_true_r in *. cbn [orb] in *.
      rewrite join_layers in HW. rewrite join_steps in HW'.
      apply W_under in HW, HW'. exact (under_kinds_disjoint _ _ _ _ Klt HW HW').
    - destruct fo; [contradiction|]. destruct Hq as [<-|[]].
      unfold own_file, kids in HW. rewrite El in HW. cbn [orb] in HW. rewrite join_index, file_of_snoc in HW.
      refine (own_index_not_child ext stem _ _ _ _ (Nl c Hc) HW eq_refl).
      unfold lstem. destruct (sub_shape (nonempty ss || nonempty ts) stem s_layers (or_introl eq_refl)) as [E|E];
        rewrite E; [now left | right; now eexists]. }
  apply NoDup_app_intro; [exact NDs | |].
  2:{ intros p Hp Hq. pose proof (NE _ _ _ Hp) as Es. destruct (WLs p Hp) as [c [Hc HW]].
    apply in_app_or in Hq as [Hq|Hq].
    - pose proof (NE _ _ _ Hq) as Et. destruct (WLt p Hq) as [c' [Hc' HW']].
      unfold sstem, tstem, sub in HW, HW'. rewrite Es, Et in *. rewrite ?orb_true_r in *. cbn [orb] in *.
      rewrite join_scenarios in HW. rewrite join_steps in HW'.
      apply W_under in HW, HW'. exact (under_kinds_disjoint _ _ _ _ Kst HW HW').
    - destruct fo; [contradiction|]. destruct Hq as [<-|[]].
      unfold own_file, kids in HW. rewrite Es in HW. rewrite ?orb_true_r in HW. cbn [orb] in HW.
      rewrite join_index, file_of_snoc in HW.
      refine (own_index_not_child ext stem _ _ _ _ (Ns c Hc) HW eq_refl).
      unfold sstem. destruct (sub_shape (nonempty ls || nonempty ts) stem s_scenarios (or_intror (or_introl eq_refl))) as [E|E];
        rewrite E; [now left | right; now eexists]. }
  apply NoDup_app_intro; [exact NDt | |].
  - destruct fo; constructor; [intros []|constructor].
  - intros p Hp Hq. pose proof (NE _ _ _ Hp) as Et. destruct (WLt p Hp) as [c [Hc HW]].
    destruct fo; [contradiction|]. destruct Hq as [<-|[]].
    unfold own_file, kids in HW. rewrite Et in HW. rewrite ?orb_true_r in HW. cbn [orb] in HW.
    rewrite join_index, file_of_snoc in HW.
    refine (own_index_not_child ext stem _ _ _ _ (Nt c Hc) HW eq_refl).
    unfold tstem. destruct (sub_shape (nonempty ls || nonempty ss) stem s_steps (or_intror (or_intror eq_refl))) as [E|E];
      rewrite E; [now left | right; now eexists].
Qed.

(* ---------- prefixes ---------- *)

Definition prefix (p q : path) : Prop := exists t, q = p ++ t.

Lemma prefix_b_iff p q : prefix_b p q = true <-> prefix p q.
Proof.
  revert q. induction p as [|x p IH]; intro q; cbn.
  - split; [intros _; now exists q | reflexivity].
  - destruct q as [|y q]; split; try discriminate.
    + intros [t E]. discriminate.
    + intro H. apply andb_prop in H as [H1 H2]. apply str_eqb_eq in H1. subst y.
      apply IH in H2 as [t ->]. now exists t.
    + intros [t E]. cbn in E. injection E as -> ->. rewrite str_eqb_refl. cbn.
      apply IH. now exists t.
Qed.

Lemma prefix_refl p : prefix p p.
Proof. exists []. now rewrite app_nil_r. Qed.

Lemma prefix_trans a b c : prefix a b -> prefix b c -> prefix a c.
Proof. intros [t ->] [u ->]. exists (t ++ u). now rewrite app_assoc. Qed.

(* two prefixes of the same path are comparable *)
Lemma prefix_comparable : forall a b c, prefix a c -> prefix b c -> prefix a b \/ prefix b a.
Proof.
  induction a as [|x a IH]; intros b c Ha Hb.
  - left. now exists b.
  - destruct b as [|y b]; [right; now exists (x :: a)|].
    destruct Ha as [t Ea], Hb as [u Eb]. subst c. cbn in Eb. injection Eb as -> Eb.
    destruct (IH b (a ++ t)) as [[v ->]|[v ->]]; [now exists t | now exists u | left; now exists v | right; now exists v].
Qed.

Lemma prefixes_aux_in acc p d : In d (prefixes_aux acc p) <-> exists a b, a <> [] /\ p = a ++ b /\ d = acc ++ a.
Proof.
  revert acc. induction p as [|s p IH]; intro acc; cbn [prefixes_aux].
  - split; [intros [] | intros [a [b [Ha [E _]]]]]. symmetry in E. apply app_eq_nil in E as [E _]. contradiction.
  - cbn [In]. rewrite IH. split.
    + intros [<-|[a [b [Ha [-> ->]]]]].
      * exists [s], p. repeat split; discriminate.
      * exists (s :: a), b. repeat split; [discriminate | now rewrite <- app_assoc].
    + intros [a [b [Ha [E ->]]]]. destruct a as [|s' a]; [contradiction|]. cbn in E. injection E as <- ->.
      destruct a as [|s2 a]; [now left|]. right. exists (s2 :: a), b. repeat split; [discriminate|].
      now rewrite <- app_assoc.
Qed.

Lemma prefixes_in p d : In d (prefixes p) <-> d <> [] /\ prefix d p.
Proof.
  unfold prefixes. rewrite prefixes_aux_in. cbn. split.
  - intros [a [b [Ha [-> ->]]]]. split; [exact Ha | now exists b].
  - intros [Hd [t ->]]. now exists d, t.
Qed.

Lemma removelast_prefix p : prefix (removelast p) p.
Proof.
  destruct p as [|x p] using rev_ind; [apply prefix_refl|]. rewrite removelast_last. now exists [x].
Qed.

Lemma fold_add_dir_in ds0 : forall ds d, In d (fold_left add_dir ds0 ds) <-> In d ds \/ In d ds0.
Proof.
  induction ds0 as [|x ds0 IH]; intros ds d; cbn [fold_left].
  - cbn. tauto.
  - rewrite IH. unfold add_dir. destruct (existsb (path_eqb x) ds) eqn:E.
    + apply existsb_exists in E as [y [Hy Exy]]. apply path_eqb_eq in Exy. subst y.
      cbn. split; [tauto|]. intros [H|[<-|H]]; tauto.
    + rewrite in_app_iff. cbn. tauto.
Qed.

(* ---------- T4: the effects of a run are confined to the location ---------- *)

Definition inside_file (ext : str) (out p : path) : Prop := p = file_of ext out \/ prefix out p.

Lemma inside_file_b_iff ext out p : inside_file_b ext out p = true <-> inside_file ext out p.
Proof. unfold inside_file_b, inside_file. now rewrite orb_true_iff, path_eqb_eq, prefix_b_iff. Qed.

(* all ancestors of the output directory exist as directories *)
Definition Anc (out : path) (f : fsys) : Prop := forall d, In d (prefixes (removelast out)) -> In d (dirs f).

Lemma ancestors_exist_Anc out f : ancestors_exist out f = true -> Anc out f.
Proof.
  unfold ancestors_exist, Anc. rewrite forallb_forall. intros H d Hd. specialize (H d Hd).
  unfold is_dir in H. apply existsb_exists in H as [y [Hy E]]. apply path_eqb_eq in E. now subst.
Qed.

Definition ev_inside (ext : str) (out : path) (e : event) : Prop :=
  match e with WriteFile p => inside_file ext out p | RemoveAll q => prefix out q | Refuse => True end.

Lemma file_of_parent ext out : out <> [] -> removelast (file_of ext out) = removelast out.
Proof.
  intro H. unfold file_of. destruct out as [|x o]; [contradiction|]. now rewrite removelast_last.
Qed.

(* a directory created by MkdirAll for an inside file is inside, or an ancestor of the location *)
Lemma mkdir_targets ext out p d : inside_file ext out p -> In d (prefixes (removelast p)) ->
  prefix out d \/ In d (prefixes (removelast out)).
Proof.
  intros Hin Hd. apply prefixes_in in Hd as [Hne Hd].
  destruct Hin as [->|Hp].
  - destruct out as [|x o] eqn:Eo.
    + destruct Hd as [t E]. destruct d; [contradiction|discriminate].
    + rewrite <- Eo in *. rewrite file_of_parent in Hd by (rewrite Eo; discriminate).
      right. apply prefixes_in. now split.
  - pose proof (prefix_trans _ _ _ Hd (removelast_prefix p)) as Hdp.
    destruct (prefix_comparable _ _ _ Hp Hdp) as [H|H]; [now left|].
    (* d is a prefix of out *)
    destruct H as [t Et]. destruct t as [|y t] using rev_ind.
    + left. rewrite app_nil_r in Et. subst. apply prefix_refl.
    + right. apply prefixes_in. split; [exact Hne|]. subst out. rewrite app_assoc, removelast_last. now exists t.
Qed.

Lemma Anc_not_inside out d : In d (prefixes (removelast out)) -> ~ prefix out d.
Proof.
  intros Hd [t Et]. apply prefixes_in in Hd as [Hne [u Eu]]. subst d.
  destruct out as [|x o] using rev_ind.
  - cbn in Eu, Hne. symmetry in Eu. apply app_eq_nil in Eu as [Eu _]. contradiction.
  - rewrite removelast_last in Eu. apply (f_equal (@length str)) in Eu. rewrite !app_length in Eu. cbn in Eu. lia.
Qed.

Section Step.
  Variables (ext : str) (out : path).

  Lemma step_files_new f e en : ev_inside ext out e ->
    In en (files (fst (step f e))) -> inside_file ext out (fst en) \/ In en (files f).
  Proof.
    destruct e as [q|p|]; cbn [step ev_inside]; intros Hin Hen; [| |now right].
    - cbn in Hen. apply filter_In in Hen. tauto.
    - destruct (existsb (is_file f) (prefixes (removelast p))); [now right|].
      destruct (is_dir f p); cbn in Hen; [now right|].
      apply in_app_or in Hen as [Hen|[<-|[]]]; [apply filter_In in Hen; tauto | now left].
  Qed.

  Lemma step_files_kept f e en : ev_inside ext out e ->
    In en (files f) -> inside_file ext out (fst en) \/ In en (files (fst (step f e))).
  Proof.
    destruct e as [q|p|]; cbn [step ev_inside]; intros Hin Hen; [| |now right].
    - destruct (prefix_b q (fst en)) eqn:E.
      + left. right. apply prefix_b_iff in E. exact (prefix_trans _ _ _ Hin E).
      + right. cbn. apply filter_In. split; [exact Hen | now rewrite E].
    - destruct (existsb (is_file f) (prefixes (removelast p))); [now right|].
      destruct (is_dir f p); cbn; [now right|].
      destruct (path_eqb (fst en) p) eqn:E.
      + left. apply path_eqb_eq in E. now rewrite E.
      + right. apply in_or_app. left. apply filter_In. split; [exact Hen | now rewrite E].
  Qed.

  Lemma step_dirs_new f e d : ev_inside ext out e -> Anc out f ->
    In d (dirs (fst (step f e))) -> prefix out d \/ In d (dirs f).
  Proof.
    destruct e as [q|p|]; cbn [step ev_inside]; intros Hin HA Hd; [| |now right].
    - cbn in Hd. apply filter_In in Hd. tauto.
    - destruct (existsb (is_file f) (prefixes (removelast p))); [now right|].
      assert (H : In d (fold_left add_dir (prefixes (removelast p)) (dirs f)) -> prefix out d \/ In d (dirs f)).
      { intro H. apply fold_add_dir_in in H as [H|H]; [now right|].
        destruct (mkdir_targets ext out p d Hin H) as [H'|H']; [now left | right; now apply HA]. }
      destruct (is_dir f p); cbn in Hd; auto.
  Qed.

  Lemma step_dirs_kept f e d : ev_inside ext out e ->
    In d (dirs f) -> prefix out d \/ In d (dirs (fst (step f e))).
  Proof.
    destruct e as [q|p|]; cbn [step ev_inside]; intros Hin Hd; [| |now right].
    - destruct (prefix_b q d) eqn:E.
      + left. apply prefix_b_iff in E. exact (prefix_trans _ _ _ Hin E).
      + right. cbn. apply filter_In. split; [exact Hd | now rewrite E].
    - destruct (existsb (is_file f) (prefixes (removelast p))); [now right|].
      assert (H : In d (fold_left add_dir (prefixes (removelast p)) (dirs f))) by (apply fold_add_dir_in; now left).
      destruct (is_dir f p); cbn; now right.
  Qed.

  Lemma step_Anc f e : ev_inside ext out e -> Anc out f -> Anc out (fst (step f e)).
  Proof.
    intros Hin HA d Hd. destruct (step_dirs_kept f e d Hin (HA d Hd)) as [H|H]; [|exact H].
    exfalso. exact (Anc_not_inside out d Hd H).
  Qed.

  (* the four facts, lifted to a whole run (which may stop early on an error) *)
  Lemma run_confined : forall es f, Forall (ev_inside ext out) es -> Anc out f ->
    let f' := fst (run es f) in
    (forall en, In en (files f') -> inside_file ext out (fst en) \/ In en (files f))
    /\ (forall en, In en (files f) -> inside_file ext out (fst en) \/ In en (files f'))
    /\ (forall d, In d (dirs f') -> prefix out d \/ In d (dirs f))
    /\ (forall d, In d (dirs f) -> prefix out d \/ In d (dirs f')).
  Proof.
    induction es as [|e es IH]; intros f Hes HA; cbn [run].
    - cbn. repeat split; auto.
    - inversion Hes as [|? ? He Hes']; subst.
      pose proof (step_files_new f e) as A1. pose proof (step_files_kept f e) as A2.
      pose proof (step_dirs_new f e) as A3. pose proof (step_dirs_kept f e) as A4.
      pose proof (step_Anc f e He HA) as A5.
      destruct (step f e) as [f1 ok] eqn:Es. cbn [fst] in *.
      destruct ok.
      + destruct (IH f1 Hes' A5) as [B1 [B2 [B3 B4]]]. cbv zeta in *. repeat split.
        * intros en H. destruct (B1 en H) as [H'|H']; [now left | now apply A1].
        * intros en H. destruct (A2 en He H) as [H'|H']; [now left | now apply B2].
        * intros d H. destruct (B3 d H) as [H'|H']; [now left | now apply A3].
        * intros d H. destruct (A4 d He H) as [H'|H']; [now left | now apply B4].
      + cbn [fst]. repeat split; auto.
  Qed.
End Step.

(* the events of a render with safe names are inside the location *)
Lemma render_events_inside ext out root : safe_names ext root = true ->
  Forall (ev_inside ext out) (render ext out root).
Proof.
  intro Hs. unfold safe_names in Hs. apply andb_prop in Hs as [Hn Hs].
  destruct (render_inside ext root Hs out) as [Hw Hr]. cbv zeta in *.
  assert (En : stem_of out (bname root) = out) by (unfold stem_of; now rewrite Hn).
  rewrite En in *. apply Forall_forall. intros [q|p|] He; [| |exact I].
  - cbn. apply Hr. unfold removes. apply in_flat_map. exists (RemoveAll q). split; [exact He | now left].
  - cbn. destruct (Hw p) as [->|[r [_ ->]]].
    + unfold writes. apply in_flat_map. exists (WriteFile p). split; [exact He | now left].
    + now left.
    + right. now exists r.
Qed.

Lemma entry_eqb_refl e : entry_eqb e e = true.
Proof. unfold entry_eqb. rewrite N.eqb_refl, andb_true_r. now apply path_eqb_eq. Qed.

(* fs-level statement of "nothing outside the location is created, overwritten or deleted",
   with the very predicates Check.v evaluates on the real listings *)
Lemma events_confined ext out es f :
  Forall (ev_inside ext out) es -> ancestors_exist out f = true ->
  let f' := fst (run es f) in
  no_creation_outside ext out (files f) (files f') (dirs f) (dirs f') = true
  /\ no_deletion_outside ext out (files f) (files f') (dirs f) (dirs f') = true.
Proof.
  intros Hes HA. cbv zeta.
  destruct (run_confined ext out _ f Hes (ancestors_exist_Anc _ _ HA))
    as [B1 [B2 [B3 B4]]]. cbv zeta in *.
  unfold no_creation_outside, no_deletion_outside. rewrite !andb_true_iff, !forallb_forall. repeat split.
  - intros en H. apply orb_true_iff. destruct (B1 en H) as [H'|H'].
    + left. now apply inside_file_b_iff.
    + right. apply existsb_exists. exists en. split; [exact H' | apply entry_eqb_refl].
  - intros d H. apply orb_true_iff. destruct (B3 d H) as [H'|H'].
    + left. now apply prefix_b_iff.
    + right. apply existsb_exists. exists d. split; [exact H' | now apply path_eqb_eq].
  - intros en H. apply orb_true_iff. destruct (B2 en H) as [H'|H'].
    + left. now apply inside_file_b_iff.
    + right. apply existsb_exists. exists en. split; [exact H' | now apply path_eqb_eq].
  - intros d H. apply orb_true_iff. destruct (B4 d H) as [H'|H'].
    + left. now apply prefix_b_iff.
    + right. apply existsb_exists. exists d. split; [exact H' | now apply path_eqb_eq].
Qed.

(* ---------- the '..' guard (fix b8f1f57d8) ---------- *)

Lemma name_ok_no_dotdot ext n : name_ok ext n -> has_dotdot n = false.
Proof.
  intros [_ H2 _ H4 _ _]. unfold has_dotdot. rewrite split_slash_noslash by exact H2. cbn [existsb].
  apply str_eqb_neq in H4. now rewrite H4.
Qed.

Lemma safe_below_names ext : forall b, safe_below ext b = true -> Forall (name_ok ext) (names_below b).
Proof.
  induction b as [n fo ls ss ts Il Is It] using board_ind'. intro Hs.
  destruct (safe_below_unfold _ _ _ _ _ _ Hs) as [Hnames [_ [Sl [Ss St]]]].
  apply Forall_app in Hnames as [Nl Hnames]. apply Forall_app in Hnames as [Ns Nt].
  assert (K : forall l : list board,
            Forall (fun b => safe_below ext b = true -> Forall (name_ok ext) (names_below b)) l ->
            Forall (fun c => name_ok ext (bname c)) l -> Forall (fun c => safe_below ext c = true) l ->
            Forall (name_ok ext) (flat_map (fun c => bname c :: names_below c) l)).
  { intros l IH Nk Sk. rewrite Forall_forall in IH, Nk, Sk. apply Forall_forall. intros x Hx.
    apply in_flat_map in Hx as [c [Hc [<-|Hx]]]; [now apply Nk|].
    specialize (IH c Hc (Sk c Hc)). rewrite Forall_forall in IH. now apply IH. }
  cbn [names_below]. apply Forall_app. split; [now apply K|]. apply Forall_app. split; now apply K.
Qed.

Lemma safe_not_refused ext root : safe_names ext root = true -> refused root = false.
Proof.
  intro Hs. unfold safe_names in Hs. apply andb_prop in Hs as [_ Hs].
  pose proof (safe_below_names ext root Hs) as H. rewrite Forall_forall in H.
  unfold refused. destruct (existsb has_dotdot (names_below root)) eqn:E; [|reflexivity].
  apply existsb_exists in E as [n [Hn Hd]]. rewrite (name_ok_no_dotdot ext n (H n Hn)) in Hd. discriminate.
Qed.

Lemma cli_events_safe ext out root : safe_names ext root = true -> cli_events ext out root = render ext out root.
Proof. intro Hs. unfold cli_events. now rewrite (safe_not_refused ext root Hs). Qed.

(* a tree with a '..' element in some board name is refused: nothing is touched, the CLI fails *)
Lemma dotdot_refused ext out root f : refused root = true -> run (cli_events ext out root) f = (f, false).
Proof. intro H. unfold cli_events. now rewrite H. Qed.

(* Join with a name that has no '..' element never leaves the directory *)
Lemma push_prefix out p seg : prefix out p -> str_eqb seg s_dotdot = false -> prefix out (push p seg).
Proof.
  intros Hp Hs. unfold push. destruct seg as [|c seg]; [exact Hp|].
  destruct (str_eqb (c :: seg) s_dot); [exact Hp|]. rewrite Hs.
  exact (prefix_trans _ _ _ Hp (ex_intro _ [c :: seg] eq_refl)).
Qed.

Lemma join_prefix out name : has_dotdot name = false -> prefix out (join out name).
Proof.
  unfold has_dotdot, join. generalize (split_slash name). intro segs.
  assert (G : forall p, prefix out p -> existsb (fun s => str_eqb s s_dotdot) segs = false ->
              prefix out (fold_left push segs p)).
  { induction segs as [|x segs IH]; intros p Hp H; [exact Hp|]. cbn [existsb] in H.
    apply orb_false_iff in H as [H1 H2]. cbn [fold_left]. apply IH; [|exact H2]. now apply push_prefix. }
  apply G. apply prefix_refl.
Qed.

Lemma file_of_prefix_inside ext out s : prefix out s -> inside_file ext out (file_of ext s).
Proof.
  intros [r ->]. destruct r as [|x r] using rev_ind.
  - left. now rewrite app_nil_r.
  - right. rewrite app_assoc, file_of_snoc. exists (r ++ [x ++ ext]). now rewrite <- app_assoc.
Qed.

Lemma sub_prefix out c s k : prefix out s -> k = s_layers \/ k = s_scenarios \/ k = s_steps -> prefix out (sub c s k).
Proof.
  intros Hs Hk. destruct (sub_shape c s k Hk) as [E|E]; rewrite E; [exact Hs|].
  exact (prefix_trans _ _ _ Hs (ex_intro _ [k] eq_refl)).
Qed.

(* whatever the board names are, once none has a '..' element every operation of render is inside *)
Lemma render_inside_all ext : forall b,
  forallb (fun n => negb (has_dotdot n)) (names_below b) = true ->
  forall s out, prefix out s -> (is_nil (bname b) = true \/ has_dotdot (bname b) = false) ->
    Forall (ev_inside ext out) (render ext s b).
Proof.
  induction b as [n fo ls ss ts Il Is It] using board_ind'. intros Hnd s out Hs Hn. cbn [bname] in Hn.
  cbn [names_below] in Hnd. rewrite !forallb_app in Hnd. apply andb_prop in Hnd as [Hl Hnd].
  apply andb_prop in Hnd as [Hss Ht].
  set (stem := if is_nil n then s else join s n).
  assert (Pst : prefix out stem).
  { unfold stem. destruct Hn as [Hn|Hn]; [now rewrite Hn|]. destruct (is_nil n); [exact Hs|].
    exact (prefix_trans _ _ _ Hs (join_prefix s n Hn)). }
  assert (K : forall (l : list board) cs, prefix out cs ->
            Forall (fun b => forallb (fun n => negb (has_dotdot n)) (names_below b) = true ->
                     forall s out, prefix out s -> (is_nil (bname b) = true \/ has_dotdot (bname b) = false) ->
                     Forall (ev_inside ext out) (render ext s b)) l ->
            forallb (fun n => negb (has_dotdot n)) (flat_map (fun c => bname c :: names_below c) l) = true ->
            Forall (ev_inside ext out) (flat_map (render ext cs) l)).
  { intros l cs Hcs IH Hb. apply Forall_forall. intros e He. apply in_flat_map in He as [c [Hc He]].
    rewrite Forall_forall in IH. rewrite forallb_forall in Hb.
    assert (Hc1 : has_dotdot (bname c) = false).
    { apply negb_true_iff. apply Hb. apply in_flat_map. exists c. split; [exact Hc | now left]. }
    assert (Hc2 : forallb (fun n => negb (has_dotdot n)) (names_below c) = true).
    { apply forallb_forall. intros x Hx. apply Hb. apply in_flat_map. exists c. split; [exact Hc | now right]. }
    specialize (IH c Hc Hc2 cs out Hcs (or_intror Hc1)). rewrite Forall_forall in IH. now apply IH. }
  cbn [render]. fold stem. cbv zeta.
  apply Forall_app. split.
  { destruct (nonempty ls || nonempty ss || nonempty ts); constructor; [exact Pst | constructor]. }
  apply Forall_app. split; [apply K; auto; apply sub_prefix; auto|].
  apply Forall_app. split; [apply K; auto; apply sub_prefix; auto|].
  apply Forall_app. split; [apply K; auto; apply sub_prefix; auto|].
  destruct fo; constructor; [|constructor]. cbn [ev_inside]. apply file_of_prefix_inside.
  destruct (nonempty ls || nonempty ss || nonempty ts); [|exact Pst].
  rewrite join_index. exact (prefix_trans _ _ _ Pst (ex_intro _ [s_index] eq_refl)).
Qed.

Lemma cli_events_inside_all ext out root : is_nil (bname root) = true ->
  Forall (ev_inside ext out) (cli_events ext out root).
Proof.
  intro Hn. unfold cli_events, refused. destruct (existsb has_dotdot (names_below root)) eqn:E.
  - constructor; [exact I | constructor].
  - apply render_inside_all; [| apply prefix_refl | now left].
    apply forallb_forall. intros n Hin. apply negb_true_iff.
    destruct (has_dotdot n) eqn:Ed; [|reflexivity].
    assert (H : existsb has_dotdot (names_below root) = true) by (apply existsb_exists; now exists n).
    congruence.
Qed.

(* WHATEVER the board names are: the CLI creates, overwrites and deletes nothing outside the location *)
Lemma cli_confined_all_names ext out root f :
  is_nil (bname root) = true -> ancestors_exist out f = true ->
  let f' := fst (run (cli_events ext out root) f) in
  no_creation_outside ext out (files f) (files f') (dirs f) (dirs f') = true
  /\ no_deletion_outside ext out (files f) (files f') (dirs f) (dirs f') = true.
Proof. intros Hn HA. apply events_confined; [now apply cli_events_inside_all | exact HA]. Qed.

Lemma render_confined ext out root f :
  safe_names ext root = true -> ancestors_exist out f = true ->
  let f' := fst (run (render ext out root) f) in
  no_creation_outside ext out (files f) (files f') (dirs f) (dirs f') = true
  /\ no_deletion_outside ext out (files f) (files f') (dirs f) (dirs f') = true.
Proof. intros Hs HA. apply events_confined; [now apply render_events_inside | exact HA]. Qed.

(* ---------- top-level forms ---------- *)

Lemma outputs_inside_root ext out root : safe_names ext root = true ->
  forall p, In p (fst (outputs ext out root)) -> inside_file_b ext out p = true.
Proof.
  intros Hs p Hp. cbn [outputs fst] in Hp. rewrite (cli_events_safe ext out root Hs) in Hp.
  pose proof (render_events_inside ext out root Hs) as H.
  rewrite Forall_forall in H. unfold writes in Hp. apply in_flat_map in Hp as [e [He Hp]].
  destruct e as [q|p'|]; [contradiction| |contradiction]. destruct Hp as [<-|[]].
  apply inside_file_b_iff. exact (H _ He).
Qed.

Lemma removed_inside_root ext out root : safe_names ext root = true ->
  forall q, In q (snd (outputs ext out root)) -> inside_dir_b out q = true.
Proof.
  intros Hs q Hq. cbn [outputs snd] in Hq. rewrite (cli_events_safe ext out root Hs) in Hq.
  pose proof (render_events_inside ext out root Hs) as H.
  rewrite Forall_forall in H. unfold removes in Hq. apply in_flat_map in Hq as [e [He Hq]].
  destruct e as [q'|p'|]; [|contradiction|contradiction]. destruct Hq as [<-|[]].
  apply prefix_b_iff. exact (H _ He).
Qed.

Lemma outputs_distinct ext out root : safe_names ext root = true ->
  NoDup (fst (outputs ext out root)) /\ length (fst (outputs ext out root)) = count_boards root.
Proof.
  intro Hs. cbn [outputs fst]. rewrite (cli_events_safe ext out root Hs).
  unfold safe_names in Hs. apply andb_prop in Hs as [_ Hs]. split.
  - now apply render_nodup.
  - apply writes_count.
Qed.

(* ---------- refutations of the unguarded statements (witnesses replayed on the real CLI) ---------- *)

Definition x_svg : str := [46; 115; 118; 103].                    (* ".svg" *)
Definition x_out : path := [[119]; [111; 117; 116]].              (* /w/out *)
Definition x_victim : str := [46; 46; 47; 118; 105; 99; 116; 105; 109].   (* "../victim" *)
Definition leaf (n : str) : board := Board n false [] [] [].
Definition x_fs : fsys := {| files := [([[119]; [118; 105; 99; 116; 105; 109]; [107]], 7)]; dirs := [[[119]]; [[119]; [118; 105; 99; 116; 105; 109]]] |}.

(* a layer named "../victim" (with or without boards of its own) is refused: the run fails at once
   and the sentinel file /w/victim/k of x_fs is still there *)
Lemma dotdot_witness_refused :
  let r1 := Board [] false [leaf x_victim] [] [] in
  let r2 := Board [] false [Board x_victim false [leaf [120]] [] []] [] [] in
  run (cli_events x_svg x_out r1) x_fs = (x_fs, false) /\ run (cli_events x_svg x_out r2) x_fs = (x_fs, false)
  /\ outputs x_svg x_out r2 = ([], []).
Proof. repeat split. Qed.

(* a layer named "index" (root has layers only) gets the root board's file *)
Lemma outputs_distinct_refuted_index :
  exists ext out root, ~ NoDup (fst (outputs ext out root)).
Proof.
  exists x_svg, x_out, (Board [] false [leaf s_index] [] []). cbn. intro H.
  inversion H as [|? ? Hx _]; subst. apply Hx. now left.
Qed.

(* a board name with a separator: layer "a/b" and layer "a" with its own layer "b" share /w/out/a/b.svg *)
Lemma outputs_distinct_refuted_slash :
  exists ext out root, ~ NoDup (fst (outputs ext out root)).
Proof.
  exists x_svg, x_out, (Board [] false [leaf [97; 47; 98]; Board [97] false [leaf [98]] [] []] [] []). cbn. intro H.
  inversion H as [|? ? Hx _]; subst. apply Hx. now left.
Qed.

(* a board name ending in the extension: the file /w/out/x.svg of layer "x" and the directory
   /w/out/x.svg/ of layer "x.svg" cannot both exist; depending on the order the run fails or a board's
   file is deleted again *)
Lemma one_file_per_board_refuted_ext_suffix :
  exists ext out r1 r2,
    snd (run (render ext out r1) x_fs) = false
    /\ snd (run (render ext out r2) x_fs) = true
    /\ one_file_per_board ext out r2 (files (fst (run (render ext out r2) x_fs))) false = false.
Proof.
  exists x_svg, x_out,
    (Board [] false [Board [120; 46; 115; 118; 103] false [leaf [121]] [] []; leaf [120]] [] []),
    (Board [] false [leaf [120]; Board [120; 46; 115; 118; 103] false [leaf [121]] [] []] [] []).
  repeat split; reflexivity.
Qed.
