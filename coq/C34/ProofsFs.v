(* C34 — file-system level: a render of a tree with safe names succeeds and leaves exactly one file per
   board inside the location.  Part A: a generic replay lemma for conflict-free operation lists;
   part B: the operation list of `render` is conflict-free under safe_names. *)
From Coq Require Import List NArith Bool Lia Arith.
Import ListNotations.
Require Import V.Lib.RunCases V.C34.Model V.C34.Proofs.
Open Scope N_scope.

(* ---------- small list facts ---------- *)

Lemma filter_comm {A} (f g : A -> bool) l : filter f (filter g l) = filter g (filter f l).
Proof.
  induction l as [|x l IH]; cbn; [reflexivity|].
  destruct (g x) eqn:Eg, (f x) eqn:Ef; cbn; rewrite ?Eg, ?Ef, IH; reflexivity.
Qed.

Lemma filter_all {A} (f : A -> bool) l : (forall x, In x l -> f x = true) -> filter f l = l.
Proof.
  induction l as [|x l IH]; intro H; cbn; [reflexivity|].
  rewrite (H x (or_introl eq_refl)). f_equal. apply IH. intros y Hy. apply H. now right.
Qed.

Lemma filter_app' {A} (f : A -> bool) a b : filter f (a ++ b) = filter f a ++ filter f b.
Proof. induction a; cbn; [reflexivity|]. destruct (f a); cbn; now rewrite IHa. Qed.

Lemma prefix_b_false p q : prefix_b p q = false <-> ~ prefix p q.
Proof.
  split.
  - intros H Hp. apply prefix_b_iff in Hp. congruence.
  - intro H. destruct (prefix_b p q) eqn:E; [apply prefix_b_iff in E; contradiction | reflexivity].
Qed.

Lemma path_eqb_refl p : path_eqb p p = true.
Proof. now apply path_eqb_eq. Qed.

Lemma path_eqb_false p q : path_eqb p q = false <-> p <> q.
Proof.
  split.
  - intros H E. apply path_eqb_eq in E. congruence.
  - intro H. destruct (path_eqb p q) eqn:E; [apply path_eqb_eq in E; contradiction | reflexivity].
Qed.

Lemma prefix_length p q : prefix p q -> (length p <= length q)%nat.
Proof. intros [t ->]. rewrite app_length. lia. Qed.

Lemma prefix_antisym p q : prefix p q -> prefix q p -> p = q.
Proof.
  intros [t ->] H. apply prefix_length in H. rewrite app_length in H.
  destruct t; [now rewrite app_nil_r | cbn in H; lia].
Qed.

Lemma under_prefix s p : under s p -> prefix s p.
Proof. intros [r [_ ->]]. now exists r. Qed.

Lemma under_parent s p : under s p -> prefix s (removelast p).
Proof.
  intros [r [Hr ->]]. destruct r as [|x r] using rev_ind; [contradiction|].
  rewrite app_assoc, removelast_last. now exists r.
Qed.

Lemma is_file_in f d : is_file f d = true <-> exists t, In (d, t) (files f).
Proof.
  unfold is_file. rewrite existsb_exists. split.
  - intros [[p t] [Hin E]]. cbn in E. apply path_eqb_eq in E. subst. now exists t.
  - intros [t Hin]. exists (d, t). split; [exact Hin | apply path_eqb_refl].
Qed.

Lemma is_dir_in f d : is_dir f d = true <-> In d (dirs f).
Proof.
  unfold is_dir. rewrite existsb_exists. split.
  - intros [y [Hin E]]. apply path_eqb_eq in E. now subst.
  - intro Hin. exists d. split; [exact Hin | apply path_eqb_refl].
Qed.

Lemma proper_prefix_in_prefixes d out : prefix d out -> d <> out -> d <> [] -> In d (prefixes (removelast out)).
Proof.
  intros [t ->] Hne Hd. apply prefixes_in. split; [exact Hd|].
  destruct t as [|x t] using rev_ind; [now rewrite app_nil_r in Hne|].
  rewrite app_assoc, removelast_last. now exists t.
Qed.

(* ---------- part A ---------- *)

Section Replay.
  Variables (ext : str) (out : path).
  Hypothesis Hext : ext <> [].
  Hypothesis Hout : out <> [].

  Lemma file_of_not_inside : ~ prefix out (file_of ext out).
  Proof.
    intros [t E]. unfold file_of in E. destruct out as [|x o] using rev_ind; [contradiction|].
    destruct (o ++ [x]) eqn:Eo; [apply app_eq_nil in Eo as [_ Eo]; discriminate|]. rewrite <- Eo in E.
    rewrite removelast_last, last_last in E. rewrite <- app_assoc in E. apply app_inv_head in E.
    cbn in E. injection E as E _. rewrite <- (app_nil_r x) in E at 2. apply app_inv_head in E. contradiction.
  Qed.

  (* operations that do not clash with the files written so far (ws, oldest first) *)
  Fixpoint okseq (ws : list path) (es : list event) : Prop :=
    match es with
    | [] => True
    | WriteFile p :: es' =>
        under out p
        /\ (forall w, In w ws -> ~ prefix w (removelast p))
        /\ (forall w, In w ws -> ~ prefix p (removelast w))
        /\ ~ In p ws
        /\ okseq (ws ++ [p]) es'
    | RemoveAll t :: es' =>
        prefix out t /\ (forall w, In w ws -> ~ prefix t w) /\ okseq ws es'
    | Refuse :: _ => False
    end.

  Lemma okseq_app : forall a ws b, okseq ws (a ++ b) <-> okseq ws a /\ okseq (ws ++ writes a) b.
  Proof.
    induction a as [|e a IH]; intros ws b.
    - cbn. rewrite app_nil_r. tauto.
    - destruct e as [t|p|]; cbn [app okseq]; [| |tauto].
      + rewrite IH. change (writes (RemoveAll t :: a)) with (writes a). tauto.
      + rewrite IH. change (writes (WriteFile p :: a)) with (p :: writes a).
        replace ((ws ++ [p]) ++ writes a) with (ws ++ p :: writes a) by now rewrite <- app_assoc.
        tauto.
  Qed.

  Record Inv (ws : list path) (f : fsys) : Prop := {
    inv_files : filter (fun e => prefix_b out (fst e)) (files f) = map (fun p => (p, 1)) ws;
    inv_dirs : forall d, In d (dirs f) -> prefix out d -> exists w, In w ws /\ prefix d (removelast w);
    inv_anc_dirs : Anc out f;
    inv_anc_files : forall d, In d (prefixes (removelast out)) -> is_file f d = false;
    inv_outfile : forall e, In e (files f) -> fst e = file_of ext out -> snd e <> 1 }.

  Lemma inv_file_inside ws f d : Inv ws f -> prefix out d -> is_file f d = true -> In d ws.
  Proof.
    intros HI Hp Hf. apply is_file_in in Hf as [t Hin].
    assert (H : In (d, t) (filter (fun e => prefix_b out (fst e)) (files f))).
    { apply filter_In. split; [exact Hin|]. cbn. now apply prefix_b_iff. }
    rewrite (inv_files _ _ HI) in H. apply in_map_iff in H as [w [E Hw]]. injection E as -> _. exact Hw.
  Qed.

  Lemma step_write ws f p :
    Inv ws f -> under out p ->
    (forall w, In w ws -> ~ prefix w (removelast p)) ->
    (forall w, In w ws -> ~ prefix p (removelast w)) -> ~ In p ws ->
    snd (step f (WriteFile p)) = true /\ Inv (ws ++ [p]) (fst (step f (WriteFile p))).
  Proof.
    intros HI Hu S1 S2 S3. pose proof (under_prefix _ _ Hu) as Hp. pose proof (under_parent _ _ Hu) as Hpar.
    cbn [step].
    assert (E1 : existsb (is_file f) (prefixes (removelast p)) = false).
    { destruct (existsb (is_file f) (prefixes (removelast p))) eqn:E; [|reflexivity]. exfalso.
      apply existsb_exists in E as [d [Hd Hf]]. apply prefixes_in in Hd as [Hne Hd].
      destruct (prefix_comparable _ _ _ Hpar Hd) as [H|H].
      - apply (S1 d); [|exact Hd]. exact (inv_file_inside ws f d HI H Hf).
      - destruct (list_eq_dec (list_eq_dec N.eq_dec) d out) as [->|Hneq].
        + apply (S1 out); [|exact Hd]. exact (inv_file_inside ws f out HI (prefix_refl out) Hf).
        + rewrite (inv_anc_files _ _ HI d) in Hf; [discriminate|]. now apply proper_prefix_in_prefixes. }
    rewrite E1.
    assert (E2 : is_dir f p = false).
    { destruct (is_dir f p) eqn:E; [|reflexivity]. exfalso. apply is_dir_in in E.
      destruct (inv_dirs _ _ HI p E Hp) as [w [Hw Hpw]]. exact (S2 w Hw Hpw). }
    rewrite E2. cbn [fst snd]. split; [reflexivity|]. constructor; cbn [files dirs].
    - rewrite filter_app', filter_comm, (inv_files _ _ HI). cbn [filter fst].
      replace (prefix_b out p) with true by (symmetry; now apply prefix_b_iff).
      rewrite map_app. cbn [map]. f_equal. apply filter_all.
      intros e He. apply in_map_iff in He as [w [<- Hw]]. cbn [fst]. apply negb_true_iff, path_eqb_false. congruence.
    - intros d Hd Hod. apply fold_add_dir_in in Hd as [Hd|Hd].
      + destruct (inv_dirs _ _ HI d Hd Hod) as [w [Hw Hpw]]. exists w. split; [apply in_or_app; now left | exact Hpw].
      + apply prefixes_in in Hd as [_ Hd]. exists p. split; [apply in_or_app; right; now left | exact Hd].
    - intros d Hd. apply fold_add_dir_in. left. exact (inv_anc_dirs _ _ HI d Hd).
    - intros d Hd. destruct (is_file _ d) eqn:E; [|reflexivity]. exfalso.
      apply is_file_in in E as [t Hin]. cbn [files] in Hin. apply in_app_or in Hin as [Hin|[Hin|[]]].
      + apply filter_In in Hin as [Hin _].
        assert (Hf : is_file f d = true) by (apply is_file_in; now exists t).
        rewrite (inv_anc_files _ _ HI d Hd) in Hf. discriminate.
      + injection Hin as <- _. exact (Anc_not_inside out p Hd Hp).
    - intros e He Hfo. apply in_app_or in He as [He|[<-|[]]].
      + apply filter_In in He as [He _]. exact (inv_outfile _ _ HI e He Hfo).
      + cbn [fst] in Hfo. subst p. exfalso. exact (file_of_not_inside Hp).
  Qed.

  Lemma step_remove ws f t :
    Inv ws f -> prefix out t -> (forall w, In w ws -> ~ prefix t w) ->
    Inv ws (fst (step f (RemoveAll t))).
  Proof.
    intros HI Ht S4. cbn [step fst]. constructor; cbn [files dirs].
    - rewrite filter_comm, (inv_files _ _ HI). apply filter_all.
      intros e He. apply in_map_iff in He as [w [<- Hw]]. cbn [fst]. apply negb_true_iff, prefix_b_false. now apply S4.
    - intros d Hd Hod. apply filter_In in Hd as [Hd _]. exact (inv_dirs _ _ HI d Hd Hod).
    - intros d Hd. apply filter_In. split; [exact (inv_anc_dirs _ _ HI d Hd)|].
      apply negb_true_iff, prefix_b_false. intro H. exact (Anc_not_inside out d Hd (prefix_trans _ _ _ Ht H)).
    - intros d Hd. destruct (is_file _ d) eqn:E; [|reflexivity]. exfalso.
      apply is_file_in in E as [x Hin]. cbn [files] in Hin. apply filter_In in Hin as [Hin _].
      assert (Hf : is_file f d = true) by (apply is_file_in; now exists x).
      rewrite (inv_anc_files _ _ HI d Hd) in Hf. discriminate.
    - intros e He Hfo. apply filter_In in He as [He _]. exact (inv_outfile _ _ HI e He Hfo).
  Qed.

  (* a conflict-free operation list runs to the end and leaves exactly the written files inside *)
  Lemma run_okseq : forall es ws f, okseq ws es -> Inv ws f ->
    snd (run es f) = true /\ Inv (ws ++ writes es) (fst (run es f)).
  Proof.
    induction es as [|e es IH]; intros ws f Hok HI.
    - cbn. rewrite app_nil_r. now split.
    - destruct e as [t|p|]; cbn [okseq] in Hok; [| |contradiction].
      + destruct Hok as [Ht [S4 Hok]]. pose proof (step_remove ws f t HI Ht S4) as HI'.
        cbn [run]. destruct (step f (RemoveAll t)) as [f1 ok] eqn:Es.
        assert (ok = true) by (cbn in Es; now injection Es as _ <-). subst ok. cbn [fst] in HI'.
        change (writes (RemoveAll t :: es)) with (writes es). now apply IH.
      + destruct Hok as [Hu [S1 [S2 [S3 Hok]]]].
        destruct (step_write ws f p HI Hu S1 S2 S3) as [Hs HI'].
        cbn [run]. destruct (step f (WriteFile p)) as [f1 ok] eqn:Es. cbn [fst snd] in Hs, HI'. subst ok.
        change (writes (WriteFile p :: es)) with (p :: writes es).
        replace (ws ++ p :: writes es) with ((ws ++ [p]) ++ writes es) by now rewrite <- app_assoc.
        now apply IH.
  Qed.

  (* counting the run's files inside the location *)
  Lemma count_inside ws f : Inv ws f ->
    length (filter (fun e => inside_file_b ext out (fst e) && N.eqb (snd e) 1) (files f)) = length ws.
  Proof.
    intro HI. rewrite <- (map_length (fun p => (p, 1)) ws), <- (inv_files _ _ HI). f_equal.
    apply filter_ext_in. intros e He. unfold inside_file_b.
    destruct (prefix_b out (fst e)) eqn:Ep.
    - rewrite orb_true_r. cbn [andb].
      assert (H : In e (filter (fun e => prefix_b out (fst e)) (files f))) by (apply filter_In; now split).
      rewrite (inv_files _ _ HI) in H. apply in_map_iff in H as [w [<- _]]. reflexivity.
    - rewrite orb_false_r. destruct (path_eqb (fst e) (file_of ext out)) eqn:Ef; [|reflexivity].
      apply path_eqb_eq in Ef. cbn [andb]. apply N.eqb_neq. exact (inv_outfile _ _ HI e He Ef).
  Qed.
End Replay.

(* ---------- part B: the operations of render do not clash ---------- *)

Lemma suffix_b_app ext a : suffix_b ext (a ++ ext) = true.
Proof.
  induction a as [|x a IH]; cbn [app].
  - destruct ext; [reflexivity|]. cbn [suffix_b]. now rewrite str_eqb_refl.
  - cbn [suffix_b]. rewrite IH. apply orb_true_r.
Qed.

Lemma name_ok_not_ext ext n a : name_ok ext n -> n <> a ++ ext.
Proof. intros [_ _ _ _ _ H] E. subst n. now rewrite suffix_b_app in H. Qed.

Lemma prefix_app_inv (s a b : path) : prefix (s ++ a) (s ++ b) -> prefix a b.
Proof. intros [t E]. rewrite <- app_assoc in E. apply app_inv_head in E. now exists t. Qed.

Lemma prefix_cons_inv (x y : str) (a b : path) : prefix (x :: a) (y :: b) -> x = y /\ prefix a b.
Proof. intros [t E]. cbn in E. injection E as -> ->. split; [reflexivity | now exists t]. Qed.

Lemma prefix_nil_r (a : path) : prefix a [] -> a = [].
Proof. intros [t E]. symmetry in E. now apply app_eq_nil in E as [-> _]. Qed.

Section Clash.
  Variable ext : str.

  Definition Out (s q : path) : Prop := ~ prefix q s /\ ~ prefix s q.

  (* q does not interfere with the location of the child (cs, n): its directory cs/n and file cs/n.ext *)
  Definition Fgn (cs : path) (n : str) (q : path) : Prop :=
    ~ prefix q (cs ++ [n]) /\ ~ prefix (cs ++ [n]) q /\ q <> cs ++ [n ++ ext]
    /\ ~ prefix (cs ++ [n ++ ext]) (removelast q).

  Lemma Fgn_Out cs n q : Fgn cs n q -> Out (cs ++ [n]) q.
  Proof. intros [H1 [H2 _]]. now split. Qed.

  Lemma Out_Fgn s l0 n' q : Out s q -> Fgn (s ++ l0) n' q.
  Proof.
    intros [H1 H2]. assert (Hs : forall x, prefix s ((s ++ l0) ++ x)) by (intro x; exists (l0 ++ x); now rewrite app_assoc).
    repeat split.
    - intro H. destruct (prefix_comparable _ _ _ H (Hs [n'])) as [H'|H']; contradiction.
    - intro H. apply H2. exact (prefix_trans _ _ _ (Hs [n']) H).
    - intro E. apply H2. rewrite E. apply Hs.
    - intro H. apply H2. exact (prefix_trans _ _ _ (prefix_trans _ _ _ (Hs [n' ++ ext]) H) (removelast_prefix q)).
  Qed.

  (* what an earlier sibling wrote does not interfere with a later sibling *)
  Lemma W_Fgn_sibling cs n1 n2 q :
    W ext cs n1 q -> n1 <> n2 -> name_ok ext n1 -> name_ok ext n2 -> Fgn cs n2 q.
  Proof.
    intros HW Hne Hn1 Hn2. destruct HW as [->|[r [Hr ->]]]; repeat split.
    - intro H. apply prefix_app_inv, prefix_cons_inv in H as [E _]. symmetry in E.
      exact (name_ok_not_ext ext n2 n1 Hn2 E).
    - intro H. apply prefix_app_inv, prefix_cons_inv in H as [E _]. exact (name_ok_not_ext ext n2 n1 Hn2 E).
    - intro E. apply app_inv_head in E. injection E as E. apply app_inv_tail in E. contradiction.
    - rewrite removelast_last. intro H. apply prefix_length in H. rewrite !app_length in H. cbn in H. lia.
    - intro H. rewrite <- app_assoc in H. apply prefix_app_inv in H. cbn in H.
      apply prefix_cons_inv in H as [_ H]. apply prefix_nil_r in H. contradiction.
    - intro H. rewrite <- app_assoc in H. apply prefix_app_inv, prefix_cons_inv in H as [E _]. congruence.
    - intro E. rewrite <- app_assoc in E. apply app_inv_head in E. cbn in E. injection E as _ E. contradiction.
    - intro H. destruct r as [|x r] using rev_ind; [contradiction|].
      rewrite app_assoc, removelast_last, <- app_assoc in H. apply prefix_app_inv in H. cbn in H.
      apply prefix_cons_inv in H as [E _]. symmetry in E. exact (name_ok_not_ext ext n1 n2 Hn1 E).
  Qed.

  Lemma W_Fgn_kind s k1 k2 n1 n2 q : W ext (s ++ [k1]) n1 q -> k1 <> k2 -> Fgn (s ++ [k2]) n2 q.
  Proof.
    intros HW Hk.
    assert (Hq : exists x r, q = s ++ k1 :: x :: r).
    { destruct HW as [->|[r [Hr ->]]].
      - exists (n1 ++ ext), []. now rewrite <- app_assoc.
      - exists n1, r. now rewrite <- !app_assoc. }
    destruct Hq as [x [r ->]]. repeat split.
    - intro H. rewrite <- app_assoc in H. apply prefix_app_inv in H. cbn in H.
      apply prefix_cons_inv in H as [E _]. contradiction.
    - intro H. rewrite <- app_assoc in H. apply prefix_app_inv in H. cbn in H.
      apply prefix_cons_inv in H as [E _]. congruence.
    - intro E. rewrite <- app_assoc in E. apply app_inv_head in E. cbn in E. injection E as E _. contradiction.
    - intro H.
      assert (Hr : exists r', removelast (s ++ k1 :: x :: r) = s ++ k1 :: r').
      { destruct r as [|y r] using rev_ind.
        - exists []. change (s ++ [k1; x]) with (s ++ [k1] ++ [x]). now rewrite app_assoc, removelast_last.
        - exists (x :: r). change (s ++ k1 :: x :: r ++ [y]) with (s ++ (k1 :: x :: r) ++ [y]).
          now rewrite app_assoc, removelast_last. }
      destruct Hr as [r' Er]. rewrite Er in H. rewrite <- app_assoc in H. apply prefix_app_inv in H. cbn in H.
      apply prefix_cons_inv in H as [E _]. congruence.
  Qed.

  (* the parent's index file is not a directory that a child wrote into *)
  Lemma index_not_parent s cs nc w :
    (cs = s \/ exists k, (k = s_layers \/ k = s_scenarios \/ k = s_steps) /\ cs = s ++ [k]) ->
    name_ok ext nc -> W ext cs nc w -> ~ prefix (s ++ [s_index ++ ext]) (removelast w).
  Proof.
    intros Hcs Hn HW H. destruct Hcs as [->|[k [Hk ->]]].
    - destruct HW as [->|[r [Hr ->]]].
      + rewrite removelast_last in H. apply prefix_length in H. rewrite app_length in H. cbn in H. lia.
      + destruct r as [|x r] using rev_ind; [contradiction|].
        rewrite app_assoc, removelast_last, <- app_assoc in H. apply prefix_app_inv in H. cbn in H.
        apply prefix_cons_inv in H as [E _]. symmetry in E. exact (name_ok_not_ext ext nc s_index Hn E).
    - assert (Hq : exists r', removelast w = s ++ k :: r').
      { destruct HW as [->|[r [Hr ->]]].
        - exists []. now rewrite removelast_last.
        - destruct r as [|x r] using rev_ind; [contradiction|]. exists (nc :: r).
          rewrite app_assoc, removelast_last. now rewrite <- !app_assoc. }
      destruct Hq as [r' Er]. rewrite Er in H. apply prefix_app_inv in H. cbn in H.
      apply prefix_cons_inv in H as [E _]. destruct Hk as [->|[->| ->]]; discriminate.
  Qed.
End Clash.

(* ---------- the operations of render, by induction over the tree ---------- *)

Section RenderOk.
  Variables (ext : str) (out : path).
  Hypothesis Hext : ext <> [].
  Hypothesis Hout : out <> [].

  Definition IHc (c : board) : Prop :=
    safe_below ext c = true -> forall cs ws, prefix out cs -> name_ok ext (bname c) ->
    (forall q, In q ws -> Fgn ext cs (bname c) q) -> okseq out ws (render ext cs c).

  Lemma under_not_prefix (s w : path) : under s w -> ~ prefix w s.
  Proof.
    intros [r [Hr ->]] H. apply prefix_length in H. rewrite app_length in H.
    destruct r; [contradiction | cbn in H; lia].
  Qed.

  Lemma kid_writes_W (l : list board) cs w :
    Forall (fun c => name_ok ext (bname c)) l -> Forall (fun c => safe_below ext c = true) l ->
    In w (writes (flat_map (render ext cs) l)) -> exists c, In c l /\ W ext cs (bname c) w.
  Proof.
    intros Hn Hs Hw. rewrite writes_flat_map in Hw. apply in_flat_map in Hw as [c [Hc Hw]].
    rewrite Forall_forall in Hn, Hs. exists c. split; [exact Hc|]. apply child_writes_W; auto.
  Qed.

  Lemma sib_ok : forall (l : list board) cs ws, prefix out cs ->
    Forall IHc l -> Forall (fun c => name_ok ext (bname c)) l -> Forall (fun c => safe_below ext c = true) l ->
    NoDup (map bname l) ->
    (forall q c, In q ws -> In c l -> Fgn ext cs (bname c) q) ->
    okseq out ws (flat_map (render ext cs) l).
  Proof.
    induction l as [|c l IHl]; intros cs ws Hcs HIH Hn Hs Hnd Hf; [exact I|].
    cbn [flat_map]. apply okseq_app.
    inversion HIH as [|? ? HIc HIl]; subst. inversion Hn as [|? ? Hnc Hnl]; subst.
    inversion Hs as [|? ? Hsc Hsl]; subst. cbn [map] in Hnd. inversion Hnd as [|? ? Hx Hnd']; subst.
    split.
    - apply HIc; auto. intros q Hq. apply Hf; [exact Hq | now left].
    - apply IHl; auto. intros q c2 Hq Hc2. apply in_app_or in Hq as [Hq|Hq].
      + apply Hf; [exact Hq | now right].
      + rewrite Forall_forall in Hnl. apply (W_Fgn_sibling ext cs (bname c) (bname c2) q).
        * apply child_writes_W; auto.
        * intro E. apply Hx. rewrite E. now apply in_map.
        * exact Hnc.
        * now apply Hnl.
  Qed.

  Lemma stem_shape c s k : k = s_layers \/ k = s_scenarios \/ k = s_steps ->
    sub c s k = s \/ (exists k', (k' = s_layers \/ k' = s_scenarios \/ k' = s_steps) /\ sub c s k = s ++ [k']).
  Proof.
    intro Hk. destruct (sub_shape c s k Hk) as [E|E]; [now left | right; now exists k].
  Qed.

  Lemma stem_app c s k : k = s_layers \/ k = s_scenarios \/ k = s_steps -> exists l0, sub c s k = s ++ l0.
  Proof.
    intro Hk. destruct (sub_shape c s k Hk) as [E|E]; rewrite E; [exists []; now rewrite app_nil_r | now exists [k]].
  Qed.

  Lemma in_writes_nonempty (l : list board) cs w : In w (writes (flat_map (render ext cs) l)) -> nonempty l = true.
  Proof. destruct l; [intros [] | reflexivity]. Qed.

  Lemma body_ok s ws (fo : bool) (ls ss ts : list board) :
    prefix out s -> (forall q, In q ws -> Out s q) ->
    Forall IHc ls -> Forall IHc ss -> Forall IHc ts ->
    Forall (fun c => name_ok ext (bname c)) ls -> Forall (fun c => name_ok ext (bname c)) ss ->
    Forall (fun c => name_ok ext (bname c)) ts ->
    Forall (fun c => safe_below ext c = true) ls -> Forall (fun c => safe_below ext c = true) ss ->
    Forall (fun c => safe_below ext c = true) ts ->
    NoDup (map bname ls) -> NoDup (map bname ss) -> NoDup (map bname ts) ->
    okseq out ws (flat_map (render ext (lstem s ss ts)) ls
                  ++ flat_map (render ext (sstem s ls ts)) ss
                  ++ flat_map (render ext (tstem s ls ss)) ts
                  ++ (if fo then [] else [WriteFile (s ++ [s_index ++ ext])])).
  Proof.
    intros Hs HO Il Is It Nl Ns Nt Sl Ss St Dl Ds Dt.
    destruct kind_strs_distinct as [Kls [Klt Kst]].
    pose proof (stem_app (nonempty ss || nonempty ts) s s_layers (or_introl eq_refl)) as [l0 El].
    pose proof (stem_app (nonempty ls || nonempty ts) s s_scenarios (or_intror (or_introl eq_refl))) as [l1 Es].
    pose proof (stem_app (nonempty ls || nonempty ss) s s_steps (or_intror (or_intror eq_refl))) as [l2 Et].
    fold (lstem s ss ts) in El. fold (sstem s ls ts) in Es. fold (tstem s ls ss) in Et.
    assert (Pl : prefix out (lstem s ss ts)) by (rewrite El; exact (prefix_trans _ _ _ Hs (ex_intro _ l0 eq_refl))).
    assert (Ps : prefix out (sstem s ls ts)) by (rewrite Es; exact (prefix_trans _ _ _ Hs (ex_intro _ l1 eq_refl))).
    assert (Pt : prefix out (tstem s ls ss)) by (rewrite Et; exact (prefix_trans _ _ _ Hs (ex_intro _ l2 eq_refl))).
    (* stems of two kinds that both have boards *)
    assert (Xls : nonempty ls = true -> nonempty ss = true ->
                  lstem s ss ts = s ++ [s_layers] /\ sstem s ls ts = s ++ [s_scenarios]).
    { intros A B. unfold lstem, sstem, sub. rewrite A, B. cbn [orb]. now rewrite join_layers, join_scenarios. }
    assert (Xlt : nonempty ls = true -> nonempty ts = true ->
                  lstem s ss ts = s ++ [s_layers] /\ tstem s ls ss = s ++ [s_steps]).
    { intros A B. unfold lstem, tstem, sub. rewrite A, B. rewrite ?orb_true_r. cbn [orb]. now rewrite join_layers, join_steps. }
    assert (Xst : nonempty ss = true -> nonempty ts = true ->
                  sstem s ls ts = s ++ [s_scenarios] /\ tstem s ls ss = s ++ [s_steps]).
    { intros A B. unfold sstem, tstem, sub. rewrite A, B. rewrite ?orb_true_r. cbn [orb]. now rewrite join_scenarios, join_steps. }
    assert (NEc : forall (l : list board) c, In c l -> nonempty l = true) by (intros [|? ?] c H; [contradiction|reflexivity]).
    apply okseq_app. split.
    { apply sib_ok; auto. intros q c Hq Hc. rewrite El. apply Out_Fgn. now apply HO. }
    apply okseq_app. split.
    { apply sib_ok; auto. intros q c Hq Hc. apply in_app_or in Hq as [Hq|Hq].
      - rewrite Es. apply Out_Fgn. now apply HO.
      - pose proof (in_writes_nonempty _ _ _ Hq) as A. pose proof (NEc _ _ Hc) as B.
        destruct (Xls A B) as [E1 E2]. destruct (kid_writes_W _ _ _ Nl Sl Hq) as [c1 [_ HW]].
        rewrite E1 in HW. rewrite E2. exact (W_Fgn_kind ext s _ _ _ _ q HW Kls). }
    apply okseq_app. split.
    { apply sib_ok; auto. intros q c Hq Hc. apply in_app_or in Hq as [Hq|Hq]; [apply in_app_or in Hq as [Hq|Hq]|].
      - rewrite Et. apply Out_Fgn. now apply HO.
      - pose proof (in_writes_nonempty _ _ _ Hq) as A. pose proof (NEc _ _ Hc) as B.
        destruct (Xlt A B) as [E1 E2]. destruct (kid_writes_W _ _ _ Nl Sl Hq) as [c1 [_ HW]].
        rewrite E1 in HW. rewrite E2. exact (W_Fgn_kind ext s _ _ _ _ q HW Klt).
      - pose proof (in_writes_nonempty _ _ _ Hq) as A. pose proof (NEc _ _ Hc) as B.
        destruct (Xst A B) as [E1 E2]. destruct (kid_writes_W _ _ _ Ns Ss Hq) as [c1 [_ HW]].
        rewrite E1 in HW. rewrite E2. exact (W_Fgn_kind ext s _ _ _ _ q HW Kst). }
    destruct fo; [exact I|]. cbn [okseq].
    (* every earlier write is foreign (from ws) or a child's write *)
    assert (Hcase : forall w, In w (((ws ++ writes (flat_map (render ext (lstem s ss ts)) ls))
                                      ++ writes (flat_map (render ext (sstem s ls ts)) ss))
                                     ++ writes (flat_map (render ext (tstem s ls ss)) ts)) ->
              Out s w \/ exists cs' nc, (cs' = s \/ exists k, (k = s_layers \/ k = s_scenarios \/ k = s_steps) /\ cs' = s ++ [k])
                                        /\ name_ok ext nc /\ W ext cs' nc w).
    { intros w Hw. apply in_app_or in Hw as [Hw|Hw]; [apply in_app_or in Hw as [Hw|Hw]; [apply in_app_or in Hw as [Hw|Hw]|]|].
      - left. now apply HO.
      - right. destruct (kid_writes_W _ _ _ Nl Sl Hw) as [c [Hc HW]]. exists (lstem s ss ts), (bname c).
        rewrite Forall_forall in Nl. split; [apply stem_shape; now left | split; [now apply Nl | exact HW]].
      - right. destruct (kid_writes_W _ _ _ Ns Ss Hw) as [c [Hc HW]]. exists (sstem s ls ts), (bname c).
        rewrite Forall_forall in Ns. split; [apply stem_shape; right; now left | split; [now apply Ns | exact HW]].
      - right. destruct (kid_writes_W _ _ _ Nt St Hw) as [c [Hc HW]]. exists (tstem s ls ss), (bname c).
        rewrite Forall_forall in Nt. split; [apply stem_shape; right; now right | split; [now apply Nt | exact HW]]. }
    assert (Hsp : prefix s (s ++ [s_index ++ ext])) by now exists [s_index ++ ext].
    split; [|split; [|split; [|split; [|exact I]]]].
    - destruct Hs as [t ->]. exists (t ++ [s_index ++ ext]). split.
      + intro E. apply app_eq_nil in E as [_ E]. discriminate.
      + now rewrite app_assoc.
    - rewrite removelast_last. intros w Hw H. destruct (Hcase w Hw) as [[H1 _]|[cs' [nc [Hcs [Hn HW]]]]]; [contradiction|].
      apply W_under in HW. assert (Hu : under s w).
      { destruct Hcs as [->|[k [_ ->]]]; [exact HW | now apply under_ext in HW]. }
      exact (under_not_prefix s w Hu H).
    - intros w Hw H. destruct (Hcase w Hw) as [[_ H2]|[cs' [nc [Hcs [Hn HW]]]]].
      + apply H2. exact (prefix_trans _ _ _ (prefix_trans _ _ _ Hsp H) (removelast_prefix w)).
      + exact (index_not_parent ext s cs' nc w Hcs Hn HW H).
    - intro Hw. destruct (Hcase _ Hw) as [[_ H2]|[cs' [nc [Hcs [Hn HW]]]]]; [contradiction|].
      refine (own_index_not_child ext s cs' nc _ _ Hn HW eq_refl).
      destruct Hcs as [->|[k [_ ->]]]; [now left | right; now exists k].
  Qed.
End RenderOk.

Section RenderTop.
  Variables (ext : str) (out : path).
  Hypothesis Hext : ext <> [].
  Hypothesis Hout : out <> [].

  Lemma render_named cs n (fo : bool) ls ss ts : n <> [] ->
    render ext cs (Board n fo ls ss ts) =
      (if kids ls ss ts then [RemoveAll (join cs n)] else [])
      ++ flat_map (render ext (lstem (join cs n) ss ts)) ls
      ++ flat_map (render ext (sstem (join cs n) ls ts)) ss
      ++ flat_map (render ext (tstem (join cs n) ls ss)) ts
      ++ (if fo then [] else [WriteFile (own_file ext (join cs n) ls ss ts)]).
  Proof. destruct n; [contradiction | reflexivity]. Qed.

  Lemma kids_false ls ss ts : kids ls ss ts = false -> ls = [] /\ ss = [] /\ ts = [].
  Proof. unfold kids. destruct ls, ss, ts; cbn; intro H; try discriminate. auto. Qed.

  Lemma split_nodup (ls ss ts : list board) :
    nodup_b (map bname (ls ++ ss ++ ts)) = true ->
    NoDup (map bname ls) /\ NoDup (map bname ss) /\ NoDup (map bname ts).
  Proof.
    intro H. apply nodup_b_NoDup in H. rewrite !map_app in H.
    destruct (NoDup_app_inv _ _ H) as [Dl H']. destruct (NoDup_app_inv _ _ H') as [Ds Dt]. auto.
  Qed.

  Lemma render_ok : forall c, IHc ext out c.
  Proof.
    induction c as [n fo ls ss ts Il Is It] using board_ind'.
    intros Hsafe cs ws Hcs Hn HF. cbn [bname] in Hn, HF.
    destruct (safe_below_unfold _ _ _ _ _ _ Hsafe) as [Hnames [Hnd [Sl [Ss St]]]].
    apply Forall_app in Hnames as [Nl Hnames]. apply Forall_app in Hnames as [Ns Nt].
    destruct (split_nodup _ _ _ Hnd) as [Dl [Ds Dt]].
    rewrite render_named by (destruct Hn; assumption). rewrite (join_ok ext cs n Hn).
    destruct (kids ls ss ts) eqn:Ek.
    - cbn [app okseq]. split; [|split].
      + destruct Hcs as [t ->]. exists (t ++ [n]). now rewrite app_assoc.
      + intros w Hw. destruct (HF w Hw) as [_ [H2 _]]. exact H2.
      + unfold own_file. rewrite Ek, join_index, file_of_snoc.
        apply (body_ok ext out); auto.
        * destruct Hcs as [t ->]. exists (t ++ [n]). now rewrite app_assoc.
        * intros q Hq. apply (Fgn_Out ext). now apply HF.
    - destruct (kids_false _ _ _ Ek) as [-> [-> ->]]. cbn [flat_map app].
      unfold own_file. rewrite Ek, file_of_snoc. destruct fo; [exact I|]. cbn [okseq].
      split; [|split; [|split; [|split; [|exact I]]]].
      + destruct Hcs as [t ->]. exists (t ++ [n ++ ext]). split.
        * intro E. apply app_eq_nil in E as [_ E]. discriminate.
        * now rewrite app_assoc.
      + rewrite removelast_last. intros w Hw H. destruct (HF w Hw) as [H1 _]. apply H1.
        exact (prefix_trans _ _ _ H (ex_intro _ [n] eq_refl)).
      + intros w Hw. destruct (HF w Hw) as [_ [_ [_ H4]]]. exact H4.
      + intro Hw. destruct (HF _ Hw) as [_ [_ [H3 _]]]. now apply H3.
  Qed.

  Lemma filter_neg_nil {A} (g : A -> bool) l : filter g (filter (fun x => negb (g x)) l) = [].
  Proof.
    induction l as [|x l IH]; cbn; [reflexivity|]. destruct (g x) eqn:E; cbn; [exact IH|]. now rewrite E.
  Qed.

  Record Pre (root : board) (f : fsys) : Prop := {
    pre_anc : Anc out f;
    pre_anc_files : forall d, In d (prefixes (removelast out)) -> is_file f d = false;
    pre_fresh : forall e, In e (files f) -> inside_file_b ext out (fst e) = true -> snd e <> 1;
    pre_outdir : has_kids root = false -> is_dir f (file_of ext out) = false }.

  Lemma fs_pre_Pre root f : fs_pre ext out root f = true -> Pre root f.
  Proof.
    unfold fs_pre. rewrite !andb_true_iff. intros [[[H1 H2] H3] H4]. constructor.
    - now apply ancestors_exist_Anc.
    - rewrite forallb_forall in H2. intros d Hd. apply negb_true_iff. now apply H2.
    - rewrite forallb_forall in H3. intros e He Hin E. specialize (H3 e He).
      rewrite Hin, E in H3. discriminate.
    - intro Hk. rewrite Hk in H4. cbn in H4. now apply negb_true_iff.
  Qed.

  Lemma inv_clear root f : Pre root f -> Inv ext out [] (fst (step f (RemoveAll out))).
  Proof.
    intros [P1 P2 P3 P4]. cbn [step fst]. constructor; cbn [files dirs map].
    - apply (filter_neg_nil (fun e : path * N => prefix_b out (fst e))).
    - intros d Hd Hod. apply filter_In in Hd as [_ Hd]. apply negb_true_iff, prefix_b_false in Hd. contradiction.
    - intros d Hd. apply filter_In. split; [now apply P1|].
      apply negb_true_iff, prefix_b_false. exact (Anc_not_inside out d Hd).
    - intros d Hd. destruct (is_file _ d) eqn:E; [|reflexivity]. exfalso.
      apply is_file_in in E as [x Hin]. cbn [files] in Hin. apply filter_In in Hin as [Hin _].
      assert (Hf : is_file f d = true) by (apply is_file_in; now exists x).
      rewrite (P2 d Hd) in Hf. discriminate.
    - intros e He Hfo. apply filter_In in He as [He _]. apply (P3 e He).
      unfold inside_file_b. rewrite Hfo, path_eqb_refl. reflexivity.
  Qed.

  (* The whole render of a tree with safe names, replayed on a file system satisfying Pre, runs to
     the end and leaves exactly one file of this run per board inside the location. *)
  Lemma render_one_file_per_board root f :
    safe_names ext root = true -> Pre root f ->
    snd (run (render ext out root) f) = true
    /\ one_file_per_board ext out root (files (fst (run (render ext out root) f))) false = true.
  Proof.
    intros Hs HP. unfold safe_names in Hs. apply andb_prop in Hs as [Hn Hs].
    destruct root as [n fo ls ss ts]. cbn [bname] in Hn. destruct n; [|discriminate]. clear Hn.
    unfold one_file_per_board. cbn [negb andb].
    destruct (kids ls ss ts) eqn:Ek.
    - (* multi-board: RemoveAll out, then the children, then out/index.ext *)
      assert (Er : render ext out (Board [] fo ls ss ts) =
                   RemoveAll out :: (flat_map (render ext (lstem out ss ts)) ls
                                     ++ flat_map (render ext (sstem out ls ts)) ss
                                     ++ flat_map (render ext (tstem out ls ss)) ts
                                     ++ (if fo then [] else [WriteFile (out ++ [s_index ++ ext])]))).
      { cbn [render is_nil]. fold (kids ls ss ts). rewrite Ek. cbn [app].
        rewrite join_index, file_of_snoc. reflexivity. }
      rewrite Er. cbn [run].
      pose proof (inv_clear _ f HP) as HI. destruct (step f (RemoveAll out)) as [f1 ok] eqn:Es.
      assert (ok = true) by (cbn in Es; now injection Es as _ <-). subst ok. cbn [fst] in HI.
      destruct (safe_below_unfold _ _ _ _ _ _ Hs) as [Hnames [Hnd [Sl [Ss St]]]].
      apply Forall_app in Hnames as [Nl Hnames]. apply Forall_app in Hnames as [Ns Nt].
      destruct (split_nodup _ _ _ Hnd) as [Dl [Ds Dt]].
      assert (Hall : forall l : list board, Forall (IHc ext out) l).
      { intro l. apply Forall_forall. intros c _. apply render_ok. }
      pose proof (body_ok ext out out [] fo ls ss ts (prefix_refl out) (fun q (H : In q []) => match H with end)
                    (Hall ls) (Hall ss) (Hall ts) Nl Ns Nt Sl Ss St Dl Ds Dt) as Hok.
      destruct (run_okseq ext out Hext Hout _ [] f1 Hok HI) as [Hrun HI'].
      split; [exact Hrun|]. cbn [app] in HI'.
      rewrite (count_inside ext out _ _ HI'). apply Nat.eqb_eq.
      rewrite <- (writes_count ext (Board [] fo ls ss ts) out), Er. reflexivity.
    - (* a single board: out.ext *)
      destruct (kids_false _ _ _ Ek) as [-> [-> ->]].
      destruct HP as [P1 P2 P3 P4]. specialize (P4 eq_refl).
      assert (Hold : filter (fun e => inside_file_b ext out (fst e) && N.eqb (snd e) 1) (files f) = []).
      { rewrite <- (filter_neg_nil (fun e : path * N => inside_file_b ext out (fst e) && N.eqb (snd e) 1) (files f)).
        f_equal. symmetry. apply filter_all. intros e He. apply negb_true_iff.
        destruct (inside_file_b ext out (fst e)) eqn:Ei; [|reflexivity]. cbn [andb].
        apply N.eqb_neq. now apply P3. }
      destruct fo.
      + cbn. rewrite Hold. split; reflexivity.
      + cbn [render is_nil nonempty orb flat_map app run step count_boards map list_sum].
        rewrite file_of_parent by exact Hout.
        assert (E1 : existsb (is_file f) (prefixes (removelast out)) = false).
        { destruct (existsb (is_file f) (prefixes (removelast out))) eqn:E; [|reflexivity].
          apply existsb_exists in E as [d [Hd Hf]]. rewrite (P2 d Hd) in Hf. discriminate. }
        rewrite E1, P4. cbn [fst snd files]. split; [reflexivity|].
        rewrite filter_app', filter_comm, Hold. cbn [filter fst snd app].
        unfold inside_file_b. rewrite path_eqb_refl. reflexivity.
  Qed.
End RenderTop.

Lemma one_file_per_board_on_fs : forall ext out root f,
  safe_names ext root = true -> ext_wf ext = true -> out <> [] -> fs_pre ext out root f = true ->
  snd (run (cli_events ext out root) f) = true
  /\ one_file_per_board ext out root (files (fst (run (cli_events ext out root) f))) false = true.
Proof.
  intros ext out root f Hs He Ho Hp. rewrite (cli_events_safe ext out root Hs).
  assert (Hext : ext <> []) by (destruct ext; [discriminate | discriminate]).
  exact (render_one_file_per_board ext out Hext Ho root f Hs (fs_pre_Pre ext out root f Hp)).
Qed.
