(* C17 -- LayoutNested is total on the model of V.C18.Nested: for every good graph, with engines and a router
   that do not return errors, [layout] returns Ok: no Crash (nil dereference / index out of range), none of the
   "could not find object ... after layout" errors, and the fuel [fuel_for g] = 3 * |objects| + 3 is never
   exhausted (neither by the recursion on nested graphs nor by the work queue).  Why 3: a nested graph has strictly
   fewer objects than its parent EXCEPT when a container is extracted together with itself (grid-cell container,
   constant near); that can happen at most twice in a row with the same size: grid-cell container (the nested graph is
   laid out as a plain diagram, so no further cell extraction), then constant near (its near key is cleared). *)
From Coq Require Import List NArith Bool Arith Lia Permutation.
Import ListNotations.
Require Import V.Lib.RunCases V.C18.Nested V.C18.Spec V.C18.Dec V.C18.SortLemmas V.C18.Forest V.C18.Paths
        V.C18.Fill V.C18.Restore V.C18.Pieces V.C18.Inv V.C18.Extract V.C18.Queue V.C18.Steps V.C18.Finish
        V.C18.Proofs.

Definition H_core_total (engine : dtype -> graph -> option graph) : Prop := forall dt g, engine dt g <> None.
Definition H_router_total (router : graph -> list edge -> bool) : Prop := forall g es, router g es = true.

(* no object of the graph can be extracted together with itself at this level: not a grid, and no near key that
   could make a constant near (whatever the names of the root's children are) *)
Definition static_near (g : graph) (c : tree) : bool := Nat.eqb (g_level g) 0 && is_some (k_near (t_kind c)).
Definition no_self (g : graph) (inf : info) : Prop :=
  i_dt inf <> DGrid /\ forall i c, find_f i (g_roots g) = Some c -> static_near g c = false.

Definition enough (f : nat) (g : graph) (inf : info) : Prop :=
  3 * length (g_objs g) + 3 <= f \/ (3 * length (g_objs g) + 2 <= f /\ i_dt inf <> DGrid)
  \/ (3 * length (g_objs g) + 1 <= f /\ no_self g inf).

Lemma i_near_static g c : i_near (nested_info g c) = true -> static_near g c = true.
Proof.
  unfold nested_info, static_near, is_const. simpl. intro H. apply andb_true_iff in H as [H1 H2].
  apply andb_true_iff in H2 as [H2 _]. rewrite H1, H2. reflexivity.
Qed.

(* size of the work still queued, measured in the ORIGINAL forest *)
Definition qsz (g0 : graph) (queue : list N) : nat :=
  length (flat_map (fun q => match find_f q (g_roots g0) with Some t => tids t | None => [] end) queue).

Lemma qsz_app g0 q1 q2 : qsz g0 (q1 ++ q2) = qsz g0 q1 + qsz g0 q2.
Proof. unfold qsz. rewrite flat_map_app, app_length. reflexivity. Qed.

Lemma qsz_kids g0 c : NoDup (fids (g_roots g0)) -> find_f (t_id c) (g_roots g0) = Some c ->
  qsz g0 (map t_id (t_kids c)) = length (fids (t_kids c)).
Proof.
  intros ND Hf. unfold qsz.
  assert (H : forall d, In d (t_kids c) -> find_f (t_id d) (g_roots g0) = Some d) by (intros; eapply find_f_kid; eassumption).
  induction (t_kids c) as [|d r IH]; [reflexivity|]. cbn [map flat_map].
  rewrite (H d (or_introl eq_refl)). rewrite fids_cons, !app_length. f_equal. apply IH. intros; apply H; right; assumption.
Qed.

Lemma qsz_cons g0 c q : find_f (t_id c) (g_roots g0) = Some c ->
  qsz g0 (t_id c :: q) = S (length (fids (t_kids c))) + qsz g0 q.
Proof. intro Hf. unfold qsz. simpl. rewrite Hf, app_length. destruct c. rewrite tids_T. reflexivity. Qed.

Lemma filter_length_le {A} (p : A -> bool) l : length (filter p l) <= length l.
Proof. induction l as [|x t IH]; simpl; [lia|]. destruct (p x); simpl; lia. Qed.

Lemma filter_length_lt {A} (p : A -> bool) l x : In x l -> p x = false -> length (filter p l) < length l.
Proof.
  induction l as [|y t IH]; simpl; intros Hin Hp; [contradiction|]. destruct Hin as [E|Hin].
  - subst. rewrite Hp. pose proof (filter_length_le p t). lia.
  - specialize (IH Hin Hp). destruct (p y); simpl; lia.
Qed.

Lemma no_near_is_some t : no_near_t t = true -> is_some (k_near (t_kind t)) = false.
Proof. intro H. rewrite (no_near_kind t H). reflexivity. Qed.

Section Total.
  Variable engine : dtype -> graph -> option graph.
  Variable router : graph -> list edge -> bool.
  Hypothesis HE : H_core_structure engine.
  Hypothesis HT : H_core_total engine.
  Hypothesis HR : H_router_total router.

  (* ---- after the loop ---- *)
  Lemma inject_all_total m all : forall todo cs g,
    Forall2 (fun c pe => lookup m (fst pe) = Some c /\ assoc_last (fst pe) all = Some (snd pe)) cs todo ->
    exists g3, inject_all m all todo g = Some g3.
  Proof.
    induction todo as [|[p ng] r IH]; intros cs g F; simpl; [eauto|].
    inversion F as [|c ? cs' ? [L A] F']; subst. simpl in L, A. rewrite L, A. eapply IH. exact F'.
  Qed.

  Lemma finish_total sv inf g0 s : good g0 -> linv g0 s [] -> exists r, finish engine router sv inf s = Ok r.
  Proof.
    intros G0 [cs [I [_ _]]]. unfold finish.
    assert (HG1 : exists g1, (if negb (is_nil (g_objs (s_g s))) then engine (i_dt inf) (s_g s) else Some (s_g s)) = Some g1 /\
                             inv g0 g1 (s_ext s) (s_x s) (s_nears s) cs).
    { destruct (negb (is_nil (g_objs (s_g s)))).
      - destruct (engine (i_dt inf) (s_g s)) as [g1|] eqn:E; [|exfalso; eapply HT; exact E].
        exists g1. split; [reflexivity|]. apply HE in E. apply geq_b_geq in E. eapply inv_geq; eassumption.
      - exists (s_g s). split; [reflexivity | exact I]. }
    destruct HG1 as [g1 [E1 I1]]. rewrite E1.
    assert (HG2 : exists g2, (if is_nil (s_nears s) then Some g1 else near_layout g1 (s_nears s)) = Some g2 /\
                             inv g0 g2 (s_ext s) (s_x s) [] cs).
    { destruct (s_nears s) as [|n0 nr] eqn:EN; simpl.
      - exists g1. split; [reflexivity | exact I1].
      - assert (Hall : forallb (fun ng => is_some (near_class ng)) (n0 :: nr) = true).
        { apply forallb_forall. intros ng Hin. pose proof (iv_piece_near _ _ _ _ _ _ I1) as P.
          rewrite Forall_forall in P. destruct (P ng Hin) as [_ [t [cl [Er [Ek _]]]]].
          unfold near_class. rewrite Er, Ek. reflexivity. }
        unfold near_layout. rewrite Hall. eexists. split; [reflexivity|].
        assert (NL : near_layout g1 (n0 :: nr) = Some (fold_left (near_phase (n0 :: nr)) [0%N; 1%N; 2%N] g1)).
        { unfold near_layout. rewrite Hall. reflexivity. }
        destruct (near_layout_spec _ _ _ (iv_piece_near _ _ _ _ _ _ I1) NL) as [nears' [P Eg]]. rewrite Eg.
        apply inv_near_all; [exact G0|]. eapply inv_nears_perm; eassumption. }
    destruct HG2 as [g2 [E2 I2]]. rewrite E2.
    pose proof (inject_facts g0 g2 _ _ _ _ G0 I2) as Facts.
    destruct (inject_all_total (idmap g2) (s_ext s) (s_ext s) cs g2 Facts) as [g3 E3]. rewrite E3.
    pose proof (inject_all_inv g0 _ _ _ _ G0 _ _ _ _ I2 Facts E3) as I3.
    destruct (s_x s) as [|x0 xr] eqn:EX; cbn [is_nil]; [eauto|].
    assert (Hrl : relink (idmap g2 ++ idmap g3) (x0 :: xr) = Some (map x_e (x0 :: xr))).
    { apply relink_ok. intros x Hx. pose proof (iv_x _ _ _ _ _ _ I3) as J9. rewrite Forall_forall in J9.
      destruct (J9 x Hx) as [L [Ex1 Ex2]].
      pose proof (iv_edges _ _ _ _ _ _ I3) as J8. unfold ext_edges, near_edges in J8. simpl in J8.
      assert (He : In (x_e x) (nonlife (g_edges g0))).
      { eapply Permutation_in; [exact J8 | apply in_app_iff; right; change (x_e x0 :: map x_e xr) with (map x_e (x0 :: xr)); apply in_map; exact Hx]. }
      destruct (gd_ends g0 G0 _ He) as [Hs Hd].
      pose proof (iv_objs _ _ _ _ _ _ I3) as J4. unfold ext_objs, near_objs in J4. simpl in J4. rewrite app_nil_r in J4.
      assert (Ho : forall i, In i (g_objs g0) -> In i (g_objs g3)).
      { intros i Hi. eapply Permutation_in; [symmetry; exact J4 | exact Hi]. }
      rewrite Ex1, Ex2, !lookup_app.
      rewrite (inv_lookup g0 g3 _ _ _ _ G0 I3 _ (Ho _ Hs)), (inv_lookup g0 g3 _ _ _ _ G0 I3 _ (Ho _ Hd)). auto. }
    rewrite Hrl, HR. eauto.
  Qed.

  (* ---- one iteration ---- *)
  Section Step.
    Variable rec : info -> graph -> res (graph * list call).
    Variable g0 : graph.
    Variable inf : info.
    Variable f : nat.
    Hypothesis G0 : good g0.
    Hypothesis Hrec : spec rec.
    Hypothesis Hrec_ok : forall ninf ng, good ng -> enough f ng ninf -> exists r, rec ninf ng = Ok r.
    Hypothesis Hfuel : enough (S f) g0 inf.

    Lemma objs_le s cs : inv g0 (s_g s) (s_ext s) (s_x s) (s_nears s) cs -> length (g_objs (s_g s)) <= length (g_objs g0).
    Proof.
      intro I. rewrite <- (Permutation_length (iv_objs _ _ _ _ _ _ I)). rewrite app_length. lia.
    Qed.

    Lemma step_total sv s cid q :
      linv g0 s (cid :: q) ->
      exists s1 more, step rec sv inf cid s = Ok (s1, more) /\ qsz g0 (q ++ more) < qsz g0 (cid :: q).
    Proof.
      intros [cs [I [Q NF]]].
      destruct (qinv_head g0 (s_g s) cs cid q Q) as [c [Hf [Hf0 [Eid Hno]]]]. subst cid.
      pose proof (inv_nd g0 (s_g s) _ _ _ _ G0 I) as ND.
      pose proof (objs_le s cs I) as Hle.
      assert (Hcobj : In (t_id c) (g_objs (s_g s))).
      { apply (inv_obj_in g0 (s_g s) _ _ _ _ I). apply find_f_some in Hf as [_ Inc]. apply Inc, tids_self. }
      assert (Hsz0 : qsz g0 (q ++ []) < qsz g0 (t_id c :: q)) by (rewrite app_nil_r, (qsz_cons g0 c q Hf0); lia).
      assert (Hlev : g_level (s_g s) = g_level g0) by apply (iv_level _ _ _ _ _ _ I).
      destruct (root_near_find _ _ _ NF Hf) as [Hroot Hkids].
      unfold step. rewrite Hf.
      destruct (is_cell inf (s_g s) c && is_default (nested_info (s_g s) c)) eqn:EC.
      - (* grid cell container: the container is extracted with itself, so the full fuel is available *)
        apply andb_true_iff in EC as [EC ED]. unfold is_cell in EC. apply andb_true_iff in EC as [EC1 EC].
        apply andb_true_iff in EC1 as [EG _]. apply dtype_eqb_eq in EG.
        apply mem_map_id in EC as [t [Ht Et]].
        pose proof (find_f_root _ t ND Ht) as Hft. rewrite Et, Hf in Hft. inversion Hft; subst t.
        destruct (step_cell_ex rec g0 G0 Hrec sv s c q cs I Q NF Hf Hf0 Hno Ht) as [Gin HX].
        assert (Hfu : 3 * length (g_objs g0) + 3 <= S f).
        { destruct Hfuel as [H|[[_ H]|[_ [H _]]]]; [exact H | congruence | congruence]. }
        destruct (Hrec_ok default_info (ex_ng c true (s_g s)) Gin) as [[ng' tr] R].
        { right. left. split; [|simpl; discriminate].
          simpl. pose proof (filter_length_le (ex_in c true) (g_objs (s_g s))). lia. }
        destruct (HX ng' tr R) as [s2 [E2 _]]. exists s2, []. split; [exact E2 | exact Hsz0].
      - destruct (negb (is_default (nested_info (s_g s) c))) eqn:ED.
        + destruct (negb (i_near (nested_info (s_g s) c)) && is_nil (t_kids c)) eqn:ES.
          * exists s, []. split; [reflexivity | exact Hsz0].
          * destruct (i_near (nested_info (s_g s) c)) eqn:EN.
            -- (* constant near *)
               assert (Hk : is_some (k_near (t_kind c)) = true).
               { apply i_near_static in EN. unfold static_near in EN. apply andb_true_iff in EN as [_ EN]. exact EN. }
               destruct (step_near_ex rec g0 G0 Hrec s c (nested_info (s_g s) c) q cs I Q NF Hf Hf0 Hno EN Hk) as [Gin HX].
               assert (Hfu : 3 * length (g_objs g0) + 2 <= S f).
               { destruct Hfuel as [H|[[H _]|[_ [_ H]]]]; [lia | exact H|]. specialize (H _ _ Hf0).
                 apply i_near_static in EN. unfold static_near in *. rewrite Hlev in EN. congruence. }
               destruct (Hrec_ok default_info (near_in c (s_g s)) Gin) as [[ng' tr] R].
               { right. right. split.
                 - simpl. pose proof (filter_length_le (ex_in c true) (g_objs (s_g s))). lia.
                 - split; [simpl; discriminate|]. intros i x Hx. simpl in Hx. unfold find_f in Hx. simpl in Hx.
                   destruct (find_t i (set_near None c)) as [y|] eqn:Ey; [|discriminate]. inversion Hx; subst y.
                   unfold static_near. simpl.
                   destruct c as [ci cn ck cks]. simpl in Ey. destruct (N.eqb i ci).
                   + inversion Ey; subst x. simpl. apply andb_false_r.
                   + apply first_some_in in Ey as [z [Hz Ez]]. simpl in Hkids. rewrite forallb_forall in Hkids.
                     rewrite (no_near_is_some x (no_near_find i z x (Hkids z Hz) Ez)). apply andb_false_r. }
               destruct (HX ng' tr R) as [s2 [E2 _]]. exists s2, []. split; [exact E2 | exact Hsz0].
            -- (* grid / sequence diagram: only the contents are extracted *)
               assert (Gin : good (ex_ng c false (s_g s))) by (eapply ex_ng_good_kids; eassumption).
               destruct (Hrec_ok (nested_info (s_g s) c) (ex_ng c false (s_g s)) Gin) as [[ng' tr] R].
               { left. simpl.
                 assert (Hlt : length (filter (ex_in c false) (g_objs (s_g s))) < length (g_objs (s_g s))).
                 { apply (filter_length_lt _ _ (t_id c) Hcobj). unfold ex_in, ex_nids. apply mem_false.
                   apply (NoDup_kids c (find_f_NoDup _ _ _ ND Hf)). }
                 destruct Hfuel as [H|[[H _]|[H _]]]; lia. }
               destruct (step_clear_ex rec g0 G0 Hrec s c _ q cs ng' tr I Q NF Hf Hf0 Hno EN R) as [s2 [E2 _]].
               exists s2, []. split; [exact E2 | exact Hsz0].
        + (* ordinary container or leaf: the children are queued *)
          exists s, (map t_id (t_kids c)). split; [reflexivity|].
          rewrite qsz_app, (qsz_kids g0 c (gd_nd g0 G0) Hf0), (qsz_cons g0 c q Hf0). lia.
    Qed.

    Lemma loop_total sv : forall qf queue s, linv g0 s queue -> qsz g0 queue <= qf ->
      exists s', loop rec sv inf qf queue s = Ok s'.
    Proof.
      induction qf as [|qf IH]; intros queue s L Hq; destruct queue as [|cid q]; simpl; eauto.
      - destruct (step_total sv s cid q L) as [s1 [more [_ Hlt]]]. lia.
      - destruct (step_total sv s cid q L) as [s1 [more [E Hlt]]]. rewrite E. apply IH; [|lia].
        eapply step_inv; eassumption.
    Qed.
  End Step.

  Lemma qsz_list g0 l : (forall t, In t l -> find_f (t_id t) (g_roots g0) = Some t) ->
    qsz g0 (map t_id l) = length (fids l).
  Proof.
    unfold qsz. induction l as [|t r IH]; intro H; [reflexivity|]. cbn [map flat_map].
    rewrite (H t (or_introl eq_refl)), fids_cons, !app_length. f_equal. apply IH. intros; apply H; right; assumption.
  Qed.

  Lemma qsz_roots g0 : NoDup (fids (g_roots g0)) -> qsz g0 (map t_id (g_roots g0)) = length (fids (g_roots g0)).
  Proof. intro ND. apply qsz_list. intros; apply find_f_root; assumption. Qed.

  Theorem layout_nested_total_fuel : forall f inf g, good g -> enough f g inf ->
    exists r, layout_nested engine router f inf g = Ok r.
  Proof.
    induction f as [|f IH]; intros inf g G En.
    - exfalso. destruct En as [H|[[H _]|[H _]]]; lia.
    - simpl.
      destruct (loop_total (layout_nested engine router f) g inf f G (layout_nested_spec engine router HE f)
                           (fun ninf ng Gn En' => IH ninf ng Gn En') En (save_order g)
                           (length (fids (g_roots g))) (map t_id (g_roots g)) (mkSt g [] [] [] [])
                           (init_linv g G)) as [s' EL].
      { rewrite (qsz_roots g (gd_nd g G)). lia. }
      rewrite EL. apply (finish_total (save_order g) inf g s' G).
      eapply loop_inv; [exact G | apply layout_nested_spec; exact HE | apply init_linv; exact G | exact EL].
  Qed.

  Theorem layout_nested_total_lemma : forall inf g, wf g -> absids_distinct g -> nears_at_root g ->
    exists g' tr, layout engine router inf g = Ok (g', tr).
  Proof.
    intros inf g W A NR. destruct (layout_nested_total_fuel (fuel_for g) inf g (good_of_hyps g W A NR)) as [[g' tr] E].
    - left. unfold fuel_for. lia.
    - exists g', tr. exact E.
  Qed.
End Total.

Require V.C18.Check V.C18.StubOk.
Lemma total_hyps_stub :
  H_core_structure V.C18.Check.stub_engine /\ H_core_total V.C18.Check.stub_engine /\ H_router_total V.C18.Check.stub_router.
Proof.
  split; [exact V.C18.StubOk.stub_engine_ok|]. split.
  - intros dt g. destruct dt; discriminate.
  - intros g es. reflexivity.
Qed.
