(* C17 -- finiteness through the arithmetic of the orchestration (d2layouts.go: boundingBox with its +Inf/-Inf
   seeds, FitToGraph, PositionNested, the 0 - TopLeft shift of a grid-cell container).  float64 values are
   modelled as extended rationals (finite / +Inf / -Inf / NaN) with the IEEE rules for + - min max that matter
   here; rounding is not modelled.  Statement: if everything the nested layout returned is finite and the
   container was placed at a finite point, every number the orchestration writes is finite. *)
From Coq Require Import QArith Qminmax List Bool.
Import ListNotations.
Open Scope Q_scope.

Inductive ext := Fin (q : Q) | PInf | NInf | NaN.
Definition is_fin (a : ext) : bool := match a with Fin _ => true | _ => false end.

Definition eadd (a b : ext) : ext :=
  match a, b with
  | Fin x, Fin y => Fin (x + y)
  | NaN, _ | _, NaN => NaN
  | PInf, NInf | NInf, PInf => NaN
  | PInf, _ | _, PInf => PInf
  | NInf, _ | _, NInf => NInf
  end.
Definition eneg (a : ext) : ext := match a with Fin x => Fin (- x) | PInf => NInf | NInf => PInf | NaN => NaN end.
Definition esub (a b : ext) : ext := eadd a (eneg b).
Definition emin (a b : ext) : ext :=
  match a, b with
  | NaN, _ | _, NaN => NaN
  | NInf, _ | _, NInf => NInf
  | PInf, x | x, PInf => x
  | Fin x, Fin y => Fin (Qmin x y)
  end.
Definition emax (a b : ext) : ext :=
  match a, b with
  | NaN, _ | _, NaN => NaN
  | PInf, _ | _, PInf => PInf
  | NInf, x | x, NInf => x
  | Fin x, Fin y => Fin (Qmax x y)
  end.
Definition is_zero (a : ext) : bool := match a with Fin x => Qeq_bool x 0 | _ => false end.

Record obj := mkObj { o_x : ext; o_y : ext; o_w : ext; o_h : ext }.
Definition obj_fin (o : obj) : bool := is_fin (o_x o) && is_fin (o_y o) && is_fin (o_w o) && is_fin (o_h o).
Definition pt := (ext * ext)%type.
Definition pt_fin (p : pt) : bool := is_fin (fst p) && is_fin (snd p).

(* boundingBox: (tl.x, tl.y, br.x, br.y) *)
Definition bbox_step (b : ext * ext * ext * ext) (o : obj) : ext * ext * ext * ext :=
  let '(tx, ty, bx, by_) := b in
  (emin tx (o_x o), emin ty (o_y o), emax bx (eadd (o_x o) (o_w o)), emax by_ (eadd (o_y o) (o_h o))).
Definition bbox (objs : list obj) : ext * ext * ext * ext :=
  match objs with
  | [] => (Fin 0, Fin 0, Fin 0, Fin 0)
  | _ => fold_left bbox_step objs (PInf, PInf, NInf, NInf)
  end.

(* FitToGraph(container, nested, Spacing{}) : the container's new (Width, Height) *)
Definition fit_to_graph (root_w root_h : ext) (objs : list obj) : ext * ext :=
  if is_zero root_w || is_zero root_h then
    let '(tx, ty, bx, by_) := bbox objs in (eadd (eadd (Fin 0) (esub bx tx)) (Fin 0), eadd (eadd (Fin 0) (esub by_ ty)) (Fin 0))
  else (eadd (eadd (Fin 0) root_w) (Fin 0), eadd (eadd (Fin 0) root_h) (Fin 0)).

(* PositionNested: objects and route points shifted by the container's top-left, unless it is (0,0) *)
Definition shift_obj (dx dy : ext) (o : obj) : obj := mkObj (eadd (o_x o) dx) (eadd (o_y o) dy) (o_w o) (o_h o).
Definition shift_pt (dx dy : ext) (p : pt) : pt := (eadd (fst p) dx, eadd (snd p) dy).
Definition position_nested (cx cy : ext) (objs : list obj) (pts : list pt) : list obj * list pt :=
  if is_zero cx && is_zero cy then (objs, pts) else (map (shift_obj cx cy) objs, map (shift_pt cx cy) pts).
(* grid-cell container: nested contents moved by (0 - curr.TopLeft) *)
Definition cell_shift (cx cy : ext) (objs : list obj) (pts : list pt) : list obj * list pt :=
  (map (shift_obj (esub (Fin 0) cx) (esub (Fin 0) cy)) objs, map (shift_pt (esub (Fin 0) cx) (esub (Fin 0) cy)) pts).

Lemma eadd_fin a b : is_fin a = true -> is_fin b = true -> is_fin (eadd a b) = true.
Proof. destruct a, b; simpl; auto. Qed.
Lemma esub_fin a b : is_fin a = true -> is_fin b = true -> is_fin (esub a b) = true.
Proof. destruct a, b; simpl; auto. Qed.

(* after at least one finite object the +Inf/-Inf seeds are gone *)
Definition box_fin (b : ext * ext * ext * ext) : bool :=
  let '(tx, ty, bx, by_) := b in is_fin tx && is_fin ty && is_fin bx && is_fin by_.
Definition seed_or_fin (b : ext * ext * ext * ext) : bool :=
  let '(tx, ty, bx, by_) := b in
  (match tx with Fin _ | PInf => true | _ => false end) && (match ty with Fin _ | PInf => true | _ => false end)
  && (match bx with Fin _ | NInf => true | _ => false end) && (match by_ with Fin _ | NInf => true | _ => false end).

Lemma bbox_step_fin b o : seed_or_fin b = true -> obj_fin o = true -> box_fin (bbox_step b o) = true.
Proof.
  destruct b as [[[tx ty] bx] by_]. destruct o as [x y w h]. unfold obj_fin. simpl.
  destruct tx, ty, bx, by_, x, y, w, h; simpl; intros; try discriminate; reflexivity.
Qed.

Lemma box_fin_seed b : box_fin b = true -> seed_or_fin b = true.
Proof. destruct b as [[[tx ty] bx] by_]. destruct tx, ty, bx, by_; simpl; intros; try discriminate; reflexivity. Qed.

Lemma fold_bbox_fin objs : forall b, box_fin b = true -> forallb obj_fin objs = true -> box_fin (fold_left bbox_step objs b) = true.
Proof.
  induction objs as [|o r IH]; simpl; intros b Hb H; [exact Hb|]. apply andb_true_iff in H as [H1 H2].
  apply IH; [|exact H2]. apply bbox_step_fin; [apply box_fin_seed; exact Hb | exact H1].
Qed.

Lemma bbox_fin objs : forallb obj_fin objs = true -> box_fin (bbox objs) = true.
Proof.
  destruct objs as [|o r]; [reflexivity|]. intro H.
  change (forallb obj_fin (o :: r)) with (obj_fin o && forallb obj_fin r) in H. apply andb_true_iff in H as [H1 H2].
  change (bbox (o :: r)) with (fold_left bbox_step r (bbox_step (PInf, PInf, NInf, NInf) o)).
  apply fold_bbox_fin; [|exact H2]. apply bbox_step_fin; [reflexivity | exact H1].
Qed.

Lemma fit_to_graph_finite rw rh objs :
  is_fin rw = true -> is_fin rh = true -> forallb obj_fin objs = true ->
  is_fin (fst (fit_to_graph rw rh objs)) = true /\ is_fin (snd (fit_to_graph rw rh objs)) = true.
Proof.
  intros Hw Hh Ho. unfold fit_to_graph. destruct (is_zero rw || is_zero rh).
  - pose proof (bbox_fin objs Ho) as Hb. destruct (bbox objs) as [[[tx ty] bx] by_]. unfold box_fin in Hb. cbn [fst snd].
    apply andb_true_iff in Hb as [Hb H4]. apply andb_true_iff in Hb as [Hb H3]. apply andb_true_iff in Hb as [H1 H2].
    split; (apply eadd_fin; [apply eadd_fin; [reflexivity | apply esub_fin; assumption] | reflexivity]).
  - cbn [fst snd]. split; (apply eadd_fin; [apply eadd_fin; [reflexivity | assumption] | reflexivity]).
Qed.

Lemma shift_objs_fin dx dy objs : is_fin dx = true -> is_fin dy = true -> forallb obj_fin objs = true ->
  forallb obj_fin (map (shift_obj dx dy) objs) = true.
Proof.
  intros Hx Hy. induction objs as [|o r IH]; simpl; intro H; [reflexivity|]. apply andb_true_iff in H as [H1 H2].
  rewrite (IH H2), andb_true_r. unfold obj_fin in *. destruct o as [x y w h]. simpl in *.
  apply andb_true_iff in H1 as [H1 Hh]. apply andb_true_iff in H1 as [H1 Hw]. apply andb_true_iff in H1 as [Hxx Hyy].
  rewrite (eadd_fin _ _ Hxx Hx), (eadd_fin _ _ Hyy Hy), Hw, Hh. reflexivity.
Qed.

Lemma shift_pts_fin dx dy pts : is_fin dx = true -> is_fin dy = true -> forallb pt_fin pts = true ->
  forallb pt_fin (map (shift_pt dx dy) pts) = true.
Proof.
  intros Hx Hy. induction pts as [|p r IH]; simpl; intro H; [reflexivity|]. apply andb_true_iff in H as [H1 H2].
  rewrite (IH H2), andb_true_r. unfold pt_fin in *. destruct p as [a b]. simpl in *.
  apply andb_true_iff in H1 as [Ha Hb]. rewrite (eadd_fin _ _ Ha Hx), (eadd_fin _ _ Hb Hy). reflexivity.
Qed.

Theorem layout_finite_lemma :
  forall rw rh cx cy objs pts,
    is_fin rw = true -> is_fin rh = true -> is_fin cx = true -> is_fin cy = true ->
    forallb obj_fin objs = true -> forallb pt_fin pts = true ->
    (* FitToGraph *)
    is_fin (fst (fit_to_graph rw rh objs)) = true /\ is_fin (snd (fit_to_graph rw rh objs)) = true /\
    (* PositionNested *)
    forallb obj_fin (fst (position_nested cx cy objs pts)) = true /\
    forallb pt_fin (snd (position_nested cx cy objs pts)) = true /\
    (* grid-cell shift *)
    forallb obj_fin (fst (cell_shift cx cy objs pts)) = true /\ forallb pt_fin (snd (cell_shift cx cy objs pts)) = true.
Proof.
  intros rw rh cx cy objs pts Hw Hh Hx Hy Ho Hp.
  destruct (fit_to_graph_finite rw rh objs Hw Hh Ho) as [F1 F2].
  assert (Nx : is_fin (esub (Fin 0) cx) = true) by (apply esub_fin; [reflexivity | exact Hx]).
  assert (Ny : is_fin (esub (Fin 0) cy) = true) by (apply esub_fin; [reflexivity | exact Hy]).
  repeat split; try assumption.
  - unfold position_nested. destruct (is_zero cx && is_zero cy); simpl; [exact Ho | apply shift_objs_fin; assumption].
  - unfold position_nested. destruct (is_zero cx && is_zero cy); simpl; [exact Hp | apply shift_pts_fin; assumption].
  - simpl. apply shift_objs_fin; assumption.
  - simpl. apply shift_pts_fin; assumption.
Qed.

(* the seeds matter: an EMPTY nested graph must not go through the fold (the code special-cases it) *)
Lemma bbox_seed_not_finite : box_fin (fold_left bbox_step [] (PInf, PInf, NInf, NInf)) = false.
Proof. reflexivity. Qed.
