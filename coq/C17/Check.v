(* Executable checker for C17 cases (see harness/c17.go, harness/c17_layout.go).

   EscCase valid id real_esc tag line go_hazard go_nl
     id        runes of the id handed to the REAL d2dagrelayout.escapeID (Go range-loop decoding),
     real_esc  runes of what it returned,
     tag       what the JS engine d2 uses (goja via lib/jsrunner) saw for  var __r = __T`<real_esc>`; :
               threw?, number of calls of the tag function and, for its FIRST call, number of string parts,
               number of arguments, raw text and cooked value (UTF-16 code units) of the first part,
     line      what happened when the REAL script line of generateAddEdgeLine ran against a stub g.setEdge:
               threw?, number of setEdge calls, the `name` it received (UTF-16 code units).
     go_hazard, go_nl   the Go predicates the harness uses to tag the two escapeID findings.
     valid = false: the Go string is not valid UTF-8 (outside the code-point model; the d2 parser replaces
               invalid bytes by U+FFFD, so compiled ids are valid): only the escapeID correspondence is checked.
   LexCase compare body uthrew uvalue tag
     an arbitrary template body evaluated untagged ( __v = `<body>`; ) and tagged: ties the lexer model to the
     engine beyond what escapeID can produce.  compare = false for the two escapes on which goja is known to
     deviate from ECMAScript (backslash 0 before 8 or 9 is accepted; backslash u{10FFFF} panics); escapeID can
     produce neither.
   LayoutCase engine err objs conns
     one generated d2 script that compiles, laid out and rendered by the real pipeline.

   codes:  1  model escapeID <> real escapeID
           2  what the theorems predict from the id (one token iff no hazard; value cooked_of id) differs from
              the engine's verdict
           3  the lexer model disagrees with the JS engine (verdict or cooked value)
           4  the harness's Go signature predicates (c17TokenHazard, c17NlEats) differ from token_hazard_b / nl_eats_b
          10  layout (d2lib.Compile after a successful d2compiler.Compile) returned an error
          11  a shape has a non-finite coordinate or size        12  negative width / height
          13  a connection has a route of fewer than 2 points    14  non-finite route point
          15  rendering (d2svg.Render) returned an error
          20  the emitted name is not exactly one substitution-free template token (on the engine's verdict)
          21  the name the engine computed differs from the id
          22  the real add-edge script line threw or did not call setEdge exactly once *)
From Coq Require Import ZArith QArith List Bool NArith.
Import ListNotations.
Require Import V.Lib.RunCases.
Require Export V.C17.Model.
Open Scope N_scope.

Definition qz (z : Z) : Q := inject_Z z.
Definition qd (m : Z) (e : N) : Q := Qmake m (match e with N0 => 1%positive | Npos p => Pos.pow 2 p end).

Inductive jsobs := JsObs (threw : bool) (calls ns na : N) (raw : list N) (cook_ok : bool) (cooked : list N).
Inductive lineobs := LineObs (threw : bool) (calls : N) (name : option (list N)).

Inductive case :=
| EscCase (valid : bool) (id real_esc : list N) (tag : jsobs) (line : lineobs) (go_hazard go_nl : bool)
| LexCase (compare : bool) (body : list N) (uthrew : bool) (uvalue : list N) (tag : jsobs)
| LayoutCase (engine err : N) (objs : list lobj) (conns : list (list lpt)).

Definition units_eqb := list_eqb N.eqb.

(* raw text of a template: CR LF and CR are normalised to LF *)
Fixpoint trv_norm (s : list N) : list N :=
  match s with
  | [] => []
  | c :: t =>
      if c =? CR then LF :: match t with
                            | d :: t' => if d =? LF then trv_norm t' else trv_norm t
                            | [] => []
                            end
      else c :: trv_norm t
  end.

Definition SEMI : N := 59.

(* does the engine's observation of  __T`body`;  agree with the lexer model? *)
Definition tag_agrees (body : list N) (t : jsobs) : bool :=
  match t with
  | JsObs threw calls ns na raw cok cooked =>
      match lex_template (body ++ [BT; SEMI]) with
      | LTok ck r =>
          if units_eqb r [SEMI]
          then negb threw && (calls =? 1) && (ns =? 1) && (na =? 1) && cok && units_eqb cooked ck
               && units_eqb raw (utf16 (trv_norm body))
          else implb (1 <=? calls) ((ns =? 1) && cok && units_eqb cooked ck)
      | LSubst ck r => implb (1 <=? calls) ((2 <=? ns) && cok && units_eqb cooked ck)
      | LErr => threw || ((1 <=? calls) && negb cok)
      end
  end.

Definition untag_agrees (body : list N) (uthrew : bool) (uvalue : list N) : bool :=
  match lex_template (body ++ [BT; SEMI]) with
  | LTok ck r => if units_eqb r [SEMI] then negb uthrew && units_eqb uvalue ck else true
  | LSubst _ _ => true
  | LErr => uthrew
  end.

(* property clauses on the engine's own verdict *)
Definition one_token_real (esc : list N) (t : jsobs) : bool :=
  match t with
  | JsObs threw calls ns na raw cok cooked =>
      negb threw && (calls =? 1) && (ns =? 1) && (na =? 1) && units_eqb raw (utf16 (trv_norm esc))
  end.

Definition value_real (id : list N) (t : jsobs) (l : lineobs) : bool :=
  match t, l with
  | JsObs _ _ _ _ _ cok cooked, LineObs _ _ name =>
      cok && units_eqb cooked (utf16 id) && opt_eqb units_eqb name (Some (utf16 id))
  end.

(* what the theorems predict from the id alone, against the engine's verdict: one token iff no hazard
   (C17_escape_id_token_safe_iff) and then the value is cooked_of id (C17_escape_id_cooked_value) *)
Definition predicted (id esc : list N) (t : jsobs) : bool :=
  Bool.eqb (one_token_real esc t) (negb (token_hazard_b id))
  && (token_hazard_b id
      || match t with JsObs _ _ _ _ _ cok cooked => cok && units_eqb cooked (utf16 (cooked_of id)) end).

Definition line_ran (l : lineobs) : bool :=
  match l with LineObs threw calls _ => negb threw && (calls =? 1) end.

Definition check_case (c : case) : list N :=
  match c with
  | EscCase valid id real_esc tag line go_hazard go_nl =>
      flag (units_eqb (escapeID id) real_esc) 1
      ++ flag (Bool.eqb go_hazard (token_hazard_b id) && Bool.eqb go_nl (nl_eats_b id)) 4
      ++ (if valid then
            flag (predicted id real_esc tag) 2
            ++ flag (tag_agrees real_esc tag) 3
            ++ flag (one_token_real real_esc tag) 20
            ++ flag (value_real id tag line) 21
            ++ flag (line_ran line) 22
          else [])
  | LexCase compare body uthrew uvalue tag =>
      if compare then flag (tag_agrees body tag && untag_agrees body uthrew uvalue) 3 else []
  | LayoutCase engine err objs conns =>
      layout_codes (mkcase engine err objs conns)
  end.
