(* C17 — Layout succeeds with finite geometry for every compilable diagram.  Statements only.

   Part A (this block): names cannot break dagre's generated script.  d2dagrelayout writes each connection's
   AbsID, after escapeID, between backticks into the JavaScript it feeds to the engine.  [emitted id rest] is that
   text from just after the opening backtick: escapeID id, the closing backtick, then the rest of the script;
   [lex_template] lexes template characters as ECMAScript does and answers
     LTok cooked rest'   one substitution-free template token with value [cooked] (UTF-16 code units), then rest'
     LSubst ..           a "${" substitution started            LErr   syntax error / unterminated.

   Planned statement (FALSE on the faithful model, kept for reference):
       escape_id_safe : forall id rest, lex_template (emitted id rest) = LTok (utf16 id) rest.
   Proved instead: its refutation with one minimal witness per cause, and the exact conditions under which each
   half (one token / same value) holds, for every id of any length and every continuation [rest]. *)
From Coq Require Import List NArith Bool ZArith QArith.
Import ListNotations.
Require Import V.C17.Model V.C17.EscapeProofs V.C17.Proofs.
Open Scope N_scope.

(* The Go function (three passes: ReplaceAll, regexp ReplaceAllString, ReplaceAll) is the one-pass function esc1. *)
Theorem C17_escape_id_one_pass : forall id, escapeID id = esc1 id.
Proof. exact escapeID_esc1. Qed.

(* Refutation: a backtick ends the literal at once, "${" starts a substitution, and a character followed by a
   newline is replaced together with the newline (value  \n  = backslash, n). *)
Theorem C17_escape_id_refuted :
  lex_template (emitted [BT] [59]) = LTok [] [BT; 59] /\
  lex_template (emitted [DOLLAR; LBRACE] [59]) = LSubst [] [BT; 59] /\
  lex_template (emitted [97; LF] [59]) = LTok [BS; ch_n] [59].
Proof. exact escape_id_refuted_witnesses. Qed.

Theorem C17_escape_id_safe_refuted :
  ~ (forall id rest, lex_template (emitted id rest) = LTok (utf16 id) rest).
Proof. exact escape_id_safe_refuted. Qed.

(* Token safety, exact: the emitted name is ONE substitution-free template token that ends exactly before [rest]
   iff the id has no backtick and no "${", except directly before a newline (where the regexp step swallows
   them).  Both directions, every id, every rest. *)
Theorem C17_escape_id_token_safe_iff : forall id rest,
  (exists cooked, lex_template (emitted id rest) = LTok cooked rest) <-> token_hazard_b id = false.
Proof. exact escape_token_safe_iff. Qed.

Theorem C17_token_hazard_spec : forall id, token_hazard_b id = true <-> Token_hazard id.
Proof. exact token_hazard_spec. Qed.

(* the simple sufficient condition, and its exactness for ids without newlines (every id the compiler produces:
   d2 writes a newline in a name as backslash n) *)
Theorem C17_escape_id_token_safe : forall id rest,
  ~ In BT id -> (forall pre post, id <> pre ++ DOLLAR :: LBRACE :: post) ->
  exists cooked, lex_template (emitted id rest) = LTok cooked rest.
Proof. exact escape_token_safe. Qed.

Theorem C17_escape_id_token_safe_iff_no_newline : forall id rest,
  ~ In LF id ->
  ((exists cooked, lex_template (emitted id rest) = LTok cooked rest) <->
   (~ In BT id /\ forall pre post, id <> pre ++ DOLLAR :: LBRACE :: post)).
Proof. exact escape_token_safe_iff_no_newline. Qed.

(* what a hazard does: the literal ends early (something of the name is left over as JavaScript) or a
   substitution expression starts; and escapeID never produces a malformed escape or an unterminated literal *)
Theorem C17_escape_id_hazard_breaks : forall id rest,
  token_hazard_b id = true ->
  (exists c r, lex_template (emitted id rest) = LSubst c r) \/
  (exists c r, lex_template (emitted id rest) = LTok c r /\ (length rest < length r)%nat).
Proof. exact escape_hazard_breaks. Qed.

Theorem C17_escape_id_never_syntax_error : forall id rest, lex_template (emitted id rest) <> LErr.
Proof. exact escape_never_syntax_error. Qed.

(* Value: when the name is one token its value is cooked_of id ... *)
Theorem C17_escape_id_cooked_value : forall id rest,
  token_hazard_b id = false -> lex_template (emitted id rest) = LTok (utf16 (cooked_of id)) rest.
Proof. exact escape_cooked. Qed.

(* ... and the full planned conclusion holds exactly for the ids without a hazard and without a newline that
   directly follows a character other than a backslash. *)
Theorem C17_escape_id_safe_iff : forall id rest,
  lex_template (emitted id rest) = LTok (utf16 id) rest <->
  token_hazard_b id = false /\ nl_eats_b id = false.
Proof. exact escape_value_iff. Qed.

Theorem C17_nl_eats_spec : forall id, nl_eats_b id = true <-> Nl_eats id.
Proof. exact nl_eats_spec. Qed.

(* The repair in coq/C17/fix.patch (escape backslash, backtick, dollar, newline, CR; nothing is dropped)
   satisfies the planned statement for every id. *)
Theorem C17_escape_id_fixed_safe : forall id rest,
  lex_template (escapeID_fixed id ++ BT :: rest) = LTok (utf16 id) rest.
Proof. exact escape_id_fixed_safe. Qed.

(* Part B: the predicate evaluated on every real layout run is the stated property. *)
Theorem C17_layout_ok_spec : forall c, layout_ok_b c = true <-> Layout_ok c.
Proof. exact layout_ok_b_spec. Qed.

Theorem C17_layout_codes_spec : forall c, layout_codes c = [] <-> layout_ok_b c = true.
Proof. exact layout_codes_nil_iff. Qed.

(* non-vacuity of the guarded statements *)
Example C17_token_safe_satisfiable :      (* the id  ("a\nb" -> c)[0]  as the compiler writes it *)
  token_hazard_b [40; 34; 97; 92; 110; 98; 34; 32; 45; 62; 32; 99; 41; 91; 48; 93] = false /\
  nl_eats_b [40; 34; 97; 92; 110; 98; 34; 32; 45; 62; 32; 99; 41; 91; 48; 93] = false.
Proof. split; vm_compute; reflexivity. Qed.

Example C17_hazard_satisfiable : token_hazard_b [97; BT; 98] = true /\ nl_eats_b [97; LF] = true.
Proof. split; vm_compute; reflexivity. Qed.

Example C17_no_newline_satisfiable : ~ In LF [97; DOLLAR; 98].
Proof. intros [H|[H|[H|[]]]]; discriminate. Qed.

Example C17_layout_ok_satisfiable :
  Layout_ok (mkcase 0 0 [mkobj 0 0 (53 # 1) (66 # 1) true; mkobj 0 (166 # 1) (53 # 1) (66 # 1) true]
                    [[(53 # 2, 66 # 1, true); (53 # 2, 166 # 1, true)]]).
Proof. exact layout_ok_example. Qed.

Print Assumptions C17_escape_id_one_pass.
Print Assumptions C17_escape_id_refuted.
Print Assumptions C17_escape_id_safe_refuted.
Print Assumptions C17_escape_id_token_safe_iff.
Print Assumptions C17_token_hazard_spec.
Print Assumptions C17_escape_id_token_safe.
Print Assumptions C17_escape_id_token_safe_iff_no_newline.
Print Assumptions C17_escape_id_hazard_breaks.
Print Assumptions C17_escape_id_never_syntax_error.
Print Assumptions C17_escape_id_cooked_value.
Print Assumptions C17_escape_id_safe_iff.
Print Assumptions C17_nl_eats_spec.
Print Assumptions C17_escape_id_fixed_safe.
Print Assumptions C17_layout_ok_spec.
Print Assumptions C17_layout_codes_spec.

(* Part C (orchestration: layout_nested_total, layout_finite over the LayoutNested model of coq/C18) is appended
   below this line by V.C17.Total. *)

(* ---------------------------------------------------------------------------------------------------------- *)
(* Part C -- the orchestration d2layouts.LayoutNested on the model V.C18.Nested (shared with C18). *)
Require V.C18.Nested V.C18.Spec V.C18.Check V.C18.StubOk V.C17.Total V.C17.Finite.

(* layout_nested_total: for EVERY graph of any size and nesting depth satisfying the checked hypotheses (unique
   object identities, distinct AbsIDs, near-constant keys only on children of the root), every engine that keeps the
   objects / tree / real edges (H_core_structure: H_core_ids is part of it) and does not itself return an error, and
   every router that does not return an error: LayoutNested returns Ok -- no Crash (ChildrenArray[0] of an empty
   array, nil NearKey), none of the "could not find object ... after layout|routing" errors, and neither the
   recursion fuel 3*|objects|+3 nor the queue fuel is exhausted. *)
Theorem C17_layout_nested_total :
  forall engine router,
    V.C18.Spec.H_core_structure engine -> V.C17.Total.H_core_total engine -> V.C17.Total.H_router_total router ->
    forall inf g, V.C18.Spec.wf g -> V.C18.Spec.absids_distinct g -> V.C18.Spec.nears_at_root g ->
      exists g' tr, V.C18.Nested.layout engine router inf g = V.C18.Nested.Ok (g', tr).
Proof. exact V.C17.Total.layout_nested_total_lemma. Qed.

(* the fuel statement in the form used by the induction: any fuel >= 3n+3 suffices; 3n+2 when the graph is not laid
   out as a grid; 3n+1 when, in addition, no object carries a near-constant key at root level 0 *)
Theorem C17_layout_nested_fuel_sufficient :
  forall engine router,
    V.C18.Spec.H_core_structure engine -> V.C17.Total.H_core_total engine -> V.C17.Total.H_router_total router ->
    forall f inf g, V.C18.Restore.good g -> V.C17.Total.enough f g inf ->
      exists r, V.C18.Nested.layout_nested engine router f inf g = V.C18.Nested.Ok r.
Proof. exact V.C17.Total.layout_nested_total_fuel. Qed.

(* layout_finite: the arithmetic the orchestration performs on what the nested layout returned (boundingBox with
   its +Inf/-Inf seeds, FitToGraph, PositionNested, the shift of a grid-cell container), over extended rationals
   (finite, +Inf, -Inf, NaN with the IEEE rules for + - min max): finite in, finite out.  Every coordinate the
   orchestration writes is a sum / difference / min / max of engine outputs and sizes. *)
Theorem C17_layout_finite :
  forall rw rh cx cy objs pts,
    V.C17.Finite.is_fin rw = true -> V.C17.Finite.is_fin rh = true ->
    V.C17.Finite.is_fin cx = true -> V.C17.Finite.is_fin cy = true ->
    forallb V.C17.Finite.obj_fin objs = true -> forallb V.C17.Finite.pt_fin pts = true ->
    V.C17.Finite.is_fin (fst (V.C17.Finite.fit_to_graph rw rh objs)) = true /\
    V.C17.Finite.is_fin (snd (V.C17.Finite.fit_to_graph rw rh objs)) = true /\
    forallb V.C17.Finite.obj_fin (fst (V.C17.Finite.position_nested cx cy objs pts)) = true /\
    forallb V.C17.Finite.pt_fin (snd (V.C17.Finite.position_nested cx cy objs pts)) = true /\
    forallb V.C17.Finite.obj_fin (fst (V.C17.Finite.cell_shift cx cy objs pts)) = true /\
    forallb V.C17.Finite.pt_fin (snd (V.C17.Finite.cell_shift cx cy objs pts)) = true.
Proof. exact V.C17.Finite.layout_finite_lemma. Qed.

(* non-vacuity: the stub engines of V.C18.Check satisfy all three engine hypotheses (the graph hypotheses are shown
   satisfiable by C18_graph_hypotheses_satisfiable) *)
Example C17_total_hypotheses_satisfiable :
  V.C18.Spec.H_core_structure V.C18.Check.stub_engine /\ V.C17.Total.H_core_total V.C18.Check.stub_engine
  /\ V.C17.Total.H_router_total V.C18.Check.stub_router.
Proof. exact V.C17.Total.total_hyps_stub. Qed.

Print Assumptions C17_layout_nested_total.
Print Assumptions C17_layout_nested_fuel_sufficient.
Print Assumptions C17_layout_finite.
Print Assumptions C17_total_hypotheses_satisfiable.
