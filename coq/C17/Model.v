(* C17 — what the harness observes of one real layout run, and the property predicate on it.

   The escape / template-literal part of the model is in Escape.v (re-exported here).  The orchestration
   model of d2layouts.LayoutNested lives in coq/C18 and its C17 theorems in C17/Total.v. *)
From Coq Require Import List ZArith QArith NArith Bool.
Import ListNotations.
Require Import V.Lib.RunCases.
Require Export V.C17.Escape.

(* one shape after layout: top-left corner, size (exact dyadic rationals of the float64 values) and the
   flag "all four float64 values are finite" computed in Go (NaN / Inf are passed as 0 with flag false) *)
Record lobj := mkobj { ox : Q; oy : Q; ow : Q; oh : Q; ofin : bool }.

(* one route point: x, y, finite *)
Definition lpt : Type := (Q * Q * bool)%type.

Record lcase := mkcase {
  l_engine : N;              (* 0 dagre, 1 ELK *)
  l_err : N;                 (* 0 none, 1 error after a successful compile (layout stage), 2 render error *)
  l_objs : list lobj;
  l_conns : list (list lpt)
}.

Definition obj_finite_b (o : lobj) : bool := ofin o.
Definition obj_size_b (o : lobj) : bool := negb (ofin o) || (Qle_bool 0 (ow o) && Qle_bool 0 (oh o)).
Definition route_len_b (r : list lpt) : bool := (2 <=? length r)%nat.
Definition route_finite_b (r : list lpt) : bool := forallb (fun p => snd p) r.

Definition layout_ok_b (c : lcase) : bool :=
  (l_err c =? 0)%N
  && forallb obj_finite_b (l_objs c) && forallb obj_size_b (l_objs c)
  && forallb route_len_b (l_conns c) && forallb route_finite_b (l_conns c).

(* one failure code per clause (the list Check.v reports): 10 layout error, 11 non-finite shape, 12 negative
   size, 13 route with fewer than two points, 14 non-finite route point, 15 render error *)
Definition layout_codes (c : lcase) : list N :=
  (flag (negb (l_err c =? 1)%N) 10
   ++ flag (forallb obj_finite_b (l_objs c)) 11
   ++ flag (forallb obj_size_b (l_objs c)) 12
   ++ flag (forallb route_len_b (l_conns c)) 13
   ++ flag (forallb route_finite_b (l_conns c)) 14
   ++ flag (negb (2 <=? l_err c)%N) 15)%N.

(* the property as stated: layout and render finished without error; every shape has a finite position and a
   finite, non-negative size; every connection has a route of at least two finite points *)
Definition Obj_ok (o : lobj) : Prop := ofin o = true /\ (0 <= ow o)%Q /\ (0 <= oh o)%Q.
Definition Route_ok (r : list lpt) : Prop := (2 <= length r)%nat /\ forall p, In p r -> snd p = true.
Definition Layout_ok (c : lcase) : Prop :=
  l_err c = 0%N /\ (forall o, In o (l_objs c) -> Obj_ok o) /\ (forall r, In r (l_conns c) -> Route_ok r).
