(* C17: proofs about escapeID and the template-literal lexer (definitions in Escape.v). *)
From Coq Require Import List NArith Bool Lia.
Import ListNotations.
Require Import V.C17.Escape.
Open Scope N_scope.

(* ---------------------------------------------------------------- induction two elements at a time *)

Lemma list_ind2 {A} (P : list A -> Prop) :
  P [] -> (forall a, P [a]) -> (forall a b t, P t -> P (b :: t) -> P (a :: b :: t)) -> forall l, P l.
Proof.
  intros H0 H1 H2.
  assert (H : forall l, P l /\ forall a, P (a :: l)).
  { induction l as [|b t [IH1 IH2]]; split; auto. }
  intros l; apply H.
Qed.

Lemma next_is_hd c s : next_is c s = true <-> hd_error s = Some c.
Proof.
  destruct s as [|d t]; simpl; split; intro H; try discriminate.
  - apply N.eqb_eq in H; subst; reflexivity.
  - inversion H; subst; apply N.eqb_refl.
Qed.

Lemma next_is_false_hd c s : next_is c s = false <-> hd_error s <> Some c.
Proof.
  rewrite <- next_is_hd. destruct (next_is c s); split; intro H; try reflexivity; try discriminate.
  exfalso; apply H; reflexivity.
Qed.

(* ---------------------------------------------------------------- escapeID = esc1 *)

Lemma replace1_cons c new x s :
  replace1 c new (x :: s) = (if x =? c then new else [x]) ++ replace1 c new s.
Proof. reflexivity. Qed.

Lemma re_nl_bs t : re_nl (BS :: t) = BS :: re_nl t.
Proof. destruct t as [|d t']; [reflexivity|]. cbn. rewrite andb_false_r. reflexivity. Qed.

Lemma re_nl_pair c t : c <> BS -> re_nl (c :: LF :: t) = BS :: BS :: ch_n :: re_nl t.
Proof. intros H. apply N.eqb_neq in H. cbn. rewrite H. reflexivity. Qed.

Lemma re_nl_nolf c t : next_is LF t = false -> re_nl (c :: t) = c :: re_nl t.
Proof. destruct t as [|d t']; [reflexivity|]. cbn. intros ->. reflexivity. Qed.

Lemma next_lf_replace_bs t : next_is LF (replace1 BS [BS; BS] t) = next_is LF t.
Proof.
  destruct t as [|d t']; [reflexivity|]. rewrite replace1_cons.
  destruct (N.eqb_spec d BS) as [->|Hd]; reflexivity.
Qed.

Lemma escapeID_bs s : escapeID (BS :: s) = BS :: BS :: escapeID s.
Proof.
  unfold escapeID. rewrite replace1_cons. change (BS =? BS) with true. cbn [app].
  rewrite !re_nl_bs. reflexivity.
Qed.

Lemma escapeID_pair a t : a <> BS -> escapeID (a :: LF :: t) = BS :: BS :: ch_n :: escapeID t.
Proof.
  intros H. unfold escapeID. rewrite !replace1_cons. apply N.eqb_neq in H as H'. rewrite H'.
  change (LF =? BS) with false. cbn [app]. rewrite re_nl_pair by assumption. reflexivity.
Qed.

Lemma escapeID_plain a s :
  a <> BS -> next_is LF s = false ->
  escapeID (a :: s) = (if a =? CR then [BS; ch_r] else [a]) ++ escapeID s.
Proof.
  intros H Hs. unfold escapeID. rewrite replace1_cons. apply N.eqb_neq in H as H'. rewrite H'. cbn [app].
  rewrite re_nl_nolf by (rewrite next_lf_replace_bs; exact Hs).
  rewrite replace1_cons. reflexivity.
Qed.

Lemma esc1_bs s : esc1 (BS :: s) = BS :: BS :: esc1 s.
Proof. reflexivity. Qed.

Lemma esc1_pair a t : a <> BS -> esc1 (a :: LF :: t) = BS :: BS :: ch_n :: esc1 t.
Proof. intros H. apply N.eqb_neq in H. cbn. rewrite H. reflexivity. Qed.

Lemma esc1_plain a s :
  a <> BS -> next_is LF s = false -> esc1 (a :: s) = (if a =? CR then [BS; ch_r] else [a]) ++ esc1 s.
Proof.
  intros H Hs. apply N.eqb_neq in H. destruct s as [|d t]; cbn; rewrite H.
  - rewrite app_nil_r. reflexivity.
  - cbn in Hs. rewrite Hs. reflexivity.
Qed.

(* case analysis used by every induction below *)
Lemma shape_cases (a : N) (s : list N) :
  a = BS \/ (a <> BS /\ exists t, s = LF :: t) \/ (a <> BS /\ next_is LF s = false).
Proof.
  destruct (N.eqb_spec a BS) as [->|Ha]; [left; reflexivity|right].
  destruct s as [|d t]; [right; split; [assumption|reflexivity]|].
  destruct (N.eqb_spec d LF) as [->|Hd].
  - left; split; [assumption|eexists; reflexivity].
  - right; split; [assumption|]. cbn. apply N.eqb_neq; assumption.
Qed.

Theorem escapeID_esc1 : forall id, escapeID id = esc1 id.
Proof.
  apply (list_ind2 (fun id => escapeID id = esc1 id)).
  - reflexivity.
  - intros a. destruct (shape_cases a []) as [->|[[_ [t Ht]]|[Ha Hs]]]; [reflexivity|discriminate|].
    rewrite escapeID_plain, esc1_plain by assumption. reflexivity.
  - intros a b t IH1 IH2. destruct (shape_cases a (b :: t)) as [->|[[Ha [t' Ht]]|[Ha Hs]]].
    + rewrite escapeID_bs, esc1_bs, IH2. reflexivity.
    + inversion Ht; subst. rewrite escapeID_pair, esc1_pair, IH1 by assumption. reflexivity.
    + rewrite escapeID_plain, esc1_plain, IH2 by assumption. reflexivity.
Qed.

(* ---------------------------------------------------------------- lexer equations *)

Lemma emit_emit u v r : emit u (emit v r) = emit (u ++ v) r.
Proof. destruct r; simpl; rewrite ?app_assoc; reflexivity. Qed.

Lemma lex_bt t : lex MNormal (BT :: t) = LTok [] t.
Proof. reflexivity. Qed.

Lemma lex_bsbs t : lex MNormal (BS :: BS :: t) = emit [BS] (lex MNormal t).
Proof. reflexivity. Qed.

Lemma lex_bsr t : lex MNormal (BS :: ch_r :: t) = emit [CR] (lex MNormal t).
Proof. reflexivity. Qed.

Lemma lex_bs_bt t : lex MNormal (BS :: BT :: t) = emit [BT] (lex MNormal t).
Proof. reflexivity. Qed.

Lemma lex_bs_dollar t : lex MNormal (BS :: DOLLAR :: t) = emit [DOLLAR] (lex MNormal t).
Proof. reflexivity. Qed.

Lemma lex_bs_n t : lex MNormal (BS :: ch_n :: t) = emit [LF] (lex MNormal t).
Proof. reflexivity. Qed.

Lemma lex_plain c t :
  c <> BT -> c <> DOLLAR -> c <> CR -> c <> BS ->
  lex MNormal (c :: t) = emit (utf16c c) (lex MNormal t).
Proof.
  intros H1 H2 H3 H4. apply N.eqb_neq in H1, H2, H3, H4.
  cbn [lex]. rewrite H1, H2, H3, H4. reflexivity.
Qed.

Lemma lex_bsbsn t : lex MNormal (BS :: BS :: ch_n :: t) = emit [BS; ch_n] (lex MNormal t).
Proof.
  rewrite lex_bsbs, lex_plain by discriminate. rewrite emit_emit. reflexivity.
Qed.

Lemma lex_dollar_lb t : lex MNormal (DOLLAR :: LBRACE :: t) = LSubst [] t.
Proof. reflexivity. Qed.

Lemma lex_dollar_nb d t :
  d <> LBRACE -> lex MNormal (DOLLAR :: d :: t) = emit [DOLLAR] (lex MNormal (d :: t)).
Proof. intros H. apply N.eqb_neq in H. cbn [lex]. change (DOLLAR =? BT) with false. change (DOLLAR =? DOLLAR) with true. cbn iota. rewrite H. reflexivity. Qed.

(* ---------------------------------------------------------------- what the lexer does on esc1 id *)

(* [h] = the id has a token hazard; [ck] = expected cooked value; [rest] = text after the closing backtick *)
Inductive outcome (h : bool) (ck rest : list N) : lexres -> Prop :=
| O_safe : h = false -> outcome h ck rest (LTok ck rest)
| O_early c r : h = true -> (length rest < length r)%nat -> outcome h ck rest (LTok c r)
| O_subst c r : h = true -> outcome h ck rest (LSubst c r).

Lemma outcome_emit h ck rest u x : outcome h ck rest x -> outcome h (u ++ ck) rest (emit u x).
Proof. intros [H|c r H L|c r H]; simpl; [apply O_safe|apply O_early|apply O_subst]; assumption. Qed.

Lemma utf16_cons c s : utf16 (c :: s) = utf16c c ++ utf16 s.
Proof. reflexivity. Qed.

Lemma utf16c_small c : c < 65536 -> utf16c c = [c].
Proof. intros H. unfold utf16c. apply N.ltb_lt in H. rewrite H. reflexivity. Qed.

(* first character of the emitted text after position 0 *)
Lemma esc1_head s rest :
  exists d X, esc1 s ++ BT :: rest = d :: X /\
              (d =? LBRACE) = next_is LBRACE s && negb (next_is LF (tl s)).
Proof.
  destruct s as [|b t]; [exists BT, rest; split; reflexivity|].
  destruct (shape_cases b t) as [->|[[Hb [t' ->]]|[Hb Ht]]].
  - rewrite esc1_bs. eexists _, _; split; [reflexivity|reflexivity].
  - rewrite esc1_pair by assumption. eexists _, _; split; [reflexivity|].
    cbn. rewrite andb_false_r. reflexivity.
  - rewrite esc1_plain by assumption. cbn [next_is tl]. rewrite Ht. cbn [negb]. rewrite andb_true_r.
    destruct (N.eqb_spec b CR) as [->|Hc].
    + eexists _, _; split; [reflexivity|reflexivity].
    + eexists _, _; split; [reflexivity|reflexivity].
Qed.

Definition lex_spec (id : list N) : Prop :=
  forall rest, outcome (token_hazard_b id) (utf16 (cooked_of id)) rest (lex MNormal (esc1 id ++ BT :: rest)).

Lemma hazard_bs s : token_hazard_b (BS :: s) = token_hazard_b s.
Proof. reflexivity. Qed.

Lemma hazard_lf s : token_hazard_b (LF :: s) = token_hazard_b s.
Proof. reflexivity. Qed.

Lemma hazard_pair a t : token_hazard_b (a :: LF :: t) = token_hazard_b t.
Proof.
  cbn [token_hazard_b next_is tl]. change (LF =? LF) with true. change (LF =? LBRACE) with false.
  change (LF =? BT) with false. change (LF =? DOLLAR) with false.
  cbn [negb andb orb]. rewrite !andb_false_r. reflexivity.
Qed.

Lemma cooked_bs s : cooked_of (BS :: s) = BS :: cooked_of s.
Proof. reflexivity. Qed.

Lemma cooked_pair a t : a <> BS -> cooked_of (a :: LF :: t) = BS :: ch_n :: cooked_of t.
Proof. intros H. apply N.eqb_neq in H. cbn. rewrite H. reflexivity. Qed.

Lemma cooked_plain a s : a <> BS -> next_is LF s = false -> cooked_of (a :: s) = a :: cooked_of s.
Proof.
  intros H Hs. apply N.eqb_neq in H. destruct s as [|d t]; cbn; rewrite H; [reflexivity|].
  cbn in Hs. rewrite Hs. reflexivity.
Qed.

Lemma step_bs s : lex_spec s -> lex_spec (BS :: s).
Proof.
  intros IH rest. rewrite esc1_bs, hazard_bs, cooked_bs, utf16_cons. cbn [app].
  rewrite lex_bsbs. apply (outcome_emit _ _ _ [BS]). apply IH.
Qed.

Lemma step_pair a t : a <> BS -> lex_spec t -> lex_spec (a :: LF :: t).
Proof.
  intros Ha IH rest. rewrite esc1_pair, hazard_pair, cooked_pair by assumption.
  rewrite !utf16_cons. cbn [app]. rewrite lex_bsbsn.
  change (utf16c BS ++ utf16c ch_n ++ utf16 (cooked_of t)) with ([BS; ch_n] ++ utf16 (cooked_of t)).
  apply outcome_emit. apply IH.
Qed.

Lemma step_plain a s : a <> BS -> next_is LF s = false -> lex_spec s -> lex_spec (a :: s).
Proof.
  intros Ha Hs IH rest. rewrite esc1_plain, cooked_plain by assumption. rewrite utf16_cons.
  cbn [token_hazard_b]. rewrite Hs. cbn [negb]. rewrite andb_true_r.
  destruct (N.eqb_spec a CR) as [->|Hcr].
  { (* CR: written as backslash r, cooks to CR *)
    cbn [app]. rewrite lex_bsr. apply (outcome_emit _ _ _ [CR]). apply IH. }
  destruct (N.eqb_spec a BT) as [->|Hbt].
  { (* backtick: terminates the literal *)
    cbn [app orb]. rewrite lex_bt. apply O_early; [reflexivity|].
    rewrite app_length. cbn [length]. lia. }
  destruct (N.eqb_spec a DOLLAR) as [->|Hd].
  { cbn [app orb andb]. destruct (esc1_head s rest) as (d & X & E & Hdl). rewrite E, <- Hdl.
    destruct (N.eqb_spec d LBRACE) as [->|Hn].
    - rewrite lex_dollar_lb. apply O_subst. reflexivity.
    - rewrite lex_dollar_nb by assumption. cbn [orb]. rewrite <- E.
      apply (outcome_emit _ _ _ [DOLLAR]). apply IH. }
  cbn [app orb andb]. rewrite lex_plain by assumption. apply outcome_emit. apply IH.
Qed.

Lemma lex_spec_all : forall id, lex_spec id.
Proof.
  apply (list_ind2 lex_spec).
  - intros rest. cbn. apply O_safe. reflexivity.
  - intros a. destruct (shape_cases a []) as [->|[[_ [t Ht]]|[Ha Hs]]]; [|discriminate|].
    + apply step_bs. intros rest. cbn. apply O_safe. reflexivity.
    + apply step_plain; try assumption. intros rest. cbn. apply O_safe. reflexivity.
  - intros a b t IH1 IH2. destruct (shape_cases a (b :: t)) as [->|[[Ha [t' Ht]]|[Ha Hs]]].
    + apply step_bs; assumption.
    + inversion Ht; subst. apply step_pair; assumption.
    + apply step_plain; assumption.
Qed.

Lemma lex_emitted_outcome id rest :
  outcome (token_hazard_b id) (utf16 (cooked_of id)) rest (lex_template (emitted id rest)).
Proof. unfold lex_template, emitted. rewrite escapeID_esc1. apply lex_spec_all. Qed.

(* ---------------------------------------------------------------- theorems about the real escapeID *)

Theorem escape_never_syntax_error id rest : lex_template (emitted id rest) <> LErr.
Proof. intros H. pose proof (lex_emitted_outcome id rest) as O. rewrite H in O. inversion O. Qed.

Theorem escape_token_safe_iff id rest :
  (exists cooked, lex_template (emitted id rest) = LTok cooked rest) <-> token_hazard_b id = false.
Proof.
  pose proof (lex_emitted_outcome id rest) as O. split.
  - intros [ck E]. rewrite E in O. inversion O; subst; [assumption|lia].
  - intros Hh. inversion O as [H E|c r H L E|c r H E]; try congruence. eexists; reflexivity.
Qed.

Theorem escape_cooked id rest :
  token_hazard_b id = false -> lex_template (emitted id rest) = LTok (utf16 (cooked_of id)) rest.
Proof.
  intros Hh. pose proof (lex_emitted_outcome id rest) as O.
  inversion O as [H E|c r H L E|c r H E]; congruence.
Qed.

(* a hazard makes the literal end early or start a substitution *)
Theorem escape_hazard_breaks id rest :
  token_hazard_b id = true ->
  (exists c r, lex_template (emitted id rest) = LSubst c r) \/
  (exists c r, lex_template (emitted id rest) = LTok c r /\ (length rest < length r)%nat).
Proof.
  intros Hh. pose proof (lex_emitted_outcome id rest) as O.
  inversion O as [H E|c r H L E|c r H E]; try congruence; [right|left]; eauto.
Qed.

(* value fidelity *)
Lemma cooked_id s : nl_eats_b s = false -> cooked_of s = s.
Proof.
  induction s as [|a t IH]; [reflexivity|]. cbn [nl_eats_b]. intros H.
  apply orb_false_iff in H as [H1 H2].
  destruct (shape_cases a t) as [->|[[Ha [t' ->]]|[Ha Ht]]].
  - rewrite cooked_bs, IH by assumption. reflexivity.
  - apply N.eqb_neq in Ha. rewrite Ha in H1. discriminate.
  - rewrite cooked_plain, IH by assumption. reflexivity.
Qed.

Lemma utf16c_hd c : c <> BS -> exists u us, utf16c c = u :: us /\ u <> BS.
Proof.
  intros H. unfold utf16c. destruct (c <? 65536).
  - eexists _, _; split; [reflexivity|assumption].
  - eexists _, _; split; [reflexivity|]. unfold BS. generalize ((c - 65536) / 1024). intros q. lia.
Qed.

Lemma cooked_neq s : nl_eats_b s = true -> utf16 (cooked_of s) <> utf16 s.
Proof.
  induction s as [|a t IH]; [discriminate|]. cbn [nl_eats_b]. intros H.
  destruct (shape_cases a t) as [->|[[Ha [t' ->]]|[Ha Ht]]].
  - cbn in H. rewrite cooked_bs, !utf16_cons. intros E. apply app_inv_head in E. exact (IH H E).
  - rewrite cooked_pair by assumption. rewrite !utf16_cons.
    destruct (utf16c_hd a Ha) as (u & us & Eu & Hu). rewrite Eu. cbn. intros E. inversion E. congruence.
  - rewrite Ht, andb_false_r in H. cbn in H.
    rewrite cooked_plain by assumption. rewrite !utf16_cons. intros E. apply app_inv_head in E. exact (IH H E).
Qed.

Theorem escape_value_iff id rest :
  lex_template (emitted id rest) = LTok (utf16 id) rest <->
  token_hazard_b id = false /\ nl_eats_b id = false.
Proof.
  split.
  - intros E. assert (Hh : token_hazard_b id = false) by (apply (escape_token_safe_iff id rest); eauto).
    split; [assumption|]. rewrite (escape_cooked id rest Hh) in E. inversion E as [E'].
    destruct (nl_eats_b id) eqn:Hn; [|reflexivity]. exfalso. exact (cooked_neq id Hn E').
  - intros [Hh Hn]. rewrite (escape_cooked id rest Hh), (cooked_id id Hn). reflexivity.
Qed.

(* ---------------------------------------------------------------- Prop readings of the predicates *)

Theorem token_hazard_spec id : token_hazard_b id = true <-> Token_hazard id.
Proof.
  unfold Token_hazard. split.
  - induction id as [|c t IH]; [discriminate|]. cbn [token_hazard_b]. intros H.
    apply orb_true_iff in H as [H|H]; [apply orb_true_iff in H as [H|H]|].
    + apply andb_true_iff in H as [H1 H2]. apply N.eqb_eq in H1; subst.
      exists [], t. split; [left; reflexivity|]. apply next_is_false_hd. apply negb_true_iff; assumption.
    + apply andb_true_iff in H as [H H3]. apply andb_true_iff in H as [H1 H2]. apply N.eqb_eq in H1; subst.
      destruct t as [|d t']; [discriminate|]. cbn in H2. apply N.eqb_eq in H2; subst.
      exists [], t'. split; [right; reflexivity|]. apply next_is_false_hd. apply negb_true_iff; assumption.
    + destruct (IH H) as (pre & post & [E|E] & Hp); subst; exists (c :: pre), post; split; auto.
  - intros (pre & post & E & Hp). apply next_is_false_hd in Hp.
    induction pre as [|a pre IH] in id, E |- *.
    + destruct E as [->| ->]; cbn [app token_hazard_b next_is tl].
      * rewrite Hp. change (BT =? BT) with true. reflexivity.
      * change (DOLLAR =? DOLLAR) with true. change (LBRACE =? LBRACE) with true. rewrite Hp.
        cbn [negb andb]. rewrite orb_true_r. reflexivity.
    + destruct E as [->| ->]; cbn [app token_hazard_b]; rewrite (IH _ (or_introl eq_refl)) || rewrite (IH _ (or_intror eq_refl));
        apply orb_true_r.
Qed.

Theorem nl_eats_spec id : nl_eats_b id = true <-> Nl_eats id.
Proof.
  unfold Nl_eats. split.
  - induction id as [|c t IH]; [discriminate|]. cbn [nl_eats_b]. intros H.
    apply orb_true_iff in H as [H|H].
    + apply andb_true_iff in H as [H1 H2]. destruct t as [|d t']; [discriminate|]. cbn in H2.
      apply N.eqb_eq in H2; subst. exists [], c, t'. split; [reflexivity|].
      apply negb_true_iff in H1. apply N.eqb_neq; assumption.
    + destruct (IH H) as (pre & x & post & E & Hx); subst. exists (c :: pre), x, post. split; auto.
  - intros (pre & x & post & -> & Hx). induction pre as [|a pre IH]; cbn [app nl_eats_b].
    + apply N.eqb_neq in Hx. rewrite Hx. reflexivity.
    + rewrite IH. apply orb_true_r.
Qed.

(* the simple sufficient condition: no backtick and no "${" anywhere in the id *)
Theorem escape_token_safe id rest :
  ~ In BT id -> (forall pre post, id <> pre ++ DOLLAR :: LBRACE :: post) ->
  exists cooked, lex_template (emitted id rest) = LTok cooked rest.
Proof.
  intros Hb Hd. apply escape_token_safe_iff. destruct (token_hazard_b id) eqn:Hh; [|reflexivity].
  apply token_hazard_spec in Hh. destruct Hh as (pre & post & [E|E] & _).
  - exfalso. apply Hb. rewrite E. apply in_or_app. right. left. reflexivity.
  - exfalso. exact (Hd _ _ E).
Qed.

(* without newlines in the id the simple condition is exact *)
Theorem escape_token_safe_iff_no_newline id rest :
  ~ In LF id ->
  ((exists cooked, lex_template (emitted id rest) = LTok cooked rest) <->
   (~ In BT id /\ forall pre post, id <> pre ++ DOLLAR :: LBRACE :: post)).
Proof.
  intros Hn. split.
  - intros Hs. apply escape_token_safe_iff in Hs.
    assert (Hp : forall post, (exists pre, id = pre ++ post) -> hd_error post <> Some LF).
    { intros post [pre ->] Hhd. apply Hn. apply in_or_app. right.
      destruct post as [|d p]; [discriminate|]. inversion Hhd; subst. left. reflexivity. }
    split.
    + intros Hin. apply in_split in Hin as (pre & post & ->).
      assert (token_hazard_b (pre ++ BT :: post) = true) as Hh; [|congruence].
      apply token_hazard_spec. exists pre, post. split; [left; reflexivity|].
      apply Hp. exists (pre ++ [BT]). rewrite <- app_assoc. reflexivity.
    + intros pre post ->.
      assert (token_hazard_b (pre ++ DOLLAR :: LBRACE :: post) = true) as Hh; [|congruence].
      apply token_hazard_spec. exists pre, post. split; [right; reflexivity|].
      apply Hp. exists (pre ++ [DOLLAR; LBRACE]). rewrite <- app_assoc. reflexivity.
  - intros [Hb Hd]. apply escape_token_safe; assumption.
Qed.

(* ---------------------------------------------------------------- refutation of the planned statement *)

(* planned: forall id rest, lex_template (emitted id rest) = LTok (utf16 id) rest.
   Minimal witnesses, one per failure cause (rest = ";"):
     "`"        the literal ends at once, the rest of the name is parsed as JavaScript
     "${"       a substitution starts: the rest of the name is evaluated as an expression
     "a" LF     one token, but its value is  \n  (backslash, n): the character before the newline is lost *)
Theorem escape_id_refuted_witnesses :
  lex_template (emitted [BT] [59]) = LTok [] [BT; 59] /\
  lex_template (emitted [DOLLAR; LBRACE] [59]) = LSubst [] [BT; 59] /\
  lex_template (emitted [97; LF] [59]) = LTok [BS; ch_n] [59].
Proof. repeat split; vm_compute; reflexivity. Qed.

Theorem escape_id_safe_refuted :
  ~ (forall id rest, lex_template (emitted id rest) = LTok (utf16 id) rest).
Proof. intros H. specialize (H [BT] [59]). vm_compute in H. discriminate. Qed.

(* ---------------------------------------------------------------- the repair is safe for every id *)

Definition fix_char (x : N) : list N :=
  if x =? BS then [BS; BS] else if x =? BT then [BS; BT] else if x =? DOLLAR then [BS; DOLLAR]
  else if x =? LF then [BS; ch_n] else if x =? CR then [BS; ch_r] else [x].

Lemma replace1_app c new a b : replace1 c new (a ++ b) = replace1 c new a ++ replace1 c new b.
Proof. apply flat_map_app. Qed.

Lemma replace1_single_other c new x : (x =? c) = false -> replace1 c new [x] = [x].
Proof. intros H. unfold replace1. cbn [flat_map]. rewrite H. reflexivity. Qed.

Lemma escapeID_fixed_cons x t : escapeID_fixed (x :: t) = fix_char x ++ escapeID_fixed t.
Proof.
  unfold escapeID_fixed. rewrite replace1_cons. rewrite !replace1_app. f_equal. unfold fix_char.
  destruct (N.eqb_spec x BS) as [->|H1]; [reflexivity|].
  destruct (N.eqb_spec x BT) as [->|H2]; [reflexivity|].
  destruct (N.eqb_spec x DOLLAR) as [->|H3]; [reflexivity|].
  destruct (N.eqb_spec x LF) as [->|H4]; [reflexivity|].
  destruct (N.eqb_spec x CR) as [->|H5]; [reflexivity|].
  apply N.eqb_neq in H1, H2, H3, H4, H5.
  rewrite !replace1_single_other by assumption. reflexivity.
Qed.

Lemma escapeID_fixed_chars id : escapeID_fixed id = flat_map fix_char id.
Proof.
  induction id as [|x t IH]; [reflexivity|]. rewrite escapeID_fixed_cons, IH. reflexivity.
Qed.

Theorem escape_id_fixed_safe id rest :
  lex_template (escapeID_fixed id ++ BT :: rest) = LTok (utf16 id) rest.
Proof.
  rewrite escapeID_fixed_chars. unfold lex_template. induction id as [|x t IH]; [reflexivity|].
  cbn [flat_map]. rewrite utf16_cons. unfold fix_char at 1.
  destruct (N.eqb_spec x BS) as [->|H1]; [cbn [app]; rewrite lex_bsbs, IH; reflexivity|].
  destruct (N.eqb_spec x BT) as [->|H2]; [cbn [app]; rewrite lex_bs_bt, IH; reflexivity|].
  destruct (N.eqb_spec x DOLLAR) as [->|H3]; [cbn [app]; rewrite lex_bs_dollar, IH; reflexivity|].
  destruct (N.eqb_spec x LF) as [->|H4]; [cbn [app]; rewrite lex_bs_n, IH; reflexivity|].
  destruct (N.eqb_spec x CR) as [->|H5]; [cbn [app]; rewrite lex_bsr, IH; reflexivity|].
  cbn [app]. rewrite lex_plain, IH by assumption. reflexivity.
Qed.
