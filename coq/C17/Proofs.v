(* C17: the executable layout predicate decides the stated property. *)
From Coq Require Import List ZArith QArith NArith Bool PeanoNat Lia.
Require Import V.Lib.RunCases.
Import ListNotations.
Require Import V.C17.Model.

Lemma layout_ok_b_spec c : layout_ok_b c = true <-> Layout_ok c.
Proof.
  unfold layout_ok_b, Layout_ok. rewrite !andb_true_iff, !forallb_forall, N.eqb_eq. split.
  - intros [[[[He Hf] Hs] Hl] Hr]. split; [assumption|]. split.
    + intros o Ho. specialize (Hf o Ho). specialize (Hs o Ho). unfold obj_finite_b in Hf. unfold obj_size_b in Hs.
      rewrite Hf in Hs. cbn in Hs. apply andb_true_iff in Hs as [Hw Hh]. apply Qle_bool_iff in Hw, Hh.
      repeat split; assumption.
    + intros r Hin. specialize (Hl r Hin). specialize (Hr r Hin). unfold route_len_b in Hl. unfold route_finite_b in Hr.
      split; [apply Nat.leb_le; assumption|]. rewrite forallb_forall in Hr. assumption.
  - intros [He [Ho Hr]]. repeat split; try assumption.
    + intros o Hin. apply (Ho o Hin).
    + intros o Hin. destruct (Ho o Hin) as [Hf [Hw Hh]]. unfold obj_size_b. rewrite Hf. cbn.
      apply andb_true_iff; split; apply Qle_bool_iff; assumption.
    + intros r Hin. unfold route_len_b. apply Nat.leb_le. apply (Hr r Hin).
    + intros r Hin. unfold route_finite_b. rewrite forallb_forall. apply (Hr r Hin).
Qed.

(* the code list reported by Check.v is empty exactly when the predicate holds *)
Lemma layout_codes_nil_iff c : layout_codes c = [] <-> layout_ok_b c = true.
Proof.
  unfold layout_codes, layout_ok_b, RunCases.flag.
  destruct (N.eqb_spec (l_err c) 0) as [E|E].
  - rewrite E. cbn [N.eqb N.leb N.compare negb andb app].
    destruct (forallb obj_finite_b (l_objs c)), (forallb obj_size_b (l_objs c)),
      (forallb route_len_b (l_conns c)), (forallb route_finite_b (l_conns c)); cbn; split; intro H; try reflexivity; discriminate.
  - cbn [andb]. split; [|discriminate]. intros H. exfalso.
    destruct (N.eqb_spec (l_err c) 1) as [E1|E1]; [discriminate|]. cbn [negb] in H.
    destruct (N.leb_spec 2 (l_err c)) as [L|L].
    + cbn [negb] in H. repeat (apply app_eq_nil in H; destruct H as [? H]). discriminate.
    + lia.
Qed.

(* non-vacuity: a concrete laid-out diagram (two shapes, one connection) satisfies the predicate *)
Lemma layout_ok_example :
  Layout_ok (mkcase 0 0 [mkobj 0 0 (53 # 1) (66 # 1) true; mkobj 0 (166 # 1) (53 # 1) (66 # 1) true]
                    [[(53 # 2, 66 # 1, true); (53 # 2, 166 # 1, true)]]).
Proof. apply layout_ok_b_spec. vm_compute. reflexivity. Qed.
