(* C17, part "names cannot break dagre's generated script": definitions only.

   d2layouts/d2dagrelayout/object_mapper.go emits, per connection, the JavaScript line

       g.setEdge({v:`0`, w:`1`, name:`<escapeID(edge.AbsID())>`}, { width:.., height:.., labelpos: `c` });

   Node ids are decimal numbers handed out by the mapper; the ONLY user-controlled text in the script is the
   connection's AbsID, after [escapeID], inside a JavaScript TEMPLATE literal (backtick quotes).

   Strings are lists of Unicode code points ([N]).  Go's strings.ReplaceAll works on bytes and Go's regexp on
   UTF-8 runes, but every character any of the three steps looks for or writes is ASCII, and the one position
   where the regexp consumes an arbitrary character ([^\\]) it consumes one whole rune (an invalid byte counts
   as one rune U+FFFD of width 1, exactly what Go's range loop yields): so the function commutes with UTF-8
   decoding and the rune-level model is exact.  JavaScript strings are sequences of UTF-16 code units: the
   lexer below reads code points and produces the cooked value as code units ([utf16]). *)
From Coq Require Import List NArith Bool.
Import ListNotations.
Open Scope N_scope.

Definition BS : N := 92.       (* \ *)
Definition LF : N := 10.
Definition CR : N := 13.
Definition BT : N := 96.       (* ` *)
Definition DOLLAR : N := 36.
Definition LBRACE : N := 123.
Definition RBRACE : N := 125.
Definition ch_n : N := 110.
Definition ch_r : N := 114.

(* ------------------------------------------------------------------------------------------------ *)
(* escapeID, step by step as the Go code computes it                                                 *)

(* strings.ReplaceAll(s, old, new) for a one-character [old] *)
Definition replace1 (c : N) (new : list N) (s : list N) : list N :=
  flat_map (fun x => if x =? c then new else [x]) s.

(* regexp.MustCompile("[^\\\\]\n").ReplaceAllString(s, "\\\\n")  (Go source: `[^\\]\n` and `\\n`).
   The pattern has fixed width 2: one character that is not a backslash (a negated class also matches a
   newline), then a newline.  ReplaceAllString replaces the leftmost match, continues after it
   (non-overlapping) and copies everything else; in the replacement only `$` is special, so the text written
   is the three characters  \ \ n.  The matched character BEFORE the newline is part of the match and is
   therefore replaced too; a newline at position 0 (or directly after a match) has no partner and stays. *)
Fixpoint re_nl (s : list N) : list N :=
  match s with
  | [] => []
  | c :: t =>
      match t with
      | d :: t' => if (d =? LF) && negb (c =? BS) then BS :: BS :: ch_n :: re_nl t' else c :: re_nl t
      | [] => [c]
      end
  end.

Definition escapeID (id : list N) : list N :=
  let id1 := replace1 BS [BS; BS] id in          (* strings.ReplaceAll(id, "\\", `\\`)  *)
  let id2 := re_nl id1 in                         (* re.ReplaceAllString(id, `\\n`)       *)
  replace1 CR [BS; ch_r] id2.                     (* strings.ReplaceAll(id, "\r", `\r`)  *)

(* the same function in one pass (proved equal in EscapeProofs.v) *)
Fixpoint esc1 (s : list N) : list N :=
  match s with
  | [] => []
  | c :: t =>
      if c =? BS then BS :: BS :: esc1 t
      else match t with
           | d :: t' => if d =? LF then BS :: BS :: ch_n :: esc1 t'
                        else (if c =? CR then [BS; ch_r] else [c]) ++ esc1 t
           | [] => if c =? CR then [BS; ch_r] else [c]
           end
  end.

(* ------------------------------------------------------------------------------------------------ *)
(* JavaScript: lexing the characters of a template literal (ECMAScript 2023, 12.9.6)                 *)

(* UTF-16 code units of a code point *)
Definition utf16c (c : N) : list N :=
  if c <? 65536 then [c] else let v := c - 65536 in [55296 + v / 1024; 56320 + v mod 1024].
Definition utf16 (s : list N) : list N := flat_map utf16c s.

Definition hexval (c : N) : option N :=
  if (48 <=? c) && (c <=? 57) then Some (c - 48)
  else if (65 <=? c) && (c <=? 70) then Some (c - 55)
  else if (97 <=? c) && (c <=? 102) then Some (c - 87)
  else None.
Definition is_digit (c : N) : bool := (48 <=? c) && (c <=? 57).
(* LineTerminator: LF CR LS PS *)
Definition is_lt (c : N) : bool := (c =? 10) || (c =? 13) || (c =? 8232) || (c =? 8233).

(* Result of lexing from just after the opening backtick:
     LTok cooked rest    closing backtick found, no substitution (NoSubstitutionTemplate); [rest] follows it
     LSubst cooked rest  "${" found (TemplateHead): a substitution expression starts at [rest]
     LErr                unterminated, or an escape that is a syntax error in an untagged template
                         (NotEscapeSequence: \1..\9, \0 before a digit, malformed \x \u)                    *)
Inductive lexres := LTok (cooked rest : list N) | LSubst (cooked rest : list N) | LErr.

Definition emit (u : list N) (r : lexres) : lexres :=
  match r with
  | LTok c rest => LTok (u ++ c) rest
  | LSubst c rest => LSubst (u ++ c) rest
  | LErr => LErr
  end.

(* inside \u{...}: value so far, and whether a digit has been read *)
Inductive mode := MNormal | MUBrace (v : N) (nonempty : bool).

Definition hex4 (a b c d : N) : option N :=
  match hexval a, hexval b, hexval c, hexval d with
  | Some x, Some y, Some z, Some w => Some (((x * 16 + y) * 16 + z) * 16 + w)
  | _, _, _, _ => None
  end.

Fixpoint lex (m : mode) (s : list N) {struct s} : lexres :=
  match m with
  | MUBrace v ne =>
      match s with
      | [] => LErr
      | c :: t =>
          if c =? RBRACE then (if ne then emit (utf16c v) (lex MNormal t) else LErr)
          else match hexval c with
               | Some d => let v' := v * 16 + d in
                           if v' <=? 1114111 then lex (MUBrace v' true) t else LErr
               | None => LErr
               end
      end
  | MNormal =>
      match s with
      | [] => LErr                                             (* unterminated *)
      | c :: t =>
          if c =? BT then LTok [] t
          else if c =? DOLLAR then
            match t with
            | d :: t' => if d =? LBRACE then LSubst [] t' else emit [DOLLAR] (lex MNormal t)
            | [] => LErr
            end
          else if c =? CR then                                 (* raw CR and CRLF cook to LF *)
            match t with
            | d :: t' => if d =? LF then emit [LF] (lex MNormal t') else emit [LF] (lex MNormal t)
            | [] => LErr
            end
          else if c =? BS then
            match t with
            | [] => LErr
            | e :: t1 =>
                if e =? CR then                                (* line continuations cook to nothing *)
                  match t1 with
                  | d :: t2 => if d =? LF then lex MNormal t2 else lex MNormal t1
                  | [] => LErr
                  end
                else if is_lt e then lex MNormal t1
                else if e =? 110 then emit [10] (lex MNormal t1)        (* \n *)
                else if e =? 114 then emit [13] (lex MNormal t1)        (* \r *)
                else if e =? 116 then emit [9] (lex MNormal t1)         (* \t *)
                else if e =? 98 then emit [8] (lex MNormal t1)          (* \b *)
                else if e =? 102 then emit [12] (lex MNormal t1)        (* \f *)
                else if e =? 118 then emit [11] (lex MNormal t1)        (* \v *)
                else if e =? 48 then                                    (* \0 not before a digit *)
                  match t1 with
                  | d :: _ => if is_digit d then LErr else emit [0] (lex MNormal t1)
                  | [] => LErr
                  end
                else if is_digit e then LErr                            (* \1 .. \9 *)
                else if e =? 120 then                                   (* \xHH *)
                  match t1 with
                  | h1 :: h2 :: t3 =>
                      match hexval h1, hexval h2 with
                      | Some a, Some b => emit [a * 16 + b] (lex MNormal t3)
                      | _, _ => LErr
                      end
                  | _ => LErr
                  end
                else if e =? 117 then                                   (* \uHHHH  \u{H..} *)
                  match t1 with
                  | d :: t2 =>
                      if d =? LBRACE then lex (MUBrace 0 false) t2
                      else match t2 with
                           | h2 :: h3 :: h4 :: t5 =>
                               match hex4 d h2 h3 h4 with
                               | Some v => emit [v] (lex MNormal t5)
                               | None => LErr
                               end
                           | _ => LErr
                           end
                  | [] => LErr
                  end
                else emit (utf16c e) (lex MNormal t1)    (* NonEscapeCharacter: backslash, backtick, dollar, quotes, any other character *)
            end
          else emit (utf16c c) (lex MNormal t)           (* any other character, incl. LF, LS, PS *)
      end
  end.

Definition lex_template (s : list N) : lexres := lex MNormal s.

(* the literal as generateAddEdgeLine emits it, without the opening backtick, followed by the rest of the script *)
Definition emitted (id rest : list N) : list N := escapeID id ++ BT :: rest.

(* ------------------------------------------------------------------------------------------------ *)
(* decidable input predicates                                                                        *)

Definition next_is (c : N) (s : list N) : bool :=
  match s with d :: _ => d =? c | [] => false end.

(* a backtick not directly followed by a newline, or "${" not directly followed by a newline *)
Fixpoint token_hazard_b (s : list N) : bool :=
  match s with
  | [] => false
  | c :: t =>
      ((c =? BT) && negb (next_is LF t))
      || ((c =? DOLLAR) && next_is LBRACE t && negb (next_is LF (tl t)))
      || token_hazard_b t
  end.

(* a newline directly preceded by a character other than a backslash *)
Fixpoint nl_eats_b (s : list N) : bool :=
  match s with
  | [] => false
  | c :: t => (negb (c =? BS) && next_is LF t) || nl_eats_b t
  end.

(* what the name evaluates to when the literal is one token: every "x LF" (x not a backslash) has become the
   two characters backslash, n *)
Fixpoint cooked_of (s : list N) : list N :=
  match s with
  | [] => []
  | c :: t =>
      if c =? BS then BS :: cooked_of t
      else match t with
           | d :: t' => if d =? LF then BS :: ch_n :: cooked_of t' else c :: cooked_of t
           | [] => [c]
           end
  end.

(* Prop-level readings of the two predicates *)
Definition Token_hazard (id : list N) : Prop :=
  exists pre post,
    (id = pre ++ BT :: post \/ id = pre ++ DOLLAR :: LBRACE :: post) /\ hd_error post <> Some LF.

Definition Nl_eats (id : list N) : Prop :=
  exists pre c post, id = pre ++ c :: LF :: post /\ c <> BS.

(* ------------------------------------------------------------------------------------------------ *)
(* the repair (coq/C17/fix.patch): escape every character that is special inside a template literal   *)

Definition escapeID_fixed (id : list N) : list N :=
  let s1 := replace1 BS [BS; BS] id in
  let s2 := replace1 BT [BS; BT] s1 in
  let s3 := replace1 DOLLAR [BS; DOLLAR] s2 in
  let s4 := replace1 LF [BS; ch_n] s3 in
  replace1 CR [BS; ch_r] s4.
