(* Executable checker for C09 cases. *)
From Coq Require Import List NArith Bool Arith.
Import ListNotations.
Require Import V.Lib.RunCases V.C05.Model V.C09.Lower.
Require Export V.C09.Graph.
Open Scope nat_scope.

(* the two string functions of d2graph, instantiated: the C05 model of
   d2format.Format(KeyPath{RawString(name, true)}) and the regenerated strings.ToLower *)
Definition fmtK : list N -> list N := print_raw true.
Definition lowerS : list N -> list N := to_lower.

(* one compiled board as the harness saw it: pointer identity -> numbers (0 = Graph.Root,
   i+1 = Graph.Objects[i], further numbers for any other object reachable through Parent /
   ChildrenArray / Children / Src / Dst), o_graph = 0 iff Object.Graph is this board;
   opos / epos: byte offset of the name segment of the first reference of Objects[i] / of the first
   referenced edge of Edges[i] (None: no reference, a reference inside vars, or inside an imported file) *)
Inductive board :=
| Board (store : list obj) (objs : list nat) (edges : list edge) (tabs : list nat)
        (opos epos : list (option N)).
    (* tabs: the numbers of the objects whose Shape.Value is class or sql_table *)

(* one real call of Graph.SortObjectsByAST / SortEdgesByAST: positions of the input list, and the
   output as indices into the input *)
Inductive sortobs := SortObs (pre : list (option N)) (post : list nat).

Inductive case :=
| CStruct (root : board) (nested : list board) (sorts : list sortobs)
          (replay : option (list op * (list obj * list nat * list edge * list nat)))
    (* all boards of one compiled program; the sort oracle's observations (permutation hypothesis); for
       programs of the core fragment the operation list read off the IR and the board d2compiler built
       before sorting *)
| CRootOrder (root : board) (sorts : list sortobs)
    (* order-of-first-appearance clause on the root board + the oracle's ordering hypothesis *)
| COrder (nested : list board).
    (* order-of-first-appearance clause on the boards below the root *)

Definition graph_of (b : board) : graph :=
  match b with Board store objs edges tabs _ _ => snapshot store objs edges tabs end.

Definition wf_codes (g : graph) : list N :=
  flag (c_once g) 10 ++ flag (c_root g) 11 ++ flag (c_reach g) 12 ++ flag (c_board g) 13
  ++ flag (c_parent_arr g) 14 ++ flag (c_parent_map lowerS g) 15 ++ flag (c_children g) 16
  ++ flag (c_edges g) 17 ++ flag (c_tables g) 22.

Lemma wf_codes_nil g : wf_codes g = [] <-> wf_check lowerS g = true.
Proof.
  unfold wf_codes, wf_check, flag.
  destruct (c_once g), (c_root g), (c_reach g), (c_board g), (c_parent_arr g),
    (c_parent_map lowerS g), (c_children g), (c_edges g), (c_tables g); simpl; split; intro H;
    try reflexivity; try discriminate.
Qed.

Definition aligned (b : board) : bool :=
  match b with Board _ objs edges _ opos epos =>
    (length objs =? length opos) && (length edges =? length epos) end.

Definition order_codes (b : board) (co ce : N) : list N :=
  match b with Board _ _ _ _ opos epos => flag (ordered_b opos) co ++ flag (ordered_b epos) ce end.

(* oracle hypotheses on one observed sort call *)
Definition sort_perm_b (s : sortobs) : bool :=
  match s with SortObs pre post =>
    nodupb post && (length post =? length pre) && forallb (fun i => i <? length pre) post end.
Definition sort_ordered_b (s : sortobs) : bool :=
  match s with SortObs pre post => ordered_b (map (fun i => nth i pre None) post) end.

(* exact comparison of two graphs (maps compared as maps) *)
Definition cmap_eqb (m1 m2 : list (list N * nat)) : bool :=
  (length m1 =? length m2) &&
  forallb (fun kv => opt_nat_eqb (lookup (fst kv) m2) (Some (snd kv))) m1.
Definition obj_eqb (a b : obj) : bool :=
  Graph.str_eqb (o_id a) (o_id b) && opt_nat_eqb (o_parent a) (o_parent b) && (o_graph a =? o_graph b)
  && list_eqb Nat.eqb (o_carr a) (o_carr b) && cmap_eqb (o_cmap a) (o_cmap b).
Definition edge_eqb (a b : edge) : bool :=
  (e_src a =? e_src b) && (e_dst a =? e_dst b) && Bool.eqb (e_sa a) (e_sa b) && Bool.eqb (e_da a) (e_da b)
  && (e_idx a =? e_idx b).
(* Graphs are compared up to the renumbering that sends the i-th listed object to i+1 (the model keeps
   the numbers of the fields that compileClass / compileSQLTable removed from the object list; the
   harness numbers the objects it can still reach): root and listed objects field by field, connections,
   and the class / sql_table marks of root and listed objects. *)
Fixpoint index_of (k : nat) (l : list nat) (i : nat) : option nat :=
  match l with
  | [] => None
  | x :: tl => if x =? k then Some i else index_of k tl (S i)
  end.

Definition rn (objs : list nat) (k : nat) : nat :=
  if k =? 0 then 0
  else match index_of k objs 1 with Some i => i | None => S (length objs) + k end.

Definition rn_obj (objs : list nat) (o : obj) : obj :=
  mkObj (o_id o) (o_name o) (option_map (rn objs) (o_parent o)) (o_graph o)
        (map (rn objs) (o_carr o)) (map (fun kv => (fst kv, rn objs (snd kv))) (o_cmap o)).

Definition canon_objs (g : graph) : list (option obj) :=
  map (fun k => option_map (rn_obj (g_objs g)) (g_st g k)) (0 :: g_objs g).

Definition canon_edges (g : graph) : list edge :=
  map (fun e => mkEdge (rn (g_objs g) (e_src e)) (rn (g_objs g) (e_dst e)) (e_sa e) (e_da e) (e_idx e)) (g_edges g).

Definition canon_tabs (g : graph) : list nat :=
  map (rn (g_objs g)) (filter (nodeb g) (g_tabs g)).

Definition graph_eqb (g1 g2 : graph) : bool :=
  (length (g_objs g1) =? length (g_objs g2))
  && list_eqb (opt_eqb obj_eqb) (canon_objs g1) (canon_objs g2)
  && list_eqb edge_eqb (canon_edges g1) (canon_edges g2)
  && forallb (fun k => memb k (canon_tabs g2)) (canon_tabs g1)
  && forallb (fun k => memb k (canon_tabs g1)) (canon_tabs g2).

Definition check_case (c : case) : list N :=
  match c with
  | CStruct root nested sorts replay =>
      flag (forallb aligned (root :: nested)) 1
      ++ flat_map (fun b => wf_codes (graph_of b)) (root :: nested)
      ++ flag (forallb sort_perm_b sorts) 2
      ++ match replay with
         | None => []
         | Some (ops, (store, objs, edges, tabs)) =>
             flag (graph_eqb (run_ops fmtK lowerS ops) (snapshot store objs edges tabs)) 1
         end
  | CRootOrder root sorts =>
      flag (aligned root) 1 ++ order_codes root 18 19 ++ flag (forallb sort_ordered_b sorts) 3
  | COrder nested =>
      flag (forallb aligned nested) 1 ++ flat_map (fun b => order_codes b 20 21) nested
  end.
