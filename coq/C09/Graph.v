(* C09 — compiled graphs are well-formed trees.
   Executable model of the graph-building operations of d2graph (NewGraph, Object.newObject,
   Object.EnsureChild, Object.Connect with Edge.initIndex) over a functional object store, the
   well-formedness predicate WF of the property, and its boolean reflection wf_check.

   Objects are identified by natural numbers (pointer identity in the Go code): 0 is Graph.Root, the
   k-th object created gets number k.  An object carries what the property talks about:
     o_id      Object.ID  (the formatted key text, d2format.Format(RawString(name, true)))
     o_name    the name the object was created from (ghost field; the Go object keeps IDVal)
     o_parent  Object.Parent
     o_graph   Object.Graph, as a small number: 0 = the board being described
     o_carr    Object.ChildrenArray
     o_cmap    Object.Children  (map from strings.ToLower(ID) to the child; association list)
   The two string functions of the code are parameters of the model (Section Ops): [fmt] is
   d2format.Format(KeyPath{RawString(name,true)}) and [lower] is strings.ToLower.  Every theorem of
   C09 holds for arbitrary fmt / lower; Check.v instantiates them with the C05 model of the printer
   and a ToLower table regenerated from the Go toolchain. *)
From Coq Require Import List NArith Bool Arith Lia Permutation Sorted.
Import ListNotations.
Require Import V.Lib.RunCases.

Definition str := list N.
Definition str_eqb : str -> str -> bool := list_eqb N.eqb.

Record obj := mkObj {
  o_id : str; o_name : str; o_parent : option nat; o_graph : nat;
  o_carr : list nat; o_cmap : list (str * nat) }.

Record edge := mkEdge { e_src : nat; e_dst : nat; e_sa : bool; e_da : bool; e_idx : nat }.

Record graph := mkGraph {
  g_st : nat -> option obj;     (* the heap: object number -> object *)
  g_next : nat;                 (* next fresh object number *)
  g_objs : list nat;            (* Graph.Objects *)
  g_edges : list edge;          (* Graph.Edges *)
  g_tabs : list nat }.          (* the objects whose shape is class or sql_table (Object.Shape.Value) *)

(* Go map read / write on the association list *)
Fixpoint lookup (k : str) (m : list (str * nat)) : option nat :=
  match m with
  | [] => None
  | (k', v) :: tl => if str_eqb k k' then Some v else lookup k tl
  end.

Fixpoint map_set (k : str) (v : nat) (m : list (str * nat)) : list (str * nat) :=
  match m with
  | [] => [(k, v)]
  | (k', v') :: tl => if str_eqb k k' then (k, v) :: tl else (k', v') :: map_set k v tl
  end.

Definition upd (st : nat -> option obj) (k : nat) (o : obj) : nat -> option obj :=
  fun j => if j =? k then Some o else st j.

Definition parent (g : graph) (k : nat) : option nat :=
  match g_st g k with Some o => o_parent o | None => None end.

Definition root_obj : obj := mkObj [] [] None 0 [] [].

Definition memb (k : nat) (l : list nat) : bool := existsb (Nat.eqb k) l.

(* d2graph.NewGraph *)
Definition init : graph :=
  mkGraph (fun k => if k =? 0 then Some root_obj else None) 1 [] [] [].

Section Ops.
Variable fmt : str -> str.
Variable lower : str -> str.

(* Object.newObject.  On a class / sql_table object whose fields were already compiled the Go code
   writes to a nil map (compileClass sets Children = nil) and panics: no graph results; the model
   leaves the graph unchanged. *)
Definition new_object (g : graph) (p : nat) (name : str) : graph * nat :=
  match g_st g p with
  | None => (g, p)
  | Some po =>
      if memb p (g_tabs g) then (g, p) else
      let id := fmt name in
      let c := g_next g in
      let child := mkObj id name (Some p) (o_graph po) [] [] in
      let po' := mkObj (o_id po) (o_name po) (o_parent po) (o_graph po)
                       (o_carr po ++ [c]) (map_set (lower id) c (o_cmap po)) in
      (mkGraph (upd (upd (g_st g) c child) p po') (S c) (g_objs g ++ [c]) (g_edges g) (g_tabs g), c)
  end.

(* Object.EnsureChild on a path of plain names (no reserved keywords, no "_", no sequence diagram) *)
Fixpoint ensure_child (g : graph) (p : nat) (path : list str) : graph * nat :=
  match path with
  | [] => (g, p)
  | n :: rest =>
      match g_st g p with
      | None => (g, p)
      | Some po =>
          match lookup (lower (fmt n)) (o_cmap po) with
          | Some c => ensure_child g c rest
          | None => let '(g', c) := new_object g p n in ensure_child g' c rest
          end
      end
  end.

Definition same_class (s d : nat) (sa da : bool) (e : edge) : bool :=
  (e_src e =? s) && (e_dst e =? d) && Bool.eqb (e_sa e) sa && Bool.eqb (e_da e) da.

(* Object.ensureChildEdge: resolve a connection end point segment by segment, stopping at a class or
   sql_table object (connections to fields are truncated to the container) *)
Fixpoint ensure_child_edge (g : graph) (p : nat) (path : list str) : graph * nat :=
  match path with
  | [] => (g, p)
  | n :: rest =>
      if memb p (g_tabs g) then (g, p)
      else let '(g', c) := ensure_child g p [n] in ensure_child_edge g' c rest
  end.

(* Object.Connect + Edge.initIndex *)
Definition connect (g : graph) (p : nat) (src dst : list str) (sa da : bool) : graph :=
  let '(g1, s) := ensure_child_edge g p src in
  let '(g2, d) := ensure_child_edge g1 p dst in
  let idx := length (filter (same_class s d sa da) (g_edges g2)) in
  mkGraph (g_st g2) (g_next g2) (g_objs g2) (g_edges g2 ++ [mkEdge s d sa da idx]) (g_tabs g2).

(* compiler.compileClass / compileSQLTable on object k (after its fields were compiled): the fields are
   removed from the object list and k forgets its children.  In every program that compiles the fields are
   leaves (class fields cannot have children: compile error otherwise) and no connection touches them yet
   (the map's own connections are compiled afterwards, outer ones later still); the model does nothing
   when that is not the case. *)
Definition is_leaf (g : graph) (c : nat) : bool :=
  match g_st g c with Some o => match o_carr o with [] => true | _ => false end | None => false end.

Definition make_table (g : graph) (k : nat) : graph :=
  match g_st g k with
  | None => g
  | Some o =>
      if forallb (is_leaf g) (o_carr o)
         && forallb (fun e => negb (memb (e_src e) (o_carr o)) && negb (memb (e_dst e) (o_carr o))) (g_edges g)
      then mkGraph (upd (g_st g) k (mkObj (o_id o) (o_name o) (o_parent o) (o_graph o) [] []))
                   (g_next g) (filter (fun x => negb (memb x (o_carr o))) (g_objs g)) (g_edges g)
                   (k :: g_tabs g)
      else g
  end.

(* what the compiler does for one field / one connection of the core fragment: the scope object is
   named by its path from the root (it exists already; resolving it creates nothing) *)
Inductive op :=
| OpEnsure (scope path : list str)
| OpConnect (scope src dst : list str) (sa da : bool)
| OpTable (scope : list str).   (* the map of [scope] declares shape: class / sql_table *)

Definition apply_op (g : graph) (o : op) : graph :=
  match o with
  | OpEnsure scope path =>
      let '(g1, s) := ensure_child g 0 scope in fst (ensure_child g1 s path)
  | OpConnect scope src dst sa da =>
      match src, dst with
      | [], _ => g
      | _, [] => g
      | _, _ => let '(g1, s) := ensure_child g 0 scope in connect g1 s src dst sa da
      end
  | OpTable scope => let '(g1, s) := ensure_child g 0 scope in make_table g1 s
  end.

Definition run_ops (ops : list op) : graph := fold_left apply_op ops init.

(* ------------------------------------------------------------------ the property *)

Definition listed (g : graph) (k : nat) : Prop := In k (g_objs g).
Definition node (g : graph) (k : nat) : Prop := k = 0 \/ listed g k.

Fixpoint walk (g : graph) (n : nat) (k : nat) : option nat :=
  match n with
  | O => Some k
  | S n' => match parent g k with Some p => walk g n' p | None => None end
  end.

(* the parent chain of k ends in the root *)
Definition reach (g : graph) (k : nat) : Prop := exists n, walk g n k = Some 0.

Record WF (g : graph) : Prop := {
  (* each object is listed once *)
  wf_once : NoDup (g_objs g);
  (* the root exists, has no parent, belongs to this board, and is not listed *)
  wf_rootobj : ~ listed g 0 /\ exists r, g_st g 0 = Some r /\ o_parent r = None /\ o_graph r = 0;
  (* each object is reachable from the root through its parent chain *)
  wf_reach : forall k, listed g k -> reach g k;
  (* each object belongs to this board and its parent (the root or a listed object) lists it exactly
     once among its children, under its lower-cased ID *)
  wf_parent : forall k, listed g k ->
      exists o p po, g_st g k = Some o /\ o_graph o = 0 /\ o_parent o = Some p /\ node g p /\
                     g_st g p = Some po /\ count_occ Nat.eq_dec (o_carr po) k = 1 /\
                     lookup (lower (o_id o)) (o_cmap po) = Some k;
  (* conversely the children an object lists are objects of this board whose parent it is, and its
     Children map holds nothing but those children *)
  wf_children : forall p po, node g p -> g_st g p = Some po ->
      (forall c, In c (o_carr po) -> listed g c /\ parent g c = Some p) /\
      (forall key c, In (key, c) (o_cmap po) -> In c (o_carr po));
  (* every connection joins two objects of this board *)
  wf_edges : forall e, In e (g_edges g) -> listed g (e_src e) /\ listed g (e_dst e);
  (* the fields of class and sql_table shapes are not objects *)
  wf_tables : forall k o, In k (g_tabs g) -> g_st g k = Some o -> o_carr o = [] /\ o_cmap o = []
}.

(* ------------------------------------------------------------------ boolean reflection *)

Definition nodeb (g : graph) (k : nat) : bool := (k =? 0) || memb k (g_objs g).

Fixpoint nodupb (l : list nat) : bool :=
  match l with [] => true | x :: tl => negb (memb x tl) && nodupb tl end.

Fixpoint reachb (g : graph) (fuel : nat) (k : nat) : bool :=
  (k =? 0) ||
  match fuel with
  | O => false
  | S f => match parent g k with Some p => reachb g f p | None => false end
  end.

Definition opt_nat_eqb (a b : option nat) : bool :=
  match a, b with Some x, Some y => x =? y | None, None => true | _, _ => false end.

Definition c_once (g : graph) : bool := nodupb (g_objs g).
Definition c_root (g : graph) : bool :=
  negb (memb 0 (g_objs g)) &&
  match g_st g 0 with
  | Some r => match o_parent r with None => o_graph r =? 0 | Some _ => false end
  | None => false
  end.
Definition c_reach (g : graph) : bool :=
  forallb (reachb g (length (g_objs g))) (g_objs g).

(* split per sub-clause so that check_case can name the failing one *)
Definition c_board1 (g : graph) (k : nat) : bool :=
  match g_st g k with Some o => o_graph o =? 0 | None => false end.
Definition c_parent_arr1 (g : graph) (k : nat) : bool :=
  match g_st g k with
  | Some o => match o_parent o with
              | Some p => nodeb g p &&
                          match g_st g p with
                          | Some po => count_occ Nat.eq_dec (o_carr po) k =? 1
                          | None => false
                          end
              | None => false
              end
  | None => false
  end.
Definition c_parent_map1 (g : graph) (k : nat) : bool :=
  match g_st g k with
  | Some o => match o_parent o with
              | Some p => match g_st g p with
                          | Some po => opt_nat_eqb (lookup (lower (o_id o)) (o_cmap po)) (Some k)
                          | None => false
                          end
              | None => false
              end
  | None => false
  end.
Definition c_board (g : graph) : bool := forallb (c_board1 g) (g_objs g).
Definition c_parent_arr (g : graph) : bool := forallb (c_parent_arr1 g) (g_objs g).
Definition c_parent_map (g : graph) : bool := forallb (c_parent_map1 g) (g_objs g).

Definition c_children1 (g : graph) (p : nat) : bool :=
  match g_st g p with
  | Some po =>
      forallb (fun c => memb c (g_objs g) && opt_nat_eqb (parent g c) (Some p)) (o_carr po)
      && forallb (fun kc => memb (snd kc) (o_carr po)) (o_cmap po)
  | None => true
  end.
Definition c_children (g : graph) : bool := forallb (c_children1 g) (0 :: g_objs g).

Definition c_edges (g : graph) : bool :=
  forallb (fun e => memb (e_src e) (g_objs g) && memb (e_dst e) (g_objs g)) (g_edges g).

Definition c_tables (g : graph) : bool :=
  forallb (fun k => match g_st g k with
                    | Some o => match o_carr o, o_cmap o with [], [] => true | _, _ => false end
                    | None => true
                    end) (g_tabs g).

Definition wf_check (g : graph) : bool :=
  c_once g && c_root g && c_reach g && c_board g && c_parent_arr g && c_parent_map g
  && c_children g && c_edges g && c_tables g.

End Ops.

(* ------------------------------------------------------------------ order of first appearance *)

(* positions: byte offset in the source of the name segment of the first reference; None for an object
   without a reference in the main file (see Check.v) *)
Fixpoint somes (l : list (option N)) : list N :=
  match l with
  | [] => []
  | Some x :: tl => x :: somes tl
  | None :: tl => somes tl
  end.

Fixpoint nondecr (l : list N) : bool :=
  match l with
  | a :: tl => match tl with b :: _ => (a <=? b)%N | [] => true end && nondecr tl
  | [] => true
  end.

Definition ordered (pos : list (option N)) : Prop := Sorted N.le (somes pos).
Definition ordered_b (pos : list (option N)) : bool := nondecr (somes pos).

(* ------------------------------------------------------------------ snapshots (for Check.v) *)

Definition store_of_list (l : list obj) : nat -> option obj := fun k => nth_error l k.

Definition snapshot (l : list obj) (objs : list nat) (edges : list edge) (tabs : list nat) : graph :=
  mkGraph (store_of_list l) (length l) objs edges tabs.
