(* C09 — proofs: the graph-building operations preserve WF (for every fmt / lower), lifted to all
   operation sequences. *)
From Coq Require Import List NArith Bool Arith Lia Permutation Sorted.
Import ListNotations.
Require Import V.Lib.RunCases V.C09.Graph.

(* ------------------------------------------------------------------ strings, maps *)

Lemma str_eqb_eq a b : str_eqb a b = true <-> a = b.
Proof. apply bytes_eqb_eq. Qed.

Lemma str_eqb_refl a : str_eqb a a = true.
Proof. apply str_eqb_eq. reflexivity. Qed.

Lemma str_eqb_neq a b : str_eqb a b = false <-> a <> b.
Proof.
  split; intro H.
  - intro E. apply str_eqb_eq in E. congruence.
  - destruct (str_eqb a b) eqn:E; [apply str_eqb_eq in E; contradiction|reflexivity].
Qed.

Lemma lookup_in k m v : lookup k m = Some v -> In (k, v) m.
Proof.
  induction m as [|[k' v'] tl IH]; simpl; [discriminate|].
  destruct (str_eqb k k') eqn:E; intro H.
  - apply str_eqb_eq in E. inversion H; subst. left. reflexivity.
  - right. apply IH, H.
Qed.

Lemma lookup_map_set_same k v m : lookup k (map_set k v m) = Some v.
Proof.
  induction m as [|[k' v'] tl IH]; simpl.
  - rewrite str_eqb_refl. reflexivity.
  - destruct (str_eqb k k') eqn:E; simpl; [rewrite str_eqb_refl; reflexivity|rewrite E; exact IH].
Qed.

Lemma lookup_map_set_other k0 k v m : k0 <> k -> lookup k0 (map_set k v m) = lookup k0 m.
Proof.
  intro N. apply str_eqb_neq in N.
  induction m as [|[k' v'] tl IH]; simpl.
  - rewrite N. reflexivity.
  - destruct (str_eqb k k') eqn:E; simpl.
    + apply str_eqb_eq in E. subst k'. rewrite N. reflexivity.
    + destruct (str_eqb k0 k'); [reflexivity|exact IH].
Qed.

Lemma in_map_set k v m k1 v1 : In (k1, v1) (map_set k v m) -> In (k1, v1) m \/ (k1 = k /\ v1 = v).
Proof.
  induction m as [|[k' v'] tl IH]; simpl.
  - intros [H|[]]. inversion H; subst. right. split; reflexivity.
  - destruct (str_eqb k k') eqn:E; simpl; intros [H|H].
    + inversion H; subst. right. split; reflexivity.
    + left. right. exact H.
    + left. left. exact H.
    + destruct (IH H) as [H1|H1]; [left; right; exact H1|right; exact H1].
Qed.

(* ------------------------------------------------------------------ lists of numbers *)

Lemma memb_in k l : memb k l = true <-> In k l.
Proof.
  unfold memb. rewrite existsb_exists. split.
  - intros [x [H1 H2]]. apply Nat.eqb_eq in H2. subst. exact H1.
  - intro H. exists k. split; [exact H|apply Nat.eqb_refl].
Qed.

Lemma memb_not_in k l : memb k l = false <-> ~ In k l.
Proof.
  rewrite <- memb_in. destruct (memb k l); split; intro H; try reflexivity; try discriminate.
  exfalso. apply H. reflexivity.
Qed.

Lemma nodupb_nodup l : nodupb l = true <-> NoDup l.
Proof.
  induction l as [|x tl IH]; simpl.
  - split; intro; [constructor|reflexivity].
  - rewrite andb_true_iff, negb_true_iff, memb_not_in, IH. split.
    + intros [H1 H2]. constructor; assumption.
    + intro H. inversion H; subst. split; assumption.
Qed.

Lemma nodup_snoc (l : list nat) c : NoDup l -> ~ In c l -> NoDup (l ++ [c]).
Proof.
  induction l as [|x tl IH]; simpl; intros H N.
  - constructor; [intros []|constructor].
  - inversion H; subst. constructor.
    + rewrite in_app_iff. intros [H1|[H1|[]]]; [contradiction|]. subst. apply N. left. reflexivity.
    + apply IH; [assumption|]. intro. apply N. right. assumption.
Qed.

Lemma count_occ_snoc (l : list nat) c k :
  count_occ Nat.eq_dec (l ++ [c]) k = count_occ Nat.eq_dec l k + (if Nat.eq_dec c k then 1 else 0).
Proof. rewrite count_occ_app. simpl. destruct (Nat.eq_dec c k); reflexivity. Qed.

(* ------------------------------------------------------------------ walking up *)

Lemma walk_app g a : forall x y b, walk g a x = Some y -> walk g (a + b) x = walk g b y.
Proof.
  induction a as [|a IH]; simpl; intros x y b H.
  - inversion H; subst. reflexivity.
  - destruct (parent g x) as [q|]; [|discriminate]. apply IH, H.
Qed.

Lemma walk_inj g : parent g 0 = None ->
  forall a b x, walk g a x = Some 0 -> walk g b x = Some 0 -> a = b.
Proof.
  intro R. induction a as [|a IH]; intros [|b] x Ha Hb; simpl in *.
  - reflexivity.
  - inversion Ha; subst. rewrite R in Hb. discriminate.
  - inversion Hb; subst. rewrite R in Ha. discriminate.
  - destruct (parent g x) as [q|]; [|discriminate]. f_equal. eapply IH; eassumption.
Qed.

(* the list of objects visited by n steps *)
Fixpoint chain (g : graph) (n : nat) (k : nat) : list nat :=
  match n with
  | O => [k]
  | S n' => k :: match parent g k with Some p => chain g n' p | None => [] end
  end.

Lemma chain_length g n : forall k y, walk g n k = Some y -> length (chain g n k) = S n.
Proof.
  induction n as [|n IH]; simpl; intros k y H; [reflexivity|].
  destruct (parent g k) as [q|]; [|discriminate]. f_equal. eapply IH, H.
Qed.

Lemma chain_in g n : forall k y x, walk g n k = Some y -> In x (chain g n k) ->
  exists i, i <= n /\ walk g i k = Some x.
Proof.
  induction n as [|n IH]; simpl; intros k y x H Hin.
  - destruct Hin as [E|[]]. subst. exists 0. split; [lia|reflexivity].
  - destruct Hin as [E|Hin].
    + subst. exists 0. split; [lia|reflexivity].
    + destruct (parent g k) as [q|] eqn:P; [|discriminate].
      destruct (IH q y x H Hin) as [i [Hi Hw]]. exists (S i). split; [lia|]. simpl. rewrite P. exact Hw.
Qed.

Lemma chain_nodup g : parent g 0 = None ->
  forall n k, walk g n k = Some 0 -> NoDup (chain g n k).
Proof.
  intro R. induction n as [|n IH]; simpl; intros k H.
  - constructor; [intros []|constructor].
  - destruct (parent g k) as [q|] eqn:P; [|discriminate].
    constructor; [|apply IH, H].
    intro Hin. destruct (chain_in g n q 0 k H Hin) as [i [Hi Hw]].
    (* k reaches itself in S i steps and the root in S n steps: S i + S n steps also reach the root *)
    assert (W1 : walk g (S i) k = Some k) by (simpl; rewrite P; exact Hw).
    assert (W2 : walk g (S n) k = Some 0) by (simpl; rewrite P; exact H).
    pose proof (walk_app g (S i) k k (S n) W1) as W3. rewrite W2 in W3.
    pose proof (walk_inj g R _ _ _ W3 W2). lia.
Qed.

Lemma reachb_sound g fuel : forall k, reachb g fuel k = true -> reach g k.
Proof.
  induction fuel as [|f IH]; simpl; intros k H.
  - rewrite orb_false_r in H. apply Nat.eqb_eq in H. subst. exists 0. reflexivity.
  - apply orb_prop in H as [H|H].
    + apply Nat.eqb_eq in H. subst. exists 0. reflexivity.
    + destruct (parent g k) as [q|] eqn:P; [|discriminate].
      destruct (IH q H) as [n Hn]. exists (S n). simpl. rewrite P. exact Hn.
Qed.

Lemma reachb_complete g : forall n fuel k, walk g n k = Some 0 -> n <= fuel -> reachb g fuel k = true.
Proof.
  induction n as [|n IH]; intros fuel k H L.
  - simpl in H. inversion H; subst. destruct fuel; reflexivity.
  - destruct fuel as [|f]; [lia|]. simpl in *.
    destruct (parent g k) as [q|]; [|discriminate].
    rewrite (IH f q H); [apply orb_true_r|lia].
Qed.

(* ------------------------------------------------------------------ preservation *)

Section Pres.
Variable fmt : str -> str.
Variable lower : str -> str.

Notation WF := (WF lower).
Notation new_object := (new_object fmt lower).
Notation ensure_child := (ensure_child fmt lower).
Notation ensure_child_edge := (ensure_child_edge fmt lower).
Notation connect := (connect fmt lower).
Notation apply_op := (apply_op fmt lower).

(* representation invariant of the model's heap: numbers from g_next on are unused *)
Definition Rep (g : graph) : Prop :=
  (forall k, g_next g <= k -> g_st g k = None) /\ (forall k, listed g k -> k < g_next g) /\ 0 < g_next g
  /\ (forall k, In k (g_tabs g) -> k < g_next g).

Lemma rep_init : Rep init.
Proof.
  repeat split; simpl.
  - intros k H. destruct k; [lia|reflexivity].
  - intros k [].
  - lia.
  - intros k [].
Qed.

Lemma wf_init : WF init.
Proof.
  constructor; simpl.
  - constructor.
  - split; [intros []|]. exists root_obj. repeat split.
  - intros k [].
  - intros k [].
  - intros p po [E|[]] H. subst. simpl in H. inversion H; subst. simpl. split; [intros c []|intros key c []].
  - intros e [].
  - intros k o [].
Qed.

Lemma node_st g p : WF g -> node g p -> exists po, g_st g p = Some po /\ o_graph po = 0.
Proof.
  intros W [E|L].
  - subst. destruct (wf_rootobj _ _ W) as [_ [r [H1 [_ H3]]]]. exists r. split; assumption.
  - destruct (wf_parent _ _ W p L) as [o [q [qo [H1 [H2 _]]]]]. exists o. split; assumption.
Qed.

Lemma node_lt g p : Rep g -> node g p -> p < g_next g.
Proof. intros [_ [R2 [R3 _]]] [E|L]; [subst; exact R3|apply R2, L]. Qed.

Lemma node_reach g p : WF g -> node g p -> reach g p.
Proof. intros W [E|L]; [subst; exists 0; reflexivity|apply (wf_reach _ _ W), L]. Qed.

(* WF does not depend on the order in which objects are listed, and looks at the connections only
   through their end points *)
Lemma wf_relist g objs' es' :
  Permutation (g_objs g) objs' ->
  (forall e, In e es' -> listed g (e_src e) /\ listed g (e_dst e)) -> WF g ->
  WF (mkGraph (g_st g) (g_next g) objs' es' (g_tabs g)).
Proof.
  intros P Q W.
  assert (L : forall k, listed (mkGraph (g_st g) (g_next g) objs' es' (g_tabs g)) k <-> listed g k).
  { intro k. unfold listed. simpl. split; apply Permutation_in; [apply Permutation_sym, P|exact P]. }
  assert (N : forall k, node (mkGraph (g_st g) (g_next g) objs' es' (g_tabs g)) k <-> node g k).
  { intro k. unfold node. rewrite L. reflexivity. }
  assert (Wk : forall n k, walk (mkGraph (g_st g) (g_next g) objs' es' (g_tabs g)) n k = walk g n k).
  { induction n as [|n IH]; simpl; intro k; [reflexivity|].
    unfold parent at 1. simpl. fold (parent g k). destruct (parent g k); [apply IH|reflexivity]. }
  constructor; simpl.
  - eapply Permutation_NoDup; [exact P|apply (wf_once _ _ W)].
  - destruct (wf_rootobj _ _ W) as [N0 R]. split; [|exact R]. intro H. apply N0. apply L in H. exact H.
  - intros k H. apply L in H. destruct (wf_reach _ _ W k H) as [n Hn]. exists n. rewrite Wk. exact Hn.
  - intros k H. apply L in H. destruct (wf_parent _ _ W k H) as [o [p [po [H1 [H2 [H3 [H4 H5]]]]]]].
    exists o, p, po. repeat split; try assumption; try apply H5. apply N. exact H4.
  - intros p po Np Hp. apply N in Np. destruct (wf_children _ _ W p po Np Hp) as [C1 C2]. split; [|exact C2].
    intros c Hc. destruct (C1 c Hc) as [A B]. split; [apply L; exact A|exact B].
  - intros e He. destruct (Q e He) as [A B]. split; apply L; assumption.
  - apply (wf_tables _ _ W).
Qed.

Lemma wf_set_edges g es : WF g ->
  (forall e, In e es -> listed g (e_src e) /\ listed g (e_dst e)) ->
  WF (mkGraph (g_st g) (g_next g) (g_objs g) es (g_tabs g)).
Proof. intros W H. apply wf_relist; [apply Permutation_refl|exact H|exact W]. Qed.

Lemma new_object_inv g p name :
  Rep g -> WF g -> node g p ->
  (forall po, g_st g p = Some po -> lookup (lower (fmt name)) (o_cmap po) = None) ->
  ~ In p (g_tabs g) ->
  let g' := fst (new_object g p name) in
  let c := snd (new_object g p name) in
  Rep g' /\ WF g' /\ listed g' c /\ (forall k, listed g k -> listed g' k) /\ g_edges g' = g_edges g
  /\ g_tabs g' = g_tabs g.
Proof.
  intros R W Np Hfree Ntab.
  destruct (node_st g p W Np) as [po [Hp Gp]].
  specialize (Hfree po Hp).
  unfold new_object. rewrite Hp.
  destruct (memb p (g_tabs g)) eqn:Mt; [apply memb_in in Mt; contradiction|].
  cbn [fst snd].
  set (c := g_next g).
  set (id := fmt name).
  set (child := mkObj id name (Some p) (o_graph po) [] []).
  set (po' := mkObj (o_id po) (o_name po) (o_parent po) (o_graph po) (o_carr po ++ [c])
                    (map_set (lower id) c (o_cmap po))).
  set (st' := upd (upd (g_st g) c child) p po').
  set (g' := mkGraph st' (S c) (g_objs g ++ [c]) (g_edges g) (g_tabs g)).
  pose proof (node_lt g p R Np) as Lp. fold c in Lp.
  destruct R as [R1 [R2 [R3 R4]]].
  assert (Stc : g_st g c = None) by (apply R1; unfold c; lia).
  (* the new heap *)
  assert (Sp : st' p = Some po') by (unfold st', upd; rewrite Nat.eqb_refl; reflexivity).
  assert (Sc : st' c = Some child).
  { unfold st', upd. destruct (c =? p) eqn:E; [apply Nat.eqb_eq in E; lia|]. rewrite Nat.eqb_refl. reflexivity. }
  assert (So : forall k, k <> p -> k <> c -> st' k = g_st g k).
  { intros k H1 H2. unfold st', upd. apply Nat.eqb_neq in H1, H2. rewrite H1, H2. reflexivity. }
  assert (Par : forall k, k <> c -> parent g' k = parent g k).
  { intros k H. unfold parent. cbn [g_st g']. destruct (Nat.eq_dec k p) as [E|E].
    - subst k. rewrite Sp, Hp. reflexivity.
    - rewrite So by assumption. reflexivity. }
  assert (Parc : parent g' c = Some p) by (unfold parent; cbn [g_st g']; rewrite Sc; reflexivity).
  assert (Lold : forall k, listed g k -> k <> c) by (intros k H; apply R2 in H; unfold c; lia).
  assert (Lmono : forall k, listed g k -> listed g' k).
  { intros k H. unfold listed. cbn [g_objs g']. apply in_or_app. left. exact H. }
  assert (Lc : listed g' c) by (unfold listed; cbn [g_objs g']; apply in_or_app; right; left; reflexivity).
  assert (Nmono : forall k, node g k -> node g' k) by (intros k [E|L]; [left; exact E|right; apply Lmono, L]).
  assert (Linv : forall k, listed g' k -> listed g k \/ k = c).
  { intros k H. unfold listed in H. cbn [g_objs g'] in H. apply in_app_or in H as [H|[H|[]]]; [left; exact H|right; symmetry; exact H]. }
  assert (Wk : forall n k, walk g n k = Some 0 -> walk g' n k = Some 0).
  { induction n as [|n IH]; simpl; intros k H; [exact H|].
    destruct (parent g k) as [q|] eqn:P; [|discriminate].
    assert (k <> c). { intro E. subst k. unfold parent in P. rewrite Stc in P. discriminate. }
    rewrite Par by assumption. rewrite P. apply IH, H. }
  assert (Cnotin : ~ In c (o_carr po)).
  { intro H. destruct (wf_children _ _ W p po Np Hp) as [C1 _]. destruct (C1 c H) as [L _]. apply Lold in L. congruence. }
  split; [|split; [|split; [exact Lc|split; [exact Lmono|split; reflexivity]]]].
  - (* Rep *)
    repeat split; cbn [g_next g_st g_tabs g'].
    + intros k H. rewrite So by lia. apply R1. unfold c in H. lia.
    + intros k H. apply Linv in H as [H|H]; [apply R2 in H; unfold c; lia|lia].
    + lia.
    + intros k H. apply R4 in H. unfold c. lia.
  - constructor.
    + (* listed once *)
      cbn [g_objs g']. apply nodup_snoc; [apply (wf_once _ _ W)|]. intro H. apply Lold in H. congruence.
    + (* root *)
      destruct (wf_rootobj _ _ W) as [N0 [r [H1 [H2 H3]]]]. split.
      * intro H. apply Linv in H as [H|H]; [contradiction|unfold c in H; lia].
      * cbn [g_st g']. destruct (Nat.eq_dec 0 p) as [E|E].
        -- subst p. exists po'. rewrite Sp. rewrite Hp in H1. inversion H1; subst r.
           repeat split; assumption.
        -- exists r. rewrite So; [repeat split; assumption|exact E|unfold c; lia].
    + (* reach *)
      intros k H. apply Linv in H as [H|H].
      * destruct (wf_reach _ _ W k H) as [n Hn]. exists n. apply Wk, Hn.
      * subst k. destruct (node_reach g p W Np) as [n Hn]. exists (S n). simpl. rewrite Parc. apply Wk, Hn.
    + (* parent lists it once, under its lower-cased ID *)
      intros k H. apply Linv in H as [H|H].
      * destruct (wf_parent _ _ W k H) as [o [q [qo [H1 [H2 [H3 [H4 [H5 [H6 H7]]]]]]]]].
        pose proof (Lold k H) as Kc.
        assert (Qc : q <> c) by (pose proof (node_lt g q (conj R1 (conj R2 (conj R3 R4))) H4); unfold c; lia).
        (* the object itself: unchanged, or p with more children *)
        assert (Ek : exists o', st' k = Some o' /\ o_id o' = o_id o /\ o_graph o' = o_graph o /\ o_parent o' = o_parent o).
        { destruct (Nat.eq_dec k p) as [E|E].
          - subst k. exists po'. rewrite Hp in H1. inversion H1; subst o. repeat split; [exact Sp].
          - exists o. rewrite So by assumption. repeat split; assumption. }
        destruct Ek as [o' [E1 [E2 [E3 E4]]]].
        destruct (Nat.eq_dec q p) as [E|E].
        -- subst q. rewrite Hp in H5. inversion H5; subst qo.
           exists o', p, po'. cbn [g_st g']. rewrite E2, E3, E4.
           repeat split; try assumption; [apply Nmono, H4| |].
           ++ cbn [o_carr po']. rewrite count_occ_snoc. destruct (Nat.eq_dec c k); [congruence|lia].
           ++ cbn [o_cmap po']. rewrite lookup_map_set_other; [exact H7|].
              intro Eq. rewrite Eq in H7. unfold id in H7. rewrite Hfree in H7. discriminate.
        -- exists o', q, qo. cbn [g_st g']. rewrite E2, E3, E4.
           repeat split; try assumption; [apply Nmono, H4|]. rewrite So by assumption. exact H5.
      * subst k. exists child, p, po'. cbn [g_st g'].
        repeat split; try assumption; [apply Nmono, Np| |].
        -- cbn [o_carr po']. rewrite count_occ_snoc. destruct (Nat.eq_dec c c); [|congruence].
           rewrite (proj1 (count_occ_not_In Nat.eq_dec _ _) Cnotin). reflexivity.
        -- cbn [o_cmap po' o_id child]. apply lookup_map_set_same.
    + (* children *)
      intros q qo Nq Hq. cbn [g_st g'] in Hq.
      destruct (Nat.eq_dec q c) as [Ec|Ec].
      { subst q. rewrite Sc in Hq. inversion Hq; subst qo. split; [intros x []|intros key x []]. }
      assert (Nq0 : node g q).
      { destruct Nq as [E|L]; [left; exact E|]. apply Linv in L as [L|L]; [right; exact L|congruence]. }
      destruct (Nat.eq_dec q p) as [Ep|Ep].
      * subst q. rewrite Sp in Hq. inversion Hq; subst qo.
        destruct (wf_children _ _ W p po Np Hp) as [C1 C2]. split.
        -- intros x Hx. cbn [o_carr po'] in Hx. apply in_app_or in Hx as [Hx|[Hx|[]]].
           ++ destruct (C1 x Hx) as [L P]. split; [apply Lmono, L|]. rewrite Par; [exact P|apply Lold, L].
           ++ subst x. split; [exact Lc|exact Parc].
        -- intros key x Hx. cbn [o_cmap po' o_carr po'] in *. apply in_map_set in Hx as [Hx|[_ Hx]].
           ++ apply in_or_app. left. eapply C2, Hx.
           ++ subst x. apply in_or_app. right. left. reflexivity.
      * rewrite So in Hq by assumption.
        destruct (wf_children _ _ W q qo Nq0 Hq) as [C1 C2]. split; [|exact C2].
        intros x Hx. destruct (C1 x Hx) as [L P]. split; [apply Lmono, L|]. rewrite Par; [exact P|apply Lold, L].
    + (* connections *)
      intros e He. cbn [g_edges g'] in He. destruct (wf_edges _ _ W e He) as [H1 H2]. split; apply Lmono; assumption.
    + (* tables *)
      intros k o Hk Ho. cbn [g_tabs g'] in Hk. cbn [g_st g'] in Ho.
      assert (k <> p) by (intro E; subst k; contradiction).
      assert (k <> c) by (apply R4 in Hk; unfold c; lia).
      rewrite So in Ho by assumption. apply (wf_tables _ _ W k o Hk Ho).
Qed.

(* on a class / sql_table object nothing happens *)
Lemma new_object_table g p name : In p (g_tabs g) -> new_object g p name = (g, p).
Proof.
  intro H. unfold new_object. destruct (g_st g p); [|reflexivity].
  apply memb_in in H. rewrite H. reflexivity.
Qed.

Lemma ensure_child_inv : forall path g p,
  Rep g -> WF g -> node g p ->
  let g' := fst (ensure_child g p path) in
  let r := snd (ensure_child g p path) in
  Rep g' /\ WF g' /\ node g' r /\ (path <> [] -> listed g' r \/ (r = p /\ In p (g_tabs g))) /\
  (forall k, listed g k -> listed g' k) /\ g_edges g' = g_edges g /\ g_tabs g' = g_tabs g.
Proof.
  induction path as [|n rest IH]; intros g p R W Np.
  - simpl. split; [exact R|split; [exact W|split; [exact Np|split; [congruence|split; [auto|split; reflexivity]]]]].
  - destruct (node_st g p W Np) as [po [Hp _]].
    cbn [ensure_child]. rewrite Hp.
    destruct (lookup (lower (fmt n)) (o_cmap po)) as [c|] eqn:Lk.
    + (* the child exists *)
      assert (Lc : listed g c).
      { apply lookup_in in Lk. destruct (wf_children _ _ W p po Np Hp) as [C1 C2]. apply C1. eapply C2, Lk. }
      destruct (IH g c R W (or_intror Lc)) as [R' [W' [N' [L' [M' [E' T']]]]]].
      cbn zeta in *.
      split; [exact R'|split; [exact W'|split; [exact N'|split; [|split; [exact M'|split; [exact E'|exact T']]]]]].
      intros _. left. destruct rest as [|n2 rest2]; [simpl; exact Lc|].
      destruct L' as [L'|[L' _]]; [discriminate|exact L'|]. rewrite L'. apply M', Lc.
    + destruct (in_dec Nat.eq_dec p (g_tabs g)) as [Tp|Tp].
      * (* a class / sql_table: newObject does nothing *)
        rewrite (new_object_table g p n Tp).
        destruct (IH g p R W Np) as [R' [W' [N' [L' [M' [E' T']]]]]].
        cbn zeta in *.
        split; [exact R'|split; [exact W'|split; [exact N'|split; [|split; [exact M'|split; [exact E'|exact T']]]]]].
        intros _. destruct rest as [|n2 rest2]; [right; split; [reflexivity|exact Tp]|].
        apply L'. discriminate.
      * pose proof (new_object_inv g p n R W Np) as NI.
        assert (Hfree : forall po0, g_st g p = Some po0 -> lookup (lower (fmt n)) (o_cmap po0) = None).
        { intros po0 H0. rewrite Hp in H0. inversion H0; subst. exact Lk. }
        specialize (NI Hfree Tp). cbn zeta in NI.
        destruct (new_object g p n) as [g1 c] eqn:NO. cbn [fst snd] in NI.
        destruct NI as [R1 [W1 [Lc [M1 [E1 T1]]]]].
        destruct (IH g1 c R1 W1 (or_intror Lc)) as [R' [W' [N' [L' [M' [E' T']]]]]].
        cbn zeta in *.
        split; [exact R'|split; [exact W'|split; [exact N'|split; [|split; [|split]]]]].
        -- intros _. left. destruct rest as [|n2 rest2]; [simpl; exact Lc|].
           destruct L' as [L'|[L' _]]; [discriminate|exact L'|]. rewrite L'. apply M', Lc.
        -- intros k H. apply M', M1, H.
        -- rewrite E'. exact E1.
        -- rewrite T'. exact T1.
Qed.

Lemma wf_new_object g p name :
  Rep g -> WF g -> node g p ->
  (forall po, g_st g p = Some po -> lookup (lower (fmt name)) (o_cmap po) = None) ->
  WF (fst (new_object g p name)).
Proof.
  intros R W N H. destruct (in_dec Nat.eq_dec p (g_tabs g)) as [T|T].
  - rewrite (new_object_table g p name T). exact W.
  - apply (new_object_inv g p name R W N H T).
Qed.

Lemma wf_ensure_child g p path :
  Rep g -> WF g -> node g p -> WF (fst (ensure_child g p path)).
Proof. intros R W N. apply (ensure_child_inv path g p R W N). Qed.

(* end points of connections: resolved segment by segment, truncated at class / sql_table objects *)
Lemma ensure_child_edge_inv : forall path g p,
  Rep g -> WF g -> node g p ->
  let g' := fst (ensure_child_edge g p path) in
  let r := snd (ensure_child_edge g p path) in
  Rep g' /\ WF g' /\ node g' r /\ (path <> [] -> listed g' r \/ (r = p /\ In p (g_tabs g))) /\
  (forall k, listed g k -> listed g' k) /\ g_edges g' = g_edges g /\ g_tabs g' = g_tabs g.
Proof.
  induction path as [|n rest IH]; intros g p R W Np.
  - simpl. split; [exact R|split; [exact W|split; [exact Np|split; [congruence|split; [auto|split; reflexivity]]]]].
  - cbn [ensure_child_edge].
    destruct (memb p (g_tabs g)) eqn:Mt.
    + apply memb_in in Mt. cbn [fst snd].
      split; [exact R|split; [exact W|split; [exact Np|split; [|split; [auto|split; reflexivity]]]]].
      intros _. right. split; [reflexivity|exact Mt].
    + assert (Tp : ~ In p (g_tabs g)) by (intro H; apply memb_in in H; congruence).
      pose proof (ensure_child_inv [n] g p R W Np) as I1. cbn zeta in I1.
      destruct (ensure_child g p [n]) as [g1 c]. cbn [fst snd] in I1.
      destruct I1 as [R1 [W1 [N1 [L1 [M1 [E1 T1]]]]]].
      assert (Lc : listed g1 c).
      { destruct L1 as [L1|[_ L1]]; [discriminate|exact L1|contradiction]. }
      destruct (IH g1 c R1 W1 N1) as [R' [W' [N' [L' [M' [E' T']]]]]].
      cbn zeta in *.
      split; [exact R'|split; [exact W'|split; [exact N'|split; [|split; [|split]]]]].
      * intros _. left. destruct rest as [|n2 rest2]; [simpl; exact Lc|].
        destruct L' as [L'|[L' _]]; [discriminate|exact L'|]. rewrite L'. apply M', Lc.
      * intros k H. apply M', M1, H.
      * rewrite E'. exact E1.
      * rewrite T'. exact T1.
Qed.

(* Connect from a scope that is an object of the board, or the root unless the root is a class / sql_table *)
Lemma connect_inv g p src dst sa da :
  Rep g -> WF g -> node g p -> (listed g p \/ ~ In p (g_tabs g)) -> src <> [] -> dst <> [] ->
  Rep (connect g p src dst sa da) /\ WF (connect g p src dst sa da)
  /\ g_tabs (connect g p src dst sa da) = g_tabs g.
Proof.
  intros R W Np Hp Hs Hd. unfold connect.
  pose proof (ensure_child_edge_inv src g p R W Np) as I1. cbn zeta in I1.
  destruct (ensure_child_edge g p src) as [g1 s]. cbn [fst snd] in I1.
  destruct I1 as [R1 [W1 [_ [L1 [M1 [_ T1]]]]]].
  assert (Np1 : node g1 p) by (destruct Np as [E|L]; [left; exact E|right; apply M1, L]).
  pose proof (ensure_child_edge_inv dst g1 p R1 W1 Np1) as I2. cbn zeta in I2.
  destruct (ensure_child_edge g1 p dst) as [g2 d]. cbn [fst snd] in I2.
  destruct I2 as [R2 [W2 [_ [L2 [M2 [_ T2]]]]]].
  assert (Ls : listed g1 s).
  { destruct (L1 Hs) as [L|[E T]]; [exact L|]. subst s. destruct Hp as [L|N]; [apply M1, L|contradiction]. }
  assert (Ld : listed g2 d).
  { destruct (L2 Hd) as [L|[E T]]; [exact L|]. subst d. rewrite T1 in T.
    destruct Hp as [L|N]; [apply M2, M1, L|contradiction]. }
  split; [|split].
  - destruct R2 as [A [B [C D]]]. repeat split; assumption.
  - apply wf_set_edges; [exact W2|].
    intros e He. apply in_app_or in He as [He|[He|[]]].
    + apply (wf_edges _ _ W2), He.
    + subst e. simpl. split; [apply M2, Ls|exact Ld].
  - simpl. rewrite T2. exact T1.
Qed.

Lemma wf_connect g p src dst sa da :
  Rep g -> WF g -> node g p -> (listed g p \/ ~ In p (g_tabs g)) -> src <> [] -> dst <> [] ->
  WF (connect g p src dst sa da).
Proof. intros. apply connect_inv; assumption. Qed.

(* compileClass / compileSQLTable *)
Lemma make_table_inv g k : Rep g -> WF g -> node g k ->
  Rep (make_table g k) /\ WF (make_table g k) /\
  (forall x, In x (g_tabs (make_table g k)) -> x = k \/ In x (g_tabs g)) /\
  g_edges (make_table g k) = g_edges g.
Proof.
  intros R W Nk. unfold make_table.
  destruct (node_st g k W Nk) as [o [Ho Go]]. rewrite Ho.
  destruct (forallb (is_leaf g) (o_carr o) &&
            forallb (fun e => negb (memb (e_src e) (o_carr o)) && negb (memb (e_dst e) (o_carr o))) (g_edges g)) eqn:C;
    [|split; [exact R|split; [exact W|split; [auto|reflexivity]]]].
  apply andb_prop in C as [Cl Ce].
  set (o' := mkObj (o_id o) (o_name o) (o_parent o) (o_graph o) [] []).
  set (objs' := filter (fun x => negb (memb x (o_carr o))) (g_objs g)).
  set (g' := mkGraph (upd (g_st g) k o') (g_next g) objs' (g_edges g) (k :: g_tabs g)).
  destruct R as [R1 [R2 [R3 R4]]].
  pose proof (node_lt g k (conj R1 (conj R2 (conj R3 R4))) Nk) as Lk.
  assert (Sk : g_st g' k = Some o') by (cbn; unfold upd; rewrite Nat.eqb_refl; reflexivity).
  assert (So : forall x, x <> k -> g_st g' x = g_st g x).
  { intros x H. cbn. unfold upd. apply Nat.eqb_neq in H. rewrite H. reflexivity. }
  assert (Par : forall x, parent g' x = parent g x).
  { intro x. unfold parent. destruct (Nat.eq_dec x k) as [E|E]; [subst x; rewrite Sk, Ho; reflexivity|rewrite So by exact E; reflexivity]. }
  assert (Wk : forall n x, walk g' n x = walk g n x).
  { induction n as [|n IH]; simpl; intro x; [reflexivity|]. rewrite Par. destruct (parent g x); [apply IH|reflexivity]. }
  assert (Lin : forall x, listed g' x <-> listed g x /\ ~ In x (o_carr o)).
  { intro x. unfold listed. cbn [g_objs g']. unfold objs'. rewrite filter_In, negb_true_iff, memb_not_in. reflexivity. }
  destruct (wf_children _ _ W k o Nk Ho) as [Ck1 Ck2].
  (* k itself is not one of its children, and the parent of a remaining object remains *)
  assert (Knot : ~ In k (o_carr o)).
  { intro H. pose proof (proj1 (forallb_forall _ _) Cl k H) as Lf. unfold is_leaf in Lf. rewrite Ho in Lf.
    destruct (o_carr o); [destruct H|discriminate]. }
  assert (Pkeep : forall x, listed g x -> ~ In x (o_carr o) -> forall q, parent g x = Some q -> node g' q).
  { intros x Lx Nx q Pq. destruct (wf_parent _ _ W x Lx) as [ox [q' [qo [H1 [_ [H3 [H4 [H5 [H6 _]]]]]]]]].
    unfold parent in Pq. rewrite H1, H3 in Pq. inversion Pq; subst q'.
    destruct H4 as [E|Lq]; [left; exact E|right]. apply Lin. split; [exact Lq|].
    intro Hq. pose proof (proj1 (forallb_forall _ _) Cl q Hq) as Lf. unfold is_leaf in Lf. rewrite H5 in Lf.
    destruct (o_carr qo) eqn:Eq; [|discriminate]. simpl in H6. discriminate. }
  split; [|split; [|split; [|reflexivity]]].
  - split; [|split; [|split]].
    + intros x H. cbn [g_next g'] in H. rewrite So by lia. apply R1, H.
    + intros x H. apply Lin in H as [H _]. cbn [g_next g']. apply R2, H.
    + exact R3.
    + intros x H. cbn [g_tabs g'] in H. cbn [g_next g']. destruct H as [E|H]; [subst x; exact Lk|apply R4, H].
  - constructor.
    + cbn [g_objs g']. apply NoDup_filter, (wf_once _ _ W).
    + destruct (wf_rootobj _ _ W) as [N0 [r [H1 [H2 H3]]]]. split.
      * intro H. apply Lin in H as [H _]. contradiction.
      * destruct (Nat.eq_dec 0 k) as [E|E].
        -- subst k. rewrite Ho in H1. inversion H1; subst r. exists o'. rewrite Sk. repeat split; assumption.
        -- exists r. rewrite So by exact E. repeat split; assumption.
    + intros x H. apply Lin in H as [H _]. destruct (wf_reach _ _ W x H) as [n Hn]. exists n. rewrite Wk. exact Hn.
    + intros x H. apply Lin in H as [Lx Nx].
      destruct (wf_parent _ _ W x Lx) as [ox [q [qo [H1 [H2 [H3 [H4 [H5 [H6 H7]]]]]]]]].
      assert (Nq : node g' q). { apply (Pkeep x Lx Nx). unfold parent. rewrite H1. exact H3. }
      assert (Qk : q <> k).
      { intro E. subst q. rewrite Ho in H5. inversion H5; subst qo. apply Nx.
        apply (count_occ_In Nat.eq_dec). lia. }
      destruct (Nat.eq_dec x k) as [E|E].
      * subst x. rewrite Ho in H1. inversion H1; subst ox.
        exists o', q, qo. rewrite Sk, So by exact Qk. repeat split; assumption.
      * exists ox, q, qo. rewrite !So by assumption. repeat split; assumption.
    + intros q qo Nq Hq.
      destruct (Nat.eq_dec q k) as [E|E].
      * subst q. rewrite Sk in Hq. inversion Hq; subst qo. split; [intros c []|intros key c []].
      * rewrite So in Hq by exact E.
        assert (Nq0 : node g q) by (destruct Nq as [E0|L]; [left; exact E0|right; apply Lin in L; apply L]).
        destruct (wf_children _ _ W q qo Nq0 Hq) as [C1 C2]. split; [|exact C2].
        intros c Hc. destruct (C1 c Hc) as [Lc Pc]. rewrite Par. split; [|exact Pc].
        apply Lin. split; [exact Lc|]. intro Hck. destruct (Ck1 c Hck) as [_ Pk]. congruence.
    + intros e He. cbn [g_edges g'] in He. destruct (wf_edges _ _ W e He) as [A B].
      pose proof (proj1 (forallb_forall _ _) Ce e He) as X. apply andb_prop in X as [Xa Xb].
      apply negb_true_iff, memb_not_in in Xa, Xb. split; apply Lin; split; assumption.
    + intros x ox Hx Hox. cbn [g_tabs g'] in Hx.
      destruct (Nat.eq_dec x k) as [E|E].
      * subst x. rewrite Sk in Hox. inversion Hox; subst ox. split; reflexivity.
      * rewrite So in Hox by exact E. destruct Hx as [Hx|Hx]; [congruence|]. apply (wf_tables _ _ W x ox Hx Hox).
  - intros x [E|H]; [left; symmetry; exact E|right; exact H].
Qed.

(* one operation; the root must not have been made a class / sql_table (see wf_ops_refuted) *)
Lemma apply_op_inv g o : Rep g -> WF g -> ~ In 0 (g_tabs g) -> o <> OpTable [] ->
  Rep (apply_op g o) /\ WF (apply_op g o) /\ ~ In 0 (g_tabs (apply_op g o)).
Proof.
  intros R W T0 Ho. destruct o as [scope path|scope src dst sa da|scope]; cbn [apply_op].
  - pose proof (ensure_child_inv scope g 0 R W (or_introl eq_refl)) as I1. cbn zeta in I1.
    destruct (ensure_child g 0 scope) as [g1 s]. cbn [fst snd] in I1.
    destruct I1 as [R1 [W1 [N1 [_ [_ [_ T1]]]]]].
    pose proof (ensure_child_inv path g1 s R1 W1 N1) as I2. cbn zeta in I2.
    destruct I2 as [R2 [W2 [_ [_ [_ [_ T2]]]]]]. split; [exact R2|split; [exact W2|]]. rewrite T2, T1. exact T0.
  - destruct src as [|s0 src]; [split; [exact R|split; [exact W|exact T0]]|].
    destruct dst as [|d0 dst]; [split; [exact R|split; [exact W|exact T0]]|].
    pose proof (ensure_child_inv scope g 0 R W (or_introl eq_refl)) as I1. cbn zeta in I1.
    destruct (ensure_child g 0 scope) as [g1 s]. cbn [fst snd] in I1.
    destruct I1 as [R1 [W1 [N1 [L1 [_ [_ T1]]]]]].
    assert (Hs : listed g1 s \/ ~ In s (g_tabs g1)).
    { destruct N1 as [E|L]; [right; subst s; rewrite T1; exact T0|left; exact L]. }
    destruct (connect_inv g1 s (s0 :: src) (d0 :: dst) sa da R1 W1 N1 Hs) as [R2 [W2 T2]]; try discriminate.
    split; [exact R2|split; [exact W2|]]. rewrite T2, T1. exact T0.
  - pose proof (ensure_child_inv scope g 0 R W (or_introl eq_refl)) as I1. cbn zeta in I1.
    destruct (ensure_child g 0 scope) as [g1 s]. cbn [fst snd] in I1.
    destruct I1 as [R1 [W1 [N1 [L1 [_ [_ T1]]]]]].
    destruct (make_table_inv g1 s R1 W1 N1) as [R2 [W2 [T2 _]]].
    split; [exact R2|split; [exact W2|]].
    intro H. destruct (T2 0 H) as [E|H0]; [|rewrite T1 in H0; contradiction].
    (* s = 0: the scope path was empty *)
    destruct scope as [|n rest]; [congruence|].
    destruct L1 as [L|[_ T]]; [discriminate| |contradiction].
    subst s. destruct (wf_rootobj _ _ W1) as [N0 _]. contradiction.
Qed.

Lemma ops_inv ops : forall g, Rep g -> WF g -> ~ In 0 (g_tabs g) -> Forall (fun o => o <> OpTable []) ops ->
  Rep (fold_left apply_op ops g) /\ WF (fold_left apply_op ops g).
Proof.
  induction ops as [|o ops IH]; intros g R W T0 F; simpl; [split; assumption|].
  inversion F; subst.
  destruct (apply_op_inv g o R W T0) as [R1 [W1 T1]]; [assumption|]. apply IH; assumption.
Qed.

(* every graph reachable by any number of operations is well formed *)
Lemma wf_ops ops : Forall (fun o => o <> OpTable []) ops -> WF (run_ops fmt lower ops).
Proof. intro F. apply ops_inv; [apply rep_init|apply wf_init|intros []|exact F]. Qed.

(* ------------------------------------------------------------------ wf_check reflects WF *)

Lemma opt_nat_eqb_eq a b : opt_nat_eqb a b = true <-> a = b.
Proof.
  destruct a, b; simpl; split; intro H; try discriminate; try reflexivity.
  - apply Nat.eqb_eq in H. congruence.
  - inversion H. apply Nat.eqb_refl.
Qed.

Lemma nodeb_node g k : nodeb g k = true <-> node g k.
Proof.
  unfold nodeb, node, listed. rewrite orb_true_iff, Nat.eqb_eq, memb_in. reflexivity.
Qed.

Lemma wf_check_sound g : wf_check lower g = true -> WF g.
Proof.
  unfold wf_check. intro H.
  apply andb_prop in H as [H C9]. apply andb_prop in H as [H C8]. apply andb_prop in H as [H C7].
  apply andb_prop in H as [H C6]. apply andb_prop in H as [H C5]. apply andb_prop in H as [H C4].
  apply andb_prop in H as [H C3]. apply andb_prop in H as [C1 C2].
  assert (P : forall k, listed g k ->
      exists o p po, g_st g k = Some o /\ o_graph o = 0 /\ o_parent o = Some p /\ node g p /\
                     g_st g p = Some po /\ count_occ Nat.eq_dec (o_carr po) k = 1 /\
                     lookup (lower (o_id o)) (o_cmap po) = Some k).
  { intros k L.
    pose proof (proj1 (forallb_forall _ _) C4 k L) as B. unfold c_board1 in B.
    pose proof (proj1 (forallb_forall _ _) C5 k L) as A. unfold c_parent_arr1 in A.
    pose proof (proj1 (forallb_forall _ _) C6 k L) as M. unfold c_parent_map1 in M.
    destruct (g_st g k) as [o|] eqn:Ek; [|discriminate]. apply Nat.eqb_eq in B.
    destruct (o_parent o) as [p|] eqn:Ep; [|discriminate].
    apply andb_prop in A as [A1 A2]. apply nodeb_node in A1.
    destruct (g_st g p) as [po|] eqn:Epo; [|discriminate].
    apply Nat.eqb_eq in A2. apply opt_nat_eqb_eq in M.
    exists o, p, po. repeat split; try reflexivity; assumption. }
  constructor.
  - apply nodupb_nodup, C1.
  - unfold c_root in C2. apply andb_prop in C2 as [A B]. apply negb_true_iff, memb_not_in in A.
    split; [exact A|]. destruct (g_st g 0) as [r|]; [|discriminate].
    destruct (o_parent r) eqn:E; [discriminate|]. apply Nat.eqb_eq in B. exists r. repeat split; assumption.
  - intros k L. eapply reachb_sound. exact (proj1 (forallb_forall _ _) C3 k L).
  - exact P.
  - intros p po Np Hp.
    assert (In p (0 :: g_objs g)) as Hin by (destruct Np as [E|L]; [left; symmetry; exact E|right; exact L]).
    pose proof (proj1 (forallb_forall _ _) C7 p Hin) as B. unfold c_children1 in B. rewrite Hp in B.
    apply andb_prop in B as [B1 B2]. split.
    + intros c Hc. pose proof (proj1 (forallb_forall _ _) B1 c Hc) as B.
      apply andb_prop in B as [Ba Bb]. apply memb_in in Ba. apply opt_nat_eqb_eq in Bb. split; assumption.
    + intros key c Hc. pose proof (proj1 (forallb_forall _ _) B2 (key, c) Hc) as B. apply memb_in in B. exact B.
  - intros e He. pose proof (proj1 (forallb_forall _ _) C8 e He) as B.
    apply andb_prop in B as [Ba Bb]. apply memb_in in Ba, Bb. split; assumption.
  - intros k o Hk Ho. pose proof (proj1 (forallb_forall _ _) C9 k Hk) as B. cbn beta in B. rewrite Ho in B.
    destruct (o_carr o); [|discriminate]. destruct (o_cmap o); [|discriminate]. split; reflexivity.
Qed.

(* depth bound: a parent chain that reaches the root visits distinct nodes *)
Lemma chain_nodes g : WF g -> forall n k y, node g k -> walk g n k = Some y ->
  forall x, In x (chain g n k) -> In x (0 :: g_objs g).
Proof.
  intro W. induction n as [|n IH]; simpl; intros k y Nk H x Hin.
  - destruct Hin as [E|[]]. subst x. destruct Nk as [E|L]; [left; symmetry; exact E|right; exact L].
  - destruct Hin as [E|Hin].
    + subst x. destruct Nk as [E|L]; [left; symmetry; exact E|right; exact L].
    + destruct (parent g k) as [q|] eqn:P; [|discriminate].
      assert (Nq : node g q).
      { destruct Nk as [E|L].
        - subst k. destruct (wf_rootobj _ _ W) as [_ [r [H1 [H2 _]]]]. unfold parent in P. rewrite H1, H2 in P. discriminate.
        - destruct (wf_parent _ _ W k L) as [o [p [po [H1 [_ [H3 [H4 _]]]]]]].
          unfold parent in P. rewrite H1, H3 in P. inversion P; subst. exact H4. }
      eapply IH; eassumption.
Qed.

Lemma depth_bound g n k : WF g -> listed g k -> walk g n k = Some 0 -> n <= length (g_objs g).
Proof.
  intros W L Hn.
  assert (R0 : parent g 0 = None).
  { destruct (wf_rootobj _ _ W) as [_ [r [H1 [H2 _]]]]. unfold parent. rewrite H1. exact H2. }
  pose proof (chain_nodup g R0 n k Hn) as ND.
  pose proof (chain_nodes g W n k 0 (or_intror L) Hn) as INC.
  pose proof (NoDup_incl_length ND INC) as LE.
  rewrite (chain_length g n k 0 Hn) in LE. simpl in LE. lia.
Qed.

Lemma wf_check_complete g : WF g -> wf_check lower g = true.
Proof.
  intro W. unfold wf_check.
  assert (R0 : parent g 0 = None).
  { destruct (wf_rootobj _ _ W) as [_ [r [H1 [H2 _]]]]. unfold parent. rewrite H1. exact H2. }
  rewrite !andb_true_iff. repeat split.
  - apply nodupb_nodup, (wf_once _ _ W).
  - unfold c_root. destruct (wf_rootobj _ _ W) as [N0 [r [H1 [H2 H3]]]].
    apply andb_true_intro. split; [apply negb_true_iff, memb_not_in, N0|].
    rewrite H1, H2. apply Nat.eqb_eq, H3.
  - apply forallb_forall. intros k L. destruct (wf_reach _ _ W k L) as [n Hn].
    apply (reachb_complete g n); [exact Hn|].
    pose proof (chain_nodup g R0 n k Hn) as ND.
    pose proof (chain_nodes g W n k 0 (or_intror L) Hn) as INC.
    pose proof (NoDup_incl_length ND INC) as LE.
    rewrite (chain_length g n k 0 Hn) in LE. simpl in LE. lia.
  - apply forallb_forall. intros k L. unfold c_board1.
    destruct (wf_parent _ _ W k L) as [o [p [po [H1 [H2 _]]]]]. rewrite H1. apply Nat.eqb_eq, H2.
  - apply forallb_forall. intros k L. unfold c_parent_arr1.
    destruct (wf_parent _ _ W k L) as [o [p [po [H1 [H2 [H3 [H4 [H5 [H6 H7]]]]]]]]].
    rewrite H1, H3, H5. apply andb_true_intro. split; [apply nodeb_node, H4|apply Nat.eqb_eq, H6].
  - apply forallb_forall. intros k L. unfold c_parent_map1.
    destruct (wf_parent _ _ W k L) as [o [p [po [H1 [H2 [H3 [H4 [H5 [H6 H7]]]]]]]]].
    rewrite H1, H3, H5. apply opt_nat_eqb_eq, H7.
  - apply forallb_forall. intros p Hin. unfold c_children1.
    destruct (g_st g p) as [po|] eqn:Hp; [|reflexivity].
    assert (Np : node g p) by (destruct Hin as [E|L]; [left; symmetry; exact E|right; exact L]).
    destruct (wf_children _ _ W p po Np Hp) as [C1 C2].
    apply andb_true_intro. split; apply forallb_forall.
    + intros c Hc. destruct (C1 c Hc) as [A B]. apply andb_true_intro. split; [apply memb_in, A|apply opt_nat_eqb_eq, B].
    + intros [key c] Hc. apply memb_in. eapply C2, Hc.
  - apply forallb_forall. intros e He. destruct (wf_edges _ _ W e He) as [A B].
    apply andb_true_intro. split; apply memb_in; assumption.
  - apply forallb_forall. intros k Hk. destruct (g_st g k) as [o|] eqn:Ho; [|reflexivity].
    destruct (wf_tables _ _ W k o Hk Ho) as [A B]. rewrite A, B. reflexivity.
Qed.

Lemma wf_check_iff g : wf_check lower g = true <-> WF g.
Proof. split; [apply wf_check_sound|apply wf_check_complete]. Qed.

(* ------------------------------------------------------------------ listing order *)

(* WF does not depend on the order in which objects and connections are listed *)
Lemma wf_perm g objs' es' :
  Permutation (g_objs g) objs' -> Permutation (g_edges g) es' -> WF g ->
  WF (mkGraph (g_st g) (g_next g) objs' es' (g_tabs g)).
Proof.
  intros P Q W. apply wf_relist; [exact P| |exact W].
  intros e He. apply (wf_edges _ _ W). eapply Permutation_in; [apply Permutation_sym, Q|exact He].
Qed.

End Pres.

Lemma nondecr_sorted l : nondecr l = true <-> Sorted N.le l.
Proof.
  induction l as [|a tl IH]; simpl.
  - split; intro; [constructor|reflexivity].
  - rewrite andb_true_iff, IH. split.
    + intros [H1 H2]. constructor; [exact H2|]. destruct tl as [|b tl2]; constructor. apply N.leb_le, H1.
    + intro H. inversion H; subst. split; [|assumption].
      destruct tl as [|b tl2]; [reflexivity|]. inversion H3; subst. apply N.leb_le. assumption.
Qed.

Lemma ordered_b_iff pos : ordered_b pos = true <-> ordered pos.
Proof. apply nondecr_sorted. Qed.

(* The sorting step (Graph.SortObjectsByAST / SortEdgesByAST use sort.Slice, not modelled) as an oracle:
   any function that returns a permutation of its input whose positions are in order. *)
Section SortOracle.
Variable fmt : str -> str.
Variable lower : str -> str.
Variable opos : nat -> option N.          (* first-reference position of an object *)
Variable epos : edge -> option N.         (* first-reference position of a connection *)
Variable sort_objs : list nat -> list nat.
Variable sort_edges : list edge -> list edge.
Hypothesis H_sort_objs_perm : forall l, Permutation l (sort_objs l).
Hypothesis H_sort_objs_ordered : forall l, ordered (map opos (sort_objs l)).
Hypothesis H_sort_edges_perm : forall l, Permutation l (sort_edges l).
Hypothesis H_sort_edges_ordered : forall l, ordered (map epos (sort_edges l)).

Definition sort_graph (g : graph) : graph :=
  mkGraph (g_st g) (g_next g) (sort_objs (g_objs g)) (sort_edges (g_edges g)) (g_tabs g).

Lemma compiled_sorted_wf ops : Forall (fun o => o <> OpTable []) ops ->
  let g := sort_graph (run_ops fmt lower ops) in
  WF lower g /\ ordered (map opos (g_objs g)) /\ ordered (map epos (g_edges g)).
Proof.
  intro F. cbn zeta. split; [|split].
  - apply wf_perm; [apply H_sort_objs_perm|apply H_sort_edges_perm|apply wf_ops, F].
  - apply H_sort_objs_ordered.
  - apply H_sort_edges_ordered.
Qed.

End SortOracle.

(* The guard of wf_ops is necessary: once the root of a board is a class / sql_table, a connection declared
   at the root scope is truncated to the root itself, which is not an object of the board.  (d2 does this:
   `shape: class` followed by `x -> y` at the top of a board compiles to a board with no objects and one
   connection from the root to the root; recorded finding C09-root-table-edge.) *)
Lemma wf_ops_refuted_root_table :
  exists ops, ~ WF (fun s => s) (run_ops (fun s => s) (fun s => s) ops).
Proof.
  exists [OpTable []; OpConnect [] [[97%N]] [[98%N]] false true].
  intro W. apply wf_check_iff in W. vm_compute in W. discriminate.
Qed.
