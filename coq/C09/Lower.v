(* strings.ToLower on rune lists.  The case table is regenerated on every run from the unicode package
   of the Go toolchain that builds /repo (coq/Gen/C09Tables.v): every rune r with unicode.ToLower(r) <> r
   is covered by one entry (lo, hi, stride, dst): for lo <= r <= hi with (r - lo) mod stride = 0,
   ToLower r = dst + (r - lo).  strings.ToLower maps rune by rune (no special casing); the harness only
   feeds valid UTF-8. *)
From Coq Require Import List NArith Bool.
Import ListNotations.
Require Import V.Gen.C09Tables.
Open Scope N_scope.

Fixpoint lower_lookup (r : N) (t : list (N * N * N * N)) : N :=
  match t with
  | [] => r
  | (lo, hi, stride, dst) :: tl =>
      if (lo <=? r) && (r <=? hi) && ((r - lo) mod stride =? 0) then dst + (r - lo)
      else lower_lookup r tl
  end.

Definition to_lower_rune (r : N) : N := if r <? 65 then r else lower_lookup r lower_ranges.

Definition to_lower (s : list N) : list N := map to_lower_rune s.
