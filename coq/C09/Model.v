(* C09 — the executable model lives in Graph.v (graph operations, WF, wf_check) and Lower.v
   (strings.ToLower over the regenerated case table); this file only re-exports them. *)
Require Export V.C09.Graph V.C09.Lower.
