(* C09 — Compiled graphs are well-formed trees with consistent connection endpoints.  Statements only.
   Model: V.C09.Graph (new_object / ensure_child / connect = d2graph.Object.newObject / EnsureChild /
   Connect+initIndex over a functional heap; WF = the property; wf_check = its boolean reflection).
   fmt stands for d2format.Format(KeyPath{RawString(name,true)}) and lower for strings.ToLower: every
   theorem holds for arbitrary such functions. *)
From Coq Require Import List NArith Bool Arith Permutation Sorted.
Import ListNotations.
Require Import V.C09.Graph V.C09.Proofs.

(* the executable predicate evaluated on the implementation's boards is exactly the property *)
Theorem C09_wf_check_reflects_WF :
  forall (lower : str -> str) (g : graph), wf_check lower g = true <-> WF lower g.
Proof. exact wf_check_iff. Qed.

Theorem C09_wf_init : forall lower, WF lower init.
Proof. exact wf_init. Qed.

(* newObject keeps the graph well formed when the key is free (EnsureChild only calls it then) *)
Theorem C09_wf_new_object :
  forall fmt lower g p name, Rep g -> WF lower g -> node g p ->
    (forall po, g_st g p = Some po -> lookup (lower (fmt name)) (o_cmap po) = None) ->
    WF lower (fst (new_object fmt lower g p name)).
Proof. exact wf_new_object. Qed.

Theorem C09_wf_ensure_child :
  forall fmt lower g p path, Rep g -> WF lower g -> node g p ->
    WF lower (fst (ensure_child fmt lower g p path)).
Proof. exact wf_ensure_child. Qed.

(* Connect from a scope that is an object of the board, or from the root unless the root itself is a
   class / sql_table (end points are truncated at class / sql_table objects) *)
Theorem C09_wf_connect :
  forall fmt lower g p src dst sa da, Rep g -> WF lower g -> node g p ->
    (listed g p \/ ~ In p (g_tabs g)) -> src <> [] -> dst <> [] ->
    WF lower (connect fmt lower g p src dst sa da).
Proof. exact wf_connect. Qed.

(* compileClass / compileSQLTable: the fields stop being objects, the rest stays a well-formed tree *)
Theorem C09_wf_make_table :
  forall lower g k, Rep g -> WF lower g -> node g k -> WF lower (make_table g k).
Proof. intros lower g k R W N. apply (make_table_inv lower g k R W N). Qed.

(* every graph reachable from NewGraph by any number of EnsureChild / Connect / compileClass|SQLTable
   steps, with any names, is a well-formed tree whose connections join objects of the same board -
   provided the root of the board is never itself made a class / sql_table *)
Theorem C09_wf_ops :
  forall fmt lower (ops : list op), Forall (fun o => o <> OpTable []) ops -> WF lower (run_ops fmt lower ops).
Proof. exact wf_ops. Qed.

(* the guard is necessary; the witness is replayed on the real compiler (finding C09-root-table-edge) *)
Theorem C09_wf_ops_refuted_for_root_table :
  exists ops, ~ WF (fun s => s) (run_ops (fun s => s) (fun s => s) ops).
Proof. exact wf_ops_refuted_root_table. Qed.

(* WF does not depend on the listing order *)
Theorem C09_wf_perm :
  forall lower g objs' es', Permutation (g_objs g) objs' -> Permutation (g_edges g) es' ->
    WF lower g -> WF lower (mkGraph (g_st g) (g_next g) objs' es' (g_tabs g)).
Proof. exact wf_perm. Qed.

(* Order of first appearance.  SortObjectsByAST / SortEdgesByAST (sort.Slice) are not modelled: for any
   sorting functions that return a permutation of their input ordered by first-reference position
   (hypotheses evaluated on every real call, codes 2 and 3), the compiled board is well formed and lists
   objects and connections in order of first appearance. *)
Theorem C09_compiled_board_wf_and_ordered :
  forall fmt lower (opos : nat -> option N) (epos : edge -> option N)
         (sort_objs : list nat -> list nat) (sort_edges : list edge -> list edge),
    (forall l, Permutation l (sort_objs l)) -> (forall l, ordered (map opos (sort_objs l))) ->
    (forall l, Permutation l (sort_edges l)) -> (forall l, ordered (map epos (sort_edges l))) ->
    forall ops, Forall (fun o => o <> OpTable []) ops ->
      let g := sort_graph sort_objs sort_edges (run_ops fmt lower ops) in
      WF lower g /\ ordered (map opos (g_objs g)) /\ ordered (map epos (g_edges g)).
Proof. exact compiled_sorted_wf. Qed.

Theorem C09_ordered_b_reflects : forall pos, ordered_b pos = true <-> ordered pos.
Proof. exact ordered_b_iff. Qed.

(* non-vacuity of the oracle hypotheses: with no positions known the identity satisfies them *)
Example C09_sort_hyps_satisfiable :
  let opos := fun _ : nat => @None N in
  let sort_objs := fun l : list nat => l in
  (forall l, Permutation l (sort_objs l)) /\ (forall l, ordered (map opos (sort_objs l))).
Proof.
  split; intro l; [apply Permutation_refl|].
  unfold ordered. induction l; simpl; [constructor|assumption].
Qed.

(* non-vacuity of WF: a board with a container, a table and connections passes, a listed root fails *)
Example C09_wf_check_satisfiable :
  wf_check (fun s => s)
    (run_ops (fun s => s) (fun s => s)
       [OpEnsure [] [[97%N]; [98%N]]; OpConnect [[97%N]] [[98%N]] [[99%N]] false true;
        OpEnsure [[116%N]] [[105%N]]; OpTable [[116%N]]; OpConnect [] [[116%N]; [105%N]] [[97%N]] false true]) = true
  /\ wf_check (fun s => s) (mkGraph (g_st init) 1 [0] [] []) = false
  /\ Forall (fun o => o <> OpTable []) [OpEnsure [] [[97%N]]; OpTable [[116%N]]].
Proof. split; [vm_compute; reflexivity|split; [vm_compute; reflexivity|]]. repeat constructor; discriminate. Qed.

Print Assumptions C09_wf_check_reflects_WF.
Print Assumptions C09_wf_init.
Print Assumptions C09_wf_new_object.
Print Assumptions C09_wf_ensure_child.
Print Assumptions C09_wf_connect.
Print Assumptions C09_wf_make_table.
Print Assumptions C09_wf_ops.
Print Assumptions C09_wf_ops_refuted_for_root_table.
Print Assumptions C09_wf_perm.
Print Assumptions C09_compiled_board_wf_and_ordered.
Print Assumptions C09_ordered_b_reflects.
