(* Executable checker for C23 cases.  The harness compiles a generated sequence diagram with the
   real compiler, measures it with the real text ruler, snapshots what the layout reads
   (-> [input]), runs the real layout through d2lib.Compile and passes the resulting boxes and
   routes as exact dyadic rationals (-> [geom]).  *)
From Coq Require Import ZArith QArith Qround List Bool.
Import ListNotations.
Require Import V.Lib.RunCases.
Require Export V.C23.Model V.C23.Order.
Open Scope Q_scope.

Definition q (n : Z) (d : positive) : Q := Qmake n d.
Arguments q _%Z _%positive.
Definition P (x y : Q) : pt := (x, y).

Inductive case := Case
  (inp : input)
  (impl : geom)                          (* implementation geometry, lists in the order of [inp] *)
  (objs_in : list (Z * nat * bool))      (* top-level objects as passed to the first sort:
                                            (line key, position in the text, is an actor) *)
  (objs_out : list nat)                  (* text positions after the real slices.SortFunc *)
  (msgs_in : list (Z * nat))             (* messages as passed to the second sort *)
  (msgs_out : list nat).

(* ---- comparison of geometries within [tol] ---- *)
Definition box_close (a b : box) : bool :=
  close (b_x a) (b_x b) && close (b_y a) (b_y b) && close (b_w a) (b_w b) && close (b_h a) (b_h b).
Definition pt_close (a b : pt) : bool := close (fst a) (fst b) && close (snd a) (snd b).
Definition obox_close (a b : option box) : bool :=
  match a, b with
  | Some x, Some y => box_close x y
  | None, _ => true          (* group with nothing inside: outside the model *)
  | Some _, None => false
  end.

Definition geom_close (m i : geom) : list bool :=
  [ list_eqb box_close (g_actors m) (g_actors i);
    list_eqb box_close (g_notes m) (g_notes i);
    list_eqb (list_eqb pt_close) (g_msgs m) (g_msgs i);
    list_eqb box_close (g_spans m) (g_spans i);
    list_eqb obox_close (g_groups m) (g_groups i);
    list_eqb (fun a b => pt_close (fst a) (fst b) && pt_close (snd a) (snd b)) (g_lifelines m) (g_lifelines i) ].

Definition impl_xs (impl : geom) : list Q := map (fun b => b_x b - GROUP_CONTAINER_PADDING) (g_actors impl).

Definition check_case (c : case) : list N :=
  match c with
  | Case inp impl objs_in objs_out msgs_in msgs_out =>
      let xs := impl_xs impl in
      let model := layout inp xs in
      let aids := actor_ids objs_in objs_out in
      flag (rounding_b inp xs) 1
      ++ flag (forallb (fun b => b) (geom_close model impl)) 1
      (* oracle hypotheses of the order theorem *)
      ++ flag (sorted_perm_b (obj_keys objs_in) objs_out
               && sorted_perm_b msgs_in msgs_out) 2
      ++ flag (stable_b (obj_keys objs_in) objs_out
               && stable_b msgs_in msgs_out) 3
      ++ flag (text_order_b (obj_keys objs_in)
               && text_order_b msgs_in) 4
      ++ flag (wf_b inp) 5
      (* the property on the implementation's own geometry *)
      ++ flag (Nat.eqb (length aids) (length (g_actors impl))
               && pairs_ok left_of (combine aids (g_actors impl))) 10
      ++ flag (actors_baseline_b inp impl) 11
      ++ flag (Nat.eqb (length msgs_out) (length (g_msgs impl))
               && pairs_ok above (combine msgs_out (g_msgs impl))) 12
      ++ flag (msgs_horizontal_b inp impl) 13
      ++ flag (msgs_endpoints_b inp impl) 14
      ++ flag (lifelines_b inp impl) 15
      ++ flag (msgs_span_y_b inp impl) 16
  end.
