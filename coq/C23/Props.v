(* placeholder while the harness is brought up *)
Require Import V.C23.Model V.C23.Order.
