(* C23 — Sequence diagrams keep actor and message order.  Statements only.

   [layout inp xs] is the model of d2sequence (Model.v); [inp] lists actors, notes, messages, spans
   and groups in the order of sd.actors / sd.messages / ... (after the two sorts), [xs] are the
   actor positions math.Round returned.  Any number of actors, messages, notes, spans and groups, any
   sizes; [wf_b] only asks for non-negative label / note heights, valid indices and messages sorted
   by line number (what the sort oracle guarantees); no assumption on widths.
   The clause predicates (…_b) are the ones Check.v evaluates on the implementation's geometry. *)
From Coq Require Import ZArith QArith List Bool.
Import ListNotations.
Require Import V.C23.Model V.C23.Order V.C23.Proofs.
Open Scope Q_scope.

(* actors: strictly increasing x in rank order, for every rounding of the positions to within 1 *)
Theorem C23_actors_left_to_right :
  forall inp xs, rounding_ok inp xs -> actors_ltr_b (layout inp xs) = true.
Proof. exact actors_ltr. Qed.

(* actors: bottom of shape (+ label drawn below it) on one line *)
Theorem C23_actors_common_baseline :
  forall inp xs, actors_baseline_b inp (layout inp xs) = true.
Proof. exact actors_baseline. Qed.

(* messages: every point of message k strictly above every point of message k+1 (also after the
   group-label adjustments) *)
Theorem C23_messages_top_to_bottom :
  forall inp xs, wf_b inp = true -> msgs_ttb_b (g_msgs (layout inp xs)) = true.
Proof. exact msgs_ttb. Qed.

(* a message between different actors is exactly two points with equal y *)
Theorem C23_message_horizontal :
  forall inp xs, msgs_horizontal_b inp (layout inp xs) = true.
Proof. exact msgs_horizontal. Qed.

(* first / last point: x of the actor's lifeline (or the vertical border of its span, centred on the
   lifeline), y strictly between the two ends of the lifeline; lifelines are vertical, through the
   centre of the actor and start at or below it *)
Theorem C23_message_endpoints_on_lifelines :
  forall inp xs, wf_b inp = true ->
    msgs_endpoints_b inp (layout inp xs) = true /\ lifelines_b inp (layout inp xs) = true.
Proof. intros inp xs W. split; [apply msgs_endpoints|apply lifelines_ok]; exact W. Qed.

(* PARTIAL: "within the vertical extent of the span" (clause 16, msgs_span_y_b) is evaluated on the
   implementation only.  Full statement, not proved:
     forall inp xs, wf_b inp = true -> msgs_span_y_b inp (layout inp xs) = true.          *)

(* the sort oracle: a sorted permutation that is stable, applied to items that the compiler passes
   with same-line items in text order, returns the declaration order *)
Theorem C23_sort_keeps_declaration_order :
  forall l o, sorted_perm_b l o = true -> stable_b l o = true -> text_order_b l = true -> incr_nat o = true.
Proof. exact order_kept. Qed.

(* ... and stability is needed: a sorted permutation may swap two messages of one line *)
Theorem C23_sort_stability_needed :
  exists l o, sorted_perm_b l o = true /\ text_order_b l = true /\ incr_nat o = false.
Proof. exact stability_needed. Qed.

(* declaration order, in the pairwise form evaluated on the implementation (codes 10 and 12):
   declared earlier => strictly further left / strictly higher *)
Theorem C23_actors_in_declaration_order :
  forall inp xs objs_in objs_out,
    rounding_ok inp xs ->
    sorted_perm_b (obj_keys objs_in) objs_out = true -> stable_b (obj_keys objs_in) objs_out = true ->
    text_order_b (obj_keys objs_in) = true ->
    length (actor_ids objs_in objs_out) = length (i_actors inp) ->
    pairs_ok left_of (combine (actor_ids objs_in objs_out) (g_actors (layout inp xs))) = true.
Proof. exact actors_decl_order. Qed.

Theorem C23_messages_in_declaration_order :
  forall inp xs msgs_in msgs_out,
    wf_b inp = true ->
    sorted_perm_b msgs_in msgs_out = true -> stable_b msgs_in msgs_out = true -> text_order_b msgs_in = true ->
    length msgs_out = length (i_msgs inp) ->
    pairs_ok above (combine msgs_out (g_msgs (layout inp xs))) = true.
Proof. exact msgs_decl_order. Qed.

(* the hypothesis on xs is met by Go's math.Round, and by what Check.v accepts from the implementation *)
Theorem C23_go_round_meets_hypothesis : forall inp, rounding_ok inp (rounded_xs inp).
Proof. exact rounded_xs_ok. Qed.
Theorem C23_checked_rounding_meets_hypothesis : forall inp xs, rounding_b inp xs = true -> rounding_ok inp xs.
Proof. exact rounding_b_ok. Qed.

(* non-vacuity: three actors (one narrower than the minimum width, one person with a label below),
   a note, a span, a self message, a labelled group *)
Definition ex_inp : input :=
  mkInput 0
    [mkActor 60 66 false false true 21; mkActor 100 150 true true true 21; mkActor 250 66 false false true 21]
    [mkNote 1 80 40 3]
    [mkMsg 0 2 false (Some 0%nat) None 335 21 2; mkMsg 2 2 true None None 30 21 4; mkMsg 2 0 false None (Some 0%nat) 0 0 5]
    [mkSpan 0 0 [] []]
    [mkGroup 1 [1%nat; 2%nat] [] [] true 21].

Example C23_wf_satisfiable : wf_b ex_inp = true.
Proof. vm_compute. reflexivity. Qed.
Example C23_rounding_satisfiable : rounding_b ex_inp (rounded_xs ex_inp) = true.
Proof. vm_compute. reflexivity. Qed.
Example C23_sort_hyps_satisfiable :
  let l := [(1%Z, 0%nat); (1%Z, 1%nat); (4%Z, 2%nat)] in let o := [0%nat; 1%nat; 2%nat] in
  sorted_perm_b l o = true /\ stable_b l o = true /\ text_order_b l = true.
Proof. vm_compute. repeat split. Qed.
Example C23_order_hyps_satisfiable :
  let oi := [(1%Z, 0%nat, true); (1%Z, 1%nat, true); (2%Z, 2%nat, true); (6%Z, 3%nat, false)] in
  let oo := [0%nat; 1%nat; 2%nat; 3%nat] in
  sorted_perm_b (obj_keys oi) oo = true /\ stable_b (obj_keys oi) oo = true /\ text_order_b (obj_keys oi) = true
  /\ length (actor_ids oi oo) = length (i_actors ex_inp).
Proof. vm_compute. repeat split. Qed.
(* the example exercises every clause, including the one that is not proved *)
Example C23_example_all_clauses :
  let g := layout ex_inp (rounded_xs ex_inp) in
  actors_ltr_b g && actors_baseline_b ex_inp g && msgs_ttb_b (g_msgs g) && msgs_horizontal_b ex_inp g
  && msgs_endpoints_b ex_inp g && lifelines_b ex_inp g && msgs_span_y_b ex_inp g = true.
Proof. vm_compute. reflexivity. Qed.

Print Assumptions C23_actors_left_to_right.
Print Assumptions C23_actors_common_baseline.
Print Assumptions C23_messages_top_to_bottom.
Print Assumptions C23_message_horizontal.
Print Assumptions C23_message_endpoints_on_lifelines.
Print Assumptions C23_sort_keeps_declaration_order.
Print Assumptions C23_sort_stability_needed.
Print Assumptions C23_actors_in_declaration_order.
Print Assumptions C23_messages_in_declaration_order.
Print Assumptions C23_go_round_meets_hypothesis.
Print Assumptions C23_checked_rounding_meets_hypothesis.
