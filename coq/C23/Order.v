(* C23 — the two slices.SortFunc calls of newSequenceDiagram as an oracle.

   Items (top-level objects, messages) are identified by their position in the text (the
   declaration order).  The sort receives them in some order [l] with their keys (line numbers)
   and returns the identifiers in the order [o].  pdqsort is not modelled: it enters through three
   decidable facts that Check.v evaluates on what the real slices.SortFunc returned for the real
   keys:
     sorted_perm_b   o lists the same items, keys non-decreasing            (code 2)
     stable_b        items with equal keys keep their relative order of l   (code 3)
   and one fact about the caller (the compiler):
     text_order_b    in l, items on one line appear in text order, and line numbers do not
                     decrease along the text                                 (code 4)
   Theorem [order_kept]: then o is the declaration order.  [stability_needed] shows that the first
   fact alone is not enough (a sorted permutation that swaps two items of one line). *)
From Coq Require Import ZArith List Bool Arith Lia.
Import ListNotations.

Definition key_of (l : list (Z * nat)) (i : nat) : Z :=
  match find (fun p => Nat.eqb (snd p) i) l with Some p => fst p | None => 0%Z end.

Fixpoint nondecr (l : list Z) : bool :=
  match l with
  | a :: ((b :: _) as t) => Z.leb a b && nondecr t
  | _ => true
  end.

Fixpoint incr_nat (l : list nat) : bool :=
  match l with
  | a :: ((b :: _) as t) => Nat.ltb a b && incr_nat t
  | _ => true
  end.

Fixpoint nodup_b (l : list nat) : bool :=
  match l with
  | [] => true
  | a :: t => negb (existsb (Nat.eqb a) t) && nodup_b t
  end.

Definition ids (l : list (Z * nat)) : list nat := map snd l.

Definition sorted_perm_b (l : list (Z * nat)) (o : list nat) : bool :=
  Nat.eqb (length o) (length l) && nodup_b o
  && forallb (fun i => existsb (Nat.eqb i) (ids l)) o
  && nondecr (map (key_of l) o).

Definition with_key (l : list (Z * nat)) (k : Z) (o : list nat) : list nat :=
  filter (fun i => Z.eqb (key_of l i) k) o.

Fixpoint nl_eqb (a b : list nat) : bool :=
  match a, b with
  | [], [] => true
  | x :: s, y :: t => Nat.eqb x y && nl_eqb s t
  | _, _ => false
  end.

Definition stable_b (l : list (Z * nat)) (o : list nat) : bool :=
  forallb (fun p => nl_eqb (with_key l (fst p) o) (with_key l (fst p) (ids l))) l.

Definition text_order_b (l : list (Z * nat)) : bool :=
  (* items of one line are passed in text order *)
  forallb (fun p => incr_nat (with_key l (fst p) (ids l))) l
  (* line numbers do not decrease along the text *)
  && forallb (fun p => forallb (fun q => if Nat.ltb (snd p) (snd q) then Z.leb (fst p) (fst q) else true) l) l
  && nodup_b (ids l).

(* ---------- pairwise form used on the implementation's geometry ---------- *)
Fixpoint pairs_ok {A} (R : A -> A -> bool) (l : list (nat * A)) : bool :=
  match l with
  | [] => true
  | (i, x) :: t => forallb (fun p => (if Nat.ltb i (fst p) then R x (snd p) else true)
                                     && (if Nat.ltb (fst p) i then R (snd p) x else true)) t
                   && pairs_ok R t
  end.

(* ---------- proofs ---------- *)
Lemma nl_eqb_eq a b : nl_eqb a b = true -> a = b.
Proof.
  revert b. induction a as [|x s IH]; intros [|y t]; simpl; intro H; try discriminate; [reflexivity|].
  apply andb_prop in H. destruct H as [H1 H2]. apply Nat.eqb_eq in H1. f_equal; auto.
Qed.

Lemma incr_nat_tail a l : incr_nat (a :: l) = true -> incr_nat l = true.
Proof. destruct l as [|b t]; simpl; [reflexivity|]. intro H. apply andb_prop in H. tauto. Qed.

(* two neighbours of [o] that both pass the filter are neighbours in the filtered list *)
Lemma filter_neighbours (f : nat -> bool) o1 a b o2 :
  incr_nat (filter f (o1 ++ a :: b :: o2)) = true -> f a = true -> f b = true -> (a < b)%nat.
Proof.
  induction o1 as [|x o1 IH]; simpl; intros H Ha Hb.
  - rewrite Ha in H. simpl in H. rewrite Hb in H. simpl in H.
    apply andb_prop in H. destruct H as [H _]. apply Nat.ltb_lt in H. exact H.
  - destruct (f x).
    + apply IH; auto. eapply incr_nat_tail; eauto.
    + apply IH; auto.
Qed.

Lemma find_key_eq (l : list (Z * nat)) i p :
  find (fun p => Nat.eqb (snd p) i) l = Some p -> In p l /\ snd p = i.
Proof. intro H. apply find_some in H. destruct H as [H1 H2]. apply Nat.eqb_eq in H2. tauto. Qed.

Lemma forallb_In {A} (f : A -> bool) l x : forallb f l = true -> In x l -> f x = true.
Proof. intros H I. rewrite forallb_forall in H. auto. Qed.

Lemma key_of_in l i : In i (ids l) -> exists p, In p l /\ snd p = i /\ fst p = key_of l i.
Proof.
  intro H. unfold key_of. destruct (find (fun p => Nat.eqb (snd p) i) l) as [p|] eqn:E.
  - apply find_key_eq in E. exists p. tauto.
  - exfalso. unfold ids in H. apply in_map_iff in H. destruct H as [p [Hp Ip]].
    eapply find_none in E; eauto. simpl in E. rewrite Hp, Nat.eqb_refl in E. discriminate.
Qed.

Lemma nondecr_app_inv l1 a b l2 : nondecr (l1 ++ a :: b :: l2) = true -> (a <= b)%Z.
Proof.
  induction l1 as [|x l1 IH]; simpl.
  - intro H. apply andb_prop in H. destruct H as [H _]. apply Z.leb_le in H. exact H.
  - destruct (l1 ++ a :: b :: l2) eqn:E.
    + destruct l1; discriminate.
    + intro H. apply andb_prop in H. destruct H as [_ H]. auto.
Qed.

Lemma nodup_b_app_inv o1 a b o2 : nodup_b (o1 ++ a :: b :: o2) = true -> a <> b.
Proof.
  induction o1 as [|x o1 IH]; simpl; intro H; apply andb_prop in H; destruct H as [H1 H2].
  - apply negb_true_iff in H1. apply orb_false_elim in H1. destruct H1 as [H1 _].
    apply Nat.eqb_neq in H1. exact H1.
  - auto.
Qed.

Section OrderKept.
  Variable l : list (Z * nat).      (* what the caller passed: (line, text position) *)
  Variable o : list nat.            (* what the sort returned *)
  Hypothesis H_sorted : sorted_perm_b l o = true.
  Hypothesis H_stable : stable_b l o = true.
  Hypothesis H_text : text_order_b l = true.

  Lemma neighbours_increase o1 a b o2 : o = o1 ++ a :: b :: o2 -> (a < b)%nat.
  Proof.
    intro E.
    pose proof H_sorted as HS. unfold sorted_perm_b in HS.
    apply andb_prop in HS. destruct HS as [HS Hnd].
    apply andb_prop in HS. destruct HS as [HS Hsub].
    apply andb_prop in HS. destruct HS as [_ Hnodup].
    pose proof H_text as HT. unfold text_order_b in HT.
    apply andb_prop in HT. destruct HT as [HT Hnodupl].
    apply andb_prop in HT. destruct HT as [Hties Hmono].
    assert (Ia : In a (ids l)).
    { assert (X := forallb_In _ _ a Hsub). rewrite E in X.
      assert (Y : In a (o1 ++ a :: b :: o2)) by (apply in_or_app; right; left; reflexivity).
      specialize (X Y).
      apply existsb_exists in X. destruct X as [y [Iy Ey]]. apply Nat.eqb_eq in Ey. subst y. exact Iy. }
    assert (Ib : In b (ids l)).
    { assert (X := forallb_In _ _ b Hsub). rewrite E in X.
      assert (Y : In b (o1 ++ a :: b :: o2)) by (apply in_or_app; right; right; left; reflexivity).
      specialize (X Y).
      apply existsb_exists in X. destruct X as [y [Iy Ey]]. apply Nat.eqb_eq in Ey. subst y. exact Iy. }
    destruct (key_of_in l a Ia) as [pa [Ipa [Spa Kpa]]].
    destruct (key_of_in l b Ib) as [pb [Ipb [Spb Kpb]]].
    assert (Kab : (key_of l a <= key_of l b)%Z).
    { rewrite E, map_app in Hnd. simpl in Hnd. eapply nondecr_app_inv; eauto. }
    assert (Nab : a <> b). { rewrite E in Hnodup. eapply nodup_b_app_inv; eauto. }
    destruct (Z.eq_dec (key_of l a) (key_of l b)) as [Keq|Kne].
    - (* same line: stability + ties in text order *)
      assert (S := forallb_In _ _ pa H_stable Ipa). simpl in S.
      apply nl_eqb_eq in S. rename S into S'.
      assert (T := forallb_In _ _ pa Hties Ipa). simpl in T.
      rewrite <- S' in T. unfold with_key in T. rewrite E in T.
      eapply filter_neighbours; eauto.
      + rewrite Kpa. apply Z.eqb_refl.
      + rewrite Kpa, Keq. apply Z.eqb_refl.
    - (* different lines: line numbers follow the text *)
      destruct (Nat.lt_trichotomy a b) as [L|[L|L]]; [exact L|contradiction|].
      exfalso.
      assert (M := forallb_In _ _ pb Hmono Ipb). simpl in M.
      assert (M' := forallb_In _ _ pa M Ipa). simpl in M'.
      rewrite Spa, Spb in M'. apply Nat.ltb_lt in L. rewrite L in M'. apply Z.leb_le in M'. lia.
  Qed.

  Lemma incr_of_neighbours (o' : list nat) :
    (forall o1 a b o2, o' = o1 ++ a :: b :: o2 -> (a < b)%nat) -> incr_nat o' = true.
  Proof.
    induction o' as [|x t IH]; [reflexivity|]. intro H. destruct t as [|y t']; [reflexivity|].
    cbn [incr_nat]. apply andb_true_intro. split.
    - apply Nat.ltb_lt. apply (H [] x y t'). reflexivity.
    - apply IH. intros o1 a b o2 E. apply (H (x :: o1) a b o2). rewrite E. reflexivity.
  Qed.

  (* the sort returned the items in declaration order *)
  Theorem order_kept : incr_nat o = true.
  Proof. apply incr_of_neighbours. intros. eapply neighbours_increase; eauto. Qed.
End OrderKept.

(* a sorted permutation that is not stable loses the declaration order: two messages on line 3 *)
Lemma stability_needed :
  exists l o, sorted_perm_b l o = true /\ text_order_b l = true /\ incr_nat o = false.
Proof. exists [(3%Z, 0); (3%Z, 1)], [1; 0]. repeat split; reflexivity. Qed.

(* ---------- from "identifiers increase along the list" to the pairwise form ---------- *)
Lemma incr_nat_all_lt a l : incr_nat (a :: l) = true -> forall b, In b l -> (a < b)%nat.
Proof.
  revert a. induction l as [|x t IH]; intros a H b I; [destruct I|].
  cbn [incr_nat] in H. apply andb_prop in H. destruct H as [H1 H2]. apply Nat.ltb_lt in H1.
  destruct I as [->|I]; [exact H1|]. specialize (IH x H2 b I). lia.
Qed.

Section Pairs.
  Context {A : Type} (R : A -> A -> bool).
  (* [all_after x t]: x is R-before every element of t *)
  Fixpoint chain_all (l : list A) : Prop :=
    match l with
    | [] => True
    | x :: t => Forall (fun y => R x y = true) t /\ chain_all t
    end.

  Lemma pairs_ok_of_incr (is : list nat) (xs : list A) :
    length is = length xs -> incr_nat is = true -> chain_all xs -> pairs_ok R (combine is xs) = true.
  Proof.
    revert xs. induction is as [|i t IH]; intros xs L I C; [reflexivity|].
    destruct xs as [|x xs']; [discriminate|]. simpl in L. injection L as L.
    cbn [combine pairs_ok]. destruct C as [C1 C2]. apply andb_true_intro. split.
    - apply forallb_forall. intros [j y] Ij. cbn [fst snd].
      assert (Hj : In j t) by (eapply in_combine_l; eauto).
      assert (Hy : In y xs') by (eapply in_combine_r; eauto).
      assert (Lt := incr_nat_all_lt _ _ I j Hj).
      rewrite Forall_forall in C1.
      replace (Nat.ltb i j) with true by (symmetry; apply Nat.ltb_lt; exact Lt).
      replace (Nat.ltb j i) with false by (symmetry; apply Nat.ltb_ge; lia).
      rewrite (C1 y Hy). reflexivity.
    - apply IH; auto. eapply incr_nat_tail; eauto.
  Qed.
End Pairs.
