(* C23 — proofs about the model of the sequence-diagram layout. *)
From Coq Require Import ZArith QArith Qround List Bool Lia Lqa Arith.
Import ListNotations.
Require Import V.C23.Model V.C23.Order.
Open Scope Q_scope.

(* ------------------------------------------------------------------ numbers *)
Lemma qle_b_true a b : Qle_bool a b = true <-> a <= b.
Proof. apply Qle_bool_iff. Qed.
Lemma qle_b_false a b : Qle_bool a b = false -> b < a.
Proof.
  intro H. apply Qnot_le_lt. intro K. apply Qle_bool_iff in K. congruence.
Qed.
Lemma qlt_b_true a b : qlt_b a b = true <-> a < b.
Proof.
  unfold qlt_b. split; intro H.
  - apply negb_true_iff in H. apply qle_b_false. exact H.
  - apply negb_true_iff. destruct (Qle_bool b a) eqn:E; [|reflexivity].
    apply Qle_bool_iff in E. lra.
Qed.
Lemma qlt_b_false a b : qlt_b a b = false -> b <= a.
Proof. unfold qlt_b. intro H. apply negb_false_iff in H. apply Qle_bool_iff. exact H. Qed.

Lemma qmax_l a b : a <= qmax a b.
Proof. unfold qmax. destruct (Qle_bool a b) eqn:E; [apply Qle_bool_iff in E; exact E|lra]. Qed.
Lemma qmax_r a b : b <= qmax a b.
Proof. unfold qmax. destruct (Qle_bool a b) eqn:E; [lra|apply qle_b_false in E; lra]. Qed.
Lemma qmax_cases a b : qmax a b = a \/ qmax a b = b.
Proof. unfold qmax. destruct (Qle_bool a b); auto. Qed.
Lemma qmin_l a b : qmin a b <= a.
Proof. unfold qmin. destruct (Qle_bool a b) eqn:E; [lra|apply qle_b_false in E; lra]. Qed.
Lemma qmin_r a b : qmin a b <= b.
Proof. unfold qmin. destruct (Qle_bool a b) eqn:E; [apply Qle_bool_iff in E; exact E|lra]. Qed.
Lemma qmin_cases a b : qmin a b = a \/ qmin a b = b.
Proof. unfold qmin. destruct (Qle_bool a b); auto. Qed.

Lemma close_refl a b : a == b -> close a b = true.
Proof.
  intro E. unfold close, tol. apply andb_true_intro. split; apply Qle_bool_iff; rewrite E; lra.
Qed.

Lemma iz_nonneg z : (0 <= z)%Z -> 0 <= iz z.
Proof. intro H. unfold iz. change 0 with (inject_Z 0). rewrite <- Zle_Qle. exact H. Qed.

Lemma fold_qmax_ge_init l a : a <= fold_left qmax l a.
Proof.
  revert a. induction l as [|x t IH]; intro a; simpl; [lra|].
  eapply Qle_trans; [apply (qmax_l a x)|apply IH].
Qed.

Lemma fold_qmax_ge_in l a x : In x l -> x <= fold_left qmax l a.
Proof.
  revert a. induction l as [|y t IH]; intros a I; [destruct I|]. simpl.
  destruct I as [->|I]; [|apply IH; exact I].
  eapply Qle_trans; [apply (qmax_r a x)|apply fold_qmax_ge_init].
Qed.

(* ------------------------------------------------------------------ lists *)
Lemma increasing_map_seq (f : nat -> Q) s len :
  (forall r, (s <= r)%nat -> (S r < s + len)%nat -> f r < f (S r)) -> increasing (map f (seq s len)) = true.
Proof.
  revert s. induction len as [|len IH]; intros s H; [reflexivity|].
  simpl. destruct len as [|len']; [reflexivity|].
  change (seq (S s) (S len')) with (S s :: seq (S (S s)) len').
  cbn [map increasing]. apply andb_true_intro. split.
  - apply qlt_b_true. apply H; lia.
  - change (S s :: seq (S (S s)) len') with (seq (S s) (S len')) in *.
    specialize (IH (S s)). cbn [seq map] in IH. apply IH. intros r A B. apply H; lia.
Qed.

Lemma combine_map_seq {A B} (l : list A) (d : A) (f : nat -> B) s :
  combine l (map f (seq s (length l))) = map (fun r => (nth (r - s) l d, f r)) (seq s (length l)).
Proof.
  revert s. induction l as [|x t IH]; intro s; [reflexivity|].
  cbn [length seq map combine]. f_equal.
  - rewrite Nat.sub_diag. reflexivity.
  - rewrite IH. apply map_ext_in. intros r I. apply in_seq in I.
    replace (r - s)%nat with (S (r - S s)) by lia. reflexivity.
Qed.

(* ------------------------------------------------------------------ projections of [layout] *)
Lemma layout_actors inp xs : g_actors (layout inp xs) = map (shift_bx GROUP_CONTAINER_PADDING) (actor_boxes inp xs).
Proof. unfold layout. destruct (label_adjust _ _). reflexivity. Qed.

(* ------------------------------------------------------------------ actors, left to right *)
Lemma adj_w_ge a : 100 <= adj_w a.
Proof.
  unfold adj_w, MIN_ACTOR_WIDTH. destruct (qlt_b (a_w a) 100) eqn:E; [lra|].
  apply qlt_b_false in E. exact E.
Qed.

Lemma step_acc_ge r l a : a <= fold_left (step_acc r) l a.
Proof.
  revert a. induction l as [|m t IH]; intro a; simpl; [lra|].
  eapply Qle_trans; [|apply IH]. unfold step_acc. destruct (msg_step m r); [apply qmax_l|lra].
Qed.

Lemma base_step_ge inp r :
  let a := nth r (i_actors inp) actor0 in
  let b := nth (S r) (i_actors inp) actor0 in
  qmax (adj_w a * (1#2) + a_w b * (1#2) + 40) 150 <= base_step inp r.
Proof.
  intros a b. unfold base_step, HORIZONTAL_PAD, MIN_ACTOR_DISTANCE. fold a b.
  set (s0 := qmax (adj_w a * (1#2) + a_w b * (1#2) + 40) 150).
  set (s1 := qmax _ s0).
  assert (s0 <= s1) by apply qmax_r.
  destruct (Nat.ltb _ _); [|exact H].
  eapply Qle_trans; [exact H|apply qmax_r].
Qed.

Lemma unrounded_gap inp r : 100 <= unrounded_x inp (S r) - unrounded_x inp r.
Proof.
  unfold unrounded_x. cbn [center_x].
  set (a := nth r (i_actors inp) actor0). set (b := nth (S r) (i_actors inp) actor0).
  assert (S1 : base_step inp r <= x_step inp r) by apply step_acc_ge.
  assert (S0 := base_step_ge inp r). cbv zeta in S0. fold a b in S0.
  assert (Ha := adj_w_ge a).
  assert (Hl := qmax_l (adj_w a * (1#2) + a_w b * (1#2) + 40) 150).
  assert (Hr := qmax_r (adj_w a * (1#2) + a_w b * (1#2) + 40) 150).
  assert (Hb : adj_w b = 100 \/ (100 <= a_w b /\ adj_w b = a_w b)).
  { unfold adj_w, MIN_ACTOR_WIDTH. destruct (qlt_b (a_w b) 100) eqn:E; [left; reflexivity|].
    right. split; [apply qlt_b_false in E; exact E|reflexivity]. }
  clearbody a b. set (mx := qmax _ _) in *. clearbody mx.
  destruct Hb as [Hb|[Hb1 Hb]]; rewrite Hb; lra.
Qed.

Lemma actors_ltr inp xs : rounding_ok inp xs -> actors_ltr_b (layout inp xs) = true.
Proof.
  intros [L R]. unfold actors_ltr_b. rewrite layout_actors. unfold actor_boxes.
  rewrite !map_map. apply increasing_map_seq. intros r _ B. cbn [actor_box shift_bx b_x].
  rewrite <- L in B. simpl in B.
  destruct (R r) as [R1 R2]; [lia|]. destruct (R (S r)) as [R3 R4]; [lia|].
  assert (G := unrounded_gap inp r). lra.
Qed.

(* ------------------------------------------------------------------ actors, common baseline *)
Lemma baseline_const inp xs a b :
  In (a, b) (combine (i_actors inp) (map (shift_bx GROUP_CONTAINER_PADDING) (actor_boxes inp xs))) ->
  baseline a b == max_actor_h inp + GROUP_CONTAINER_PADDING.
Proof.
  unfold actor_boxes. rewrite map_map. rewrite (combine_map_seq (i_actors inp) actor0).
  intro I. apply in_map_iff in I. destruct I as [r [Er Ir]]. injection Er as <- <-.
  rewrite Nat.sub_0_r. unfold baseline, shift_bx, actor_box, actor_y. cbn [b_y b_h]. ring.
Qed.

Lemma actors_baseline inp xs : actors_baseline_b inp (layout inp xs) = true.
Proof.
  unfold actors_baseline_b. rewrite layout_actors.
  assert (H := baseline_const inp xs).
  destruct (combine _ _) as [|[a0 b0] t]; [reflexivity|].
  apply forallb_forall. intros [a b] I. cbn [fst snd].
  apply close_refl. rewrite (H a b) by (right; exact I). rewrite (H a0 b0) by (left; reflexivity). reflexivity.
Qed.

(* ------------------------------------------------------------------ well-formedness, unpacked *)
Lemma wf_actors inp : wf_b inp = true -> forall a, In a (i_actors inp) -> (0 <= a_lh a)%Z.
Proof.
  unfold wf_b. intros H a I. repeat (apply andb_prop in H; destruct H as [H ?]).
  rewrite forallb_forall in H. apply Z.leb_le. auto.
Qed.
Lemma wf_notes inp : wf_b inp = true -> forall n, In n (i_notes inp) -> 0 <= n_h n.
Proof.
  unfold wf_b. intros H n I. repeat (apply andb_prop in H; destruct H as [H ?]).
  rewrite forallb_forall in H2. apply Qle_bool_iff. auto.
Qed.
Lemma wf_msgs inp : wf_b inp = true -> forall m, In m (i_msgs inp) -> msg_wf_b inp m = true.
Proof.
  unfold wf_b. intros H m I. repeat (apply andb_prop in H; destruct H as [H ?]).
  rewrite forallb_forall in H1. auto.
Qed.
Lemma wf_sorted inp : wf_b inp = true -> vi_sorted_b (i_msgs inp) = true.
Proof. unfold wf_b. intros H. apply andb_prop in H. tauto. Qed.

Lemma msg_wf_lh inp m : msg_wf_b inp m = true -> (0 <= m_lh m)%Z.
Proof. unfold msg_wf_b. intro H. repeat (apply andb_prop in H; destruct H as [H ?]). apply Z.leb_le. exact H. Qed.

(* ------------------------------------------------------------------ note offsets *)
Lemma sumQ_filter_mono {A} (f : A -> Q) (p p' : A -> bool) l :
  (forall x, In x l -> 0 <= f x) -> (forall x, p x = true -> p' x = true) ->
  sumQ (map f (filter p l)) <= sumQ (map f (filter p' l)).
Proof.
  intros Hf Hp. induction l as [|x t IH]; simpl; [lra|].
  assert (IH' : sumQ (map f (filter p t)) <= sumQ (map f (filter p' t))).
  { apply IH. intros y I. apply Hf. right. exact I. }
  assert (Fx : 0 <= f x) by (apply Hf; left; reflexivity).
  destruct (p x) eqn:E.
  - rewrite (Hp x E). simpl. lra.
  - destruct (p' x); simpl; lra.
Qed.

Lemma sumQ_nonneg l : (forall x, In x l -> 0 <= x) -> 0 <= sumQ l.
Proof.
  induction l as [|x t IH]; simpl; intro H; [lra|].
  assert (0 <= x) by (apply H; left; reflexivity).
  assert (0 <= sumQ t) by (apply IH; intros; apply H; right; assumption). lra.
Qed.

Lemma note_term_nonneg inp : wf_b inp = true -> forall n, In n (i_notes inp) -> 0 <= n_h n + YSTEP.
Proof. intros W n I. assert (H := wf_notes inp W n I). unfold YSTEP, MIN_MESSAGE_DISTANCE, VERTICAL_PAD. lra. Qed.

Lemma note_offset_mono inp v v' : wf_b inp = true -> (v <= v')%Z -> note_offset inp v <= note_offset inp v'.
Proof.
  intros W L. unfold note_offset. apply sumQ_filter_mono.
  - apply (note_term_nonneg inp W).
  - intros n H. apply Z.ltb_lt in H. apply Z.ltb_lt. lia.
Qed.

Lemma note_offset_nonneg inp v : wf_b inp = true -> 0 <= note_offset inp v.
Proof.
  intro W. unfold note_offset. apply sumQ_nonneg. intros x I. apply in_map_iff in I.
  destruct I as [n [<- I]]. apply filter_In in I. apply (note_term_nonneg inp W); tauto.
Qed.

(* ------------------------------------------------------------------ y coordinates of routes *)
Definition ys (r : list pt) : list Q := map snd r.
Definition ysl (rs : list (list pt)) : list (list Q) := map ys rs.

Definition above_ys (a b : list Q) : Prop := forall y y', In y a -> In y' b -> y < y'.
Fixpoint ttb_ys (ls : list (list Q)) : Prop :=
  match ls with
  | a :: ((b :: _) as t) => above_ys a b /\ ttb_ys t
  | _ => True
  end.
Definition lower_bound (L : Q) (ls : list (list Q)) : Prop := forall l y, In l ls -> In y l -> L <= y.
Definition all_nonempty (ls : list (list Q)) : Prop := forall l, In l ls -> l <> [].

Lemma half_lh_nonneg m : (0 <= m_lh m)%Z -> 0 <= half_lh m.
Proof. intro H. unfold half_lh. apply iz_nonneg. apply Z.quot_pos; lia. Qed.

Lemma self_height_pos m : 45 <= self_height m.
Proof.
  unfold self_height, MIN_MESSAGE_DISTANCE.
  assert (H := qmax_r (iz (m_lh m)) 30). lra.
Qed.

(* the y coordinates produced for one message *)
Lemma route1_ys inp xs off m :
  let no := note_offset inp (m_vi m) in
  ys (fst (route1 inp xs off m)) =
    (if same_actor m then [off + no; off + no; off + no + self_height m; off + no + self_height m]
     else [off + no + half_lh m; off + no + half_lh m])
  /\ snd (route1 inp xs off m) =
    (if same_actor m then off + no + self_height m + YSTEP - no else off + no + half_lh m + half_lh m + YSTEP - no).
Proof. unfold route1. destruct (same_actor m); simpl; split; reflexivity. Qed.

Lemma route1_bounds inp xs off m y :
  (0 <= m_lh m)%Z -> In y (ys (fst (route1 inp xs off m))) ->
  off + note_offset inp (m_vi m) <= y /\ y + YSTEP <= snd (route1 inp xs off m) + note_offset inp (m_vi m).
Proof.
  intros H I. destruct (route1_ys inp xs off m) as [E1 E2]. rewrite E1 in I. rewrite E2.
  assert (H1 := half_lh_nonneg m H). assert (H2 := self_height_pos m).
  destruct (same_actor m); simpl in I; repeat (destruct I as [<-|I]; [lra|]); destruct I.
Qed.

Lemma route_from_cons inp xs off m rest :
  route_from inp xs off (m :: rest) = fst (route1 inp xs off m) :: route_from inp xs (snd (route1 inp xs off m)) rest.
Proof. simpl. destruct (route1 inp xs off m). reflexivity. Qed.

Lemma route1_off_grows inp xs off m : (0 <= m_lh m)%Z -> off <= snd (route1 inp xs off m).
Proof.
  intro H. destruct (route1_ys inp xs off m) as [_ E2]. rewrite E2.
  assert (H1 := half_lh_nonneg m H). assert (H2 := self_height_pos m).
  unfold YSTEP, MIN_MESSAGE_DISTANCE, VERTICAL_PAD. destruct (same_actor m); lra.
Qed.

Lemma route_from_props inp xs : wf_b inp = true ->
  forall ms off, (forall m, In m ms -> (0 <= m_lh m)%Z) -> vi_sorted_b ms = true ->
  ttb_ys (ysl (route_from inp xs off ms))
  /\ (forall m0 rest, ms = m0 :: rest -> lower_bound (off + note_offset inp (m_vi m0)) (ysl (route_from inp xs off ms))).
Proof.
  intros W ms. induction ms as [|m rest IH]; intros off Hlh Hs.
  - split; [exact I|]. intros; discriminate.
  - rewrite route_from_cons.
    assert (Hm : (0 <= m_lh m)%Z) by (apply Hlh; left; reflexivity).
    assert (Hrest : forall m', In m' rest -> (0 <= m_lh m')%Z) by (intros; apply Hlh; right; assumption).
    assert (Hs' : vi_sorted_b rest = true).
    { destruct rest as [|m' rest']; [reflexivity|]. cbn [vi_sorted_b] in Hs. apply andb_prop in Hs. tauto. }
    destruct (IH (snd (route1 inp xs off m)) Hrest Hs') as [T LB].
    split.
    + destruct rest as [|m' rest']; [exact I|].
      cbn [vi_sorted_b] in Hs. apply andb_prop in Hs. destruct Hs as [Hv _]. apply Z.leb_le in Hv.
      specialize (LB m' rest' eq_refl).
      rewrite route_from_cons in *. cbn [ysl map ttb_ys] in *. split; [|exact T].
      intros y y' Iy Iy'.
      destruct (route1_bounds inp xs off m y Hm Iy) as [_ B].
      assert (B' := LB _ y' (or_introl eq_refl) Iy').
      assert (M := note_offset_mono inp _ _ W Hv).
      unfold YSTEP, MIN_MESSAGE_DISTANCE, VERTICAL_PAD in B. lra.
    + intros m0 rest0 E. injection E as <- <-. intros l y Il Iy. cbn [ysl map] in Il.
      destruct Il as [<-|Il].
      * apply (route1_bounds inp xs off m y Hm Iy).
      * destruct rest as [|m' rest']; [destruct Il|].
        cbn [vi_sorted_b] in Hs. apply andb_prop in Hs. destruct Hs as [Hv _]. apply Z.leb_le in Hv.
        assert (B := LB m' rest' eq_refl l y Il Iy).
        assert (M := note_offset_mono inp _ _ W Hv).
        assert (G := route1_off_grows inp xs off m Hm). lra.
Qed.

Lemma route_from_nonempty inp xs ms off : all_nonempty (ysl (route_from inp xs off ms)).
Proof.
  revert off. induction ms as [|m rest IH]; intros off l I; [destruct I|].
  rewrite route_from_cons in I. cbn [ysl map] in I. destruct I as [<-|I]; [|eapply IH; eauto].
  destruct (route1_ys inp xs off m) as [E _]. rewrite E. destruct (same_actor m); discriminate.
Qed.

(* ------------------------------------------------------------------ the label adjustments on y lists *)
Definition move_ys (op : shift_op) (l : list Q) : list Q :=
  if qlt_b (fst op) (qmin (hd 0 l) (last l 0)) then map (fun y => y + snd op) l else l.

Lemma last_map {A B} (f : A -> B) l d : last (map f l) (f d) = f (last l d).
Proof. induction l as [|x t IH]; [reflexivity|]. destruct t; [reflexivity|]. exact IH. Qed.

Lemma first_y_ys r : first_y r = hd 0 (ys r).
Proof. destruct r; reflexivity. Qed.
Lemma last_y_ys r : last_y r = last (ys r) 0.
Proof. unfold last_y, ys. exact (eq_sym (last_map snd r (0, 0))). Qed.

Lemma move_route_ys op r : ys (move_route op r) = move_ys op (ys r).
Proof.
  unfold move_route, move_ys. destruct op as [t h]. cbn [fst snd].
  rewrite first_y_ys, last_y_ys. destruct (qlt_b _ _); [|reflexivity].
  unfold ys. rewrite !map_map. reflexivity.
Qed.

Lemma hd_in {A} (l : list A) d : l <> [] -> In (hd d l) l.
Proof. destruct l; [congruence|left; reflexivity]. Qed.
Lemma last_in {A} (l : list A) d : l <> [] -> In (last l d) l.
Proof.
  induction l as [|x t IH]; [congruence|]. intros _. destruct t as [|y t']; [left; reflexivity|].
  right. apply IH. discriminate.
Qed.

Lemma move_ys_in op l y : In y (move_ys op l) -> In y l \/ (exists y0, In y0 l /\ y = y0 + snd op).
Proof.
  unfold move_ys. destruct (qlt_b _ _); [|auto]. intro I. apply in_map_iff in I.
  destruct I as [y0 [<- I]]. right. exists y0. auto.
Qed.

Lemma move_ys_nonempty op l : l <> [] -> move_ys op l <> [].
Proof. unfold move_ys. destruct (qlt_b _ _); [|auto]. destruct l; [congruence|discriminate]. Qed.

Lemma above_move op a b : 0 <= snd op -> a <> [] -> b <> [] ->
  above_ys a b -> above_ys (move_ys op a) (move_ys op b).
Proof.
  intros Hh Na Nb AB. unfold move_ys.
  destruct (qlt_b (fst op) (qmin (hd 0 a) (last a 0))) eqn:Ea;
  destruct (qlt_b (fst op) (qmin (hd 0 b) (last b 0))) eqn:Eb.
  - intros y y' I I'. apply in_map_iff in I. apply in_map_iff in I'.
    destruct I as [y0 [<- I]]. destruct I' as [y0' [<- I']]. specialize (AB _ _ I I'). lra.
  - (* a moved but b not: impossible *)
    exfalso. apply qlt_b_true in Ea. apply qlt_b_false in Eb.
    assert (Ha : In (qmin (hd 0 a) (last a 0)) a).
    { destruct (qmin_cases (hd 0 a) (last a 0)) as [->| ->]; [apply hd_in|apply last_in]; exact Na. }
    assert (Hb : In (qmin (hd 0 b) (last b 0)) b).
    { destruct (qmin_cases (hd 0 b) (last b 0)) as [->| ->]; [apply hd_in|apply last_in]; exact Nb. }
    specialize (AB _ _ Ha Hb). lra.
  - intros y y' I I'. apply in_map_iff in I'. destruct I' as [y0' [<- I']]. specialize (AB _ _ I I'). lra.
  - exact AB.
Qed.

Lemma ttb_move op ls : 0 <= snd op -> all_nonempty ls -> ttb_ys ls -> ttb_ys (map (move_ys op) ls).
Proof.
  intros Hh. induction ls as [|a t IH]; intros N T; [exact I|].
  destruct t as [|b t']; [exact I|].
  cbn [map ttb_ys] in *. destruct T as [AB T]. split.
  - apply above_move; auto; apply N; [left|right; left]; reflexivity.
  - apply IH; auto. intros l Il. apply N. right. exact Il.
Qed.

Lemma nonempty_move op ls : all_nonempty ls -> all_nonempty (map (move_ys op) ls).
Proof.
  intros N l I. apply in_map_iff in I. destruct I as [l0 [<- I]]. apply move_ys_nonempty. apply N. exact I.
Qed.

Lemma lower_move op L ls : 0 <= snd op -> lower_bound L ls -> lower_bound L (map (move_ys op) ls).
Proof.
  intros Hh LB l y Il Iy. apply in_map_iff in Il. destruct Il as [l0 [<- Il]].
  apply move_ys_in in Iy. destruct Iy as [Iy|[y0 [Iy ->]]].
  - eapply LB; eauto.
  - assert (B := LB _ _ Il Iy). lra.
Qed.

Lemma ysl_map_move op rs : ysl (map (move_route op) rs) = map (move_ys op) (ysl rs).
Proof. unfold ysl. rewrite !map_map. apply map_ext. intro r. apply move_route_ys. Qed.

Definition apply_ops (ops : list shift_op) (rs : list (list pt)) : list (list pt) :=
  fold_left (fun rs op => map (move_route op) rs) ops rs.

Lemma apply_ops_props ops : Forall (fun op => 0 <= snd op) ops ->
  forall rs L, all_nonempty (ysl rs) -> ttb_ys (ysl rs) -> lower_bound L (ysl rs) ->
  all_nonempty (ysl (apply_ops ops rs)) /\ ttb_ys (ysl (apply_ops ops rs)) /\ lower_bound L (ysl (apply_ops ops rs)).
Proof.
  intro F. induction F as [|op ops Hop F IH]; intros rs L N T LB; [auto|].
  cbn [apply_ops fold_left]. apply IH; rewrite ysl_map_move.
  - apply nonempty_move; auto.
  - apply ttb_move; auto.
  - apply lower_move; auto.
Qed.

(* ------------------------------------------------------------------ the operations have h >= 0 *)
Lemma label_step_ops inp st k :
  Forall (fun op => 0 <= snd op) (snd st) -> Forall (fun op => 0 <= snd op) (snd (label_step inp st k)).
Proof.
  intro F. unfold label_step. destruct st as [gb ops]. cbn [snd] in *.
  destruct (nth k gb None) as [b|]; [|exact F].
  unfold group_height_add. destruct (gr_haslabel _ && _)%bool eqn:E; [|exact F].
  cbn [snd]. apply Forall_app. split; [exact F|]. constructor; [|constructor]. cbn [snd].
  apply andb_prop in E. destruct E as [_ E]. apply Z.leb_le in E. apply iz_nonneg. lia.
Qed.

Lemma label_adjust_ops inp gb0 : Forall (fun op => 0 <= snd op) (snd (label_adjust inp gb0)).
Proof.
  unfold label_adjust.
  assert (G : forall l st, Forall (fun op => 0 <= snd op) (snd st) ->
              Forall (fun op => 0 <= snd op) (snd (fold_left (label_step inp) l st))).
  { induction l as [|k t IH]; intros st F; [exact F|]. simpl. apply IH. apply label_step_ops. exact F. }
  apply G. constructor.
Qed.

(* ------------------------------------------------------------------ adjustRouteEndpoints keeps y *)
Lemma map_first_ys f r : (forall p, snd (f p) = snd p) -> ys (map_first f r) = ys r.
Proof. intro H. destruct r; [reflexivity|]. simpl. rewrite H. reflexivity. Qed.
Lemma map_last_ys f r : (forall p, snd (f p) = snd p) -> ys (map_last f r) = ys r.
Proof.
  intro H. induction r as [|x t IH]; [reflexivity|]. destruct t as [|y t'].
  - simpl. rewrite H. reflexivity.
  - change (map_last f (x :: y :: t')) with (x :: map_last f (y :: t')).
    change (ys (x :: map_last f (y :: t'))) with (snd x :: ys (map_last f (y :: t'))). rewrite IH. reflexivity.
Qed.
Lemma adjust_route_ys inp m r : ys (adjust_route inp m r) = ys r.
Proof. unfold adjust_route. rewrite map_last_ys, map_first_ys; reflexivity. Qed.

Lemma combine_length_eq {A B} (l : list A) (l' : list B) : length l = length l' -> length (combine l l') = length l.
Proof. intro H. rewrite combine_length. lia. Qed.

Lemma route_from_length inp xs ms : forall off, length (route_from inp xs off ms) = length ms.
Proof. induction ms as [|m t IH]; intro off; [reflexivity|]. rewrite route_from_cons. simpl. rewrite IH. reflexivity. Qed.

Lemma map_combine_snd {A B C} (f : A -> B -> C) (g : C -> list Q) (h : B -> list Q) (l : list A) (l' : list B) :
  length l = length l' -> (forall a b, g (f a b) = h b) ->
  map g (map (fun p => f (fst p) (snd p)) (combine l l')) = map h l'.
Proof.
  revert l'. induction l as [|a t IH]; intros [|b t'] L H; try discriminate; [reflexivity|].
  simpl. rewrite H. f_equal. apply IH; auto.
Qed.

Lemma routes1_ysl inp xs : ysl (routes1 inp xs) = ysl (routes0 inp xs).
Proof.
  unfold routes1, ysl. apply (map_combine_snd (adjust_route inp) ys ys).
  - unfold routes0. rewrite route_from_length. reflexivity.
  - intros. apply adjust_route_ys.
Qed.

(* ------------------------------------------------------------------ the final routes *)
Definition final_routes (inp : input) (xs : list Q) : list (list pt) :=
  apply_ops (snd (label_adjust inp (group_boxes0 inp (routes1 inp xs) (note_boxes inp xs)))) (routes1 inp xs).

Lemma layout_msgs inp xs :
  g_msgs (layout inp xs) = map (map (shift_pt GROUP_CONTAINER_PADDING)) (final_routes inp xs).
Proof. unfold layout, final_routes, apply_ops. destruct (label_adjust _ _). reflexivity. Qed.

Lemma final_routes_props inp xs : wf_b inp = true ->
  all_nonempty (ysl (final_routes inp xs)) /\ ttb_ys (ysl (final_routes inp xs))
  /\ lower_bound (max_actor_h inp + YSTEP) (ysl (final_routes inp xs)).
Proof.
  intro W. unfold final_routes. apply apply_ops_props.
  - apply label_adjust_ops.
  - rewrite routes1_ysl. apply route_from_nonempty.
  - rewrite routes1_ysl. unfold routes0.
    apply (route_from_props inp xs W); [|apply wf_sorted; exact W].
    intros m I. eapply msg_wf_lh. apply wf_msgs; eauto.
  - rewrite routes1_ysl. unfold routes0. intros l y Il Iy.
    destruct (i_msgs inp) as [|m0 rest] eqn:E; [destruct Il|].
    assert (P : forall m, In m (m0 :: rest) -> (0 <= m_lh m)%Z).
    { intros m I. eapply msg_wf_lh. apply wf_msgs; eauto. rewrite E. exact I. }
    assert (S : vi_sorted_b (m0 :: rest) = true) by (rewrite <- E; apply wf_sorted; exact W).
    destruct (route_from_props inp xs W (m0 :: rest) (max_actor_h inp + YSTEP) P S) as [_ LB].
    assert (B := LB m0 rest eq_refl l y Il Iy).
    assert (N := note_offset_nonneg inp (m_vi m0) W). lra.
Qed.

(* ------------------------------------------------------------------ messages, top to bottom *)
Lemma fold_qmax_in (l : list pt) a : In (fold_left (fun acc p => qmax acc (snd p)) l a) (a :: ys l).
Proof.
  revert a. induction l as [|p t IH]; intro a; [left; reflexivity|]. simpl.
  destruct (IH (qmax a (snd p))) as [H|H].
  - rewrite <- H. destruct (qmax_cases a (snd p)) as [E|E]; rewrite E; [left|right; left]; reflexivity.
  - right. right. exact H.
Qed.
Lemma fold_qmin_in (l : list pt) a : In (fold_left (fun acc p => qmin acc (snd p)) l a) (a :: ys l).
Proof.
  revert a. induction l as [|p t IH]; intro a; [left; reflexivity|]. simpl.
  destruct (IH (qmin a (snd p))) as [H|H].
  - rewrite <- H. destruct (qmin_cases a (snd p)) as [E|E]; rewrite E; [left|right; left]; reflexivity.
  - right. right. exact H.
Qed.

Lemma max_y_in r : ys r <> [] -> In (max_y_of' r) (ys r).
Proof.
  intro N. unfold max_y_of'. destruct (fold_qmax_in r (first_y r)) as [H|H]; [|exact H].
  rewrite <- H. rewrite first_y_ys. apply hd_in. exact N.
Qed.
Lemma min_y_in r : ys r <> [] -> In (min_y_of r) (ys r).
Proof.
  intro N. unfold min_y_of. destruct (fold_qmin_in r (first_y r)) as [H|H]; [|exact H].
  rewrite <- H. rewrite first_y_ys. apply hd_in. exact N.
Qed.

Lemma ttb_b_of_ys rs : all_nonempty (ysl rs) -> ttb_ys (ysl rs) -> msgs_ttb_b rs = true.
Proof.
  induction rs as [|a t IH]; intros N T; [reflexivity|]. destruct t as [|b t']; [reflexivity|].
  cbn [ysl map ttb_ys] in T. destruct T as [AB T]. cbn [msgs_ttb_b]. apply andb_true_intro. split.
  - apply qlt_b_true. apply AB.
    + apply max_y_in. apply N. left. reflexivity.
    + apply min_y_in. apply N. right. left. reflexivity.
  - apply IH; [|exact T]. intros l I. apply N. right. exact I.
Qed.

Definition shift_ys (d : Q) (l : list Q) : list Q := map (fun y => y + d) l.
Lemma ysl_shift d rs : ysl (map (map (shift_pt d)) rs) = map (shift_ys d) (ysl rs).
Proof. unfold ysl, ys, shift_ys. rewrite !map_map. apply map_ext. intro r. rewrite !map_map. reflexivity. Qed.

Lemma ttb_shift d ls : ttb_ys ls -> ttb_ys (map (shift_ys d) ls).
Proof.
  induction ls as [|a t IH]; intro T; [exact I|]. destruct t as [|b t']; [exact I|].
  cbn [map ttb_ys] in *. destruct T as [AB T]. split; [|apply IH; exact T].
  intros y y' Iy Iy'. apply in_map_iff in Iy. apply in_map_iff in Iy'.
  destruct Iy as [y0 [<- Iy]]. destruct Iy' as [y0' [<- Iy']]. specialize (AB _ _ Iy Iy'). lra.
Qed.
Lemma nonempty_shift d ls : all_nonempty ls -> all_nonempty (map (shift_ys d) ls).
Proof.
  intros N l I. apply in_map_iff in I. destruct I as [l0 [<- I]]. specialize (N _ I).
  destruct l0; [congruence|discriminate].
Qed.

Lemma msgs_ttb inp xs : wf_b inp = true -> msgs_ttb_b (g_msgs (layout inp xs)) = true.
Proof.
  intro W. rewrite layout_msgs. destruct (final_routes_props inp xs W) as [N [T _]].
  apply ttb_b_of_ys; rewrite ysl_shift; [apply nonempty_shift|apply ttb_shift]; assumption.
Qed.

(* ------------------------------------------------------------------ per-message invariants *)
Definition hdp (r : list pt) : pt := hd (0, 0) r.
Definition lastp (r : list pt) : pt := last r (0, 0).

Definition X1 (inp : input) (xs : list Q) (m : msg) : Q := acx inp xs (m_src m) + src_shift inp m.
Definition X2 (inp : input) (xs : list Q) (m : msg) : Q := acx inp xs (m_dst m) + dst_shift inp m.

(* first / last x are x1 / x2, at least two points, and one horizontal segment between different actors *)
Definition rinv (x1 x2 : Q) (m : msg) (r : list pt) : Prop :=
  (2 <= length r)%nat /\ fst (hdp r) == x1 /\ fst (lastp r) == x2
  /\ (same_actor m = false -> exists y, ys r = [y; y]).

Lemma Forall2_map_r {A B C} (R : A -> B -> Prop) (R' : A -> C -> Prop) (g : B -> C) l l' :
  Forall2 R l l' -> (forall a b, In a l -> R a b -> R' a (g b)) -> Forall2 R' l (map g l').
Proof.
  intros F H. induction F as [|a b l l' Rab F IH]; [constructor|].
  simpl. constructor; [apply H; [left; reflexivity|exact Rab]|]. apply IH. intros. apply H; [right|]; assumption.
Qed.

Lemma Forall2_map_combine {A B C} (R : A -> B -> Prop) (R' : A -> C -> Prop) (f : A -> B -> C) l l' :
  Forall2 R l l' -> (forall a b, In a l -> R a b -> R' a (f a b)) ->
  Forall2 R' l (map (fun p => f (fst p) (snd p)) (combine l l')).
Proof.
  intros F H. induction F as [|a b l l' Rab F IH]; [constructor|].
  simpl. constructor; [apply H; [left; reflexivity|exact Rab]|]. apply IH. intros. apply H; [right|]; assumption.
Qed.

Lemma Forall2_in_combine {A B} (R : A -> B -> Prop) l l' a b :
  Forall2 R l l' -> In (a, b) (combine l l') -> R a b.
Proof.
  intro F. induction F as [|x y l l' Rxy F IH]; intro I; [destruct I|].
  simpl in I. destruct I as [E|I]; [injection E as <- <-; exact Rxy|auto].
Qed.

Lemma Forall2_length' {A B} (R : A -> B -> Prop) l l' : Forall2 R l l' -> length l' = length l.
Proof. intro F. induction F; simpl; congruence. Qed.

(* routeMessages *)
Lemma route1_inv inp xs off m :
  rinv (acx inp xs (m_src m)) (acx inp xs (m_dst m)) m (fst (route1 inp xs off m)).
Proof.
  unfold route1, rinv. destruct (same_actor m) eqn:E; cbn [fst].
  - split; [simpl; lia|]. split; [reflexivity|]. split; [reflexivity|]. discriminate.
  - split; [simpl; lia|]. split; [reflexivity|]. split; [reflexivity|]. intros _. eexists. reflexivity.
Qed.

Lemma route_from_inv inp xs ms : forall off,
  Forall2 (fun m r => rinv (acx inp xs (m_src m)) (acx inp xs (m_dst m)) m r) ms (route_from inp xs off ms).
Proof.
  induction ms as [|m t IH]; intro off; [constructor|]. rewrite route_from_cons.
  constructor; [apply route1_inv|apply IH].
Qed.

(* adjustRouteEndpoints *)
Lemma last_cons_ne {A} (x : A) l d : l <> [] -> last (x :: l) d = last l d.
Proof. destruct l; [congruence|reflexivity]. Qed.

Lemma last_map_last {A} (g : A -> A) l d : l <> [] -> last (map_last g l) d = g (last l d).
Proof.
  induction l as [|x t IH]; [congruence|]. intros _. destruct t as [|y t']; [reflexivity|].
  change (map_last g (x :: y :: t')) with (x :: map_last g (y :: t')).
  assert (N : map_last g (y :: t') <> []) by (destruct t'; discriminate).
  destruct (map_last g (y :: t')) eqn:E; [congruence|]. rewrite <- E.
  change (last (x :: y :: t') d) with (last (y :: t') d). rewrite <- IH by discriminate.
  rewrite E. reflexivity.
Qed.

Lemma map_last_length {A} (g : A -> A) l : length (map_last g l) = length l.
Proof.
  induction l as [|x t IH]; [reflexivity|]. destruct t as [|y t']; [reflexivity|].
  change (map_last g (x :: y :: t')) with (x :: map_last g (y :: t')). simpl in *. rewrite IH. reflexivity.
Qed.

Lemma adjust_route_inv inp xs m r :
  rinv (acx inp xs (m_src m)) (acx inp xs (m_dst m)) m r -> rinv (X1 inp xs m) (X2 inp xs m) m (adjust_route inp m r).
Proof.
  intros [L [H1 [H2 Hz]]]. unfold rinv. rewrite adjust_route_ys.
  destruct r as [|p [|q t]]; simpl in L; try lia.
  unfold adjust_route. cbn [map_first].
  change (map_last (addx (dst_shift inp m)) (addx (src_shift inp m) p :: q :: t))
    with (addx (src_shift inp m) p :: map_last (addx (dst_shift inp m)) (q :: t)).
  repeat split.
  - cbn [length]. rewrite map_last_length. simpl. lia.
  - unfold hdp in *. cbn [hd addx fst] in *. unfold X1. rewrite H1. reflexivity.
  - unfold lastp in *.
    assert (N : map_last (addx (dst_shift inp m)) (q :: t) <> []) by (destruct t; discriminate).
    rewrite last_cons_ne by exact N.
    rewrite last_map_last by discriminate. cbn [addx fst].
    change (last (p :: q :: t) (0, 0)) with (last (q :: t) (0, 0)) in H2. unfold X2. rewrite H2. reflexivity.
  - exact Hz.
Qed.

(* adjustGroupLabel *)
Lemma hd_map {A B} (f : A -> B) l d : hd (f d) (map f l) = f (hd d l).
Proof. destruct l; reflexivity. Qed.

Lemma move_route_inv op x1 x2 m r : rinv x1 x2 m r -> rinv x1 x2 m (move_route op r).
Proof.
  intros [L [H1 [H2 Hz]]]. unfold move_route. destruct op as [t h]. destruct (qlt_b _ _); [|repeat split; auto].
  assert (N : r <> []) by (destruct r; [simpl in L; lia|discriminate]).
  repeat split.
  - rewrite map_length. exact L.
  - unfold hdp in *. destruct r; [congruence|]. exact H1.
  - unfold lastp in *. set (f := fun p : pt => (fst p, snd p + h)).
    assert (E : last (map f r) (0, 0) = f (last r (0, 0))).
    { clear -N. induction r as [|x t' IH]; [congruence|]. destruct t' as [|y t'']; [reflexivity|].
      change (map f (x :: y :: t'')) with (f x :: map f (y :: t'')).
      change (last (f x :: map f (y :: t'')) (0, 0)) with (last (map f (y :: t'')) (0, 0)).
      rewrite IH by discriminate. reflexivity. }
    change (fst (last (map f r) (0, 0)) == x2). rewrite E. exact H2.
  - intro S. destruct (Hz S) as [y E]. exists (y + h). unfold ys in *. rewrite map_map. cbn [snd].
    destruct r as [|p [|q [|]]]; try discriminate. simpl in E. injection E as E1 E2. simpl. rewrite E1, E2. reflexivity.
Qed.

Lemma apply_ops_inv {A} (R : A -> list pt -> Prop) ops :
  (forall op a r, R a r -> R a (move_route op r)) ->
  forall l rs, Forall2 R l rs -> Forall2 R l (apply_ops ops rs).
Proof.
  intro H. induction ops as [|op t IH]; intros l rs F; [exact F|].
  cbn [apply_ops fold_left]. apply IH. eapply Forall2_map_r; eauto.
Qed.

Lemma shift_route_inv d x1 x2 m r : rinv x1 x2 m r -> rinv (x1 + d) (x2 + d) m (map (shift_pt d) r).
Proof.
  intros [L [H1 [H2 Hz]]].
  assert (N : r <> []) by (destruct r; [simpl in L; lia|discriminate]).
  repeat split.
  - rewrite map_length. exact L.
  - unfold hdp in *. destruct r; [congruence|]. cbn [map hd shift_pt fst] in *. rewrite H1. reflexivity.
  - unfold lastp in *.
    assert (E : last (map (shift_pt d) r) (0, 0) = shift_pt d (last r (0, 0))).
    { clear -N. induction r as [|x t' IH]; [congruence|]. destruct t' as [|y t'']; [reflexivity|].
      change (map (shift_pt d) (x :: y :: t'')) with (shift_pt d x :: map (shift_pt d) (y :: t'')).
      change (last (shift_pt d x :: map (shift_pt d) (y :: t'')) (0, 0)) with (last (map (shift_pt d) (y :: t'')) (0, 0)).
      rewrite IH by discriminate. reflexivity. }
    rewrite E. cbn [shift_pt fst]. rewrite H2. reflexivity.
  - intro S. destruct (Hz S) as [y E]. exists (y + d). unfold ys in *. rewrite map_map. cbn [shift_pt snd].
    destruct r as [|p [|q [|]]]; try discriminate. simpl in E. injection E as E1 E2. simpl. rewrite E1, E2. reflexivity.
Qed.

Lemma final_inv inp xs :
  Forall2 (fun m r => rinv (X1 inp xs m + GROUP_CONTAINER_PADDING) (X2 inp xs m + GROUP_CONTAINER_PADDING) m r)
          (i_msgs inp) (g_msgs (layout inp xs)).
Proof.
  rewrite layout_msgs. eapply Forall2_map_r; [|intros a b _ H; apply shift_route_inv; exact H].
  unfold final_routes. apply apply_ops_inv; [intros; apply move_route_inv; assumption|].
  unfold routes1. eapply Forall2_map_combine; [apply route_from_inv|].
  intros a b _ H. apply adjust_route_inv. exact H.
Qed.

(* ------------------------------------------------------------------ horizontal messages *)
Lemma msgs_horizontal inp xs : msgs_horizontal_b inp (layout inp xs) = true.
Proof.
  unfold msgs_horizontal_b. assert (F := final_inv inp xs). apply andb_true_intro. split.
  - apply Nat.eqb_eq. eapply Forall2_length'; eauto.
  - apply forallb_forall. intros [m r] I. cbn [fst snd].
    destruct (Forall2_in_combine _ _ _ _ _ F I) as [_ [_ [_ Hz]]].
    unfold horizontal_b. destruct (same_actor m) eqn:E; [reflexivity|].
    destruct (Hz eq_refl) as [y Ey]. unfold ys in Ey.
    destruct r as [|p [|q [|]]]; try discriminate. simpl in Ey. injection Ey as E1 E2.
    apply close_refl. rewrite E1, E2. reflexivity.
Qed.

(* ------------------------------------------------------------------ lifelines and spans of [layout] *)
Definition final_ops (inp : input) (xs : list Q) : list shift_op :=
  snd (label_adjust inp (group_boxes0 inp (routes1 inp xs) (note_boxes inp xs))).
Definition final_notes (inp : input) (xs : list Q) : list box :=
  fold_left (fun bs op => map (move_box op) bs) (final_ops inp xs) (note_boxes inp xs).
Definition final_endy (inp : input) (xs : list Q) : Q :=
  lifeline_end inp (final_routes inp xs) (final_notes inp xs) (actor_boxes inp xs).
Definition final_spans (inp : input) (xs : list Q) : list box :=
  fold_left (fun bs op => map (shift_box op) bs) (final_ops inp xs)
            (span_boxes0 inp xs (routes0 inp xs) (note_boxes inp xs)).

Definition lifeline_of (inp : input) (xs : list Q) (r : nat) : pt * pt :=
  let d := GROUP_CONTAINER_PADDING in
  ((acx inp xs r + d, lifeline_start inp xs r + d), (acx inp xs r + d, final_endy inp xs + d)).

Lemma layout_lifelines inp xs :
  g_lifelines (layout inp xs) = map (lifeline_of inp xs) (seq 0 (length (i_actors inp))).
Proof.
  unfold layout, lifeline_of, final_endy, final_routes, final_notes, final_ops, apply_ops.
  destruct (label_adjust _ _). cbn [g_lifelines snd]. rewrite map_map. reflexivity.
Qed.

Lemma layout_spans inp xs : g_spans (layout inp xs) = map (shift_bx GROUP_CONTAINER_PADDING) (final_spans inp xs).
Proof. unfold layout, final_spans, final_ops. destruct (label_adjust _ _). reflexivity. Qed.

Lemma nth_error_map_seq {A} (f : nat -> A) n k : (k < n)%nat -> nth_error (map f (seq 0 n)) k = Some (f k).
Proof.
  intro H. rewrite nth_error_map. rewrite (nth_error_nth' (seq 0 n) 0%nat) by (rewrite seq_length; exact H).
  rewrite seq_nth by exact H. reflexivity.
Qed.

Lemma fold_map_comm {A} (f : shift_op -> A -> A) ops (l : list A) :
  fold_left (fun bs op => map (f op) bs) ops l = map (fun b => fold_left (fun b op => f op b) ops b) l.
Proof.
  revert l. induction ops as [|op t IH]; intro l; simpl; [rewrite map_id; reflexivity|].
  rewrite IH. rewrite map_map. reflexivity.
Qed.

Lemma shift_box_xw op b : b_x (shift_box op b) = b_x b /\ b_w (shift_box op b) = b_w b.
Proof.
  unfold shift_box, move_box, grow_box. destruct op as [t h].
  destruct (qlt_b (b_y b) t && qlt_b t (b_y b + b_h b))%bool; cbn [b_x b_y b_w b_h];
    destruct (qlt_b t _); split; reflexivity.
Qed.

Lemma fold_shift_box_xw ops b :
  b_x (fold_left (fun b op => shift_box op b) ops b) = b_x b /\ b_w (fold_left (fun b op => shift_box op b) ops b) = b_w b.
Proof.
  revert b. induction ops as [|op t IH]; intro b; [split; reflexivity|]. simpl.
  destruct (IH (shift_box op b)) as [E1 E2]. destruct (shift_box_xw op b) as [E3 E4]. split; congruence.
Qed.

Lemma span_of_layout inp xs k : (k < length (i_spans inp))%nat ->
  exists b, nth_error (g_spans (layout inp xs)) k = Some b
    /\ b_x b = acx inp xs (s_rank (nth k (i_spans inp) span0)) - span_w (nth k (i_spans inp) span0) * (1#2) + GROUP_CONTAINER_PADDING
    /\ b_w b = span_w (nth k (i_spans inp) span0).
Proof.
  intro H. rewrite layout_spans. unfold final_spans. rewrite fold_map_comm. unfold span_boxes0.
  rewrite !map_map. eexists. split; [apply nth_error_map_seq; exact H|].
  cbn [shift_bx b_x b_w].
  match goal with |- context [fold_left _ ?o ?b0] => destruct (fold_shift_box_xw o b0) as [E1 E2] end.
  rewrite E1, E2. cbn [b_x b_w]. split; reflexivity.
Qed.

(* ------------------------------------------------------------------ vertical range of the routes *)
Lemma lifeline_start_le inp xs r : lifeline_start inp xs r <= max_actor_h inp + LIFELINE_LABEL_PAD.
Proof.
  unfold lifeline_start, actor_box, actor_y, label_below, LIFELINE_LABEL_PAD. cbn [b_y b_h].
  destruct (a_ob _ && a_haslabel _)%bool; lra.
Qed.

Lemma ttb_last ls : all_nonempty ls -> ttb_ys ls ->
  forall l y, In l ls -> In y l -> exists y', In y' (last ls []) /\ y <= y'.
Proof.
  induction ls as [|a t IH]; intros N T l y Il Iy; [destruct Il|].
  destruct t as [|b t'].
  - destruct Il as [<-|[]]. exists y. split; [exact Iy|lra].
  - cbn [ttb_ys] in T. destruct T as [AB T].
    assert (N' : all_nonempty (b :: t')) by (intros l' I'; apply N; right; exact I').
    change (last (a :: b :: t') []) with (last (b :: t') []).
    destruct Il as [<-|Il].
    + assert (Nb : b <> []) by (apply N; right; left; reflexivity).
      destruct b as [|y0 b']; [congruence|].
      assert (L := AB y y0 Iy (or_introl eq_refl)).
      destruct (IH N' T (y0 :: b') y0 (or_introl eq_refl) (or_introl eq_refl)) as [y' [I' L']].
      exists y'. split; [exact I'|lra].
    + apply (IH N' T l y Il Iy).
Qed.

Lemma max_y_of_ys r : max_y_of r = fold_left qmax (ys r) 0.
Proof.
  unfold max_y_of, ys. generalize 0 as a. induction r as [|p t IH]; intro a; [reflexivity|]. simpl. apply IH.
Qed.

Lemma fold_qmax_boxes_ge (l : list box) a : a <= fold_left (fun acc b => qmax acc (b_y b + b_h b)) l a.
Proof.
  revert a. induction l as [|x t IH]; intro a; simpl; [lra|].
  eapply Qle_trans; [apply (qmax_l a (b_y x + b_h x))|apply IH].
Qed.

Lemma route_below_end inp xs : wf_b inp = true ->
  forall l y, In l (ysl (final_routes inp xs)) -> In y l -> y + YSTEP <= final_endy inp xs.
Proof.
  intros W l y Il Iy. destruct (final_routes_props inp xs W) as [N [T _]].
  destruct (ttb_last _ N T l y Il Iy) as [y' [I' L']].
  unfold final_endy, lifeline_end.
  set (rts := final_routes inp xs) in *.
  assert (Ne : rts <> []) by (destruct rts; [destruct Il|discriminate]).
  destruct rts as [|r0 rt] eqn:E; [congruence|]. rewrite <- E in *.
  assert (EL : last (ysl rts) [] = ys (last rts [])).
  { unfold ysl. change (@nil Q) with (ys []) at 1. apply last_map. }
  rewrite EL in I'.
  assert (M : y' <= max_y_of (last rts [])) by (rewrite max_y_of_ys; apply fold_qmax_ge_in; exact I').
  eapply Qle_trans; [|apply Qplus_le_l; apply fold_qmax_boxes_ge].
  eapply Qle_trans; [|apply Qplus_le_l; apply fold_qmax_boxes_ge]. lra.
Qed.

(* ------------------------------------------------------------------ endpoints on lifelines / spans *)
Lemma span_ref_ok_some inp rank k : span_ref_ok inp rank (Some k) = true ->
  (k < length (i_spans inp))%nat /\ s_rank (nth k (i_spans inp) span0) = rank.
Proof.
  unfold span_ref_ok. intro H. apply andb_prop in H. destruct H as [H1 H2].
  apply Nat.ltb_lt in H1. apply Nat.eqb_eq in H2. tauto.
Qed.

Lemma close_or_span inp xs rank k (sh x : Q) b :
  s_rank (nth k (i_spans inp) span0) = rank ->
  b_x b = acx inp xs rank - span_w (nth k (i_spans inp) span0) * (1#2) + GROUP_CONTAINER_PADDING ->
  b_w b = span_w (nth k (i_spans inp) span0) ->
  (sh = span_w (nth k (i_spans inp) span0) * (1#2) \/ sh = - (span_w (nth k (i_spans inp) span0) * (1#2))) ->
  x == acx inp xs rank + sh + GROUP_CONTAINER_PADDING ->
  on_span_x_b b (x, 0) = true.
Proof.
  intros _ Ex Ew Hs Hx. unfold on_span_x_b. cbn [fst]. apply orb_true_iff.
  destruct Hs as [-> | ->]; [right|left]; apply close_refl; rewrite Hx, Ex, ?Ew; ring.
Qed.

Lemma endpoint_ok inp xs rank sp (sh : Q) (p : pt) :
  wf_b inp = true -> (rank < length (i_actors inp))%nat -> span_ref_ok inp rank sp = true ->
  (match sp with
   | None => sh = 0
   | Some k => sh = span_w (nth k (i_spans inp) span0) * (1#2) \/ sh = - (span_w (nth k (i_spans inp) span0) * (1#2))
   end) ->
  fst p == acx inp xs rank + sh + GROUP_CONTAINER_PADDING ->
  max_actor_h inp + YSTEP + GROUP_CONTAINER_PADDING <= snd p ->
  snd p + YSTEP <= final_endy inp xs + GROUP_CONTAINER_PADDING ->
  endpoint_ok_b (layout inp xs) rank sp p = true.
Proof.
  intros W Hr Hsp Hsh Hx Hlo Hhi. unfold endpoint_ok_b.
  rewrite layout_lifelines. rewrite nth_error_map_seq by exact Hr.
  assert (S := lifeline_start_le inp xs rank).
  assert (Ylo : qlt_b (snd (fst (lifeline_of inp xs rank))) (snd p) = true).
  { apply qlt_b_true. unfold lifeline_of. cbn [fst snd].
    unfold YSTEP, MIN_MESSAGE_DISTANCE, VERTICAL_PAD, LIFELINE_LABEL_PAD in *. lra. }
  assert (Yhi : qlt_b (snd p) (snd (snd (lifeline_of inp xs rank))) = true).
  { apply qlt_b_true. unfold lifeline_of. cbn [fst snd].
    unfold YSTEP, MIN_MESSAGE_DISTANCE, VERTICAL_PAD in *. lra. }
  destruct sp as [k|].
  - destruct (span_ref_ok_some inp rank k Hsp) as [Hk Hrank].
    destruct (span_of_layout inp xs k Hk) as [b [Eb [Ex Ew]]]. rewrite Eb. rewrite Hrank in Ex.
    rewrite Ylo, Yhi. rewrite !andb_true_r. apply andb_true_intro. split.
    + assert (O := close_or_span inp xs rank k sh (fst p) b Hrank Ex Ew Hsh Hx).
      unfold on_span_x_b in *. cbn [fst] in O. exact O.
    + apply close_refl. unfold lifeline_of. cbn [fst]. rewrite Ex, Ew. ring.
  - unfold on_lifeline_b. rewrite Ylo, Yhi. rewrite !andb_true_r. apply andb_true_intro. split.
    + apply close_refl. unfold lifeline_of. cbn [fst]. rewrite Hx, Hsh. ring.
    + apply close_refl. unfold lifeline_of. cbn [fst snd]. reflexivity.
Qed.

Lemma src_shift_cases inp m :
  match m_srcspan m with
  | None => src_shift inp m = 0
  | Some k => src_shift inp m = span_w (nth k (i_spans inp) span0) * (1#2)
              \/ src_shift inp m = - (span_w (nth k (i_spans inp) span0) * (1#2))
  end.
Proof. unfold src_shift. destruct (m_srcspan m); [|reflexivity]. destruct (Nat.leb _ _); auto. Qed.
Lemma dst_shift_cases inp m :
  match m_dstspan m with
  | None => dst_shift inp m = 0
  | Some k => dst_shift inp m = span_w (nth k (i_spans inp) span0) * (1#2)
              \/ dst_shift inp m = - (span_w (nth k (i_spans inp) span0) * (1#2))
  end.
Proof. unfold dst_shift. destruct (m_dstspan m); [|reflexivity]. destruct (Nat.ltb _ _); auto. Qed.

Lemma msgs_endpoints inp xs : wf_b inp = true -> msgs_endpoints_b inp (layout inp xs) = true.
Proof.
  intro W. unfold msgs_endpoints_b. apply forallb_forall. intros [m r] I. cbn [fst snd].
  destruct (Forall2_in_combine _ _ _ _ _ (final_inv inp xs) I) as [L [H1 [H2 _]]].
  assert (Im : In m (i_msgs inp)) by (eapply in_combine_l; eauto).
  assert (Wm := wf_msgs inp W m Im). unfold msg_wf_b in Wm.
  repeat (apply andb_prop in Wm; destruct Wm as [Wm ?]).
  rename H into Wdsp, H0 into Wssp, H3 into Wdst, H4 into Wsrc.
  apply Nat.ltb_lt in Wdst. apply Nat.ltb_lt in Wsrc.
  (* the y range of this route *)
  assert (Ir : In r (g_msgs (layout inp xs))) by (eapply in_combine_r; eauto).
  rewrite layout_msgs in Ir. apply in_map_iff in Ir. destruct Ir as [r0 [Er Ir0]].
  destruct (final_routes_props inp xs W) as [_ [_ LB]].
  assert (Y : forall p, In p r -> max_actor_h inp + YSTEP + GROUP_CONTAINER_PADDING <= snd p
                                  /\ snd p + YSTEP <= final_endy inp xs + GROUP_CONTAINER_PADDING).
  { intros p Ip. rewrite <- Er in Ip. apply in_map_iff in Ip. destruct Ip as [p0 [<- Ip0]].
    assert (I0 : In (ys r0) (ysl (final_routes inp xs))) by (unfold ysl; apply in_map; exact Ir0).
    assert (J0 : In (snd p0) (ys r0)) by (unfold ys; apply in_map; exact Ip0).
    assert (A := LB _ _ I0 J0). assert (B := route_below_end inp xs W _ _ I0 J0).
    cbn [shift_pt snd]. lra. }
  unfold msg_endpoints_b. destruct r as [|p t]; [simpl in L; lia|].
  assert (Nr : p :: t <> []) by discriminate.
  apply andb_true_intro. split.
  - destruct (Y p (or_introl eq_refl)) as [Ya Yb].
    apply (endpoint_ok inp xs (m_src m) (m_srcspan m) (src_shift inp m) p W Wsrc Wssp (src_shift_cases inp m)); auto.
  - destruct (Y (last (p :: t) (0, 0)) (last_in _ _ Nr)) as [Ya Yb].
    apply (endpoint_ok inp xs (m_dst m) (m_dstspan m) (dst_shift inp m) _ W Wdst Wdsp (dst_shift_cases inp m)); auto.
Qed.

(* ------------------------------------------------------------------ lifelines *)
Lemma combine_map2 {A B C} (f : A -> B) (g : A -> C) l : combine (map f l) (map g l) = map (fun x => (f x, g x)) l.
Proof. induction l as [|x t IH]; [reflexivity|]. simpl. rewrite IH. reflexivity. Qed.

Lemma lifelines_ok inp xs : wf_b inp = true -> lifelines_b inp (layout inp xs) = true.
Proof.
  intro W. unfold lifelines_b. rewrite layout_lifelines, layout_actors. unfold actor_boxes.
  rewrite !map_length, seq_length. rewrite Nat.eqb_refl. cbn [andb].
  rewrite map_map. rewrite combine_map2.
  apply forallb_forall. intros [b l] I. apply in_map_iff in I. destruct I as [r [Er Ir]].
  apply in_seq in Ir. injection Er as <- <-.
  unfold lifeline_of, shift_bx, acx, actor_box. cbn [b_x b_y b_w b_h fst snd].
  apply andb_true_intro. split; [apply andb_true_intro; split|].
  - apply close_refl. ring.
  - apply close_refl. ring.
  - apply Qle_bool_iff. unfold lifeline_start, actor_box. cbn [b_y b_h].
    assert (In (nth r (i_actors inp) actor0) (i_actors inp)) by (apply nth_In; lia).
    assert (H0 := wf_actors inp W _ H). apply iz_nonneg in H0.
    unfold tol, LIFELINE_LABEL_PAD. destruct (a_ob _ && a_haslabel _)%bool; lra.
Qed.

(* ------------------------------------------------------------------ math.Round *)
Lemma go_round_close v : go_round v - v <= 1#2 /\ v - go_round v <= 1#2.
Proof.
  unfold go_round, iz. destruct (Qle_bool 0 v) eqn:E.
  - assert (A := Qfloor_le (v + (1#2))). assert (B := Qlt_floor (v + (1#2))).
    rewrite inject_Z_plus in B. change (inject_Z 1) with 1 in B. lra.
  - assert (A := Qfloor_le (- v + (1#2))). assert (B := Qlt_floor (- v + (1#2))).
    rewrite inject_Z_plus in B. change (inject_Z 1) with 1 in B. lra.
Qed.

Lemma nth_map_seq (f : nat -> Q) n r : (r < n)%nat -> nth r (map f (seq 0 n)) 0 = f r.
Proof.
  intro H. rewrite (nth_indep _ 0 (f 0%nat)) by (rewrite map_length, seq_length; exact H).
  rewrite map_nth. rewrite seq_nth by exact H. reflexivity.
Qed.

(* the exact Go rounding satisfies the hypothesis of the theorems *)
Lemma rounded_xs_ok inp : rounding_ok inp (rounded_xs inp).
Proof.
  unfold rounding_ok, rounded_xs. rewrite map_length, seq_length. split; [reflexivity|].
  intros r H. rewrite nth_map_seq by exact H. destruct (go_round_close (unrounded_x inp r)). lra.
Qed.

(* what Check.v verifies about the implementation's positions implies the hypothesis *)
Lemma rounding_b_ok inp xs : rounding_b inp xs = true -> rounding_ok inp xs.
Proof.
  unfold rounding_b, rounding_ok. intro H. apply andb_prop in H. destruct H as [L F].
  apply Nat.eqb_eq in L. split; [exact L|]. intros r Hr.
  rewrite forallb_forall in F. specialize (F r). assert (I : In r (seq 0 (length xs))) by (apply in_seq; lia).
  specialize (F I). cbv zeta in F. apply andb_prop in F. destruct F as [F F2]. apply andb_prop in F. destruct F as [_ F1].
  apply Qle_bool_iff in F1. apply Qle_bool_iff in F2. unfold tol in *. lra.
Qed.

(* ------------------------------------------------------------------ declaration order *)
Lemma increasing_all a l : increasing (a :: l) = true -> forall b, In b l -> a < b.
Proof.
  revert a. induction l as [|x t IH]; intros a H b I; [destruct I|].
  cbn [increasing] in H. apply andb_prop in H. destruct H as [H1 H2]. apply qlt_b_true in H1.
  destruct I as [->|I]; [exact H1|]. specialize (IH x H2 b I). lra.
Qed.
Lemma increasing_tail a l : increasing (a :: l) = true -> increasing l = true.
Proof. destruct l; [reflexivity|]. cbn [increasing]. intro H. apply andb_prop in H. tauto. Qed.

Lemma ltr_chain (l : list box) : increasing (map b_x l) = true -> chain_all left_of l.
Proof.
  induction l as [|a t IH]; intro H; [exact I|]. cbn [chain_all]. split.
  - apply Forall_forall. intros b Ib. unfold left_of. apply qlt_b_true.
    apply (increasing_all _ _ H). apply in_map. exact Ib.
  - apply IH. eapply increasing_tail. exact H.
Qed.

Lemma fold_qmin_le_init (l : list pt) a : fold_left (fun acc p => qmin acc (snd p)) l a <= a.
Proof.
  revert a. induction l as [|p t IH]; intro a; simpl; [lra|].
  eapply Qle_trans; [apply IH|apply qmin_l].
Qed.
Lemma fold_qmax_ge_init' (l : list pt) a : a <= fold_left (fun acc p => qmax acc (snd p)) l a.
Proof.
  revert a. induction l as [|p t IH]; intro a; simpl; [lra|].
  eapply Qle_trans; [apply (qmax_l a (snd p))|apply IH].
Qed.
Lemma min_le_max r : min_y_of r <= max_y_of' r.
Proof.
  unfold min_y_of, max_y_of'. eapply Qle_trans; [apply fold_qmin_le_init|apply fold_qmax_ge_init'].
Qed.

Lemma ttb_all a l : msgs_ttb_b (a :: l) = true -> forall c, In c l -> above a c = true.
Proof.
  revert a. induction l as [|b t IH]; intros a H c I; [destruct I|].
  cbn [msgs_ttb_b] in H. apply andb_prop in H. destruct H as [H1 H2].
  destruct I as [->|I]; [exact H1|].
  specialize (IH b H2 c I). unfold above in *. apply qlt_b_true in H1. apply qlt_b_true in IH.
  apply qlt_b_true. assert (M := min_le_max b). lra.
Qed.
Lemma ttb_tail a l : msgs_ttb_b (a :: l) = true -> msgs_ttb_b l = true.
Proof. destruct l; [reflexivity|]. cbn [msgs_ttb_b]. intro H. apply andb_prop in H. tauto. Qed.

Lemma ttb_chain (rs : list (list pt)) : msgs_ttb_b rs = true -> chain_all above rs.
Proof.
  induction rs as [|a t IH]; intro H; [exact I|]. cbn [chain_all]. split.
  - apply Forall_forall. apply ttb_all. exact H.
  - apply IH. eapply ttb_tail. exact H.
Qed.

Lemma incr_nat_cons a l : (forall b, In b l -> (a < b)%nat) -> incr_nat l = true -> incr_nat (a :: l) = true.
Proof.
  intros H I. destruct l as [|b t]; [reflexivity|]. cbn [incr_nat]. apply andb_true_intro. split; [|exact I].
  apply Nat.ltb_lt. apply H. left. reflexivity.
Qed.
Lemma incr_nat_filter f l : incr_nat l = true -> incr_nat (filter f l) = true.
Proof.
  induction l as [|a t IH]; intro H; [reflexivity|]. simpl.
  assert (T := incr_nat_tail _ _ H). destruct (f a); [|auto].
  apply incr_nat_cons; [|auto]. intros b I. apply filter_In in I. destruct I as [I _].
  apply (incr_nat_all_lt _ _ H b I).
Qed.

Lemma layout_actors_length inp xs : length (g_actors (layout inp xs)) = length (i_actors inp).
Proof. rewrite layout_actors. unfold actor_boxes. rewrite !map_length, seq_length. reflexivity. Qed.

Lemma layout_msgs_length inp xs : length (g_msgs (layout inp xs)) = length (i_msgs inp).
Proof. eapply Forall2_length'. apply final_inv. Qed.

Section DeclarationOrder.
  Variables (inp : input) (xs : list Q).
  Variables (objs_in : list (Z * nat * bool)) (objs_out : list nat).
  Variables (msgs_in : list (Z * nat)) (msgs_out : list nat).

  Lemma actors_decl_order :
    rounding_ok inp xs ->
    sorted_perm_b (obj_keys objs_in) objs_out = true -> stable_b (obj_keys objs_in) objs_out = true ->
    text_order_b (obj_keys objs_in) = true ->
    length (actor_ids objs_in objs_out) = length (i_actors inp) ->
    pairs_ok left_of (combine (actor_ids objs_in objs_out) (g_actors (layout inp xs))) = true.
  Proof.
    intros R S St T L. apply pairs_ok_of_incr.
    - rewrite layout_actors_length. exact L.
    - unfold actor_ids. apply incr_nat_filter. eapply order_kept; eauto.
    - apply ltr_chain. apply (actors_ltr inp xs R).
  Qed.

  Lemma msgs_decl_order :
    wf_b inp = true ->
    sorted_perm_b msgs_in msgs_out = true -> stable_b msgs_in msgs_out = true -> text_order_b msgs_in = true ->
    length msgs_out = length (i_msgs inp) ->
    pairs_ok above (combine msgs_out (g_msgs (layout inp xs))) = true.
  Proof.
    intros W S St T L. apply pairs_ok_of_incr.
    - rewrite layout_msgs_length. exact L.
    - eapply order_kept; eauto.
    - apply ttb_chain. apply (msgs_ttb inp xs W).
  Qed.
End DeclarationOrder.
