(* C23 — sequence diagrams.  Executable model over exact rationals of
   d2layouts/d2sequence/sequence_diagram.go: newSequenceDiagram (minimum actor width, actorXStep),
   placeActors, placeNotes, routeMessages, placeSpans, adjustRouteEndpoints, placeGroups
   (placeGroup + adjustGroupLabel), addLifelineEdges, and the shift by GROUP_CONTAINER_PADDING done
   by Layout.  Definitions only.

   Conventions.  Lists are in the order of sd.actors / sd.messages / sd.notes / sd.spans / sd.groups
   (the order AFTER the two slices.SortFunc calls; the sort itself is an oracle, see Order.v).
   An actor's rank is its index in the actor list; spans, notes and messages refer to ranks and to
   indices of the span / note lists.  Go's float64 is replaced by Q; math.Round enters through the
   list [xs] of rounded actor positions (see [unrounded_x] and [rounding_ok]). *)
From Coq Require Import ZArith QArith Qround List Bool.
Import ListNotations.
Open Scope Q_scope.

(* ---------- constants (d2layouts/d2sequence/constants.go, lib/label PADDING = 5) ---------- *)
Definition HORIZONTAL_PAD : Q := 40.
Definition LABEL_HORIZONTAL_PAD : Q := 60.
Definition VERTICAL_PAD : Q := 40.
Definition MIN_ACTOR_DISTANCE : Q := 150.
Definition MIN_ACTOR_WIDTH : Q := 100.
Definition SELF_MESSAGE_HORIZONTAL_TRAVEL : Q := 80.
Definition GROUP_CONTAINER_PADDING : Q := 12.
Definition MIN_MESSAGE_DISTANCE : Q := 30.
Definition SPAN_BASE_WIDTH : Q := 12.
Definition SPAN_DEPTH_GROWTH_FACTOR : Q := 8.
Definition MIN_SPAN_HEIGHT : Q := 30.
Definition SPAN_MESSAGE_PAD : Q := 10.
Definition LIFELINE_LABEL_PAD : Q := 5.
Definition LABEL_PADDING : Q := 5.
Definition YSTEP : Q := MIN_MESSAGE_DISTANCE + VERTICAL_PAD.     (* sd.yStep after newSequenceDiagram *)

(* ---------- numbers ----------
   x / 2. of the Go code is written  x * (1#2)  (the same rational). *)
Definition qmax (a b : Q) : Q := if Qle_bool a b then b else a.
Definition qmin (a b : Q) : Q := if Qle_bool a b then a else b.
Definition qlt_b (a b : Q) : bool := negb (Qle_bool b a).
Definition iz (z : Z) : Q := inject_Z z.

(* +Inf / -Inf of the min/max accumulators: None *)
Definition omin (a : option Q) (b : Q) : option Q := match a with None => Some b | Some x => Some (qmin x b) end.
Definition omax (a : option Q) (b : Q) : option Q := match a with None => Some b | Some x => Some (qmax x b) end.

Definition pt := (Q * Q)%type.
Record box := mkBox { b_x : Q; b_y : Q; b_w : Q; b_h : Q }.
Definition box0 := mkBox 0 0 0 0.

(* ---------- input: what the layout reads from the compiled graph ---------- *)
Record actor := mkActor {
  a_w : Q; a_h : Q;            (* Width / Height on entry (after SetDimensions) *)
  a_scale : bool;              (* shape is person / oval / square / circle: scaled up uniformly *)
  a_ob : bool;                 (* HasOutsideBottomLabel (image / person) *)
  a_haslabel : bool;           (* HasLabel *)
  a_lh : Z                     (* LabelDimensions.Height *)
}.
Definition actor0 := mkActor 0 0 false false false 0.

Record note := mkNote { n_rank : nat; n_w : Q; n_h : Q; n_vi : Z (* line number *) }.
Definition note0 := mkNote 0 0 0 0.

Record msg := mkMsg {
  m_src : nat; m_dst : nat;               (* objectRank of Src / Dst (rank of the enclosing actor) *)
  m_self : bool;                          (* Src == Dst (the same object) *)
  m_srcspan : option nat; m_dstspan : option nat;  (* index in the span list when Src / Dst is not an actor *)
  m_lw : Z; m_lh : Z;                     (* LabelDimensions *)
  m_vi : Z                                (* line number (verticalIndices) *)
}.

Record span := mkSpan {
  s_rank : nat;
  s_depth : Z;                 (* Level() - root.Level() - 2 *)
  s_cspans : list nat;         (* ChildrenArray: child spans (indices) ... *)
  s_cnotes : list nat          (* ... and child notes (indices) *)
}.
Definition span0 := mkSpan 0 0 [] [].

Record group := mkGroup {
  gr_level : Z;                (* Level() *)
  gr_msgs : list nat;          (* messages with ContainedBy(group) *)
  gr_notes : list nat;         (* notes referenced from inside the group *)
  gr_children : list nat;      (* ChildrenArray members that are groups (indices in the group list) *)
  gr_haslabel : bool;
  gr_lh : Z
}.
Definition group0 := mkGroup 0 [] [] [] false 0.

Record input := mkInput {
  i_rootlh : Z;                (* root label height when the diagram has a label, else 0 *)
  i_actors : list actor;
  i_notes : list note;
  i_msgs : list msg;
  i_spans : list span;
  i_groups : list group
}.

(* ---------- newSequenceDiagram ---------- *)
Definition adj_w (a : actor) : Q := if qlt_b (a_w a) MIN_ACTOR_WIDTH then MIN_ACTOR_WIDTH else a_w a.
Definition adj_h (a : actor) : Q :=
  if qlt_b (a_w a) MIN_ACTOR_WIDTH && a_scale a then a_h a * (MIN_ACTOR_WIDTH / a_w a) else a_h a.

Definition max_actor_h (inp : input) : Q :=
  fold_left qmax (map adj_h (i_actors inp)) 0 + VERTICAL_PAD + iz (i_rootlh inp).

Definition note_w_max (notes : list note) (r : nat) : Q :=
  fold_left qmax (map n_w (filter (fun n => Nat.eqb (n_rank n) r) notes)) 0.

(* actorXStep[r] after the loop over actors (r+1 < number of actors) *)
Definition base_step (inp : input) (r : nat) : Q :=
  let acts := i_actors inp in
  let a := nth r acts actor0 in
  let b := nth (S r) acts actor0 in
  let s0 := qmax (adj_w a * (1#2) + a_w b * (1#2) + HORIZONTAL_PAD) MIN_ACTOR_DISTANCE in
  let s1 := qmax (note_w_max (i_notes inp) r * (1#2) + HORIZONTAL_PAD) s0 in
  if Nat.ltb (S (S r)) (length acts)
  then qmax (note_w_max (i_notes inp) (S r) * (1#2) + HORIZONTAL_PAD) s1
  else s1.

(* contribution of one message to actorXStep[r] *)
Definition msg_step (m : msg) (r : nat) : option Q :=
  let lo := Nat.min (m_src m) (m_dst m) in
  let hi := Nat.max (m_src m) (m_dst m) in
  if Nat.eqb (m_src m) (m_dst m)
  then (if Nat.eqb r (m_src m) then Some (iz (m_lw m) + LABEL_PADDING * 4) else None)
  else if Nat.leb lo r && Nat.ltb r hi
       then Some (iz (m_lw m) / iz (Z.of_nat (hi - lo)) + LABEL_HORIZONTAL_PAD)
       else None.

Definition step_acc (r : nat) (acc : Q) (m : msg) : Q :=
  match msg_step m r with Some v => qmax acc v | None => acc end.

Definition x_step (inp : input) (r : nat) : Q := fold_left (step_acc r) (i_msgs inp) (base_step inp r).

(* ---------- placeActors ---------- *)
Fixpoint center_x (inp : input) (r : nat) : Q :=
  match r with
  | O => adj_w (nth 0 (i_actors inp) actor0) * (1#2)
  | S r' => center_x inp r' + x_step inp r'
  end.

(* argument of math.Round for actor r *)
Definition unrounded_x (inp : input) (r : nat) : Q := center_x inp r - adj_w (nth r (i_actors inp) actor0) * (1#2).

(* math.Round: half away from zero *)
Definition go_round (v : Q) : Q :=
  if Qle_bool 0 v then iz (Qfloor (v + (1#2))) else - iz (Qfloor (- v + (1#2))).

Definition rounded_xs (inp : input) : list Q := map (fun r => go_round (unrounded_x inp r)) (seq 0 (length (i_actors inp))).

Definition label_below (a : actor) : Q := if a_ob a && a_haslabel a then iz (a_lh a) else 0.

Definition actor_y (inp : input) (a : actor) : Q := max_actor_h inp - adj_h a - label_below a.

(* [xs]: TopLeft.X of the actors, i.e. what math.Round returned *)
Definition actor_box (inp : input) (xs : list Q) (r : nat) : box :=
  let a := nth r (i_actors inp) actor0 in
  mkBox (nth r xs 0) (actor_y inp a) (adj_w a) (adj_h a).

Definition actor_boxes (inp : input) (xs : list Q) : list box :=
  map (actor_box inp xs) (seq 0 (length (i_actors inp))).

(* actor.Center().X *)
Definition acx (inp : input) (xs : list Q) (r : nat) : Q := nth r xs 0 + adj_w (nth r (i_actors inp) actor0) * (1#2).

(* ---------- placeNotes ---------- *)
Definition msg_vspace (m : msg) : Q :=
  if m_self m then YSTEP + qmax (iz (m_lh m)) MIN_MESSAGE_DISTANCE * (3#2) else YSTEP + iz (m_lh m).

Definition sumQ (l : list Q) : Q := fold_right Qplus 0 l.

Definition note_y (inp : input) (vi : Z) : Q :=
  max_actor_h inp + YSTEP
  + sumQ (map msg_vspace (filter (fun m => Z.ltb (m_vi m) vi) (i_msgs inp)))
  + sumQ (map (fun n => n_h n + YSTEP) (filter (fun n => Z.ltb (n_vi n) vi) (i_notes inp))).

Definition note_box (inp : input) (xs : list Q) (n : note) : box :=
  mkBox (acx inp xs (n_rank n) - n_w n * (1#2)) (note_y inp (n_vi n)) (n_w n) (n_h n).

Definition note_boxes (inp : input) (xs : list Q) : list box := map (note_box inp xs) (i_notes inp).

(* ---------- routeMessages ---------- *)
Definition note_offset (inp : input) (vi : Z) : Q :=
  sumQ (map (fun n => n_h n + YSTEP) (filter (fun n => Z.ltb (n_vi n) vi) (i_notes inp))).

Definition same_actor (m : msg) : bool := Nat.eqb (m_src m) (m_dst m).

Definition half_lh (m : msg) : Q := iz (Z.quot (m_lh m) 2).        (* float64(Height/2.) : integer division *)

Definition self_height (m : msg) : Q := qmax (iz (m_lh m)) MIN_MESSAGE_DISTANCE * (3#2).

Definition route1 (inp : input) (xs : list Q) (off : Q) (m : msg) : list pt * Q :=
  let no := note_offset inp (m_vi m) in
  let sx := acx inp xs (m_src m) in
  let ex := acx inp xs (m_dst m) in
  if same_actor m then
    let midx := sx + qmax SELF_MESSAGE_HORIZONTAL_TRAVEL (iz (m_lw m) * (1#2) + LABEL_PADDING * 2) in
    let sy := off + no in
    let ey := sy + self_height m in
    ([(sx, sy); (midx, sy); (midx, ey); (ex, ey)], ey + YSTEP - no)
  else
    let sy := off + no + half_lh m in
    ([(sx, sy); (ex, sy)], sy + half_lh m + YSTEP - no).

Fixpoint route_from (inp : input) (xs : list Q) (off : Q) (ms : list msg) : list (list pt) :=
  match ms with
  | [] => []
  | m :: rest => let '(r, off') := route1 inp xs off m in r :: route_from inp xs off' rest
  end.

Definition routes0 (inp : input) (xs : list Q) : list (list pt) :=
  route_from inp xs (max_actor_h inp + YSTEP) (i_msgs inp).

(* ---------- placeSpans ---------- *)
Definition span_w (s : span) : Q := SPAN_BASE_WIDTH + iz (s_depth s) * SPAN_DEPTH_GROWTH_FACTOR.

Definition first_y (r : list pt) : Q := match r with p :: _ => snd p | [] => 0 end.
Definition last_y (r : list pt) : Q := snd (last r (0, 0)).

Definition is_some_eq (o : option nat) (k : nat) : bool := match o with Some j => Nat.eqb j k | None => false end.
Definition touches (k : nat) (m : msg) : bool := is_some_eq (m_srcspan m) k || is_some_eq (m_dstspan m) k.

Definition find_touch (k : nat) (l : list (msg * list pt)) : option (msg * list pt) :=
  find (fun p => touches k (fst p)) l.

(* stable sort by decreasing key (sort.SliceStable with  level(i) > level(j)) *)
Fixpoint ins_desc {A} (key : A -> Z) (x : A) (l : list A) : list A :=
  match l with
  | [] => [x]
  | y :: t => if Z.ltb (key y) (key x) then x :: y :: t else y :: ins_desc key x t
  end.
Definition sort_desc {A} (key : A -> Z) (l : list A) : list A := fold_left (fun acc x => ins_desc key x acc) l [].

Definition lookup {A} (k : nat) (l : list (nat * A)) : option A :=
  match find (fun p => Nat.eqb (fst p) k) l with Some p => Some (snd p) | None => None end.

(* vertical extent (TopLeft.Y, Height) of span k; [done]: the spans placed so far *)
Definition span_yh (inp : input) (rts : list (list pt)) (nboxes : list box)
           (done : list (nat * (Q * Q))) (k : nat) : Q * Q :=
  let s := nth k (i_spans inp) span0 in
  let mr := combine (i_msgs inp) rts in
  let cext := flat_map (fun c => match lookup c done with Some yh => [yh] | None => [] end) (s_cspans s)
              ++ map (fun c => let b := nth c nboxes box0 in (b_y b, b_h b)) (s_cnotes s) in
  let minc := fold_left (fun acc yh => omin acc (fst yh)) cext None in
  let maxc := fold_left (fun acc yh => omax acc (fst yh + snd yh)) cext None in
  let minm := match find_touch k mr with
              | Some (m, r) => Some (if m_self m || is_some_eq (m_srcspan m) k then first_y r else last_y r)
              | None => None end in
  let maxm := match find_touch k (rev mr) with
              | Some (m, r) => Some (if m_self m || is_some_eq (m_dstspan m) k then last_y r else first_y r)
              | None => None end in
  let miny := match minm, minc with
              | Some a, Some b => qmin a b | Some a, None => a | None, Some b => b | None, None => 0 end in
  let maxy := match maxm, maxc with
              | Some a, Some b => qmax a b | Some a, None => a | None, Some b => b | None, None => 0 end in
  let miny := miny - SPAN_MESSAGE_PAD in
  let maxy := maxy + SPAN_MESSAGE_PAD in
  (miny, qmax (maxy - miny) MIN_SPAN_HEIGHT).

Definition span_order (inp : input) : list nat :=
  sort_desc (fun k => s_depth (nth k (i_spans inp) span0)) (seq 0 (length (i_spans inp))).

Definition span_boxes0 (inp : input) (xs : list Q) (rts : list (list pt)) (nboxes : list box) : list box :=
  let done := fold_left (fun done k => (k, span_yh inp rts nboxes done k) :: done) (span_order inp) [] in
  map (fun k => let s := nth k (i_spans inp) span0 in
                let w := span_w s in
                let yh := match lookup k done with Some yh => yh | None => (0, 0) end in
                mkBox (acx inp xs (s_rank s) - w * (1#2)) (fst yh) w (snd yh))
      (seq 0 (length (i_spans inp))).

(* ---------- adjustRouteEndpoints ---------- *)
Definition map_first {A} (f : A -> A) (l : list A) : list A := match l with [] => [] | x :: t => f x :: t end.
Fixpoint map_last {A} (f : A -> A) (l : list A) : list A :=
  match l with [] => [] | [x] => [f x] | x :: t => x :: map_last f t end.
Definition addx (d : Q) (p : pt) : pt := (fst p + d, snd p).

Definition src_shift (inp : input) (m : msg) : Q :=
  match m_srcspan m with
  | None => 0
  | Some k => let w := span_w (nth k (i_spans inp) span0) in
              if Nat.leb (m_src m) (m_dst m) then w * (1#2) else - (w * (1#2))
  end.
Definition dst_shift (inp : input) (m : msg) : Q :=
  match m_dstspan m with
  | None => 0
  | Some k => let w := span_w (nth k (i_spans inp) span0) in
              if Nat.ltb (m_src m) (m_dst m) then - (w * (1#2)) else w * (1#2)
  end.

Definition adjust_route (inp : input) (m : msg) (r : list pt) : list pt :=
  map_last (addx (dst_shift inp m)) (map_first (addx (src_shift inp m)) r).

Definition routes1 (inp : input) (xs : list Q) : list (list pt) :=
  map (fun p => adjust_route inp (fst p) (snd p)) (combine (i_msgs inp) (routes0 inp xs)).

(* ---------- placeGroups: placeGroup ---------- *)
Record ext := mkExt { e_minx : Q; e_miny : Q; e_maxx : Q; e_maxy : Q }.
Definition ext_add (e : option ext) (x0 y0 x1 y1 : Q) : option ext :=
  match e with
  | None => Some (mkExt x0 y0 x1 y1)
  | Some e => Some (mkExt (qmin (e_minx e) x0) (qmin (e_miny e) y0) (qmax (e_maxx e) x1) (qmax (e_maxy e) y1))
  end.

Definition edge_pad (m : msg) : Q := qmax (iz (m_lh m) * (1#2) + GROUP_CONTAINER_PADDING) (MIN_MESSAGE_DISTANCE * (1#2)).

Definition group_box (inp : input) (rts : list (list pt)) (nboxes : list box)
           (done : list (nat * option box)) (k : nat) : option box :=
  let g := nth k (i_groups inp) group0 in
  let e0 := fold_left (fun e j =>
              match nth_error (i_msgs inp) j with
              | Some m => fold_left (fun e p => ext_add e (fst p - HORIZONTAL_PAD) (snd p - edge_pad m)
                                                        (fst p + HORIZONTAL_PAD) (snd p + edge_pad m))
                                    (nth j rts []) e
              | None => e end) (gr_msgs g) None in
  let e1 := fold_left (fun e j =>
              let b := nth j nboxes box0 in
              ext_add e (b_x b - HORIZONTAL_PAD) (b_y b - MIN_MESSAGE_DISTANCE * (1#2))
                        (b_x b + b_w b + HORIZONTAL_PAD) (b_y b + b_h b + MIN_MESSAGE_DISTANCE * (1#2)))
              (gr_notes g) e0 in
  let e2 := fold_left (fun e j =>
              match lookup j done with
              | Some (Some b) => ext_add e (b_x b - GROUP_CONTAINER_PADDING) (b_y b - GROUP_CONTAINER_PADDING)
                                           (b_x b + b_w b + GROUP_CONTAINER_PADDING) (b_y b + b_h b + GROUP_CONTAINER_PADDING)
              | _ => e end) (gr_children g) e1 in
  match e2 with
  | Some e => Some (mkBox (e_minx e) (e_miny e) (e_maxx e - e_minx e) (e_maxy e - e_miny e))
  | None => None          (* nothing inside: the Go code produces infinities; outside the model *)
  end.

Definition group_order (inp : input) : list nat :=
  sort_desc (fun k => gr_level (nth k (i_groups inp) group0)) (seq 0 (length (i_groups inp))).

Definition group_boxes0 (inp : input) (rts : list (list pt)) (nboxes : list box) : list (option box) :=
  let done := fold_left (fun done k => (k, group_box inp rts nboxes done k) :: done) (group_order inp) [] in
  map (fun k => match lookup k done with Some b => b | None => None end) (seq 0 (length (i_groups inp))).

(* ---------- placeGroups: adjustGroupLabel ---------- *)
(* One label adjustment = "everything strictly below y = t moves down by h, everything that
   straddles t grows by h". *)
Definition shift_op := (Q * Q)%type.     (* (t, h) *)

Definition grow_box (op : shift_op) (b : box) : box :=
  let '(t, h) := op in
  if qlt_b (b_y b) t && qlt_b t (b_y b + b_h b) then mkBox (b_x b) (b_y b) (b_w b) (b_h b + h) else b.
Definition move_box (op : shift_op) (b : box) : box :=
  let '(t, h) := op in
  if qlt_b t (b_y b) then mkBox (b_x b) (b_y b + h) (b_w b) (b_h b) else b.
Definition shift_box (op : shift_op) (b : box) : box := move_box op (grow_box op b).
Definition move_route (op : shift_op) (r : list pt) : list pt :=
  let '(t, h) := op in
  if qlt_b t (qmin (first_y r) (last_y r)) then map (fun p => (fst p, snd p + h)) r else r.

Definition group_height_add (g : group) : option Q :=
  if gr_haslabel g && Z.leb 12 (gr_lh g + 10) then Some (iz (gr_lh g + 10)) else None.

Definition omap {A} (f : A -> A) (o : option A) : option A := match o with Some x => Some (f x) | None => None end.

Fixpoint upd {A} (k : nat) (f : A -> A) (l : list A) : list A :=
  match l, k with
  | [], _ => []
  | x :: t, O => f x :: t
  | x :: t, S k' => x :: upd k' f t
  end.

(* state of the groups and the operations performed so far (in order) *)
Definition label_step (inp : input) (st : list (option box) * list shift_op) (k : nat)
  : list (option box) * list shift_op :=
  let '(gb, ops) := st in
  match nth k gb None, group_height_add (nth k (i_groups inp) group0) with
  | Some b, Some h =>
      let op := (b_y b, h) in
      let gb1 := upd k (omap (fun b => mkBox (b_x b) (b_y b) (b_w b) (b_h b + h))) gb in
      (map (omap (shift_box op)) gb1, ops ++ [op])
  | _, _ => st
  end.

Definition label_adjust (inp : input) (gb0 : list (option box)) : list (option box) * list shift_op :=
  fold_left (label_step inp) (group_order inp) (gb0, []).

(* ---------- addLifelineEdges ---------- *)
Definition max_y_of (r : list pt) : Q := fold_left (fun acc p => qmax acc (snd p)) r 0.

Definition lifeline_end (inp : input) (rts : list (list pt)) (nboxes aboxes : list box) : Q :=
  let e0 := match rts with [] => 0 | _ => max_y_of (last rts []) end in
  let e1 := fold_left (fun acc b => qmax acc (b_y b + b_h b)) nboxes e0 in
  let e2 := fold_left (fun acc b => qmax acc (b_y b + b_h b)) aboxes e1 in
  e2 + YSTEP.

Definition lifeline_start (inp : input) (xs : list Q) (r : nat) : Q :=
  let a := nth r (i_actors inp) actor0 in
  let b := actor_box inp xs r in
  b_y b + b_h b + (if a_ob a && a_haslabel a then iz (a_lh a) + LIFELINE_LABEL_PAD else 0).

(* ---------- the whole layout ---------- *)
Record geom := mkGeom {
  g_actors : list box;
  g_notes : list box;
  g_msgs : list (list pt);
  g_spans : list box;
  g_groups : list (option box);
  g_lifelines : list (pt * pt)
}.

Definition shift_pt (d : Q) (p : pt) : pt := (fst p + d, snd p + d).
Definition shift_bx (d : Q) (b : box) : box := mkBox (b_x b + d) (b_y b + d) (b_w b) (b_h b).

Definition layout (inp : input) (xs : list Q) : geom :=
  let aboxes := actor_boxes inp xs in
  let nb0 := note_boxes inp xs in
  let r0 := routes0 inp xs in
  let sb0 := span_boxes0 inp xs r0 nb0 in
  let r1 := routes1 inp xs in
  let gb0 := group_boxes0 inp r1 nb0 in
  let '(gb, ops) := label_adjust inp gb0 in
  let rts := fold_left (fun rs op => map (move_route op) rs) ops r1 in
  let sb := fold_left (fun bs op => map (shift_box op) bs) ops sb0 in
  let nb := fold_left (fun bs op => map (move_box op) bs) ops nb0 in
  let endy := lifeline_end inp rts nb aboxes in
  let lifelines := map (fun r => ((acx inp xs r, lifeline_start inp xs r), (acx inp xs r, endy)))
                       (seq 0 (length (i_actors inp))) in
  let d := GROUP_CONTAINER_PADDING in
  mkGeom (map (shift_bx d) aboxes) (map (shift_bx d) nb) (map (map (shift_pt d)) rts)
         (map (shift_bx d) sb) (map (omap (shift_bx d)) gb)
         (map (fun l => (shift_pt d (fst l), shift_pt d (snd l))) lifelines).

(* ---------- the property clauses, as boolean predicates on a geometry ----------
   They are evaluated on the model's geometry in the theorems and on the implementation's own
   geometry by Check.v.  [tol] absorbs float64 noise in equalities. *)
Definition tol : Q := 1 # 1000000.
Definition close (a b : Q) : bool := Qle_bool (a - b) tol && Qle_bool (b - a) tol.

Fixpoint increasing (l : list Q) : bool :=
  match l with
  | a :: ((b :: _) as t) => qlt_b a b && increasing t
  | _ => true
  end.

(* clause 10: x strictly increasing in the order of the list *)
Definition actors_ltr_b (g : geom) : bool := increasing (map b_x (g_actors g)).

(* clause 11: common baseline: bottom of the shape (plus the label drawn below it) *)
Definition baseline (a : actor) (b : box) : Q := b_y b + b_h b + label_below a.
Definition actors_baseline_b (inp : input) (g : geom) : bool :=
  match combine (i_actors inp) (g_actors g) with
  | [] => true
  | (a0, b0) :: t => forallb (fun p => close (baseline (fst p) (snd p)) (baseline a0 b0)) t
  end.

(* clause 12: every point of message k is strictly above every point of message k+1,
   and within a message y never decreases along the route *)
Definition min_y_of (r : list pt) : Q := fold_left (fun acc p => qmin acc (snd p)) r (first_y r).
Definition max_y_of' (r : list pt) : Q := fold_left (fun acc p => qmax acc (snd p)) r (first_y r).
Fixpoint msgs_ttb_b (rs : list (list pt)) : bool :=
  match rs with
  | a :: ((b :: _) as t) => qlt_b (max_y_of' a) (min_y_of b) && msgs_ttb_b t
  | _ => true
  end.

(* clause 13: a message between different actors is one horizontal segment *)
Definition horizontal_b (m : msg) (r : list pt) : bool :=
  if same_actor m then true
  else match r with [p; q] => close (snd p) (snd q) | _ => false end.
Definition msgs_horizontal_b (inp : input) (g : geom) : bool :=
  Nat.eqb (length (g_msgs g)) (length (i_msgs inp)) &&
  forallb (fun p => horizontal_b (fst p) (snd p)) (combine (i_msgs inp) (g_msgs g)).

(* clause 14: first / last point on the lifeline of the source / destination actor (x of the
   lifeline, y strictly between its ends) or, for a span, on the vertical border of the span
   that faces the other end (x) *)
Definition on_lifeline_b (l : pt * pt) (p : pt) : bool :=
  close (fst p) (fst (fst l)) && close (fst (fst l)) (fst (snd l))
  && qlt_b (snd (fst l)) (snd p) && qlt_b (snd p) (snd (snd l)).

Definition on_span_x_b (b : box) (p : pt) : bool := close (fst p) (b_x b) || close (fst p) (b_x b + b_w b).

Definition endpoint_ok_b (g : geom) (rank : nat) (sp : option nat) (p : pt) : bool :=
  match nth_error (g_lifelines g) rank with
  | None => false
  | Some l =>
      match sp with
      | None => on_lifeline_b l p
      | Some k => match nth_error (g_spans g) k with
                  | Some b => on_span_x_b b p && close (fst (fst l)) (b_x b + b_w b * (1#2))
                              && qlt_b (snd (fst l)) (snd p) && qlt_b (snd p) (snd (snd l))
                  | None => false end
      end
  end.

Definition msg_endpoints_b (g : geom) (m : msg) (r : list pt) : bool :=
  match r with
  | [] => false
  | p :: _ => endpoint_ok_b g (m_src m) (m_srcspan m) p && endpoint_ok_b g (m_dst m) (m_dstspan m) (last r (0,0))
  end.
Definition msgs_endpoints_b (inp : input) (g : geom) : bool :=
  forallb (fun p => msg_endpoints_b g (fst p) (snd p)) (combine (i_msgs inp) (g_msgs g)).

(* clause 15: every actor has a vertical lifeline through its centre starting at or below the shape *)
Definition lifelines_b (inp : input) (g : geom) : bool :=
  Nat.eqb (length (g_lifelines g)) (length (g_actors g)) &&
  forallb (fun p => let '(b, l) := p in
                    close (fst (fst l)) (b_x b + b_w b * (1#2)) && close (fst (snd l)) (b_x b + b_w b * (1#2))
                    && Qle_bool (b_y b + b_h b) (snd (fst l) + tol))
          (combine (g_actors g) (g_lifelines g)).

(* clause 16 (implementation only, not proved for the model): an endpoint on a span lies within the
   vertical extent of the span *)
Definition span_y_b (g : geom) (sp : option nat) (p : pt) : bool :=
  match sp with
  | None => true
  | Some k => match nth_error (g_spans g) k with
              | Some b => Qle_bool (b_y b) (snd p + tol) && Qle_bool (snd p) (b_y b + b_h b + tol)
              | None => false end
  end.
Definition msgs_span_y_b (inp : input) (g : geom) : bool :=
  forallb (fun p => let '(m, r) := p in
                    match r with
                    | [] => false
                    | q :: _ => span_y_b g (m_srcspan m) q && span_y_b g (m_dstspan m) (last r (0,0))
                    end) (combine (i_msgs inp) (g_msgs g)).

(* ---------- well-formedness of an input (what the theorems assume; decidable, evaluated by
   Check.v on every case as code 5) ---------- *)
Definition span_ref_ok (inp : input) (rank : nat) (o : option nat) : bool :=
  match o with
  | None => true
  | Some k => Nat.ltb k (length (i_spans inp)) && Nat.eqb (s_rank (nth k (i_spans inp) span0)) rank
  end.

Definition msg_wf_b (inp : input) (m : msg) : bool :=
  Z.leb 0 (m_lh m)
  && Nat.ltb (m_src m) (length (i_actors inp)) && Nat.ltb (m_dst m) (length (i_actors inp))
  && span_ref_ok inp (m_src m) (m_srcspan m) && span_ref_ok inp (m_dst m) (m_dstspan m).

Fixpoint vi_sorted_b (ms : list msg) : bool :=
  match ms with
  | a :: ((b :: _) as t) => Z.leb (m_vi a) (m_vi b) && vi_sorted_b t
  | _ => true
  end.

Definition wf_b (inp : input) : bool :=
  forallb (fun a => Z.leb 0 (a_lh a)) (i_actors inp)
  && forallb (fun n => Qle_bool 0 (n_h n)) (i_notes inp)
  && forallb (msg_wf_b inp) (i_msgs inp)
  && vi_sorted_b (i_msgs inp).         (* the sort oracle returned the messages sorted by line *)

(* what math.Round guarantees about xs (any rounding to within 1 unit is enough for the theorems;
   Check.v verifies |x - unrounded| <= 1/2 + tol and that x is an integer) *)
Definition rounding_ok (inp : input) (xs : list Q) : Prop :=
  length xs = length (i_actors inp) /\
  forall r, (r < length xs)%nat -> nth r xs 0 - unrounded_x inp r <= 1 /\ unrounded_x inp r - nth r xs 0 <= 1.

(* ---------- decidable forms used by Check.v ---------- *)
(* rounding: the implementation's x is an integer within 1/2 (+tol) of the model's argument *)
Definition is_int (x : Q) : bool := Qeq_bool (iz (Qfloor x)) x.
Definition rounding_b (inp : input) (xs : list Q) : bool :=
  Nat.eqb (length xs) (length (i_actors inp)) &&
  forallb (fun r => let x := nth r xs 0 in let v := unrounded_x inp r in
                    is_int x && Qle_bool (x - v) ((1#2) + tol) && Qle_bool (v - x) ((1#2) + tol))
          (seq 0 (length xs)).

(* declaration order on a geometry: all pairs (Order.pairs_ok) with these relations *)
Definition left_of (a b : box) : bool := qlt_b (b_x a) (b_x b).
Definition above (r1 r2 : list pt) : bool := qlt_b (max_y_of' r1) (min_y_of r2).

(* text positions of the actors among the sorted top-level objects *)
Definition actor_ids (objs_in : list (Z * nat * bool)) (objs_out : list nat) : list nat :=
  filter (fun i => existsb (fun o => let '(_, j, isa) := o in Nat.eqb i j && isa) objs_in) objs_out.
Definition obj_keys (objs_in : list (Z * nat * bool)) : list (Z * nat) :=
  map (fun o => (fst (fst o), snd (fst o))) objs_in.
