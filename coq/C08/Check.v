(* Executable checker for C08 cases.

   Det runs     digests (60 bits of sha256 of: outcome class, full serialisation of every board with
                positions and references, config / or the error list) of every compilation of ONE
                program: 3 sequential runs, then 32 goroutines at once under GOMAXPROCS 1, 2, 4, 16
   Order o e    sort keys of g.Objects / g.Edges in the order the compiler returned them
   Inventory    emitted once per run: the regenerated inventory of map iterations

   codes:  1   the returned order of objects / connections has an inversion for the comparator model
               although every key is positioned (model of the sort post-condition vs. implementation)
          10   two compilations of the same input gave different results
          11   the inventory contains a map iteration filed as order-sensitive *)
From Coq Require Import List NArith ZArith Bool.
Import ListNotations.
Require Import V.Lib.RunCases.
Require Export V.C08.Order.
Require Import V.C08.Sites.
Open Scope N_scope.

Inductive case :=
| Det (runs : list N)
| Order (objs edges : list key)
| Inventory.

Definition order_ok (l : list key) : bool :=
  if forallb positioned_b l then sorted_b l else true.

Definition check_case (c : case) : list N :=
  match c with
  | Det runs =>
      match runs with
      | [] => []                                  (* no result: reported by the harness (code 99) *)
      | r :: rest => flag (forallb (N.eqb r) rest) 10
      end
  | Order objs edges => flag (order_ok objs && order_ok edges) 1
  | Inventory => flag (match sensitive_in_inventory with [] => true | _ => false end) 11
  end.
