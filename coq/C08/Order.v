(* C08 — the comparators of Graph.SortObjectsByAST / SortEdgesByAST.

   Modelled Go code: d2ast.Position.Before, d2ast.Range.Before (start positions), and the `less`
   closures handed to sort.Slice in d2graph.Graph.SortObjectsByAST / SortEdgesByAST.
   A sort key is what the closure reads from an element: no reference at all, a reference that is a
   variable substitution (IsVar), or the start position (Byte, Line, Column) of the first reference.
   Positions produced by the parser never carry Byte = -1 (that value only comes from parsing a
   "line:col" string); the theorems are stated for such positions.

   What is proved: on positioned keys the comparator is a strict total order on (Byte, Line, Column)
   triples, hence a strict weak order on elements; a list that is sorted for it and has pairwise
   different keys is determined by its set of elements, so EVERY correct comparison sort returns the same
   list.  Where keys tie (objects created by one glob share their first reference; objects of different
   files can share a byte offset, line and column), or where an element has no reference / is a variable
   (the closure then answers `i < j` on the current slice indices, which is not an order), the result
   depends on the sorting algorithm: the code relies on sort.Slice (pdqsort_func, insertion sort below 12
   elements) being a deterministic function of the input slice and of the answers of `less` — it is: its
   only "random" choice is an xorshift seeded with the slice length. *)
From Coq Require Import List ZArith Bool Lia Permutation Sorted.
Import ListNotations.
Open Scope Z_scope.

Inductive key := KNoRef | KVar | KPos (byte line col : Z).

(* d2ast.Position.Before *)
Definition pos_before (b1 l1 c1 b2 l2 c2 : Z) : bool :=
  if negb (b1 =? b2) && negb (b1 =? -1) && negb (b2 =? -1) then b1 <? b2
  else if negb (l1 =? l2) then l1 <? l2
  else c1 <? c2.

(* the closure of SortObjectsByAST on elements at slice indices i, j *)
Definition less (i j : nat) (a b : key) : bool :=
  match a, b with
  | KPos b1 l1 c1, KPos b2 l2 c2 => pos_before b1 l1 c1 b2 l2 c2
  | _, _ => Nat.ltb i j
  end.

(* on positioned keys the indices are not looked at *)
Definition before (a b : key) : bool :=
  match a, b with
  | KPos b1 l1 c1, KPos b2 l2 c2 => pos_before b1 l1 c1 b2 l2 c2
  | _, _ => false
  end.

Definition positioned (k : key) : Prop :=
  match k with KPos b _ _ => b <> -1 | _ => False end.

Definition positioned_b (k : key) : bool :=
  match k with KPos b _ _ => negb (b =? -1) | _ => false end.

Lemma positioned_b_spec k : positioned_b k = true <-> positioned k.
Proof.
  destruct k; simpl; try (split; [discriminate | contradiction]).
  rewrite negb_true_iff, Z.eqb_neq. tauto.
Qed.

Lemma less_before i j a b : positioned a -> positioned b -> less i j a b = before a b.
Proof. destruct a, b; simpl; try contradiction. reflexivity. Qed.

Lemma key_eq_dec_aux (a b : key) : {a = b} + {a <> b}.
Proof. decide equality; apply Z.eq_dec. Qed.

(* lexicographic order on (Byte, Line, Column) *)
Definition lex_lt (a b : key) : Prop :=
  match a, b with
  | KPos b1 l1 c1, KPos b2 l2 c2 => b1 < b2 \/ (b1 = b2 /\ (l1 < l2 \/ (l1 = l2 /\ c1 < c2)))
  | _, _ => False
  end.

Lemma before_lex a b : positioned a -> positioned b -> (before a b = true <-> lex_lt a b).
Proof.
  destruct a as [| |b1 l1 c1], b as [| |b2 l2 c2]; simpl; try contradiction. intros Ha Hb.
  unfold pos_before.
  destruct (b1 =? b2) eqn:Eb; simpl.
  - apply Z.eqb_eq in Eb. subst b2.
    destruct (l1 =? l2) eqn:El; simpl.
    + apply Z.eqb_eq in El. subst l2. rewrite Z.ltb_lt. lia.
    + apply Z.eqb_neq in El. rewrite Z.ltb_lt. lia.
  - apply Z.eqb_neq in Eb.
    assert (E1 : (b1 =? -1) = false) by (apply Z.eqb_neq; exact Ha).
    assert (E2 : (b2 =? -1) = false) by (apply Z.eqb_neq; exact Hb).
    rewrite E1, E2. simpl. rewrite Z.ltb_lt. lia.
Qed.

Theorem before_irreflexive a : positioned a -> before a a = false.
Proof.
  intro H. destruct (before a a) eqn:E; [|reflexivity].
  apply (before_lex a a H H) in E. destruct a; simpl in *; try contradiction. lia.
Qed.

Theorem before_transitive a b c :
  positioned a -> positioned b -> positioned c ->
  before a b = true -> before b c = true -> before a c = true.
Proof.
  intros Ha Hb Hc H1 H2.
  apply (before_lex a b Ha Hb) in H1. apply (before_lex b c Hb Hc) in H2. apply (before_lex a c Ha Hc).
  destruct a, b, c; simpl in *; try contradiction. lia.
Qed.

Theorem before_asymmetric a b :
  positioned a -> positioned b -> before a b = true -> before b a = false.
Proof.
  intros Ha Hb H. destruct (before b a) eqn:E; [|reflexivity].
  apply (before_lex a b Ha Hb) in H. apply (before_lex b a Hb Ha) in E.
  destruct a, b; simpl in *; try contradiction. lia.
Qed.

(* total on different keys *)
Theorem before_trichotomy a b :
  positioned a -> positioned b -> a <> b -> before a b = true \/ before b a = true.
Proof.
  intros Ha Hb Hne.
  destruct a as [| |b1 l1 c1], b as [| |b2 l2 c2]; simpl in Ha, Hb; try contradiction.
  assert (H : lex_lt (KPos b1 l1 c1) (KPos b2 l2 c2) \/ lex_lt (KPos b2 l2 c2) (KPos b1 l1 c1)).
  { simpl. destruct (Z.lt_trichotomy b1 b2) as [|[|]]; try lia.
    destruct (Z.lt_trichotomy l1 l2) as [|[|]]; try lia.
    destruct (Z.lt_trichotomy c1 c2) as [|[|]]; try lia.
    exfalso. apply Hne. congruence. }
  destruct H as [H|H]; [left | right]; apply before_lex; simpl; assumption.
Qed.

(* incomparability is transitive: with the above, a strict weak order *)
Theorem incomparable_transitive a b c :
  positioned a -> positioned b -> positioned c ->
  before a b = false -> before b a = false -> before b c = false -> before c b = false ->
  before a c = false /\ before c a = false.
Proof.
  intros Ha Hb Hc H1 H2 H3 H4.
  assert (Eab : a = b).
  { destruct (key_eq_dec_aux a b) as [E|N]; [exact E|].
    destruct (before_trichotomy a b Ha Hb N); congruence. }
  assert (Ebc : b = c).
  { destruct (key_eq_dec_aux b c) as [E|N]; [exact E|].
    destruct (before_trichotomy b c Hb Hc N); congruence. }
  subst. split; apply before_irreflexive; assumption.
Qed.

(* ------------------------------------------------------------------ what a correct sort returns *)

(* the post-condition of sort.Slice for a strict weak order: a permutation without inversions *)
Definition no_inversion (a b : key) : Prop := before b a = false.
Definition sorted_output (input output : list key) : Prop :=
  Permutation input output /\ Sorted no_inversion output.

Lemma sorted_strong l :
  Forall positioned l -> NoDup l -> Sorted no_inversion l -> StronglySorted (fun a b => before a b = true) l.
Proof.
  intros Hp Hnd Hs. induction l as [|x r IH]; [constructor|].
  inversion Hp as [|? ? Hx Hr]; subst. inversion Hnd as [|? ? Hni Hnd']; subst.
  inversion Hs as [|? ? Hs' Hhd]; subst. specialize (IH Hr Hnd' Hs').
  constructor; [exact IH|].
  destruct r as [|y r']; [constructor|].
  inversion Hhd as [|? ? Hxy]; subst. unfold no_inversion in Hxy.
  inversion Hr as [|? ? Hy Hr']; subst.
  assert (Hlt : before x y = true).
  { destruct (before_trichotomy x y Hx Hy) as [H|H]; [|exact H|congruence].
    intro E. subst. apply Hni. left. reflexivity. }
  constructor; [exact Hlt|].
  inversion IH as [|? ? _ Hall]; subst.
  rewrite Forall_forall in *. intros z Hz.
  apply (before_transitive x y z Hx Hy (Hr' z Hz) Hlt (Hall z Hz)).
Qed.

Lemma strongly_sorted_unique l1 : forall l2,
  Forall positioned l1 ->
  StronglySorted (fun a b => before a b = true) l1 -> StronglySorted (fun a b => before a b = true) l2 ->
  Permutation l1 l2 -> l1 = l2.
Proof.
  induction l1 as [|x r1 IH]; intros l2 Hp S1 S2 HP.
  - apply Permutation_nil in HP. subst. reflexivity.
  - destruct l2 as [|y r2]; [apply Permutation_sym, Permutation_nil in HP; discriminate|].
    inversion S1 as [|? ? S1' A1]; subst. inversion S2 as [|? ? S2' A2]; subst.
    inversion Hp as [|? ? Hx Hr]; subst.
    assert (Hp2 : Forall positioned (y :: r2)) by (apply (Permutation_Forall HP); exact Hp).
    inversion Hp2 as [|? ? Hy Hr2]; subst.
    assert (E : x = y).
    { destruct (key_eq_dec_aux x y) as [E|N]; [exact E|]. exfalso.
      assert (Hin1 : In x (y :: r2)) by (apply (Permutation_in _ HP); left; reflexivity).
      assert (Hin2 : In y (x :: r1)) by (apply (Permutation_in _ (Permutation_sym HP)); left; reflexivity).
      destruct Hin1 as [E|Hin1]; [congruence|]. destruct Hin2 as [E|Hin2]; [congruence|].
      rewrite Forall_forall in A1, A2.
      pose proof (A2 x Hin1) as Hyx. pose proof (A1 y Hin2) as Hxy.
      pose proof (before_asymmetric x y Hx Hy Hxy). congruence. }
    subst y. f_equal. apply IH; try assumption. apply (Permutation_cons_inv HP).
Qed.

(* any two correct sorts of the same input agree when the keys are positioned and pairwise different *)
Theorem sorted_unique input out1 out2 :
  Forall positioned input -> NoDup input ->
  sorted_output input out1 -> sorted_output input out2 -> out1 = out2.
Proof.
  intros Hp Hnd [P1 S1] [P2 S2].
  assert (Hp1 := Permutation_Forall P1 Hp). assert (Hp2 := Permutation_Forall P2 Hp).
  apply strongly_sorted_unique; try assumption.
  - apply sorted_strong; try assumption. apply (Permutation_NoDup P1 Hnd).
  - apply sorted_strong; try assumption. apply (Permutation_NoDup P2 Hnd).
  - apply (Permutation_trans (Permutation_sym P1) P2).
Qed.

(* ------------------------------------------------------------------ executable check on an output of the implementation *)

Fixpoint sorted_b (l : list key) : bool :=
  match l with
  | [] => true
  | x :: r => match r with
              | [] => true
              | y :: _ => negb (before y x) && sorted_b r
              end
  end.

Lemma sorted_b_spec l : sorted_b l = true <-> Sorted no_inversion l.
Proof.
  induction l as [|x r IH]; simpl; [split; [constructor | reflexivity]|].
  destruct r as [|y r'].
  - split; [intros _; constructor; constructor | reflexivity].
  - rewrite andb_true_iff, IH, negb_true_iff. split.
    + intros [H1 H2]. constructor; [exact H2 | constructor; exact H1].
    + intro H. inversion H as [|? ? Hs Hh]; subst. inversion Hh; subst. split; assumption.
Qed.
