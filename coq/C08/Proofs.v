(* C08 — the inventory theorems (checked against the regenerated V.Gen.C08MapRanges / C08Tables). *)
From Coq Require Import List String Bool.
Import ListNotations.
Require Import V.Gen.C08MapRanges V.Gen.C08Tables V.C08.Sites.

Definition analysed_b (s : site) : bool := match shape_of s with Some _ => true | None => false end.

Lemma inventory_analysed_b : forallb analysed_b inventory = true.
Proof. vm_compute. reflexivity. Qed.

Theorem all_map_ranges_analysed : forall s, In s inventory -> exists sh, shape_of s = Some sh.
Proof.
  intros s H. pose proof inventory_analysed_b as HA. rewrite forallb_forall in HA. specialize (HA s H).
  unfold analysed_b in HA. destruct (shape_of s) as [sh|]; [exists sh; reflexivity | discriminate].
Qed.

Theorem all_map_ranges_insensitive_or_known :
  forall s, In s inventory ->
    In s sensitive_in_inventory \/ exists sh, shape_of s = Some sh /\ is_insensitive sh = true.
Proof.
  intros s H. destruct (all_map_ranges_analysed s H) as [sh Hsh].
  destruct (is_insensitive sh) eqn:E.
  - right. exists sh. split; assumption.
  - left. unfold sensitive_in_inventory. apply filter_In. split; [exact H|]. rewrite Hsh, E. reflexivity.
Qed.

(* no goroutine is started and no package-level variable is assigned outside init() in the inventoried
   packages: compilations in one process share only data that is written during package initialisation *)
Theorem no_goroutines_no_global_writes : go_statement_sites = [] /\ global_write_sites = [].
Proof. split; reflexivity. Qed.

(* the values of ShortToFullLanguageAliases are pairwise different: inverting it is order-insensitive *)
Theorem alias_table_invertible : alias_values_distinct = true.
Proof. vm_compute. reflexivity. Qed.
