(* C08 — Compilation is deterministic.  Statements only.

   The property itself (same input, same importable files => same diagram or same errors, sequentially
   and concurrently) quantifies over runs of the Go program and over schedules; neither is an object of
   Gallina.  What is proved is that the code has no source of run-to-run variation that the determinism
   of a pure function would ignore:
     (1) every iteration over a Go map in the compile path is in the analysed list, with its loop shape,
         and each shape but one is invariant under permutation of the iteration order;
     (2) the one order-sensitive loop (lib/textmeasure.replaceVariables, pinned) is refuted with a
         witness (known finding, replayed on the real compiler by the harness);
     (3) no goroutine is started and no package-level variable is written outside init();
     (4) the sort comparators are a strict weak order on positioned keys, so the sorted result does not
         depend on the sorting algorithm when first-reference positions are pairwise different.
   Schedules are covered by the harness only (sampling): stated as partial in meta.json. *)
From Coq Require Import List String Permutation ZArith Sorted.
Require Import V.Gen.C08MapRanges V.Gen.C08Tables V.C08.Sites V.C08.Order V.C08.Proofs.

(* (1) the regenerated inventory is covered *)
Theorem C08_all_map_ranges_analysed :
  forall s, In s inventory -> exists sh, shape_of s = Some sh.
Proof. exact all_map_ranges_analysed. Qed.

(* full statement: forall s, In s inventory -> exists sh, shape_of s = Some sh /\ is_insensitive sh = true.
   Refuted for the pinned code by the replaceVariables site (C08_sequential_replacement_order_sensitive and
   the Inventory case of Check.v); what holds for every site: *)
Theorem C08_all_map_ranges_order_insensitive_partial :
  forall s, In s inventory ->
    In s sensitive_in_inventory \/ exists sh, shape_of s = Some sh /\ is_insensitive sh = true.
Proof. exact all_map_ranges_insensitive_or_known. Qed.

(* shape A: dst[f(k)] = g(k) with f injective on the keys — same map for every iteration order *)
Theorem C08_keyed_writes_order_insensitive :
  forall (V : Type) (key_of : string -> string) (val_of : string -> V) (dom : string -> Prop),
    (forall a b, dom a -> dom b -> key_of a = key_of b -> a = b) ->
    forall l l' (m : smap V), Permutation l l' -> NoDup l -> Forall dom l ->
      smap_eq (fold_left (stepA key_of val_of) l m) (fold_left (stepA key_of val_of) l' m).
Proof. exact @shapeA_order_insensitive. Qed.

(* its instances need: "prefix.k" is injective in k; the alias table has pairwise different values *)
Theorem C08_collect_variables_key_injective :
  forall prefix a b, (prefix ++ "." ++ a = prefix ++ "." ++ b)%string -> a = b.
Proof. exact collect_key_inj. Qed.

Theorem C08_alias_table_invertible : alias_values_distinct = true.
Proof. exact alias_table_invertible. Qed.

(* shape B: a loop whose body acts for at most one key *)
Theorem C08_single_key_action_order_insensitive :
  forall (S : Type) (name : string) (act : S -> S) l l' (s : S),
    Permutation l l' -> NoDup l -> fold_left (stepB name act) l s = fold_left (stepB name act) l' s.
Proof. exact @shapeB_order_insensitive. Qed.

(* shape C: existence of a key with a property *)
Theorem C08_existence_order_insensitive :
  forall (K : Type) (p : K -> bool) l l', Permutation l l' -> existsb p l = existsb p l'.
Proof. exact @shapeC_order_insensitive. Qed.

(* shape E: the keys are collected and sorted with an asymmetric order before use (replaceVariables after
   coq/C08/fix.patch): the sorted list does not depend on the order of collection *)
Theorem C08_collected_and_sorted_order_insensitive :
  forall (K : Type) (lt : K -> K -> Prop), (forall a b, lt a b -> ~ lt b a) ->
    forall l1 l2, StronglySorted lt l1 -> StronglySorted lt l2 -> Permutation l1 l2 -> l1 = l2.
Proof. exact @shapeE_order_insensitive. Qed.

(* (2) sequential replacement in map order (replaceVariables, pinned) depends on the order *)
Theorem C08_sequential_replacement_order_sensitive :
  exists vars l l' s, Permutation l l' /\ NoDup l /\ replace_seq vars l s <> replace_seq vars l' s.
Proof. exact shapeD_order_sensitive. Qed.

(* (3) *)
Theorem C08_no_goroutines_no_global_writes : go_statement_sites = nil /\ global_write_sites = nil.
Proof. exact no_goroutines_no_global_writes. Qed.

(* (4) comparator of SortObjectsByAST / SortEdgesByAST on positioned keys: strict weak order ... *)
Theorem C08_comparator_strict_weak_order :
  (forall a, positioned a -> before a a = false)
  /\ (forall a b c, positioned a -> positioned b -> positioned c ->
        before a b = true -> before b c = true -> before a c = true)
  /\ (forall a b c, positioned a -> positioned b -> positioned c ->
        before a b = false -> before b a = false -> before b c = false -> before c b = false ->
        before a c = false /\ before c a = false).
Proof. exact (conj before_irreflexive (conj before_transitive incomparable_transitive)). Qed.

(* ... total on different keys, so any two correct comparison sorts return the same list *)
Theorem C08_sort_result_unique :
  forall input out1 out2, Forall positioned input -> NoDup input ->
    sorted_output input out1 -> sorted_output input out2 -> out1 = out2.
Proof. exact sorted_unique. Qed.

(* the closure handed to sort.Slice is the comparator on positioned keys, whatever the indices *)
Theorem C08_less_is_before_on_positioned :
  forall i j a b, positioned a -> positioned b -> less i j a b = before a b.
Proof. exact less_before. Qed.

(* non-vacuity of the hypotheses *)
Example C08_sort_hyps_satisfiable :
  Forall positioned (cons (KPos 0 0 0) (cons (KPos 4 1 0) nil))
  /\ NoDup (cons (KPos 0 0 0) (cons (KPos 4 1 0) nil))
  /\ sorted_output (cons (KPos 4 1 0) (cons (KPos 0 0 0) nil)) (cons (KPos 0 0 0) (cons (KPos 4 1 0) nil)).
Proof.
  split; [repeat constructor; discriminate|]. split.
  - constructor; [intros [H|[]]; discriminate | constructor; [intros [] | constructor]].
  - split; [apply perm_swap|]. repeat constructor.
Qed.

Example C08_keyed_writes_hyps_satisfiable :
  forall a b, True -> True -> (("p" ++ "." ++ a)%string = ("p" ++ "." ++ b)%string) -> a = b.
Proof. intros a b _ _ H. exact (collect_key_inj "p" a b H). Qed.

Print Assumptions C08_all_map_ranges_analysed.
Print Assumptions C08_all_map_ranges_order_insensitive_partial.
Print Assumptions C08_keyed_writes_order_insensitive.
Print Assumptions C08_collect_variables_key_injective.
Print Assumptions C08_alias_table_invertible.
Print Assumptions C08_single_key_action_order_insensitive.
Print Assumptions C08_existence_order_insensitive.
Print Assumptions C08_collected_and_sorted_order_insensitive.
Print Assumptions C08_sequential_replacement_order_sensitive.
Print Assumptions C08_no_goroutines_no_global_writes.
Print Assumptions C08_comparator_strict_weak_order.
Print Assumptions C08_sort_result_unique.
Print Assumptions C08_less_is_before_on_positioned.
