(* C08 — every iteration over a Go map in the compile path, analysed.

   V.Gen.C08MapRanges is regenerated on every run from the Go source (go/types): each `range` over a
   map-typed operand in d2ir, d2compiler, d2graph, d2ast, d2parser, d2format, lib/textmeasure, with the
   file, function, ordinal, operand and a hash of the text of the whole statement.  Below, each site is
   filed under a loop shape, and for each shape there is a Gallina model of the loop as a left fold over
   the list of keys in iteration order together with a lemma saying what the fold's result does not
   depend on.  A site that is new, moved, or whose statement text changed is in none of the lists and
   breaks [all_map_ranges_analysed] (Proofs.v) until it is looked at.

   Go map iteration yields every key exactly once, in an unspecified order: an iteration order is a
   duplicate-free list of the keys; two orders of the same map are permutations of each other. *)
From Coq Require Import List String Permutation Bool Arith Lia Sorted.
Import ListNotations.
Require Import V.Gen.C08MapRanges V.Gen.C08Tables.
Open Scope string_scope.

(* ------------------------------------------------------------------ folds that do not see the order *)

Section FoldPerm.
  Context {S K : Type}.
  Variable step : S -> K -> S.
  Variable eqv : S -> S -> Prop.
  Variable dom : K -> Prop.          (* the keys of the map being ranged over *)
  Hypothesis eqv_refl : forall s, eqv s s.
  Hypothesis eqv_trans : forall a b c, eqv a b -> eqv b c -> eqv a c.
  Hypothesis step_proper : forall s s' k, eqv s s' -> eqv (step s k) (step s' k).
  Hypothesis step_comm : forall s a b, dom a -> dom b -> a <> b -> eqv (step (step s a) b) (step (step s b) a).

  Lemma fold_proper l : forall s s', eqv s s' -> eqv (fold_left step l s) (fold_left step l s').
  Proof. induction l as [|k r IH]; simpl; intros s s' H; [exact H | apply IH; apply step_proper; exact H]. Qed.

  Theorem fold_perm l l' :
    Permutation l l' -> NoDup l -> Forall dom l ->
    forall s s', eqv s s' -> eqv (fold_left step l s) (fold_left step l' s').
  Proof.
    induction 1 as [|x l l' HP IH|x y l|l l' l'' HP1 IH1 HP2 IH2]; intros Hnd Hdom s s' Hs.
    - exact Hs.
    - simpl. inversion Hnd; subst. inversion Hdom; subst. apply IH; try assumption. apply step_proper. exact Hs.
    - simpl. inversion Hnd as [|? ? Hni Hnd']; subst. inversion Hdom as [|? ? Hy Hd']; subst.
      inversion Hd' as [|? ? Hx Hd'']; subst.
      apply fold_proper.
      apply eqv_trans with (step (step s x) y).
      + apply step_comm; try assumption. intro E. subst. apply Hni. left. reflexivity.
      + apply step_proper. apply step_proper. exact Hs.
    - apply eqv_trans with (fold_left step l' s).
      + apply IH1; try assumption. apply eqv_refl.
      + apply IH2; try assumption.
        * apply (Permutation_NoDup HP1 Hnd).
        * apply (Permutation_Forall HP1 Hdom).
  Qed.
End FoldPerm.

(* ------------------------------------------------------------------ shape A: dst[f(k)] = g(k) for every key k

   d2ast init (5 loops), d2compiler init (key = the VALUE of the ranged map), globContext.copyApplied (2),
   compiler.collectVariables (variables[name + "." + k] = v), textmeasure.NewAtlas (mapping[r] = glyph) *)

Definition smap (V : Type) := string -> option V.
Definition sset {V} (m : smap V) (k : string) (v : V) : smap V :=
  fun x => if String.eqb x k then Some v else m x.
Definition smap_eq {V} (a b : smap V) : Prop := forall x, a x = b x.

Section ShapeA.
  Context {V : Type}.
  Variable key_of : string -> string.       (* f *)
  Variable val_of : string -> V.            (* g *)
  Variable dom : string -> Prop.
  Hypothesis key_inj : forall a b, dom a -> dom b -> key_of a = key_of b -> a = b.

  Definition stepA (m : smap V) (k : string) : smap V := sset m (key_of k) (val_of k).

  Theorem shapeA_order_insensitive l l' (m : smap V) :
    Permutation l l' -> NoDup l -> Forall dom l ->
    smap_eq (fold_left stepA l m) (fold_left stepA l' m).
  Proof.
    intros HP Hnd Hd.
    apply (fold_perm stepA smap_eq dom); try assumption.
    - intros s x. reflexivity.
    - intros a b c H1 H2 x. rewrite H1. apply H2.
    - intros s s' k H x. unfold stepA, sset. destruct (String.eqb x (key_of k)); [reflexivity | apply H].
    - intros s a b Ha Hb Hab x. unfold stepA, sset.
      destruct (String.eqb x (key_of b)) eqn:Eb; destruct (String.eqb x (key_of a)) eqn:Ea; try reflexivity.
      apply String.eqb_eq in Eb. apply String.eqb_eq in Ea. exfalso. apply Hab.
      apply key_inj; try assumption. congruence.
    - intro x. reflexivity.
  Qed.
End ShapeA.

Lemma append_inj p a b : (p ++ a = p ++ b)%string -> a = b.
Proof. induction p as [|c p IH]; simpl; intro H; [exact H | inversion H; apply IH; assumption]. Qed.

(* collectVariables: the key written is  f.Name + "." + k *)
Lemma collect_key_inj prefix a b : (prefix ++ "." ++ a = prefix ++ "." ++ b)%string -> a = b.
Proof. intro H. apply append_inj in H. apply append_inj in H. exact H. Qed.

(* d2compiler init: FullToShortLanguageAliases[v] = k — needs the values of the (regenerated) table to be
   pairwise different *)
Fixpoint nodup_s (l : list string) : bool :=
  match l with
  | [] => true
  | x :: r => negb (existsb (String.eqb x) r) && nodup_s r
  end.

Definition alias_values_distinct : bool := nodup_s (map snd short_to_full_language_aliases).

(* ------------------------------------------------------------------ shape B: at most one key does anything

   Map.DeleteField:  for keywordHolder := range d2ast.ReservedKeywordHolders { if parent.Name == keywordHolder
   && ... { remove the holder from its parent map } } — the body acts for the one key equal to the parent's
   name and is the identity for every other key *)
Section ShapeB.
  Context {S : Type}.
  Variable name : string.
  Variable act : S -> S.
  Definition stepB (s : S) (k : string) : S := if String.eqb k name then act s else s.

  Theorem shapeB_order_insensitive l l' (s : S) :
    Permutation l l' -> NoDup l -> fold_left stepB l s = fold_left stepB l' s.
  Proof.
    intros HP Hnd.
    apply (fold_perm stepB eq (fun _ => True)); try assumption; try congruence.
    - intros s0 a b _ _ Hab. unfold stepB.
      destruct (String.eqb b name) eqn:Eb; destruct (String.eqb a name) eqn:Ea; reflexivity.
    - apply Forall_forall. intros. exact I.
  Qed.
End ShapeB.

(* ------------------------------------------------------------------ shape C: is there a key with property p?

   d2graph.CompareSerializedObject (used by tests and d2oracle comparisons, not by Compile): the loop
   returns an error at the first child that differs; WHICH child is named depends on the order, WHETHER an
   error is returned does not *)
Theorem shapeC_order_insensitive {K} (p : K -> bool) l l' :
  Permutation l l' -> existsb p l = existsb p l'.
Proof.
  intro HP. induction HP; simpl.
  - reflexivity.
  - rewrite IHHP. reflexivity.
  - destruct (p x), (p y); reflexivity.
  - congruence.
Qed.

(* ------------------------------------------------------------------ shape D (order-SENSITIVE): sequential text replacement

   lib/textmeasure.replaceVariables, pinned:  for k, v := range vars { s = strings.ReplaceAll(s, "${"+k+"}", v) }
   The text produced by one replacement is scanned by the following ones.  Model on token lists: a text
   is a list of tokens, a token is literal text or a reference ${k}. *)
Inductive tok := Lit (s : string) | Ref (k : string).

Definition tok_is_ref (k : string) (t : tok) : bool :=
  match t with Ref k' => String.eqb k k' | Lit _ => false end.

Definition replace1 (vars : string -> list tok) (s : list tok) (k : string) : list tok :=
  flat_map (fun t => if tok_is_ref k t then vars k else [t]) s.

Definition replace_seq (vars : string -> list tok) (order : list string) (s : list tok) : list tok :=
  fold_left (replace1 vars) order s.

(* vars: { a: '${b}'; b: X };  text  ${a} *)
Definition wit_vars (k : string) : list tok :=
  if String.eqb k "a" then [Ref "b"] else if String.eqb k "b" then [Lit "X"] else [].

Theorem shapeD_order_sensitive :
  exists vars l l' s, Permutation l l' /\ NoDup l /\ replace_seq vars l s <> replace_seq vars l' s.
Proof.
  exists wit_vars, ["a"; "b"], ["b"; "a"], [Ref "a"]. split; [apply perm_swap|]. split.
  - constructor; [intros [H|[]]; discriminate | constructor; [intros [] | constructor]].
  - vm_compute. discriminate.
Qed.

(* shape D repaired (coq/C08/fix.patch): every reference of the ORIGINAL text is replaced once, in one
   pass; nothing is rescanned, and the map is only looked up, never iterated *)
Definition replace_once (vars : string -> option (list tok)) (s : list tok) : list tok :=
  flat_map (fun t => match t with
                     | Ref k => match vars k with Some v => v | None => [t] end
                     | Lit _ => [t]
                     end) s.

(* ------------------------------------------------------------------ shape E: the keys are collected and then sorted

   (repaired replaceVariables, should it keep a loop over the map: keys := append(keys, k); sort.Strings) *)
Section ShapeE.
  Context {K : Type}.
  Variable lt : K -> K -> Prop.
  Hypothesis lt_asym : forall a b, lt a b -> ~ lt b a.

  (* whatever order the keys were collected in, the sorted list is the same *)
  Theorem shapeE_order_insensitive : forall l1 l2,
    Sorted.StronglySorted lt l1 -> Sorted.StronglySorted lt l2 -> Permutation l1 l2 -> l1 = l2.
  Proof.
    induction l1 as [|x r1 IH]; intros l2 S1 S2 HP.
    - apply Permutation_nil in HP. subst. reflexivity.
    - destruct l2 as [|y r2]; [apply Permutation_sym, Permutation_nil in HP; discriminate|].
      inversion S1 as [|? ? S1' A1]; subst. inversion S2 as [|? ? S2' A2]; subst.
      assert (Hin1 : In x (y :: r2)) by (apply (Permutation_in _ HP); left; reflexivity).
      assert (Hin2 : In y (x :: r1)) by (apply (Permutation_in _ (Permutation_sym HP)); left; reflexivity).
      assert (E : x = y).
      { destruct Hin1 as [E|Hin1]; [congruence|]. destruct Hin2 as [E|Hin2]; [congruence|].
        rewrite Forall_forall in A1, A2. exfalso. apply (lt_asym x y (A1 y Hin2) (A2 x Hin1)). }
      subst y. f_equal. apply IH; try assumption. apply (Permutation_cons_inv HP).
  Qed.
End ShapeE.

(* ------------------------------------------------------------------ the filing *)

Inductive shape := ShapeA | ShapeB | ShapeC | ShapeD_sensitive | ShapeE_sorted | NotAMap.

Definition site_eqb (a b : site) : bool :=
  let '(k1, f1, fn1, o1, e1, h1) := a in
  let '(k2, f2, fn2, o2, e2, h2) := b in
  String.eqb k1 k2 && String.eqb f1 f2 && String.eqb fn1 fn2 && Nat.eqb o1 o2 && String.eqb e1 e2 && String.eqb h1 h2.

Definition analysed_sites : list (site * shape) := [
  (("map", "d2ast/keywords.go", "init", 0%nat, "SimpleReservedKeywords", "8141e476a5ab"), ShapeA);
  (("map", "d2ast/keywords.go", "init", 1%nat, "StyleKeywords", "a5c348fc03ab"), ShapeA);
  (("map", "d2ast/keywords.go", "init", 2%nat, "ReservedKeywordHolders", "211b4320b003"), ShapeA);
  (("map", "d2ast/keywords.go", "init", 3%nat, "BoardKeywords", "126c8cde31dc"), ShapeA);
  (("map", "d2ast/keywords.go", "init", 4%nat, "CompositeReservedKeywords", "72040726e158"), ShapeA);
  (("map", "d2compiler/compile.go", "init", 0%nat, "ShortToFullLanguageAliases", "331d23fef1d9"), ShapeA);
  (("map", "d2graph/serde.go", "CompareSerializedObject", 0%nat, "obj.Children", "3ad0fb000bae"), ShapeC);
  (("map", "d2ir/compile.go", "compiler.collectVariables", 0%nat, "nestedVars", "2d0bc32f470e"), ShapeA);
  (("map", "d2ir/compile.go", "globContext.copyApplied", 0%nat, "from.appliedFields", "6a2aedbe3dbf"), ShapeA);
  (("map", "d2ir/compile.go", "globContext.copyApplied", 1%nat, "from.appliedEdges", "6ee7d37932ff"), ShapeA);
  (("map", "d2ir/d2ir.go", "Map.DeleteField", 0%nat, "d2ast.ReservedKeywordHolders", "7f30949e351c"), ShapeB);
  (("map", "lib/textmeasure/atlas.go", "NewAtlas", 0%nat, "fixedMapping", "b16cf35aa8b1"), ShapeA);
  (* pinned text of replaceVariables: order-sensitive (known finding C08-block-string-variable-replace-order) *)
  (("map", "lib/textmeasure/substitutions.go", "replaceVariables", 0%nat, "vars", "268d769c6caf"), ShapeD_sensitive);
  (* the same two loops after coq/C07/fix.patch (nil-Name guard inside the DeleteField loop: still shape B)
     and coq/C08/fix.patch (replaceVariables: `for k := range vars { keys = append(keys, k) }` followed by a
     sort with a total order on different strings: shape E) *)
  (("map", "d2ir/d2ir.go", "Map.DeleteField", 0%nat, "d2ast.ReservedKeywordHolders", "0bdeb9f09f41"), ShapeB);
  (("map", "lib/textmeasure/substitutions.go", "replaceVariables", 0%nat, "vars", "406155c19587"), ShapeE_sorted);
  (* uniseg.Graphemes.Runes() returns []rune; the operand type is not resolved because third-party modules
     are not type-checked.  (layout-time text measuring, not in Compile) *)
  (("unresolved", "lib/textmeasure/textmeasure.go", "Ruler.scaleUnicode", 0%nat, "gr.Runes()", "f24ea68da098"), NotAMap)
].

Definition shape_of (s : site) : option shape :=
  match find (fun p => site_eqb s (fst p)) analysed_sites with
  | Some p => Some (snd p)
  | None => None
  end.

Definition is_insensitive (sh : shape) : bool :=
  match sh with ShapeD_sensitive => false | _ => true end.

Definition inventory : list site :=
  map_range_sites ++ unresolved_range_sites ++ go_statement_sites ++ global_write_sites.

(* the sites of the inventory that are filed as order-sensitive (empty once fix.patch is in) *)
Definition sensitive_in_inventory : list site :=
  filter (fun s => match shape_of s with Some sh => negb (is_insensitive sh) | None => false end) inventory.
