(* C14 — proof that the import semantics of V.C14.Inline equals compiling the inlined text. *)
From Coq Require Import List NArith Bool Arith Lia.
Import ListNotations.
Require Import V.C14.Import V.C14.Inline.
Open Scope N_scope.

(* ------------------------------------------------------------------ induction over declarations *)

Section DeclInd.
  Variable P : decl -> Prop.
  Hypothesis HK : forall path prim body, (forall ds, body = Some ds -> Forall P ds) -> P (DKey path prim body).
  Hypothesis HE : forall s t prim body, (forall ds, body = Some ds -> Forall P ds) -> P (DEdge s t prim body).
  Hypothesis HS : forall f, P (DSpread f).
  Hypothesis HI : forall x f, P (DImport x f).

  Fixpoint decl_ind' (d : decl) : P d :=
    let list_ind := (fix go (l : list decl) : Forall P l :=
                       match l with
                       | [] => Forall_nil P
                       | x :: r => Forall_cons x (decl_ind' x) (go r)
                       end) in
    let body_ind (body : option (list decl)) : forall ds, body = Some ds -> Forall P ds :=
      match body with
      | None => fun ds E => match E with eq_refl => I end
      | Some l => fun ds E => match E in (_ = o) return (match o with Some ds' => Forall P ds' | None => True end)
                              with eq_refl => list_ind l end
      end in
    match d with
    | DKey path prim body => HK path prim body (body_ind body)
    | DEdge s t prim body => HE s t prim body (body_ind body)
    | DSpread f => HS f
    | DImport x f => HI x f
    end.
End DeclInd.

(* ------------------------------------------------------------------ unfolding with the top-level names *)

Definition sem_body (imp : str -> option imap) (body : option (list decl)) (n : node) : option node :=
  match body with
  | None => Some n
  | Some ds => option_map (set_map n) (sem_list imp ds (map_of n))
  end.

Lemma sem_decl_key imp path prim body m :
  sem_decl imp (DKey path prim body) m
  = match path with
    | [] => None
    | _ => with_path path (fun n => sem_body imp body (set_prim n prim)) m
    end.
Proof. reflexivity. Qed.

Lemma sem_decl_edge imp s t prim body m :
  sem_decl imp (DEdge s t prim body) m
  = obind (with_path [s] Some m) (fun m1 =>
    obind (with_path [t] Some m1) (fun m2 =>
    let k := (s, t, count_edges s t (snd m2)) in
    if has_ekey k (snd m2) then None
    else obind (sem_body imp body (set_prim empty_node prim)) (fun e =>
         Some (fst m2, snd m2 ++ [(k, e)])))).
Proof. reflexivity. Qed.

Definition flat_body (inl : str -> option (list decl)) (body : option (list decl)) : option (option (list decl)) :=
  match body with
  | None => Some None
  | Some ds => option_map Some (flat_list inl ds)
  end.

Lemma flat_decl_key inl path prim body :
  flat_decl inl (DKey path prim body) = option_map (fun b => [DKey path prim b]) (flat_body inl body).
Proof. reflexivity. Qed.

Lemma flat_decl_edge inl s t prim body :
  flat_decl inl (DEdge s t prim body) = option_map (fun b => [DEdge s t prim b]) (flat_body inl body).
Proof. reflexivity. Qed.

(* ------------------------------------------------------------------ small facts *)

Lemma sem_list_app imp a : forall b m,
  sem_list imp (a ++ b) m = obind (sem_list imp a m) (sem_list imp b).
Proof.
  induction a as [|d r IH]; intros b m; simpl; [reflexivity|].
  destruct (sem_decl imp d m) as [m1|]; simpl; [apply IH | reflexivity].
Qed.

Lemma append_fields_app ov : forall base r, append_fields base ov = Some r -> r = base ++ ov.
Proof.
  induction ov as [|[k n] t IH]; intros base r H; simpl in H.
  - inversion H. rewrite app_nil_r. reflexivity.
  - destruct (has_key k base); [discriminate|]. apply IH in H. rewrite <- app_assoc in H. exact H.
Qed.

Lemma append_edges_app ov : forall base r, append_edges base ov = Some r -> r = base ++ ov.
Proof.
  induction ov as [|[k n] t IH]; intros base r H; simpl in H.
  - inversion H. rewrite app_nil_r. reflexivity.
  - destruct (has_ekey k base); [discriminate|]. apply IH in H. rewrite <- app_assoc in H. exact H.
Qed.

Lemma overlay_fresh_empty ir c : overlay_fresh empty_map ir = Some c -> c = ir.
Proof.
  unfold overlay_fresh, empty_map. simpl. intro H.
  destruct (append_fields [] (fst ir)) as [f|] eqn:Ef; [|discriminate].
  destruct (append_edges [] (snd ir)) as [e|] eqn:Ee; [|discriminate].
  inversion H. apply append_fields_app in Ef. apply append_edges_app in Ee. simpl in *. subst.
  destruct ir; reflexivity.
Qed.

Lemma is_empty_eq m : is_empty m = true -> m = empty_map.
Proof. destruct m as [[|? ?] [|? ?]]; simpl; intro H; try discriminate. reflexivity. Qed.

(* upd_key / with_path call their function exactly once; a function that succeeds wherever another one
   does, with the same answer, can replace it *)
Lemma upd_key_mono k (f g : node -> option node) :
  (forall n n', f n = Some n' -> g n = Some n') ->
  forall l r, upd_key k f l = Some r -> upd_key k g l = Some r.
Proof.
  intros Hfg l. induction l as [|[k' n] t IH]; intros r H; simpl in *.
  - destruct (f empty_node) as [n'|] eqn:E; [|discriminate]. rewrite (Hfg _ _ E). exact H.
  - destruct (str_eqb k k').
    + destruct (f n) as [n'|] eqn:E; [|discriminate]. rewrite (Hfg _ _ E). exact H.
    + destruct (upd_key k f t) as [t'|] eqn:E; [|discriminate]. rewrite (IH _ eq_refl). exact H.
Qed.

Lemma with_path_mono path : forall (f g : node -> option node),
  (forall n n', f n = Some n' -> g n = Some n') ->
  forall m r, with_path path f m = Some r -> with_path path g m = Some r.
Proof.
  induction path as [|k rest IH]; intros f g Hfg m r H; simpl in *; [exact H|].
  destruct rest as [|k2 rest'].
  - destruct (upd_key k f (fst m)) as [fs|] eqn:E; [|discriminate].
    rewrite (upd_key_mono k f g Hfg _ _ E). exact H.
  - destruct (upd_key k (fun n => option_map (set_map n) (with_path (k2 :: rest') f (map_of n))) (fst m)) as [fs|] eqn:E;
      [|discriminate].
    assert (Hmono : forall n n',
               (fun n => option_map (set_map n) (with_path (k2 :: rest') f (map_of n))) n = Some n' ->
               (fun n => option_map (set_map n) (with_path (k2 :: rest') g (map_of n))) n = Some n').
    { intros n n' Hn. cbv beta in *.
      destruct (with_path (k2 :: rest') f (map_of n)) as [mm|] eqn:Ew; [|discriminate].
      rewrite (IH f g Hfg _ _ Ew). exact Hn. }
    rewrite (upd_key_mono k _ _ Hmono _ _ E). exact H.
Qed.

Lemma upd_key_called k (f : node -> option node) : forall l r,
  upd_key k f l = Some r -> exists n n', f n = Some n'.
Proof.
  induction l as [|[k' n] t IH]; intros r H; simpl in *.
  - destruct (f empty_node) as [n'|] eqn:E; [|discriminate]. exists empty_node, n'. exact E.
  - destruct (str_eqb k k').
    + destruct (f n) as [n'|] eqn:E; [|discriminate]. exists n, n'. exact E.
    + destruct (upd_key k f t) as [t'|] eqn:E; [|discriminate]. apply (IH _ eq_refl).
Qed.

Lemma with_path_called path : forall (f : node -> option node) m r,
  path <> [] -> with_path path f m = Some r -> exists n n', f n = Some n'.
Proof.
  induction path as [|k rest IH]; intros f m r Hne H; [congruence|]. simpl in H.
  destruct rest as [|k2 rest'].
  - destruct (upd_key k f (fst m)) as [fs|] eqn:E; [|discriminate]. apply (upd_key_called _ _ _ _ E).
  - destruct (upd_key k (fun n => option_map (set_map n) (with_path (k2 :: rest') f (map_of n))) (fst m)) as [fs|] eqn:E;
      [|discriminate].
    destruct (upd_key_called _ _ _ _ E) as [n [n' Hn]].
    destruct (with_path (k2 :: rest') f (map_of n)) as [mm|] eqn:Ew; [|discriminate].
    apply (IH f (map_of n) mm); [discriminate | exact Ew].
Qed.

Lemma upd_key_fresh k (f : node -> option node) : forall l,
  has_key k l = false -> upd_key k f l = option_map (fun n => l ++ [(k, n)]) (f empty_node).
Proof.
  induction l as [|[k' n] t IH]; intro H; simpl in *; [reflexivity|].
  apply orb_false_iff in H as [H1 H2]. rewrite H1. rewrite (IH H2).
  destruct (f empty_node); reflexivity.
Qed.

(* ------------------------------------------------------------------ the theorem *)

Section Main.
  Variable imp : str -> option imap.
  Variable inl : str -> option (list decl).
  (* every file that compiles has an inlined text that compiles, without any file, to the same map *)
  Hypothesis files_ok : forall p ir, imp p = Some ir -> exists c, inl p = Some c /\ pure c empty_map = Some ir.

  Definition decl_ok (d : decl) : Prop :=
    forall m r, sem_decl imp d m = Some r -> exists a, flat_decl inl d = Some a /\ pure a m = Some r.

  Lemma list_ok ds : Forall decl_ok ds ->
    forall m r, sem_list imp ds m = Some r -> exists a, flat_list inl ds = Some a /\ pure a m = Some r.
  Proof.
    induction 1 as [|d t Hd Ht IH]; intros m r H; simpl in *.
    - inversion H. exists []. split; reflexivity.
    - destruct (sem_decl imp d m) as [m1|] eqn:E; [|discriminate]. simpl in H.
      destruct (Hd m m1 E) as [a [Ha Hpa]]. destruct (IH m1 r H) as [b [Hb Hpb]].
      exists (a ++ b). rewrite Ha, Hb. simpl. split; [reflexivity|].
      unfold pure in *. rewrite sem_list_app, Hpa. simpl. exact Hpb.
  Qed.

  Lemma body_ok body : (forall ds, body = Some ds -> Forall decl_ok ds) ->
    forall n n', sem_body imp body n = Some n' ->
      exists b, flat_body inl body = Some b /\ sem_body no_files b n = Some n'.
  Proof.
    intros Hb n n' H. destruct body as [ds|]; simpl in *.
    - destruct (sem_list imp ds (map_of n)) as [mm|] eqn:E; [|discriminate].
      destruct (list_ok ds (Hb ds eq_refl) _ _ E) as [a [Ha Hpa]].
      exists (Some a). rewrite Ha. simpl. split; [reflexivity|]. unfold pure in Hpa. rewrite Hpa. exact H.
    - exists None. split; [reflexivity | exact H].
  Qed.

  Lemma pure_single d m : pure [d] m = sem_decl no_files d m.
  Proof. unfold pure. simpl. destruct (sem_decl no_files d m); reflexivity. Qed.

  Theorem all_decl_ok : forall d, decl_ok d.
  Proof.
    apply decl_ind'.
    - (* DKey *)
      intros path prim body Hb m r H. rewrite sem_decl_key in H.
      destruct path as [|k rest]; [discriminate|].
      destruct (with_path_called (k :: rest) _ m r ltac:(discriminate) H) as [n0 [n1 Hn]].
      destruct (body_ok body Hb _ _ Hn) as [b [Hfb _]].
      exists [DKey (k :: rest) prim b]. rewrite flat_decl_key, Hfb. split; [reflexivity|].
      rewrite pure_single, sem_decl_key.
      apply (with_path_mono (k :: rest) (fun n => sem_body imp body (set_prim n prim))); [|exact H].
      intros n n' Hn'. destruct (body_ok body Hb _ _ Hn') as [b' [Hfb' Hs]].
      rewrite Hfb in Hfb'. inversion Hfb'. subst. exact Hs.
    - (* DEdge *)
      intros s t prim body Hb m r H. rewrite sem_decl_edge in H.
      destruct (with_path [s] Some m) as [m1|] eqn:E1; [|discriminate]. cbn [obind] in H.
      destruct (with_path [t] Some m1) as [m2|] eqn:E2; [|discriminate]. cbn [obind] in H.
      cbv zeta in H.
      destruct (has_ekey (s, t, count_edges s t (snd m2)) (snd m2)) eqn:Ek; [discriminate|].
      destruct (sem_body imp body (set_prim empty_node prim)) as [e|] eqn:Ee; [|discriminate].
      destruct (body_ok body Hb _ _ Ee) as [b [Hfb Hs]].
      exists [DEdge s t prim b]. rewrite flat_decl_edge, Hfb. split; [reflexivity|].
      rewrite pure_single, sem_decl_edge, E1. cbn [obind]. rewrite E2. cbn [obind]. cbv zeta.
      rewrite Ek, Hs. exact H.
    - (* DSpread *)
      intros f m r H. simpl in H.
      destruct (is_empty m) eqn:Em; [|discriminate].
      destruct (imp f) as [ir|] eqn:Ei; [|discriminate]. simpl in H.
      apply is_empty_eq in Em. subst m. apply overlay_fresh_empty in H. subst r.
      destruct (files_ok f ir Ei) as [c [Hc Hp]]. exists c. simpl. split; assumption.
    - (* DImport *)
      intros x f m r H. simpl in H.
      destruct (has_key x (fst m)) eqn:Ex; [discriminate|].
      destruct (imp f) as [ir|] eqn:Ei; [|discriminate]. simpl in H.
      destruct (overlay_fresh empty_map ir) as [c0|] eqn:Eo; [|discriminate]. simpl in H.
      apply overlay_fresh_empty in Eo. subst c0.
      destruct (files_ok f ir Ei) as [c [Hc Hp]].
      exists [DKey [x] None (Some c)]. split.
      + change (flat_decl inl (DImport x f)) with (option_map (fun c => [DKey [x] None (Some c)]) (inl f)).
        rewrite Hc. reflexivity.
      + rewrite pure_single, sem_decl_key. cbn [with_path].
        rewrite (upd_key_fresh x _ (fst m) Ex).
        cbn [sem_body set_prim]. change (map_of empty_node) with empty_map.
        unfold pure in Hp. rewrite Hp. cbn [option_map]. exact H.
  Qed.
End Main.

(* files: induction on the nesting depth of imports *)
Lemma imp_files_ok fs : forall fuel p ir,
  imp_file fuel fs p = Some ir -> exists c, inl_file fuel fs p = Some c /\ pure c empty_map = Some ir.
Proof.
  induction fuel as [|fu IH]; intros p ir H; simpl in *; [discriminate|].
  destruct (content fs p) as [ds|]; [|discriminate]. simpl in *.
  apply (list_ok (imp_file fu fs) (inl_file fu fs) ds); [|exact H].
  apply Forall_forall. intros d _. apply all_decl_ok. exact IH.
Qed.

Theorem import_equiv_inline fuel fs ds m r :
  sem fuel fs ds m = Some r -> exists ds', flat fuel fs ds = Some ds' /\ pure ds' m = Some r.
Proof.
  unfold sem, flat. intro H.
  apply (list_ok (imp_file fuel fs) (inl_file fuel fs) ds); [|exact H].
  apply Forall_forall. intros d _. apply all_decl_ok. apply imp_files_ok.
Qed.

(* the two cases the property names, spelled out *)
Corollary spread_at_top_is_inlining fuel fs f rest r :
  sem fuel fs (DSpread f :: rest) empty_map = Some r ->
  exists c rest', inl_file fuel fs f = Some c /\ flat fuel fs rest = Some rest' /\ pure (c ++ rest') empty_map = Some r.
Proof.
  intro H. destruct (import_equiv_inline _ _ _ _ _ H) as [ds' [Hf Hp]].
  unfold flat in Hf. simpl in Hf.
  destruct (inl_file fuel fs f) as [c|]; [|discriminate]. simpl in Hf.
  destruct (flat_list (inl_file fuel fs) rest) as [rest'|] eqn:Er; [|discriminate]. simpl in Hf.
  inversion Hf. subst. exists c, rest'. split; [reflexivity|]. split; [exact Er | exact Hp].
Qed.

Corollary import_into_new_key_is_inlining fuel fs x f m r :
  sem fuel fs [DImport x f] m = Some r ->
  exists c, inl_file fuel fs f = Some c /\ pure [DKey [x] None (Some c)] m = Some r.
Proof.
  intro H. destruct (import_equiv_inline _ _ _ _ _ H) as [ds' [Hf Hp]].
  unfold flat in Hf. simpl in Hf.
  destruct (inl_file fuel fs f) as [c|]; [|discriminate]. simpl in Hf. inversion Hf. subst.
  exists c. split; [reflexivity | exact Hp].
Qed.
