(* C14 — Imports behave like inlining, and import cycles are always reported.  Statements only. *)
From Coq Require Import List NArith Bool.
Require Import V.C14.Dfs V.C14.Import V.C14.Proofs V.C14.Inline V.C14.InlineProofs.

(* ------------------------------------------------------------------ the import stack: all file sets, any size *)

(* invariant of pushImportStack / popImportStack: whenever a file is being compiled the import stack has
   no duplicates (and everything above the root entry was opened successfully) *)
Theorem C14_import_stack_nodup :
  forall (fs : fileset) (root : str) (root_imports : list imp) fuel evs errored,
    import_run true fuel fs root root_imports = Some (evs, errored) ->
    Forall (fun s => NoDup s /\ Forall (fun p => openable fs p = true) (tl s)) (stacks evs).
Proof. exact stack_invariant. Qed.

(* an import that resolves to a path on the stack yields exactly one error report (naming the part of the
   stack from that path on) and nothing is pushed, opened or expanded: no recursion *)
Theorem C14_cycle_always_reported :
  forall (fs : fileset) (root : str) (root_imports : list imp) fuel stack p errored,
    In p stack ->
    import_visit true (S fuel) fs root root_imports stack p errored
    = Some (cons (Cycle p (chain_from str_eqb p stack)) nil, true).
Proof. exact cycle_reported. Qed.

Theorem C14_reported_chain_shape :
  forall (stack : list str) p, In p stack ->
    (exists r, chain_from str_eqb p stack = p :: r) /\ (exists pre, stack = pre ++ chain_from str_eqb p stack).
Proof. exact chain_shape. Qed.

(* the stack is never deeper than the number of files + 1 *)
Theorem C14_import_depth_bounded :
  forall (fs : fileset) (root : str) (root_imports : list imp) fuel evs errored,
    import_run true fuel fs root root_imports = Some (evs, errored) ->
    Forall (fun s => (length s <= length fs + 1)%nat) (stacks evs).
Proof. exact depth_bounded. Qed.

(* hence import recursion terminates: nesting depth |files| + 1 is never exhausted *)
Theorem C14_import_recursion_terminates :
  forall (fs : fileset) (root : str) (root_imports : list imp),
    import_run true (S (length fs)) fs root root_imports <> None.
Proof. exact terminates. Qed.

(* full statement for the whole of d2ir: every expansion of an imported file goes through the stack test.
   Refuted for the pinned code: d2ir.peekImport (asked by IsContainer for `**` edge ends and `&leaf`)
   expands without the test; on index.d2 = `c: {...@index}` it exhausts every fuel *)
Theorem C14_peek_import_refuted :
  forall fuel stack,
    import_visit false fuel self_fs self_import_root (cons self_import nil) stack self_import_root false = None.
Proof. exact peek_never_finishes. Qed.

(* ------------------------------------------------------------------ importing is inlining (core fragment) *)

(* full statement: for every file set and root text of the whole language, the compiled diagram equals
   the one of the hand-inlined text up to positions, rebasing of links/icons and the `***` rule.
   Proved for the core fragment of V.C14.Inline (keys, primary values, maps, edges; spread import into a map
   that is still empty, value import into a key that does not exist yet; nested imports of any depth):
   whenever the import semantics yields a map, the inlined import-free text exists and compiles,
   without any file, to the same map. *)
Theorem C14_import_equiv_inline_partial :
  forall fuel (fs : files) (ds : list decl) (m r : imap),
    sem fuel fs ds m = Some r ->
    exists ds', flat fuel fs ds = Some ds' /\ pure ds' m = Some r.
Proof. exact import_equiv_inline. Qed.

(* "at the top of a file" *)
Theorem C14_spread_at_top_is_inlining :
  forall fuel (fs : files) f rest r,
    sem fuel fs (DSpread f :: rest) empty_map = Some r ->
    exists c rest', inl_file fuel fs f = Some c /\ flat fuel fs rest = Some rest'
                    /\ pure (c ++ rest') empty_map = Some r.
Proof. exact spread_at_top_is_inlining. Qed.

(* "into an otherwise empty map" *)
Theorem C14_import_into_new_key_is_inlining :
  forall fuel (fs : files) x f m r,
    sem fuel fs (cons (DImport x f) nil) m = Some r ->
    exists c, inl_file fuel fs f = Some c /\ pure (cons (DKey (cons x nil) None (Some c)) nil) m = Some r.
Proof. exact import_into_new_key_is_inlining. Qed.

(* non-vacuity: a two-file set on which the hypotheses hold *)
Example C14_import_hyps_satisfiable :
  exists r, sem 2 (cons (cons 120%N nil, cons (DKey (cons (cons 97%N nil) nil) (Some (cons 104%N nil)) None) nil) nil)
                (cons (DSpread (cons 120%N nil)) (cons (DImport (cons 113%N nil) (cons 120%N nil)) nil)) empty_map = Some r.
Proof. eexists. vm_compute. reflexivity. Qed.

Example C14_cycle_hyps_satisfiable :
  In self_import_root (cons self_import_root nil)
  /\ import_run true 2 self_fs self_import_root (cons self_import nil)
     = Some (cons (Cycle self_import_root (cons self_import_root nil)) nil, true).
Proof. split; [left; reflexivity | exact self_import_checked]. Qed.

Print Assumptions C14_import_stack_nodup.
Print Assumptions C14_cycle_always_reported.
Print Assumptions C14_reported_chain_shape.
Print Assumptions C14_import_depth_bounded.
Print Assumptions C14_import_recursion_terminates.
Print Assumptions C14_peek_import_refuted.
Print Assumptions C14_import_equiv_inline_partial.
Print Assumptions C14_spread_at_top_is_inlining.
Print Assumptions C14_import_into_new_key_is_inlining.
