(* C14 — proofs about the import stack (instances of V.C14.Dfs for V.C14.Import). *)
From Coq Require Import List NArith Bool Arith Lia.
Import ListNotations.
Require Import V.C14.Dfs V.C14.Import.
Open Scope N_scope.

Section Files.
  Variable fs : fileset.
  Variable root : str.
  Variable root_imports : list imp.

  Let op := openable fs.
  Let sc := succ_of fs root root_imports.

  (* invariant of pushImportStack / popImportStack: whenever a file is being compiled the stack has no
     duplicates, and everything above the root entry was opened successfully *)
  Lemma stack_invariant fuel evs f :
    import_run true fuel fs root root_imports = Some (evs, f) ->
    Forall (fun s => NoDup s /\ Forall (fun p => openable fs p = true) (tl s)) (stacks evs).
  Proof. intro H. exact (run_stacks_ok str_eqb str_eqb_eq op sc true fuel root evs f H). Qed.

  Lemma stack_nodup fuel evs f :
    import_run true fuel fs root root_imports = Some (evs, f) -> Forall (@NoDup str) (stacks evs).
  Proof.
    intro H. apply stack_invariant in H. rewrite Forall_forall in *. intros s Hs. apply (H s Hs).
  Qed.

  Lemma cycle_reported fuel stack p e :
    In p stack ->
    import_visit true (S fuel) fs root root_imports stack p e
    = Some ([Cycle p (chain_from str_eqb p stack)], true).
  Proof. intro H. exact (revisit_is_error str_eqb str_eqb_eq op sc true fuel stack p e H). Qed.

  Lemma depth_bounded fuel evs f :
    import_run true fuel fs root root_imports = Some (evs, f) ->
    Forall (fun s => (length s <= length fs + 1)%nat) (stacks evs).
  Proof.
    intro H.
    pose proof (run_depth_bounded str_eqb str_eqb_eq op sc (names fs) (openable_in_names fs) true fuel root evs f H) as Hd.
    rewrite Forall_forall in *. intros s Hs. specialize (Hd s Hs).
    unfold names in Hd. rewrite map_length in Hd. lia.
  Qed.

  Lemma terminates : import_run true (S (length fs)) fs root root_imports <> None.
  Proof.
    pose proof (run_terminates str_eqb str_eqb_eq op sc (names fs) (openable_in_names fs) true root) as H.
    unfold names in H. rewrite map_length in H. exact H.
  Qed.
End Files.

(* a reported chain starts at the revisited path and is the top part of the stack *)
Lemma chain_shape (stack : list str) p :
  In p stack ->
  (exists r, chain_from str_eqb p stack = p :: r) /\ (exists pre, stack = pre ++ chain_from str_eqb p stack).
Proof.
  intro H. split.
  - exact (chain_from_head str_eqb str_eqb_eq p stack H).
  - exact (chain_from_suffix str_eqb p stack).
Qed.

(* peekImport: the same expansion without the stack test.  index.d2 = `c: {...@index}` *)
Definition self_import_root : str := [105;110;100;101;120;46;100;50].      (* index.d2 *)
Definition self_import : imp := ([], [105;110;100;101;120]).                 (* @index *)
Definition self_fs : fileset := [(self_import_root, [self_import])].

Lemma self_import_resolves : resolve self_import_root [] [105;110;100;101;120] = Some self_import_root.
Proof. vm_compute. reflexivity. Qed.

Lemma peek_never_finishes : forall fuel stack,
  import_visit false fuel self_fs self_import_root [self_import] stack self_import_root false = None.
Proof.
  unfold import_visit. apply self_loop_never_finishes.
  - vm_compute. reflexivity.
  - vm_compute. left. reflexivity.
Qed.

(* with the stack test the same file set gives one report *)
Lemma self_import_checked :
  import_run true 2 self_fs self_import_root [self_import]
  = Some ([Cycle self_import_root [self_import_root]], true).
Proof. vm_compute. reflexivity. Qed.
