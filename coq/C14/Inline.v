(* C14 — importing is inlining, on the core fragment and for the two places the property names:
   a spread import `...@f` into a map that is still empty (top of a file, top of a map), and a value
   import `x: @f` into a key that does not exist yet.

   Modelled Go code (d2ir, restricted to the fragment below): compiler.compileMap (keys, edges, spread
   imports), compileKey / compileField / _compileField (key paths via Map.EnsureField, primary value, map
   value, non-spread import), compileEdges / createEdge (the index of a new edge is the number of existing
   edges with the same ends), compiler._import / __import (compile the imported file into a fresh root map),
   OverlayMap on the cases where no key of the overlay exists in the base.
   Fragment: keys with paths, primary values, nested maps, edges between single names with `->`, with an
   optional primary value and map; spread imports and value imports of whole files.  No globs, no
   substitutions, no null, no `_`, no board keywords, no reserved-keyword semantics (at IR level a reserved
   keyword is an ordinary key), names compared exactly (the generator uses lower-case ASCII names).
   Positions and references are not part of the IR value (the property is "up to positions").

   The semantics checks the two eligibility conditions while it runs and answers None when one fails (or
   when a file is missing / fuel runs out), so the theorem needs no syntactic side condition:
       sem fuel files ds m = Some r  ->  the inlined, import-free text [ds'] exists and compiles to r. *)
From Coq Require Import List NArith Bool Arith Lia.
Import ListNotations.
Require Import V.C14.Import.
Open Scope N_scope.

Definition ekey := (str * str * nat)%type.           (* src, dst, index *)

Inductive node := Node (prim : option str) (hasmap : bool) (fields : list (str * node)) (edges : list (ekey * node)).
Definition imap := (list (str * node) * list (ekey * node))%type.

Definition empty_map : imap := ([], []).
Definition empty_node : node := Node None false [] [].
Definition map_of (n : node) : imap := let 'Node _ _ f e := n in (f, e).
Definition set_map (n : node) (m : imap) : node := let 'Node p _ _ _ := n in Node p true (fst m) (snd m).
Definition set_prim (n : node) (p : option str) : node :=
  match p with None => n | Some _ => let 'Node _ h f e := n in Node p h f e end.
Definition is_empty (m : imap) : bool := match m with ([], []) => true | _ => false end.

Definition ekey_eqb (a b : ekey) : bool :=
  let '(s1, d1, i1) := a in let '(s2, d2, i2) := b in str_eqb s1 s2 && str_eqb d1 d2 && Nat.eqb i1 i2.

Definition has_key (k : str) (l : list (str * node)) : bool := existsb (fun p => str_eqb k (fst p)) l.
Definition has_ekey (k : ekey) (l : list (ekey * node)) : bool := existsb (fun p => ekey_eqb k (fst p)) l.

(* Map.EnsureField for one path element: update the field in place, or append a new one *)
Fixpoint upd_key (k : str) (f : node -> option node) (l : list (str * node)) : option (list (str * node)) :=
  match l with
  | [] => option_map (fun n => [(k, n)]) (f empty_node)
  | (k', n) :: r =>
      if str_eqb k k' then option_map (fun n' => (k', n') :: r) (f n)
      else option_map (cons (k', n)) (upd_key k f r)
  end.

(* a key path: every element but the last gets a map (EnsureField creates it when descending) *)
Fixpoint with_path (path : list str) (f : node -> option node) (m : imap) : option imap :=
  match path with
  | [] => Some m
  | k :: rest =>
      match rest with
      | [] => option_map (fun fs => (fs, snd m)) (upd_key k f (fst m))
      | _ => option_map (fun fs => (fs, snd m))
               (upd_key k (fun n => option_map (set_map n) (with_path rest f (map_of n))) (fst m))
      end
  end.

(* OverlayMap where nothing of the overlay exists in the base (otherwise: not eligible) *)
Fixpoint append_fields (base ov : list (str * node)) : option (list (str * node)) :=
  match ov with
  | [] => Some base
  | (k, n) :: r => if has_key k base then None else append_fields (base ++ [(k, n)]) r
  end.
Fixpoint append_edges (base ov : list (ekey * node)) : option (list (ekey * node)) :=
  match ov with
  | [] => Some base
  | (k, n) :: r => if has_ekey k base then None else append_edges (base ++ [(k, n)]) r
  end.
Definition overlay_fresh (base ov : imap) : option imap :=
  match append_fields (fst base) (fst ov), append_edges (snd base) (snd ov) with
  | Some f, Some e => Some (f, e)
  | _, _ => None
  end.

Definition count_edges (s d : str) (l : list (ekey * node)) : nat :=
  length (filter (fun p => let '(s', d', _) := fst p in str_eqb s s' && str_eqb d d') l).

(* ------------------------------------------------------------------ declarations *)

Inductive decl :=
| DKey (path : list str) (prim : option str) (body : option (list decl))
| DEdge (src dst : str) (prim : option str) (body : option (list decl))
| DSpread (f : str)                      (* ...@f : f is the resolved path (V.C14.Import.resolve) *)
| DImport (x : str) (f : str).           (* x: @f *)

Definition files := list (str * list decl).
Fixpoint content (fs : files) (p : str) : option (list decl) :=
  match fs with
  | [] => None
  | (q, ds) :: r => if str_eqb p q then Some ds else content r p
  end.

Definition obind {A B} (o : option A) (k : A -> option B) : option B :=
  match o with Some a => k a | None => None end.

(* compileMap: declarations one after the other *)
Section Sem.
  Variable fs : files.

  (* [imp p] compiles file p into a fresh root map (None: missing, ineligible inside, or out of fuel) *)
  Variable imp : str -> option imap.

  Fixpoint sem_decl (d : decl) (m : imap) {struct d} : option imap :=
    let sem_list := (fix go (ds : list decl) (m : imap) {struct ds} : option imap :=
                       match ds with
                       | [] => Some m
                       | d :: r => obind (sem_decl d m) (go r)
                       end) in
    let sem_body (body : option (list decl)) (n : node) : option node :=
      match body with
      | None => Some n
      | Some ds => option_map (set_map n) (sem_list ds (map_of n))
      end in
    match d with
    | DKey path prim body =>
        match path with
        | [] => None
        | _ => with_path path (fun n => sem_body body (set_prim n prim)) m
        end
    | DEdge s t prim body =>
        obind (with_path [s] Some m) (fun m1 =>
        obind (with_path [t] Some m1) (fun m2 =>
        let k := (s, t, count_edges s t (snd m2)) in
        if has_ekey k (snd m2) then None
        else obind (sem_body body (set_prim empty_node prim)) (fun e =>
             Some (fst m2, snd m2 ++ [(k, e)]))))
    | DSpread f =>
        if is_empty m then obind (imp f) (fun ir => overlay_fresh m ir) else None
    | DImport x f =>
        if has_key x (fst m) then None
        else obind (imp f) (fun ir =>
             obind (overlay_fresh empty_map ir) (fun c =>
             Some (fst m ++ [(x, set_map empty_node c)], snd m)))
    end.

  Fixpoint sem_list (ds : list decl) (m : imap) : option imap :=
    match ds with
    | [] => Some m
    | d :: r => obind (sem_decl d m) (sem_list r)
    end.
End Sem.

(* files are compiled with one unit of fuel per nesting level of imports (V.C14.Import shows that
   |files| + 1 levels are never exceeded when cycles are reported) *)
Fixpoint imp_file (fuel : nat) (fs : files) (p : str) : option imap :=
  match fuel with
  | O => None
  | S fuel' => obind (content fs p) (fun ds => sem_list (imp_file fuel' fs) ds empty_map)
  end.

Definition sem (fuel : nat) (fs : files) (ds : list decl) (m : imap) : option imap :=
  sem_list (imp_file fuel fs) ds m.

(* ------------------------------------------------------------------ the inliner *)

Section Flat.
  Variable inl : str -> option (list decl).     (* inlined content of a file *)

  Fixpoint flat_decl (d : decl) {struct d} : option (list decl) :=
    let flat_list := (fix go (ds : list decl) {struct ds} : option (list decl) :=
                        match ds with
                        | [] => Some []
                        | d :: r => obind (flat_decl d) (fun a => option_map (app a) (go r))
                        end) in
    let flat_body (body : option (list decl)) : option (option (list decl)) :=
      match body with
      | None => Some None
      | Some ds => option_map Some (flat_list ds)
      end in
    match d with
    | DKey path prim body => option_map (fun b => [DKey path prim b]) (flat_body body)
    | DEdge s t prim body => option_map (fun b => [DEdge s t prim b]) (flat_body body)
    | DSpread f => inl f
    | DImport x f => option_map (fun c => [DKey [x] None (Some c)]) (inl f)
    end.

  Fixpoint flat_list (ds : list decl) : option (list decl) :=
    match ds with
    | [] => Some []
    | d :: r => obind (flat_decl d) (fun a => option_map (app a) (flat_list r))
    end.
End Flat.

Fixpoint inl_file (fuel : nat) (fs : files) (p : str) : option (list decl) :=
  match fuel with
  | O => None
  | S fuel' => obind (content fs p) (flat_list (inl_file fuel' fs))
  end.

Definition flat (fuel : nat) (fs : files) (ds : list decl) : option (list decl) :=
  flat_list (inl_file fuel fs) ds.

(* compiling text without imports: no file is ever asked for *)
Definition no_files : str -> option imap := fun _ => None.
Definition pure (ds : list decl) (m : imap) : option imap := sem_list no_files ds m.

Fixpoint import_free (d : decl) : bool :=
  match d with
  | DKey _ _ body | DEdge _ _ _ body =>
      match body with
      | None => true
      | Some ds => (fix go (l : list decl) : bool := match l with [] => true | x :: r => import_free x && go r end) ds
      end
  | DSpread _ | DImport _ _ => false
  end.
