(* Executable checker for C14 cases (see harness/c14.go for how each kind is produced).

   codes:  1   the model differs from the implementation:
               Resolve: pushed path; Chain: the sequence of cycle / open-failure reports;
               Rebase: the rebased icon path
          10   no result from the compiler on a file set (crash, or no answer in the time bound): an
               import chain was followed instead of being reported
          11   the file set has a cyclic import chain (the stack model reports one) but the
               implementation reported no cycle error
          12   a reported chain is not of the form p -> ... -> p without other repetition, or is longer
               than the number of files + 2 entries (i.e. a stack deeper than files + 1)
          13   import version and inlined twin differ: different outcome class
          14   import version and inlined twin differ: different objects / connections / attributes *)
From Coq Require Import List NArith Bool Arith.
Import ListNotations.
Require Import V.Lib.RunCases V.C14.Dfs.
Require Export V.C14.Import V.C14.Inline.
Open Scope N_scope.

(* a projection line is passed as numbers of 7 bytes each (the bytes of the line, a terminating 1, zero
   padding; injective) *)
Inductive outcome := OGraph (lines : list (list N)) | OErrors (classes : list N) | OFail.

Inductive case :=
| Skip
| Resolve (top pre p0 : str) (impl : option str)
| Chain (root : str) (root_imports : list imp) (fs : fileset) (impl : option (list report))
| Inline (imported inlined : outcome)
| Rebase (dir val : str) (impl : option str)
  (* core fragment: declaration trees of the files (imports already resolved to file names), of the root,
     and the IR the real d2ir.Compile built for the root (fields, primaries, maps, edges with indices) *)
| Core (fs : files) (root : list decl) (impl : option imap).

(* ---- equality of IR values *)
Fixpoint node_eqb (a b : node) {struct a} : bool :=
  match a, b with
  | Node p1 h1 f1 e1, Node p2 h2 f2 e2 =>
      opt_eqb str_eqb p1 p2 && Bool.eqb h1 h2
      && (fix gof (l1 : list (str * node)) (l2 : list (str * node)) {struct l1} : bool :=
            match l1, l2 with
            | [], [] => true
            | (k1, n1) :: r1, (k2, n2) :: r2 => str_eqb k1 k2 && node_eqb n1 n2 && gof r1 r2
            | _, _ => false
            end) f1 f2
      && (fix goe (l1 : list (ekey * node)) (l2 : list (ekey * node)) {struct l1} : bool :=
            match l1, l2 with
            | [], [] => true
            | (k1, n1) :: r1, (k2, n2) :: r2 => ekey_eqb k1 k2 && node_eqb n1 n2 && goe r1 r2
            | _, _ => false
            end) e1 e2
  end.

Definition imap_eqb (a b : imap) : bool :=
  node_eqb (Node None true (fst a) (snd a)) (Node None true (fst b) (snd b)).

Definition report_eqb (a b : report) : bool :=
  match a, b with
  | RCycle x, RCycle y => list_eqb str_eqb x y
  | RFail x, RFail y => str_eqb x y
  | _, _ => false
  end.

Definition is_cycle (r : report) : bool := match r with RCycle _ => true | RFail _ => false end.

Fixpoint nodup_b (l : list str) : bool :=
  match l with
  | [] => true
  | x :: r => negb (existsb (str_eqb x) r) && nodup_b r
  end.

(* p -> q -> ... -> p : first = last, no other repetition, at most files + 1 distinct entries *)
Definition chain_ok (nfiles : nat) (r : report) : bool :=
  match r with
  | RFail _ => true
  | RCycle ch =>
      match ch with
      | [] => false
      | p :: rest =>
          match rev rest with
          | [] => false
          | q :: _ => str_eqb p q && nodup_b (removelast ch) && (length (removelast ch) <=? nfiles + 1)%nat
          end
      end
  end.

(* icon rebasing of extendLinks: val = path.Join(importDir, val) unless empty or remote
   (a URL scheme, or an absolute path) *)
Definition is_letter (c : N) : bool := ((65 <=? c) && (c <=? 90)) || ((97 <=? c) && (c <=? 122)).
Definition is_scheme_char (c : N) : bool :=
  is_letter c || ((48 <=? c) && (c <=? 57)) || (c =? 43) || (c =? 45) || (c =? 46).
Fixpoint scheme_rest (s : str) : bool :=
  match s with
  | [] => false
  | c :: r => if c =? 58 then true else if is_scheme_char c then scheme_rest r else false
  end.
Definition has_scheme (s : str) : bool :=
  match s with c :: r => is_letter c && scheme_rest r | [] => false end.
Definition rebase_icon (dir val : str) : str :=
  match val with
  | [] => val
  | _ => if has_scheme val || is_abs val then val else join2 dir val
  end.

Definition outcome_codes (a b : outcome) : list N :=
  match a, b with
  | OGraph x, OGraph y => flag (list_eqb (list_eqb N.eqb) x y) 14
  | OErrors _, OErrors _ => []
  | OFail, _ | _, OFail => [10]
  | _, _ => [13]
  end.

Definition check_case (c : case) : list N :=
  match c with
  | Skip => []
  | Resolve top pre p0 impl =>
      match impl with
      | Some p => flag (opt_eqb str_eqb (resolve (root_entry top) pre p0) (Some p)) 1
      | None => []      (* the compiler did not get as far as opening the file *)
      end
  | Chain root ris fs impl =>
      let model := import_run true (S (length fs)) fs (root_entry root) ris in
      match impl with
      | None => [10]
      | Some rs =>
          match model with
          | None => [1]
          | Some (evs, _) =>
              flag (list_eqb report_eqb (reports evs) rs) 1
              ++ flag (implb (existsb is_cycle (reports evs)) (existsb is_cycle rs)) 11
          end
          ++ flag (forallb (chain_ok (length fs)) rs) 12
      end
  | Inline a b => outcome_codes a b
  | Rebase dir val impl =>
      match impl with
      | Some p => flag (str_eqb (rebase_icon dir val) p) 1
      | None => []
      end
  | Core fs root impl =>
      let fuel := S (length fs) in
      match sem fuel fs root empty_map, impl with
      | Some m, Some r =>
          (* the import semantics is what d2ir built, and the inlined text compiles to the same map *)
          flag (imap_eqb m r) 1
          ++ flag (match flat fuel fs root with
                   | Some ds' => match pure ds' empty_map with Some m' => imap_eqb m' r | None => false end
                   | None => false
                   end) 1
      | _, _ => []                 (* not eligible (model) or no IR (implementation reported errors) *)
      end
  end.
