(* Depth-first expansion of references with a stack of the nodes being expanded.

   This is the common shape of
     - d2ir import compilation: compiler.pushImportStack / __import / popImportStack (nodes = cleaned
       import paths, successors = the imports of the file, in order);
     - d2compiler class application: compileMap -> GetClassMap -> compileMap (nodes = class names,
       successors = the classes the body of the class applies);
     - d2ir.peekImport, which expands imports WITHOUT looking at the stack.
   [check] says whether the "already on the stack?" test is performed before a node is expanded.
   [stop]  says whether an error reported earlier stops later expansions (d2ir.__import parses the
           imported file into the shared ParseError and gives up when that is non-empty, so after the first
           report a file is still pushed, tested and opened, but not expanded any more).
   A boolean "an error has been reported" is threaded through.
   Recursion is on fuel that is consumed by depth only (never by breadth); the termination theorems say
   which fuel is never exhausted. *)
From Coq Require Import List Arith Lia Bool.
Import ListNotations.

Section Dfs.
  Context {A : Type}.
  Variable eqb : A -> A -> bool.
  Hypothesis eqb_spec : forall a b, eqb a b = true <-> a = b.
  Variable openable : A -> bool.        (* the file can be opened / the class exists *)
  Variable succ : A -> list A.          (* what the node refers to, in source order *)

  Definition mem (a : A) (l : list A) : bool := existsb (eqb a) l.

  (* importStack[i:] for the first i with importStack[i] = a  (formatCyclicChain prints it) *)
  Fixpoint chain_from (a : A) (stack : list A) : list A :=
    match stack with
    | [] => []
    | x :: r => if eqb a x then stack else chain_from a r
    end.

  Inductive event :=
  | Enter (stack : list A)             (* node pushed, opened and expanded; stack after the push *)
  | Cycle (a : A) (chain : list A)     (* "detected cyclic import chain": error, nothing pushed *)
  | OpenFail (a : A)                   (* pushed, could not be opened, popped: error *)
  | Skipped (a : A)                    (* pushed, opened, not expanded because of an earlier error, popped *)
  | Leave (a : A).                     (* popped *)

  Definition st := (list event * bool)%type.

  Fixpoint seq_all (v : A -> bool -> option st) (l : list A) (e : bool) : option st :=
    match l with
    | [] => Some ([], e)
    | b :: r => match v b e with
                | None => None
                | Some (e1, f1) => match seq_all v r f1 with
                                   | None => None
                                   | Some (e2, f2) => Some (e1 ++ e2, f2)
                                   end
                end
    end.

  (* None = fuel exhausted *)
  Fixpoint visit (check stop : bool) (fuel : nat) (stack : list A) (a : A) (e : bool) : option st :=
    match fuel with
    | O => None
    | S fuel' =>
        if check && mem a stack then Some ([Cycle a (chain_from a stack)], true)
        else if negb (openable a) then Some ([OpenFail a], true)
        else if stop && e then Some ([Skipped a], e)
        else match seq_all (visit check stop fuel' (stack ++ [a])) (succ a) e with
             | None => None
             | Some (evs, f) => Some (Enter (stack ++ [a]) :: evs ++ [Leave a], f)
             end
    end.

  (* the root is pushed on the empty stack and its content is given, not opened *)
  Definition run (check stop : bool) (fuel : nat) (root : A) : option st :=
    seq_all (visit check stop fuel [root]) (succ root) false.

  Fixpoint stacks (evs : list event) : list (list A) :=
    match evs with
    | [] => []
    | Enter s :: r => s :: stacks r
    | _ :: r => stacks r
    end.

  (* ---------------------------------------------------------------- basic facts *)

  Lemma mem_In a l : mem a l = true <-> In a l.
  Proof.
    unfold mem. rewrite existsb_exists. split.
    - intros [x [Hx E]]. apply eqb_spec in E. subst. exact Hx.
    - intro H. exists a. split; [exact H | apply eqb_spec; reflexivity].
  Qed.

  Lemma mem_false a l : mem a l = false <-> ~ In a l.
  Proof.
    rewrite <- mem_In. destruct (mem a l); split; intro H.
    - discriminate.
    - exfalso. apply H. reflexivity.
    - intro. discriminate.
    - reflexivity.
  Qed.

  Lemma stacks_app e1 e2 : stacks (e1 ++ e2) = stacks e1 ++ stacks e2.
  Proof.
    induction e1 as [|e r IH]; simpl; [reflexivity|].
    destruct e; simpl; rewrite ?IH; reflexivity.
  Qed.

  Lemma seq_all_forall (P : list event -> Prop) (v : A -> bool -> option st) :
    P [] -> (forall x y, P x -> P y -> P (x ++ y)) ->
    forall l e evs f, (forall b e' evs' f', In b l -> v b e' = Some (evs', f') -> P evs') ->
                      seq_all v l e = Some (evs, f) -> P evs.
  Proof.
    intros P0 Papp l. induction l as [|b r IH]; simpl; intros e evs f Hv H.
    - inversion H. exact P0.
    - destruct (v b e) as [[e1 f1]|] eqn:E1; [|discriminate].
      destruct (seq_all v r f1) as [[e2 f2]|] eqn:E2; [|discriminate].
      inversion H; subst. apply Papp.
      + apply (Hv b e e1 f1); [left; reflexivity | exact E1].
      + apply (IH f1 e2 f); [|exact E2]. intros b' e' evs' f' Hin. apply Hv. right. exact Hin.
  Qed.

  Lemma seq_all_some (v : A -> bool -> option st) l :
    (forall b e, In b l -> v b e <> None) -> forall e, seq_all v l e <> None.
  Proof.
    induction l as [|b r IH]; simpl; intros H e; [discriminate|].
    destruct (v b e) as [[e1 f1]|] eqn:E; [|exfalso; apply (H b e); [left; reflexivity | exact E]].
    destruct (seq_all v r f1) as [[e2 f2]|] eqn:E2; [discriminate|].
    exfalso. apply (IH (fun b' e' Hin => H b' e' (or_intror Hin)) f1). exact E2.
  Qed.

  (* ---------------------------------------------------------------- the stack invariant *)

  (* every element but the bottom one was opened successfully, and no element occurs twice *)
  Definition stack_ok (s : list A) : Prop := NoDup s /\ Forall (fun a => openable a = true) (tl s).

  Lemma nodup_snoc (s : list A) a : NoDup s -> ~ In a s -> NoDup (s ++ [a]).
  Proof.
    induction s as [|x r IH]; simpl; intros Hnd Hni.
    - constructor; [intros [] | constructor].
    - inversion Hnd; subst. constructor.
      + intro Hin. apply in_app_or in Hin. destruct Hin as [Hin|[E|[]]]; [contradiction|].
        subst. apply Hni. left. reflexivity.
      + apply IH; [assumption | intro; apply Hni; right; assumption].
  Qed.

  Lemma stack_ok_push s a :
    s <> [] -> stack_ok s -> ~ In a s -> openable a = true -> stack_ok (s ++ [a]).
  Proof.
    intros Hne [Hnd Hop] Hni Ho. split.
    - apply nodup_snoc; assumption.
    - destruct s as [|x r]; [congruence|]. simpl in *. apply Forall_app. split; [exact Hop|].
      constructor; [exact Ho | constructor].
  Qed.

  Theorem visit_stacks_ok stop fuel : forall stack a e evs f,
    stack <> [] -> stack_ok stack -> visit true stop fuel stack a e = Some (evs, f) ->
    Forall stack_ok (stacks evs).
  Proof.
    induction fuel as [|fu IH]; intros stack a e evs f Hne Hok H; simpl in H; [discriminate|].
    destruct (mem a stack) eqn:Em; simpl in H.
    - inversion H; subst. simpl. constructor.
    - destruct (openable a) eqn:Eo; simpl in H.
      + destruct (stop && e).
        * inversion H; subst. simpl. constructor.
        * destruct (seq_all (visit true stop fu (stack ++ [a])) (succ a) e) as [[evs' f']|] eqn:Es; [|discriminate].
          inversion H; subst. simpl.
          assert (Hok' : stack_ok (stack ++ [a])).
          { apply stack_ok_push; try assumption. apply mem_false. exact Em. }
          constructor; [exact Hok'|].
          rewrite stacks_app. simpl. rewrite app_nil_r.
          apply (seq_all_forall (fun ev => Forall stack_ok (stacks ev)) (visit true stop fu (stack ++ [a])))
            with (l := succ a) (e := e) (f := f).
          -- simpl. constructor.
          -- intros x y Hx Hy. rewrite stacks_app. apply Forall_app. split; assumption.
          -- intros b e' evs'' f'' _ Hv. apply (IH (stack ++ [a]) b e' evs'' f''); try assumption.
             destruct stack; simpl; discriminate.
          -- exact Es.
      + inversion H; subst. simpl. constructor.
  Qed.

  (* ---------------------------------------------------------------- cycles *)

  Theorem revisit_is_error stop fuel stack a e :
    In a stack -> visit true stop (S fuel) stack a e = Some ([Cycle a (chain_from a stack)], true).
  Proof.
    intro H. simpl. apply mem_In in H. rewrite H. reflexivity.
  Qed.

  Lemma chain_from_head a stack : In a stack -> exists r, chain_from a stack = a :: r.
  Proof.
    induction stack as [|x r IH]; simpl; intro H; [contradiction|].
    destruct (eqb a x) eqn:E.
    - apply eqb_spec in E. subst. exists r. reflexivity.
    - destruct H as [H|H]; [subst; assert (eqb a a = true) by (apply eqb_spec; reflexivity); congruence|].
      apply IH. exact H.
  Qed.

  Lemma chain_from_suffix a stack : exists pre, stack = pre ++ chain_from a stack.
  Proof.
    induction stack as [|x r [pre IH]]; simpl.
    - exists []. reflexivity.
    - destruct (eqb a x); [exists []; reflexivity|].
      exists (x :: pre). simpl. rewrite <- IH. reflexivity.
  Qed.

  (* ---------------------------------------------------------------- depth bound and termination *)

  Variable universe : list A.
  Hypothesis universe_complete : forall a, openable a = true -> In a universe.

  Lemma stack_ok_length s : stack_ok s -> length s <= S (length universe).
  Proof.
    intros [Hnd Hop]. destruct s as [|x r]; simpl in *; [lia|].
    apply le_n_S. apply NoDup_incl_length.
    - inversion Hnd; assumption.
    - intros y Hy. apply universe_complete. rewrite Forall_forall in Hop. apply Hop. exact Hy.
  Qed.

  Definition free (stack : list A) : nat := length (filter (fun u => negb (mem u stack)) universe).

  Lemma free_le stack : free stack <= length universe.
  Proof.
    unfold free. generalize (fun u => negb (mem u stack)) as p. generalize universe as l.
    induction l as [|u r IH]; intro p; simpl; [lia|].
    specialize (IH p). destruct (p u); simpl; lia.
  Qed.

  Lemma filter_lt {B} (p q : B -> bool) (l : list B) (x : B) :
    (forall y, q y = true -> p y = true) -> In x l -> p x = true -> q x = false ->
    length (filter q l) < length (filter p l).
  Proof.
    intros Hpq. induction l as [|y r IH]; simpl; intros Hin Hp Hq; [contradiction|].
    assert (Hle : length (filter q r) <= length (filter p r)).
    { clear -Hpq. induction r as [|z r IH]; simpl; [lia|].
      destruct (q z) eqn:Eq; [rewrite (Hpq z Eq); simpl; lia|].
      destruct (p z); simpl; lia. }
    destruct Hin as [E|Hin].
    - subst y. rewrite Hp, Hq. simpl. lia.
    - specialize (IH Hin Hp Hq).
      destruct (q y) eqn:Eq; [rewrite (Hpq y Eq); simpl; lia|].
      destruct (p y); simpl; lia.
  Qed.

  Lemma free_push stack a :
    openable a = true -> mem a stack = false -> free (stack ++ [a]) < free stack.
  Proof.
    intros Ho Hm. unfold free. apply filter_lt with (x := a).
    - intros y Hy. apply negb_true_iff in Hy. apply negb_true_iff.
      unfold mem in *. rewrite existsb_app in Hy. apply orb_false_iff in Hy. tauto.
    - apply universe_complete. exact Ho.
    - rewrite Hm. reflexivity.
    - apply negb_false_iff. unfold mem. rewrite existsb_app. simpl.
      assert (eqb a a = true) by (apply eqb_spec; reflexivity). rewrite H. rewrite orb_true_r. reflexivity.
  Qed.

  Theorem visit_terminates stop fuel : forall stack a e,
    free stack < fuel -> visit true stop fuel stack a e <> None.
  Proof.
    induction fuel as [|fu IH]; intros stack a e Hf; [lia|]. simpl.
    destruct (mem a stack) eqn:Em; simpl; [discriminate|].
    destruct (openable a) eqn:Eo; simpl; [|discriminate].
    destruct (stop && e); [discriminate|].
    destruct (seq_all (visit true stop fu (stack ++ [a])) (succ a) e) as [[evs f]|] eqn:Es; [discriminate|].
    exfalso. revert Es. apply seq_all_some. intros b e' _. apply IH.
    pose proof (free_push stack a Eo Em). lia.
  Qed.

  Theorem run_terminates stop root : run true stop (S (length universe)) root <> None.
  Proof.
    unfold run. apply seq_all_some. intros b e _. apply visit_terminates.
    pose proof (free_le [root]). lia.
  Qed.

  Theorem run_stacks_ok stop fuel root evs f :
    run true stop fuel root = Some (evs, f) -> Forall stack_ok (stacks evs).
  Proof.
    unfold run. intro H.
    apply (seq_all_forall (fun ev => Forall stack_ok (stacks ev)) (visit true stop fuel [root]))
      with (l := succ root) (e := false) (f := f).
    - simpl. constructor.
    - intros x y Hx Hy. rewrite stacks_app. apply Forall_app. split; assumption.
    - intros b e' evs' f' _ Hv. apply (visit_stacks_ok stop fuel [root] b e' evs' f'); try assumption; [discriminate|].
      split; simpl; [constructor; [intros []|constructor] | constructor].
    - exact H.
  Qed.

  Theorem run_depth_bounded stop fuel root evs f :
    run true stop fuel root = Some (evs, f) ->
    Forall (fun s => length s <= S (length universe)) (stacks evs).
  Proof.
    intro H. apply run_stacks_ok in H. rewrite Forall_forall in *. intros s Hs.
    apply stack_ok_length. apply H. exact Hs.
  Qed.

End Dfs.

(* Without the on-stack test a node that refers to itself exhausts every fuel. *)
Section NoCheck.
  Context {A : Type}.
  Variable eqb : A -> A -> bool.

  Lemma seq_all_none (v : A -> bool -> option (@st A)) l b :
    In b l -> (forall e, v b e = None) -> forall e, seq_all v l e = None.
  Proof.
    induction l as [|x r IH]; simpl; intros Hin Hv e; [contradiction|].
    destruct Hin as [E|Hin].
    - subst. rewrite Hv. reflexivity.
    - destruct (v x e) as [[e1 f1]|]; [|reflexivity]. rewrite (IH Hin Hv f1). reflexivity.
  Qed.

  (* [stop = false], or no error so far: the expansion is attempted *)
  Theorem self_loop_never_finishes (openable : A -> bool) (succ : A -> list A) (a : A) :
    openable a = true -> In a (succ a) ->
    forall fuel stack, visit eqb openable succ false false fuel stack a false = None.
  Proof.
    intros Ho Hin. induction fuel as [|f IH]; intro stack; simpl; [reflexivity|].
    rewrite Ho. simpl.
    assert (H : forall fuel' stack' e, (fuel' = f) ->
                visit eqb openable succ false false fuel' stack' a e = None).
    { intros fuel' stack' e ->. clear IH. revert stack' e.
      induction f as [|g IHg]; intros stack' e; simpl; [reflexivity|].
      rewrite Ho. simpl.
      rewrite (seq_all_none (visit eqb openable succ false false g (stack' ++ [a])) (succ a) a Hin
                 (fun e' => IHg (stack' ++ [a]) e') e). reflexivity. }
    rewrite (seq_all_none (visit eqb openable succ false false f (stack ++ [a])) (succ a) a Hin
               (fun e' => H f (stack ++ [a]) e' eq_refl) false). reflexivity.
  Qed.
End NoCheck.
