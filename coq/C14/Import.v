(* C14 — the import stack of d2ir (import.go), over a small model of Go's package path.

   Modelled Go code:
     path.Clean / path.Join / path.Dir / path.Ext (slash-separated, lexical), filepath.IsAbs (unix);
     d2ast.Import.PathWithPre;
     d2ir compiler.pushImportStack (path computation, cycle test, formatCyclicChain),
     compiler.popImportStack, compiler.__import (push; open; compile content = expand its imports in
     source order; pop), d2ir.Compile (root pushed on the empty stack);
     d2ir.peekImport = the same expansion WITHOUT the stack (variant [check = false]).
   A file set is a finite list of (path, imports of the file in the order the compiler meets them);
   opening succeeds exactly for the listed paths (fs.FS semantics; no symlinks).  Everything else a
   file contains is irrelevant to the stack and is not part of this model. *)
From Coq Require Import List NArith Bool Arith Lia.
Import ListNotations.
Require Import V.C14.Dfs.
Open Scope N_scope.

Definition str := list N.

Fixpoint str_eqb (a b : str) : bool :=
  match a, b with
  | [], [] => true
  | x :: xs, y :: ys => (x =? y) && str_eqb xs ys
  | _, _ => false
  end.

Lemma str_eqb_eq a b : str_eqb a b = true <-> a = b.
Proof.
  revert b. induction a as [|x xs IH]; intros [|y ys]; simpl; split; intro H;
    try reflexivity; try discriminate.
  - apply andb_prop in H as [H1 H2]. apply N.eqb_eq in H1. apply IH in H2. congruence.
  - inversion H; subst. rewrite N.eqb_refl. simpl. apply IH. reflexivity.
Qed.

Definition cSLASH := 47.
Definition cDOT := 46.
Definition s_dot : str := [46].
Definition s_dotdot : str := [46; 46].
Definition s_slash : str := [47].
Definition s_d2ext : str := [46; 100; 50].        (* ".d2" *)

(* ------------------------------------------------------------------ package path *)

(* strings.Split(s, "/") *)
Fixpoint split_aux (s cur : str) : list str :=
  match s with
  | [] => [rev cur]
  | c :: r => if c =? cSLASH then rev cur :: split_aux r [] else split_aux r (c :: cur)
  end.
Definition split_slash (s : str) : list str := split_aux s [].

Fixpoint join_slash (l : list str) : str :=
  match l with
  | [] => []
  | [x] => x
  | x :: r => x ++ cSLASH :: join_slash r
  end.

Definition is_abs (s : str) : bool := match s with c :: _ => c =? cSLASH | [] => false end.

(* path.Clean: (ups, segs) = leading ".." elements that could not be resolved, then the ordinary elements
   (kept in reverse order while scanning) *)
Fixpoint clean_segs (rooted : bool) (l : list str) (ups : nat) (segs : list str) : nat * list str :=
  match l with
  | [] => (ups, rev segs)
  | e :: r =>
      if str_eqb e [] || str_eqb e s_dot then clean_segs rooted r ups segs
      else if str_eqb e s_dotdot then
        match segs with
        | _ :: segs' => clean_segs rooted r ups segs'
        | [] => if rooted then clean_segs rooted r ups [] else clean_segs rooted r (S ups) []
        end
      else clean_segs rooted r ups (e :: segs)
  end.

Definition clean (p : str) : str :=
  match p with
  | [] => s_dot
  | _ =>
      let rooted := is_abs p in
      let '(ups, segs) := clean_segs rooted (split_slash p) 0 [] in
      let body := join_slash (repeat s_dotdot ups ++ segs) in
      if rooted then cSLASH :: body
      else match body with [] => s_dot | _ => body end
  end.

(* path.Join(a, b) *)
Definition join2 (a b : str) : str :=
  match a, b with
  | [], [] => []
  | [], _ => clean b
  | _, _ => clean (a ++ cSLASH :: b)
  end.

(* index-free LastIndex: the part up to and including the last slash *)
Fixpoint upto_last_slash (p : str) : str :=
  match p with
  | [] => []
  | c :: r => let t := upto_last_slash r in
              match t with
              | [] => if c =? cSLASH then [c] else []
              | _ => c :: t
              end
  end.

(* path.Dir *)
Definition dir (p : str) : str := clean (upto_last_slash p).

(* path.Ext: from the last dot of the last element *)
Fixpoint ext_aux (p : str) : option str * bool :=   (* (extension found so far, slash seen to the right) *)
  match p with
  | [] => (None, false)
  | c :: r =>
      let '(e, sl) := ext_aux r in
      if sl then (e, true)
      else match e with
           | Some _ => (e, false)
           | None => if c =? cSLASH then (None, true)
                     else if c =? cDOT then (Some (c :: r), false) else (None, false)
           end
  end.
(* ext_aux scans from the right: the right-most dot of the last element wins *)
Definition ext (p : str) : str := match fst (ext_aux p) with Some e => e | None => [] end.

(* ------------------------------------------------------------------ pushImportStack: the path *)

(* d2ast.Import.PathWithPre for an import with a path *)
Definition path_with_pre (pre p0 : str) : str := join2 pre p0.

(* the path pushed for `@<pre><p0>` met in the file that was pushed as [top];
   None: "imports must specify a path to import" *)
Definition resolve (top pre p0 : str) : option str :=
  let ip := path_with_pre pre p0 in
  match ip with
  | [] => None
  | _ =>
      let ip := if str_eqb (ext ip) s_d2ext then ip else ip ++ s_d2ext in
      Some (if is_abs ip then ip else join2 (dir top) ip)
  end.

(* ------------------------------------------------------------------ file sets *)

Definition imp := (str * str)%type.                       (* Pre, Path[0] of one import *)
Definition fileset := list (str * list imp).

Fixpoint lookup (fs : fileset) (p : str) : option (list imp) :=
  match fs with
  | [] => None
  | (q, is) :: r => if str_eqb p q then Some is else lookup r p
  end.

Definition openable (fs : fileset) (p : str) : bool :=
  match lookup fs p with Some _ => true | None => false end.

(* the root's content is handed to the compiler directly: [root_imports]; its path is only a name *)
Definition succ_of (fs : fileset) (root : str) (root_imports : list imp) (p : str) : list str :=
  let is := if str_eqb p root then root_imports
            else match lookup fs p with Some is => is | None => [] end in
  flat_map (fun i => match resolve p (fst i) (snd i) with Some q => [q] | None => [] end) is.

Definition names (fs : fileset) : list str := map fst fs.

Definition ev := @event str.

(* d2ir.Compile pushes the root through the same PathWithPre (Pre = ""): the bottom entry of the stack
   is path.Join("", name of the root file) *)
Definition root_entry (root_name : str) : str := path_with_pre [] root_name.

(* d2ir.Compile on [root] (an entry as produced by root_entry) with imports resolved in [fs].
   [checked = true]: compiler.__import (stack test; an earlier report stops later expansions because the
   imported file is parsed into the shared ParseError).
   [checked = false]: d2ir.peekImport (no stack test; parses into a ParseError of its own).
   Result: events and whether an error was reported; None = fuel exhausted. *)
Definition import_run (checked : bool) (fuel : nat) (fs : fileset) (root : str) (root_imports : list imp)
  : option (list ev * bool) :=
  run str_eqb (openable fs) (succ_of fs root root_imports) checked checked fuel root.

Definition import_visit (checked : bool) (fuel : nat) (fs : fileset) (root : str) (root_imports : list imp)
           (stack : list str) (p : str) (errored : bool) : option (list ev * bool) :=
  visit str_eqb (openable fs) (succ_of fs root root_imports) checked checked fuel stack p errored.

Lemma openable_in_names fs p : openable fs p = true -> In p (names fs).
Proof.
  unfold openable, names. induction fs as [|[q is] r IH]; simpl; [discriminate|].
  destruct (str_eqb p q) eqn:E.
  - apply str_eqb_eq in E. subst. intros _. left. reflexivity.
  - intro H. right. apply IH. exact H.
Qed.

(* error events only, as the implementation reports them (in order) *)
Inductive report := RCycle (chain : list str) | RFail (p : str).

Fixpoint reports (evs : list ev) : list report :=
  match evs with
  | [] => []
  | Cycle a ch :: r => RCycle (ch ++ [a]) :: reports r      (* formatCyclicChain appends chain[0] = a *)
  | OpenFail a :: r => RFail a :: reports r
  | _ :: r => reports r
  end.
