From Coq Require Import List NArith Bool Lia.
Import ListNotations.
Require Import V.Gen.C05Tables V.C05.Model V.C05.Proofs.
Open Scope N_scope.

(* ------------------------------------------------------------------ one key segment through parseKey *)

Lemma parse_key_single r tl f v :
  is_space r = false -> (r =? cLP) = false -> (r =? cDOT) = false ->
  parse_string true (r :: tl) = POk (Some (f, v), []) ->
  (match f, v with SUnq, c :: _ => c =? cAT | _, _ => false end) = false ->
  parse_key (r :: tl) = POk [v].
Proof.
  intros Hsp Hlp Hdot Hps Hat. unfold parse_key.
  change (S (length (r :: tl))) with (S (S (length tl))).
  cbn [parse_key_loop]. rewrite (skip_space_nonspace r tl Hsp). cbn beta iota.
  rewrite Hlp, Hdot. cbn [orb]. rewrite Hps. rewrite Hat. reflexivity.
Qed.

Lemma parse_key_dq s : parse_key (cDQ :: escape_dq true s ++ [cDQ]) = POk [s].
Proof.
  apply (parse_key_single cDQ _ SDq s); try reflexivity.
  cbn [parse_string]. change (cDQ =? cDQ) with true. cbn iota.
  rewrite (scan_dq_escape true s [] []). reflexivity.
Qed.

Lemma parse_key_sq s : mem cNL s = false -> parse_key (cSQ :: escape_sq s ++ [cSQ]) = POk [s].
Proof.
  intro H. apply (parse_key_single cSQ _ SSq s); try reflexivity.
  cbn [parse_string]. change (cSQ =? cDQ) with false. change (cSQ =? cSQ) with true. cbn iota.
  rewrite (scan_sq_escape s [] [] H I). reflexivity.
Qed.

Lemma key_first r tl : key_needs_quote (r :: tl) = false -> r = cDASH \/ mem r key_specials = false.
Proof.
  cbn [key_needs_quote]. intro H.
  destruct ((r =? cDASH) && match tl with r2 :: _ => negb (r2 =? cDASH) | [] => false end) eqn:E.
  - apply andb_prop in E as [Ea _]. apply N.eqb_eq in Ea. left. exact Ea.
  - destruct (mem r key_specials); [discriminate H|right; reflexivity].
Qed.

Lemma parse_key_unq r tl :
  key_needs_quote (r :: tl) = false -> has_surrounding_ws (r :: tl) = false ->
  parse_key (r :: tl) = POk [r :: tl].
Proof.
  intros Hq Hws. destruct (surrounding_ws_false r tl Hws) as [Hsp Hlast].
  assert (F : (r =? cLP) = false /\ (r =? cDOT) = false /\ (r =? cDQ) = false /\ (r =? cSQ) = false
              /\ (r =? cPIPE) = false /\ (r =? cAT) = false).
  { destruct (key_first r tl Hq) as [E|M].
    - subst r. repeat split; reflexivity.
    - repeat split; [kneq M cLP|kneq M cDOT|kneq M cDQ|kneq M cSQ|kneq M cPIPE|kneq M cAT]. }
  destruct F as [F1 [F2 [F3 [F4 [F5 F6]]]]].
  apply (parse_key_single r tl SUnq (r :: tl)); try assumption.
  unfold parse_string. rewrite F3, F4, F5.
  rewrite (scan_unq_key (r :: tl) [] Hq). cbn [app].
  rewrite (trim_right_id (r :: tl)); [reflexivity|discriminate|exact Hlast].
Qed.

(* ------------------------------------------------------------------ key round trip *)

Lemma key_roundtrip s : key_hazard s = false -> parse_key (print_raw true s) = POk [s].
Proof.
  intro Hz. destruct s as [|r tl]; [vm_compute; reflexivity|].
  unfold key_hazard in Hz. unfold print_raw.
  remember (r :: tl) as s eqn:Es.
  assert (RF : raw_form s true =
    if equal_fold s w_null && negb (str_eqb s w_null) then FDq
    else if key_needs_quote s then (if negb (mem cDQ s) then FDq else if mem cNL s then FDq else FSq)
    else if has_surrounding_ws s then FDq else FUnq).
  { subst s. reflexivity. }
  rewrite RF in *. clear RF.
  destruct (equal_fold s w_null && negb (str_eqb s w_null)) eqn:E0.
  { apply parse_key_dq. }
  destruct (key_needs_quote s) eqn:E1.
  { destruct (negb (mem cDQ s)); [apply parse_key_dq|].
    destruct (mem cNL s) eqn:E2; [apply parse_key_dq|apply parse_key_sq; exact E2]. }
  destruct (has_surrounding_ws s) eqn:E2.
  { apply parse_key_dq. }
  (* unquoted *)
  cbn [print_str].
  destruct (equal_fold s w_null) eqn:E3.
  - (* exactly null *)
    cbn [andb] in E0. apply negb_false_iff in E0. apply str_eqb_eq in E0.
    rewrite E0. vm_compute. reflexivity.
  - assert (Esc : escape_unq true s = s).
    { subst s. unfold escape_unq. rewrite E3. apply escape_unq_go_key_id. exact E1. }
    rewrite Esc. unfold lower_kw. cbn [andb].
    destruct (is_reserved (lower_str s)) eqn:E4.
    + cbn [andb] in Hz. apply negb_false_iff in Hz. apply str_eqb_eq in Hz. rewrite Hz.
      subst s. apply parse_key_unq; assumption.
    + subst s. apply parse_key_unq; assumption.
Qed.

(* ------------------------------------------------------------------ value round trip *)

Definition is_strval (s : str) (v : value) : Prop := exists f, v = VStr f s.

Lemma parse_value_dq is_num s : parse_value is_num (cDQ :: escape_dq false s ++ [cDQ]) = POk (VStr SDq s).
Proof.
  unfold parse_value. rewrite skip_space_nonspace by reflexivity.
  change (cDQ =? cLB) with false. change (cDQ =? cLC) with false. change (cDQ =? cAT) with false. cbn [orb].
  cbn [parse_string]. change (cDQ =? cDQ) with true. cbn iota.
  rewrite (scan_dq_escape false s [] []). reflexivity.
Qed.

Lemma parse_value_sq is_num s : mem cNL s = false ->
  parse_value is_num (cSQ :: escape_sq s ++ [cSQ]) = POk (VStr SSq s).
Proof.
  intro H. unfold parse_value. rewrite skip_space_nonspace by reflexivity.
  change (cSQ =? cLB) with false. change (cSQ =? cLC) with false. change (cSQ =? cAT) with false. cbn [orb].
  cbn [parse_string]. change (cSQ =? cDQ) with false. change (cSQ =? cSQ) with true. cbn iota.
  rewrite (scan_sq_escape s [] [] H I). reflexivity.
Qed.

Lemma parse_value_unq is_num r tl :
  let s := r :: tl in
  no_vspecial s = true -> has_surrounding_ws s = false ->
  equal_fold s w_null = false -> equal_fold s w_suspend = false -> equal_fold s w_unsuspend = false ->
  equal_fold s w_true = false -> equal_fold s w_false = false ->
  parse_value is_num s = POk (if is_num s then VNum s else VStr SUnq s).
Proof.
  intros s Hv Hws N1 N2 N3 N4 N5. subst s.
  destruct (surrounding_ws_false r tl Hws) as [Hsp Hlast].
  assert (M : mem r value_specials = false).
  { unfold no_vspecial in Hv. cbn [existsb] in Hv. apply negb_true_iff in Hv.
    apply orb_false_elim in Hv as [M _]. exact M. }
  unfold parse_value. rewrite (skip_space_nonspace r tl Hsp).
  assert ((r =? cLB) = false) as -> by vneq M cLB.
  assert ((r =? cLC) = false) as -> by vneq M cLC.
  assert ((r =? cAT) = false) as -> by vneq M cAT.
  cbn [orb]. unfold parse_string.
  assert ((r =? cDQ) = false) as -> by vneq M cDQ.
  assert ((r =? cSQ) = false) as -> by vneq M cSQ.
  assert ((r =? cPIPE) = false) as -> by vneq M cPIPE.
  rewrite (scan_unq_val (r :: tl) [] Hv). cbn [app].
  rewrite (trim_right_id (r :: tl)); [|discriminate|exact Hlast].
  rewrite N1, N2, N3, N4, N5. destruct (is_num (r :: tl)); reflexivity.
Qed.

Lemma value_roundtrip is_num s : value_hazard s = false ->
  parse_value is_num (print_raw false s) = POk (VNum s) /\ is_num s = true
  \/ exists f, parse_value is_num (print_raw false s) = POk (VStr f s).
Proof.
  intro Hz. destruct s as [|r tl]; [right; exists SDq; vm_compute; reflexivity|].
  unfold value_hazard in Hz. unfold print_raw.
  remember (r :: tl) as s eqn:Es.
  assert (RF : raw_form s false =
    if is_value_keyword s || existsb (fun r => mem r value_specials) s
    then (if negb (mem cDQ s) && negb (mem cDOLLAR s) then FDq else if mem cNL s then FDq else FSq)
    else if has_surrounding_ws s then FDq else FUnq).
  { subst s. reflexivity. }
  rewrite RF in *. clear RF.
  destruct (is_value_keyword s || existsb (fun r => mem r value_specials) s) eqn:E0.
  { right. destruct (negb (mem cDQ s) && negb (mem cDOLLAR s)).
    - exists SDq. apply parse_value_dq.
    - destruct (mem cNL s) eqn:E2; [exists SDq; apply parse_value_dq|exists SSq; apply parse_value_sq; exact E2]. }
  destruct (has_surrounding_ws s) eqn:E1.
  { right. exists SDq. apply parse_value_dq. }
  (* unquoted *)
  apply orb_false_elim in E0 as [Ek Ev].
  apply orb_false_elim in Hz as [Ht Hf].
  unfold is_value_keyword in Ek.
  apply orb_false_elim in Ek as [Ek Ebool]. apply orb_false_elim in Ek as [Ek N3].
  apply orb_false_elim in Ek as [N1 N2].
  assert (N45 : equal_fold s w_true = false /\ equal_fold s w_false = false).
  { rewrite Ht, Hf in Ebool. cbn [negb] in Ebool. rewrite !andb_true_r in Ebool.
    apply orb_false_elim in Ebool. exact Ebool. }
  destruct N45 as [N4 N5].
  cbn [print_str].
  assert (Hv : no_vspecial s = true) by (unfold no_vspecial; rewrite Ev; reflexivity).
  assert (Esc : escape_unq false s = s).
  { subst s. unfold escape_unq. rewrite N1. apply escape_unq_go_val_id. exact Hv. }
  rewrite Esc. unfold lower_kw. cbn [andb].
  subst s. rewrite (parse_value_unq is_num r tl Hv E1 N1 N2 N3 N4 N5).
  destruct (is_num (r :: tl)) eqn:En; [left; split; reflexivity|right; exists SUnq; reflexivity].
Qed.

(* a value never turns into a null, boolean or suspension marker *)
Lemma value_never_marker is_num s : value_hazard s = false ->
  forall v, parse_value is_num (print_raw false s) = POk v ->
  v <> VNull /\ (forall b, v <> VSusp b) /\ (forall b, v <> VBool b).
Proof.
  intros Hz v Hv. destruct (value_roundtrip is_num s Hz) as [[E _]|[f E]];
    rewrite E in Hv; inversion Hv; subst; repeat split; intros; discriminate.
Qed.

(* ------------------------------------------------------------------ the hazards are real *)

Definition s_Shape : str := [83;104;97;112;101].
Lemma key_hazard_refutes : key_hazard s_Shape = true /\ parse_key (print_raw true s_Shape) <> POk [s_Shape].
Proof. split; [vm_compute; reflexivity|vm_compute; discriminate]. Qed.

Lemma value_hazard_refutes :
  value_hazard w_true = true /\ parse_value (fun _ => false) (print_raw false w_true) = POk (VBool true).
Proof. split; vm_compute; reflexivity. Qed.
