From Coq Require Import List NArith Bool Lia.
Import ListNotations.
Require Import V.Gen.C05Tables V.C05.Model.
Open Scope N_scope.

(* ------------------------------------------------------------------ basics *)

Lemma str_eqb_refl s : str_eqb s s = true.
Proof. induction s as [|x xs IH]; simpl; [reflexivity|]. rewrite N.eqb_refl, IH. reflexivity. Qed.

Lemma str_eqb_eq a b : str_eqb a b = true <-> a = b.
Proof.
  revert b; induction a as [|x xs IH]; intros [|y ys]; simpl; split; intro H;
    try reflexivity; try discriminate.
  - apply andb_prop in H as [H1 H2]. apply N.eqb_eq in H1. apply IH in H2. congruence.
  - inversion H; subst. rewrite N.eqb_refl. apply IH. reflexivity.
Qed.

Lemma mem_false_neq r c l : mem r l = false -> mem c l = true -> (r =? c) = false.
Proof.
  intros H1 H2. destruct (r =? c) eqn:E; [|reflexivity].
  apply N.eqb_eq in E. subst. congruence.
Qed.

Lemma app_assoc1 {A} (a : list A) x l : (a ++ [x]) ++ l = a ++ x :: l.
Proof. rewrite <- app_assoc. reflexivity. Qed.

(* The facts about the regenerated tables that the proofs rely on.  If a table in d2ast changes so
   that one of them fails, this lemma (and the theorems) stop checking. *)
Definition key_table_ok : bool :=
  forallb (fun c => mem c key_specials)
    [cNL; cSEMI; cHASH; cLC; cRC; cLB; cRB; cCOLON; cDOT; cLT; cGT; cAMP; cDASH; cSTAR; cBSL; cDQ; cSQ; cPIPE; cLP; cAT].
Definition value_table_ok : bool :=
  forallb (fun c => mem c value_specials)
    [cNL; cSEMI; cHASH; cLC; cRC; cLB; cRB; cDOLLAR; cBSL; cDQ; cSQ; cPIPE; cAT].

Lemma key_table : key_table_ok = true.   Proof. vm_compute. reflexivity. Qed.
Lemma value_table : value_table_ok = true. Proof. vm_compute. reflexivity. Qed.

Lemma key_special c : In c [cNL; cSEMI; cHASH; cLC; cRC; cLB; cRB; cCOLON; cDOT; cLT; cGT; cAMP; cDASH; cSTAR; cBSL; cDQ; cSQ; cPIPE; cLP; cAT] ->
  mem c key_specials = true.
Proof. intro H. exact (proj1 (forallb_forall _ _) key_table c H). Qed.
Lemma value_special c : In c [cNL; cSEMI; cHASH; cLC; cRC; cLB; cRB; cDOLLAR; cBSL; cDQ; cSQ; cPIPE; cAT] ->
  mem c value_specials = true.
Proof. intro H. exact (proj1 (forallb_forall _ _) value_table c H). Qed.

Ltac in_list := simpl; repeat (first [left; reflexivity | right]); fail.

Ltac kneq H c := apply (mem_false_neq _ c _ H); apply key_special; in_list.
Ltac vneq H c := apply (mem_false_neq _ c _ H); apply value_special; in_list.

(* ------------------------------------------------------------------ double quoted *)

Lemma decode_dq : decode_escape cDQ = cDQ /\ decode_escape cBSL = cBSL /\ decode_escape cDOLLAR = cDOLLAR
                  /\ decode_escape 110 = cNL.
Proof. repeat split. Qed.

Lemma scan_dq_escape inKey s : forall acc rest,
  scan_dq inKey (escape_dq inKey s ++ cDQ :: rest) acc = POk (acc ++ s, rest).
Proof.
  induction s as [|r tl IH]; intros acc rest.
  - simpl. rewrite app_nil_r. destruct inKey; reflexivity.
  - cbn [escape_dq].
    destruct ((r =? cDQ) || (r =? cBSL)) eqn:E1.
    +
      assert (D : decode_escape r = r /\ (r =? cNL) = false).
      { apply orb_prop in E1 as [E|E]; apply N.eqb_eq in E; subst; split; reflexivity. }
      destruct D as [D1 D2].
      change ((cBSL :: r :: escape_dq inKey tl) ++ cDQ :: rest) with (cBSL :: r :: (escape_dq inKey tl ++ cDQ :: rest)).
      cbn [scan_dq]. change (cBSL =? cNL) with false. change (cBSL =? cDOLLAR) with false.
      rewrite andb_false_r. change (cBSL =? cDQ) with false. change (cBSL =? cBSL) with true. cbn iota.
      rewrite D2, D1, IH, app_assoc1. reflexivity.
    + apply orb_false_elim in E1 as [E1a E1b].
      destruct (r =? cNL) eqn:E2.
      * change ((cBSL :: 110 :: escape_dq inKey tl) ++ cDQ :: rest) with (cBSL :: 110 :: (escape_dq inKey tl ++ cDQ :: rest)).
        cbn [scan_dq]. change (cBSL =? cNL) with false. change (cBSL =? cDOLLAR) with false.
        rewrite andb_false_r. change (cBSL =? cDQ) with false. change (cBSL =? cBSL) with true. cbn iota.
        change (110 =? cNL) with false. cbn iota. change (decode_escape 110) with cNL.
        apply N.eqb_eq in E2. subst r. rewrite IH, app_assoc1. reflexivity.
      * destruct (negb inKey && (r =? cDOLLAR)) eqn:E3.
        -- apply andb_prop in E3 as [E3a E3b]. apply N.eqb_eq in E3b. subst r.
           change ((cBSL :: cDOLLAR :: escape_dq inKey tl) ++ cDQ :: rest) with (cBSL :: cDOLLAR :: (escape_dq inKey tl ++ cDQ :: rest)).
           cbn [scan_dq]. change (cBSL =? cNL) with false. change (cBSL =? cDOLLAR) with false.
           rewrite andb_false_r. change (cBSL =? cDQ) with false. change (cBSL =? cBSL) with true. cbn iota.
           change (cDOLLAR =? cNL) with false. cbn iota. change (decode_escape cDOLLAR) with cDOLLAR.
           rewrite IH, app_assoc1. reflexivity.
        -- change ((r :: escape_dq inKey tl) ++ cDQ :: rest) with (r :: (escape_dq inKey tl ++ cDQ :: rest)).
           cbn [scan_dq]. rewrite E2, E3, E1a, E1b, IH, app_assoc1. reflexivity.
Qed.

(* ------------------------------------------------------------------ single quoted *)

Lemma escape_sq_hd_not_nl tl rest : mem cNL tl = false ->
  match escape_sq tl ++ cSQ :: rest with r2 :: _ => (r2 =? cNL) = false | [] => True end.
Proof.
  destruct tl as [|x xs]; intro H; [reflexivity|].
  simpl in H. apply orb_false_elim in H as [H1 _].
  cbn [escape_sq]. destruct (x =? cSQ) eqn:E1; [reflexivity|].
  destruct (x =? cNL) eqn:E2.
  - apply N.eqb_eq in E2. subst x. discriminate H1.
  - simpl. exact E2.
Qed.

Lemma scan_sq_escape s : forall acc rest,
  mem cNL s = false ->
  match rest with r :: _ => (r =? cSQ) = false | [] => True end ->
  scan_sq (escape_sq s ++ cSQ :: rest) acc = POk (acc ++ s, rest).
Proof.
  induction s as [|r tl IH]; intros acc rest Hnl Hrest.
  - simpl. rewrite app_nil_r. destruct rest as [|x xs]; [reflexivity|]. rewrite Hrest. reflexivity.
  - simpl in Hnl. apply orb_false_elim in Hnl as [H1 H2].
    assert (Rnl : (r =? cNL) = false) by (rewrite N.eqb_sym; exact H1).
    cbn [escape_sq]. destruct (r =? cSQ) eqn:E1.
    + apply N.eqb_eq in E1. subst r.
      change ((cSQ :: cSQ :: escape_sq tl) ++ cSQ :: rest) with (cSQ :: cSQ :: (escape_sq tl ++ cSQ :: rest)).
      cbn [scan_sq]. change (cSQ =? cNL) with false. change (cSQ =? cSQ) with true. cbn iota.
      rewrite IH by assumption. rewrite app_assoc1. reflexivity.
    + rewrite Rnl.
      change ((r :: escape_sq tl) ++ cSQ :: rest) with (r :: (escape_sq tl ++ cSQ :: rest)).
      cbn [scan_sq]. rewrite Rnl, E1.
      destruct (r =? cBSL) eqn:E2.
      * pose proof (escape_sq_hd_not_nl tl rest H2) as Hhd.
        destruct (escape_sq tl ++ cSQ :: rest) as [|r2 tl2] eqn:Etl.
        -- destruct (escape_sq tl); discriminate Etl.
        -- rewrite Hhd. rewrite <- Etl. rewrite IH by assumption. rewrite app_assoc1. reflexivity.
      * rewrite IH by assumption. rewrite app_assoc1. reflexivity.
Qed.

(* ------------------------------------------------------------------ unquoted, keys *)

Lemma escape_unq_go_key_id s : forall first, key_needs_quote s = false -> escape_unq_go true first s = s.
Proof.
  induction s as [|r tl IH]; intros first H; [reflexivity|].
  cbn [key_needs_quote] in H. cbn [escape_unq_go].
  destruct ((r =? cDASH) && match tl with r2 :: _ => negb (r2 =? cDASH) | [] => false end) eqn:E.
  - apply andb_prop in E as [Ea Eb]. apply N.eqb_eq in Ea. subst r.
    change (cDASH =? cSQ) with false. change (cDASH =? cDQ) with false. change (cDASH =? cPIPE) with false.
    change (cDASH =? cNL) with false. change (cDASH =? cDASH) with true. cbn [orb].
    destruct tl as [|r2 tl2]; [discriminate Eb|]. apply negb_true_iff in Eb. rewrite Eb.
    rewrite IH by exact H. reflexivity.
  - destruct (mem r key_specials) eqn:M; [discriminate H|].
    assert ((r =? cSQ) = false) as -> by kneq M cSQ.
    assert ((r =? cDQ) = false) as -> by kneq M cDQ.
    assert ((r =? cPIPE) = false) as -> by kneq M cPIPE.
    assert ((r =? cNL) = false) as -> by kneq M cNL.
    assert ((r =? cDASH) = false) as -> by kneq M cDASH.
    assert ((r =? cAMP) = false) as -> by kneq M cAMP.
    cbn [orb]. rewrite IH by exact H. reflexivity.
Qed.

Lemma scan_unq_key_plain r tl acc : mem r key_specials = false ->
  scan_unq true (r :: tl) acc = scan_unq true tl (acc ++ [r]).
Proof.
  intro M.
  assert (T : is_top_delim r = false).
  { unfold is_top_delim.
    assert ((r =? cNL) = false) as -> by kneq M cNL. assert ((r =? cSEMI) = false) as -> by kneq M cSEMI.
    assert ((r =? cHASH) = false) as -> by kneq M cHASH. assert ((r =? cLC) = false) as -> by kneq M cLC.
    assert ((r =? cRC) = false) as -> by kneq M cRC. assert ((r =? cLB) = false) as -> by kneq M cLB.
    assert ((r =? cRB) = false) as -> by kneq M cRB. reflexivity. }
  assert (K : is_key_delim r = false).
  { unfold is_key_delim.
    assert ((r =? cCOLON) = false) as -> by kneq M cCOLON. assert ((r =? cDOT) = false) as -> by kneq M cDOT.
    assert ((r =? cLT) = false) as -> by kneq M cLT. assert ((r =? cGT) = false) as -> by kneq M cGT.
    assert ((r =? cAMP) = false) as -> by kneq M cAMP. reflexivity. }
  assert (D : (r =? cDASH) = false) by kneq M cDASH.
  assert (B : (r =? cBSL) = false) by kneq M cBSL.
  cbn [scan_unq]. rewrite T, K, D, B. cbn [andb negb]. reflexivity.
Qed.

Lemma scan_unq_key s : forall acc, key_needs_quote s = false -> scan_unq true s acc = POk (acc ++ s, []).
Proof.
  induction s as [|r tl IH]; intros acc H.
  - simpl. rewrite app_nil_r. reflexivity.
  - cbn [key_needs_quote] in H.
    destruct ((r =? cDASH) && match tl with r2 :: _ => negb (r2 =? cDASH) | [] => false end) eqn:E.
    + apply andb_prop in E as [Ea Eb]. apply N.eqb_eq in Ea. subst r.
      destruct tl as [|r2 tl2]; [discriminate Eb|]. apply negb_true_iff in Eb.
      (* r2 is plain: it is not a dash, so key_needs_quote (r2 :: tl2) = false forces it out of the specials *)
      assert (M2 : mem r2 key_specials = false).
      { cbn [key_needs_quote] in H. rewrite Eb in H. cbn [andb] in H.
        destruct (mem r2 key_specials); [discriminate H|reflexivity]. }
      assert (T2 : is_top_delim r2 = false).
      { unfold is_top_delim.
        assert ((r2 =? cNL) = false) as -> by kneq M2 cNL. assert ((r2 =? cSEMI) = false) as -> by kneq M2 cSEMI.
        assert ((r2 =? cHASH) = false) as -> by kneq M2 cHASH. assert ((r2 =? cLC) = false) as -> by kneq M2 cLC.
        assert ((r2 =? cRC) = false) as -> by kneq M2 cRC. assert ((r2 =? cLB) = false) as -> by kneq M2 cLB.
        assert ((r2 =? cRB) = false) as -> by kneq M2 cRB. reflexivity. }
      assert (G2 : (r2 =? cGT) = false) by kneq M2 cGT.
      assert (S2 : (r2 =? cSTAR) = false) by kneq M2 cSTAR.
      assert (B2 : (r2 =? cBSL) = false) by kneq M2 cBSL.
      cbn [scan_unq]. change (is_top_delim cDASH) with false. change (is_key_delim cDASH) with false.
      change (cDASH =? cDASH) with true. cbn [andb].
      rewrite T2, Eb, G2, S2, B2. cbn [orb negb andb].
      (* = scan_unq true tl2 ((acc ++ [-]) ++ [r2]) = scan_unq true (r2 :: tl2) (acc ++ [-]) *)
      rewrite <- (scan_unq_key_plain r2 tl2 (acc ++ [cDASH]) M2).
      rewrite IH by exact H. rewrite app_assoc1. reflexivity.
    + destruct (mem r key_specials) eqn:M; [discriminate H|].
      rewrite scan_unq_key_plain by exact M. rewrite IH by exact H. rewrite app_assoc1. reflexivity.
Qed.

(* ------------------------------------------------------------------ unquoted, values *)

Definition no_vspecial (s : str) : bool := negb (existsb (fun r => mem r value_specials) s).

Lemma escape_unq_go_val_id s : forall first, no_vspecial s = true -> escape_unq_go false first s = s.
Proof.
  unfold no_vspecial. induction s as [|r tl IH]; intros first H; [reflexivity|].
  cbn [existsb] in H. apply negb_true_iff in H. apply orb_false_elim in H as [M H].
  cbn [escape_unq_go].
  assert ((r =? cSQ) = false) as -> by vneq M cSQ.
  assert ((r =? cDQ) = false) as -> by vneq M cDQ.
  assert ((r =? cPIPE) = false) as -> by vneq M cPIPE.
  assert ((r =? cNL) = false) as -> by vneq M cNL.
  cbn [orb]. rewrite M. rewrite IH; [reflexivity|]. apply negb_true_iff. exact H.
Qed.

Lemma scan_unq_val s : forall acc, no_vspecial s = true -> scan_unq false s acc = POk (acc ++ s, []).
Proof.
  unfold no_vspecial. induction s as [|r tl IH]; intros acc H.
  - simpl. rewrite app_nil_r. reflexivity.
  - cbn [existsb] in H. apply negb_true_iff in H. apply orb_false_elim in H as [M H].
    assert (T : is_top_delim r = false).
    { unfold is_top_delim.
      assert ((r =? cNL) = false) as -> by vneq M cNL. assert ((r =? cSEMI) = false) as -> by vneq M cSEMI.
      assert ((r =? cHASH) = false) as -> by vneq M cHASH. assert ((r =? cLC) = false) as -> by vneq M cLC.
      assert ((r =? cRC) = false) as -> by vneq M cRC. assert ((r =? cLB) = false) as -> by vneq M cLB.
      assert ((r =? cRB) = false) as -> by vneq M cRB. reflexivity. }
    assert (D : (r =? cDOLLAR) = false) by vneq M cDOLLAR.
    assert (B : (r =? cBSL) = false) by vneq M cBSL.
    cbn [scan_unq]. rewrite T, D, B. cbn [andb negb].
    rewrite IH by (apply negb_true_iff; exact H). rewrite app_assoc1. reflexivity.
Qed.

(* ------------------------------------------------------------------ trimming / spaces *)

Lemma trim_right_id s : s <> [] -> is_space (last s 0) = false -> trim_right s = s.
Proof.
  induction s as [|r tl IH]; intros Hne Hl; [congruence|].
  destruct tl as [|r2 tl2].
  - simpl in *. rewrite Hl. reflexivity.
  - assert (E : trim_right (r2 :: tl2) = r2 :: tl2).
    { apply IH; [discriminate|]. exact Hl. }
    change (trim_right (r :: r2 :: tl2)) with
      (match trim_right (r2 :: tl2) with [] => if is_space r then [] else [r] | t => r :: t end).
    rewrite E. reflexivity.
Qed.

Lemma skip_space_nonspace r tl : is_space r = false -> skip_space (r :: tl) false = (false, r :: tl).
Proof. intro H. simpl. rewrite H. reflexivity. Qed.

Lemma surrounding_ws_false r tl : has_surrounding_ws (r :: tl) = false ->
  is_space r = false /\ is_space (last (r :: tl) 0) = false.
Proof. unfold has_surrounding_ws. intro H. apply orb_false_elim in H. exact H. Qed.
