(* C05 — Strings survive quoting.  Statements only.
   print_raw inKey s  = d2format.Format of d2ast.RawString(s, inKey)
   parse_key / parse_value = d2parser.ParseKey / ParseValue (scalar part), see Model.v. *)
From Coq Require Import List NArith Bool.
Import ListNotations.
Require Import V.C05.Model V.C05.Proofs V.C05.Roundtrip.
Open Scope N_scope.

(* Every string (any runes, any length) written as a key segment parses back to exactly that string,
   unless it is a case variant of a reserved keyword that is written unquoted (key_hazard: the
   formatter lower-cases those; recorded finding C05-reserved-keyword-case-key). *)
Theorem C05_key_roundtrip :
  forall s : str, key_hazard s = false -> parse_key (print_raw true s) = POk [s].
Proof. exact key_roundtrip. Qed.

(* Every string written as a value parses back to a string node (or, for numerals, a number node whose
   raw text is s) holding exactly s; the only exception are the exact literals true/false
   (value_hazard; recorded finding C05-bool-literal).  [is_num] stands for big.Rat.SetString. *)
Theorem C05_value_roundtrip :
  forall (is_num : str -> bool) (s : str), value_hazard s = false ->
    (parse_value is_num (print_raw false s) = POk (VNum s) /\ is_num s = true)
    \/ (exists f, parse_value is_num (print_raw false s) = POk (VStr f s)).
Proof. exact value_roundtrip. Qed.

Theorem C05_value_never_null_bool_suspension :
  forall (is_num : str -> bool) (s : str), value_hazard s = false ->
    forall v, parse_value is_num (print_raw false s) = POk v ->
      v <> VNull /\ (forall b, v <> VSusp b) /\ (forall b, v <> VBool b).
Proof. exact value_never_marker. Qed.

(* The guards are necessary: the full statement is refuted on the faithful model. *)
Theorem C05_key_roundtrip_refuted_for_keyword_case :
  key_hazard s_Shape = true /\ parse_key (print_raw true s_Shape) <> POk [s_Shape].
Proof. exact key_hazard_refutes. Qed.

Theorem C05_value_roundtrip_refuted_for_bool_literal :
  value_hazard w_true = true /\ parse_value (fun _ => false) (print_raw false w_true) = POk (VBool true).
Proof. exact value_hazard_refutes. Qed.

(* non-vacuity: hostile strings satisfy the guards *)
Example C05_guards_satisfiable :
  key_hazard [110;117;108;108] = false /\ key_hazard [97;45;45;34;39;10] = false /\
  value_hazard [78;85;76;76] = false /\ value_hazard [83;117;115;112;101;110;100] = false /\
  value_hazard [36;123;120;125;34] = false.
Proof. vm_compute. repeat split. Qed.

Print Assumptions C05_key_roundtrip.
Print Assumptions C05_value_roundtrip.
Print Assumptions C05_value_never_null_bool_suspension.
Print Assumptions C05_key_roundtrip_refuted_for_keyword_case.
Print Assumptions C05_value_roundtrip_refuted_for_bool_literal.
