(* Executable checker for C05 cases. *)
From Coq Require Import List NArith Bool.
Import ListNotations.
Require Import V.Lib.RunCases V.C05.Model.
Open Scope N_scope.

(* implementation's view of a parsed value *)
Inductive ival := INull | ISusp (b : bool) | IBool (b : bool) | INum (raw : str)
                | IStr (f : N) (s : str)   (* 0 unquoted, 1 double, 2 single, 3 block *)
                | IOther | IErr.

Inductive case :=
| CKey (s printed : str) (parsed : option (list str)) (full_ok : bool)
    (* printed = Format(KeyPath[RawString(s,true)]); parsed = ParseKey(printed);
       full_ok: Parse("<printed>: 1") has exactly the key path [s] *)
| CVal (s printed : str) (parsed : ival) (isnum : bool) (full_ok : bool) (oracle_ok : bool)
    (* printed = Format(RawString(s,false)); parsed = ParseValue(printed); isnum = big.Rat accepts s;
       full_ok: Parse("x: <printed>") gives x a string (or number with raw s) equal to s;
       oracle_ok: d2oracle.Set(x.label := s) on "x" compiles to an object whose label is s *)
| CParseKey (text : str) (parsed : option (list str))
| CParseVal (text : str) (parsed : ival) (isnum : bool).

Definition sform_code (f : sform) : N := match f with SUnq => 0 | SDq => 1 | SSq => 2 end.

Definition ival_eqb (a b : ival) : bool :=
  match a, b with
  | INull, INull => true
  | ISusp x, ISusp y => Bool.eqb x y
  | IBool x, IBool y => Bool.eqb x y
  | INum x, INum y => str_eqb x y
  | IStr f x, IStr g y => (f =? g) && str_eqb x y
  | IOther, IOther => true
  | IErr, IErr => true
  | _, _ => false
  end.

Definition of_value (v : value) : ival :=
  match v with
  | VNull => INull | VSusp b => ISusp b | VBool b => IBool b | VNum r => INum r
  | VStr f s => IStr (sform_code f) s
  end.

(* model parse vs implementation parse; PUns = outside the model: not compared *)
Definition key_corr0 (text : str) (parsed : option (list str)) : bool :=
  match parse_key text with
  | PUns => true
  | PErr => match parsed with None => true | _ => false end
  | POk p => match parsed with Some q => list_eqb str_eqb p q | None => false end
  end.

(* parseUnquotedString reports "unquoted strings cannot begin with ...@" (import spread syntax): imports are
   outside this model, such texts are not compared *)
Fixpoint starts_spread_import (l : str) : bool :=
  match l with
  | a :: tl => (match tl with
                | b :: c :: d :: _ => (a =? cDOT) && (b =? cDOT) && (c =? cDOT) && (d =? cAT)
                | _ => false
                end) || starts_spread_import tl
  | [] => false
  end.
(* (any occurrence of "...@": leading dots are re-read by parseString, so the prefix test can fire mid-text) *)

Definition key_corr (text : str) (parsed : option (list str)) : bool :=
  if starts_spread_import text then true else key_corr0 text parsed.

Definition val_corr (text : str) (parsed : ival) (isnum : bool) : bool :=
  if starts_spread_import text then true else
  match parse_value (fun _ => isnum) text with
  | PUns => true
  | PErr => ival_eqb parsed IErr
  | POk v => ival_eqb (of_value v) parsed
  end.

Definition check_case (c : case) : list N :=
  match c with
  | CKey s printed parsed full_ok =>
      flag (str_eqb (print_raw true s) printed) 1
      ++ flag (key_corr printed parsed) 1
      ++ flag (match parsed with Some [p] => str_eqb p s | _ => false end) 10
      ++ flag full_ok 12
  | CVal s printed parsed isnum full_ok oracle_ok =>
      flag (str_eqb (print_raw false s) printed) 1
      ++ flag (val_corr printed parsed isnum) 1
      ++ flag (match parsed with
               | IStr _ p => str_eqb p s
               | INum p => str_eqb p s
               | _ => false end) 11
      ++ flag full_ok 12 ++ flag oracle_ok 13
  | CParseKey text parsed => flag (key_corr text parsed) 1
  | CParseVal text parsed isnum => flag (val_corr text parsed isnum) 1
  end.
