(* C05 — strings survive quoting.
   Model of d2ast.RawString, d2format's three escape functions and the printing of the three string
   nodes (incl. the keyword lower-casing of unquoted strings in interpolationBoxes), and of the parser
   paths that read them back: parseKey / parseString / parseUnquotedString / parseDoubleQuotedString /
   parseSingleQuotedString / decodeEscape / the scalar classification of parseValue.
   Strings are lists of runes (what Go's `for _, r := range s` yields); runes are N.
   The special-character sets and the reserved keyword table come from V.Gen.C05Tables, regenerated
   from the linked d2ast package on every run. *)
From Coq Require Import List NArith Bool.
Import ListNotations.
Require Import V.Gen.C05Tables.
Open Scope N_scope.

Definition str := list N.

Definition mem (r : N) (l : list N) : bool := existsb (N.eqb r) l.

Fixpoint str_eqb (a b : str) : bool :=
  match a, b with
  | [], [] => true
  | x :: xs, y :: ys => (x =? y) && str_eqb xs ys
  | _, _ => false
  end.

(* rune constants *)
Definition cNL := 10.  Definition cSP := 32.  Definition cDQ := 34.  Definition cHASH := 35.
Definition cDOLLAR := 36. Definition cAMP := 38. Definition cSQ := 39. Definition cLP := 40.
Definition cSTAR := 42. Definition cDASH := 45. Definition cDOT := 46. Definition cCOLON := 58.
Definition cSEMI := 59. Definition cLT := 60. Definition cGT := 62. Definition cAT := 64.
Definition cLB := 91. Definition cBSL := 92. Definition cRB := 93. Definition cLC := 123.
Definition cPIPE := 124. Definition cRC := 125.

(* unicode.IsSpace *)
Definition is_space (r : N) : bool :=
  ((9 <=? r) && (r <=? 13)) || (r =? 32) || (r =? 133) || (r =? 160) || (r =? 5760)
  || ((8192 <=? r) && (r <=? 8202)) || (r =? 8232) || (r =? 8233) || (r =? 8239) || (r =? 8287)
  || (r =? 12288).

(* unicode.ToLower restricted to what decides equality with an ASCII word: A-Z, and the two non-ASCII
   runes whose lower case is ASCII (U+0130 -> i, U+212A KELVIN -> k); other runes map to themselves
   here (their true image is never ASCII). *)
Definition lower_a (r : N) : N :=
  if (65 <=? r) && (r <=? 90) then r + 32
  else if r =? 304 then 105 else if r =? 8490 then 107 else r.
(* true ToLower changes a rune? (needed to know whether strings.ToLower(raw) differs from raw):
   the formatter replaces raw by ToLower(raw) only when that is a reserved keyword, all ASCII. *)
Definition lower_str (s : str) : str := map lower_a s.

(* simple case folding as strings.EqualFold applies it against an ASCII lower-case word:
   A-Z, U+017F (long s) ~ s, U+212A ~ k *)
Definition fold_a (r : N) : N :=
  if (65 <=? r) && (r <=? 90) then r + 32
  else if r =? 383 then 115 else if r =? 8490 then 107 else r.
Definition equal_fold (s w : str) : bool := str_eqb (map fold_a s) w.

Definition w_null : str := [110;117;108;108].
Definition w_true : str := [116;114;117;101].
Definition w_false : str := [102;97;108;115;101].
Definition w_suspend : str := [115;117;115;112;101;110;100].
Definition w_unsuspend : str := [117;110;115;117;115;112;101;110;100].

Definition is_reserved (s : str) : bool := existsb (str_eqb s) reserved_keywords.

(* ------------------------------------------------------------------ RawString *)

Inductive form := FUnq | FDq | FSq.

Fixpoint key_needs_quote (s : str) : bool :=
  match s with
  | [] => false
  | r :: tl =>
      if (r =? cDASH) && match tl with r2 :: _ => negb (r2 =? cDASH) | [] => false end
      then key_needs_quote tl
      else if mem r key_specials then true else key_needs_quote tl
  end.

Definition has_surrounding_ws (s : str) : bool :=
  match s with
  | [] => false
  | r :: _ => is_space r || is_space (last s 0)
  end.

(* isUnquotedValueKeyword: words the parser would classify as null / suspension / boolean; the exact
   literals true and false stay unquoted (their scalar string survives). *)
Definition is_value_keyword (s : str) : bool :=
  equal_fold s w_null || equal_fold s w_suspend || equal_fold s w_unsuspend
  || ((equal_fold s w_true || equal_fold s w_false) && negb (str_eqb s w_true) && negb (str_eqb s w_false)).

Definition raw_form (s : str) (inKey : bool) : form :=
  match s with
  | [] => FDq
  | _ =>
    if inKey then
      if equal_fold s w_null && negb (str_eqb s w_null) then FDq
      else if key_needs_quote s then
        (if negb (mem cDQ s) then FDq else if mem cNL s then FDq else FSq)
      else if has_surrounding_ws s then FDq else FUnq
    else
      if is_value_keyword s || existsb (fun r => mem r value_specials) s
      then (if negb (mem cDQ s) && negb (mem cDOLLAR s) then FDq else if mem cNL s then FDq else FSq)
      else if has_surrounding_ws s then FDq else FUnq
  end.

(* ------------------------------------------------------------------ escaping / printing *)

Fixpoint escape_sq (s : str) : str :=
  match s with
  | [] => []
  | r :: tl =>
      if r =? cSQ then cSQ :: cSQ :: escape_sq tl
      else if r =? cNL then cBSL :: 110 :: escape_sq tl
      else r :: escape_sq tl
  end.

Fixpoint escape_dq (inKey : bool) (s : str) : str :=
  match s with
  | [] => []
  | r :: tl =>
      if (r =? cDQ) || (r =? cBSL) then cBSL :: r :: escape_dq inKey tl
      else if r =? cNL then cBSL :: 110 :: escape_dq inKey tl
      else if negb inKey && (r =? cDOLLAR) then cBSL :: r :: escape_dq inKey tl
      else r :: escape_dq inKey tl
  end.

Fixpoint escape_unq_go (inKey : bool) (first : bool) (s : str) : str :=
  match s with
  | [] => []
  | r :: tl =>
      let rest := escape_unq_go inKey false tl in
      if (r =? cSQ) || (r =? cDQ) || (r =? cPIPE) then
        (if first then cBSL :: r :: rest else r :: rest)
      else if r =? cNL then cBSL :: 110 :: rest
      else if inKey then
        if r =? cDASH then
          (if match tl with r2 :: _ => r2 =? cDASH | [] => false end then cBSL :: r :: rest else r :: rest)
        else if r =? cAMP then (if first then cBSL :: r :: rest else r :: rest)
        else if mem r key_specials then cBSL :: r :: rest else r :: rest
      else if mem r value_specials then cBSL :: r :: rest else r :: rest
  end.

Definition escape_unq (inKey : bool) (s : str) : str :=
  match s with
  | [] => [cDQ; cDQ]
  | _ => if equal_fold s w_null then cSQ :: w_null ++ [cSQ] else escape_unq_go inKey true s
  end.

(* interpolationBoxes: in a key, an unquoted raw string whose lower case is a reserved keyword is lower-cased *)
Definition lower_kw (inKey : bool) (raw : str) : str :=
  if inKey && is_reserved (lower_str raw) then lower_str raw else raw.

Definition print_str (f : form) (inKey : bool) (s : str) : str :=
  match f with
  | FUnq => lower_kw inKey (escape_unq inKey s)
  | FDq => cDQ :: escape_dq inKey s ++ [cDQ]
  | FSq => cSQ :: escape_sq s ++ [cSQ]
  end.

Definition print_raw (inKey : bool) (s : str) : str := print_str (raw_form s inKey) inKey s.

(* ------------------------------------------------------------------ parsing back *)

Inductive pres (A : Type) := POk (a : A) | PErr | PUns.  (* PUns: construct outside this model *)
Arguments POk {A}. Arguments PErr {A}. Arguments PUns {A}.

Definition decode_escape (r : N) : N :=
  if r =? 97 then 7 else if r =? 98 then 8 else if r =? 102 then 12 else if r =? 110 then 10
  else if r =? 114 then 13 else if r =? 116 then 9 else if r =? 118 then 11 else r.

Definition is_top_delim (r : N) : bool :=
  (r =? cNL) || (r =? cSEMI) || (r =? cHASH) || (r =? cLC) || (r =? cRC) || (r =? cLB) || (r =? cRB).
Definition is_key_delim (r : N) : bool :=
  (r =? cCOLON) || (r =? cDOT) || (r =? cLT) || (r =? cGT) || (r =? cAMP).

(* parseUnquotedString: returns the scanned (untrimmed) value and the unread rest *)
Fixpoint scan_unq (inKey : bool) (l : str) (acc : str) : pres (str * str) :=
  let ordinary (r : N) (tl : str) (acc : str) (k : str -> str -> pres (str * str)) :=
      if negb inKey && (r =? cDOLLAR) then PUns
      else if r =? cBSL then
        match tl with
        | [] => PErr
        | r2 :: tl2 => if r2 =? cNL then PUns else k tl2 (acc ++ [decode_escape r2])
        end
      else k tl (acc ++ [r]) in
  match l with
  | [] => POk (acc, [])
  | r :: tl =>
      if is_top_delim r then POk (acc, l)
      else if inKey && is_key_delim r then POk (acc, l)
      else if inKey && (r =? cDASH) then
        match tl with
        | [] => POk (acc, l)
        | r2 :: tl2 =>
            if is_top_delim r2 then POk (acc ++ [r], tl)
            else if (r2 =? cDASH) || (r2 =? cGT) || (r2 =? cSTAR) then POk (acc, l)
            else ordinary r2 tl2 (acc ++ [r]) (fun t a => scan_unq inKey t a)
        end
      else ordinary r tl acc (fun t a => scan_unq inKey t a)
  end.

Fixpoint trim_right (s : str) : str :=
  match s with
  | [] => []
  | r :: tl => match trim_right tl with
               | [] => if is_space r then [] else [r]
               | t => r :: t
               end
  end.

(* parseDoubleQuotedString after the opening quote *)
Fixpoint scan_dq (inKey : bool) (l : str) (acc : str) : pres (str * str) :=
  match l with
  | [] => PErr
  | r :: tl =>
      if r =? cNL then PErr
      else if negb inKey && (r =? cDOLLAR) then PUns
      else if r =? cDQ then POk (acc, tl)
      else if r =? cBSL then
        match tl with
        | [] => PErr
        | r2 :: tl2 => if r2 =? cNL then scan_dq inKey tl2 acc else scan_dq inKey tl2 (acc ++ [decode_escape r2])
        end
      else scan_dq inKey tl (acc ++ [r])
  end.

(* parseSingleQuotedString after the opening quote *)
Fixpoint scan_sq (l : str) (acc : str) : pres (str * str) :=
  match l with
  | [] => PErr
  | r :: tl =>
      if r =? cNL then PErr
      else if r =? cSQ then
        match tl with
        | r2 :: tl2 => if r2 =? cSQ then scan_sq tl2 (acc ++ [cSQ]) else POk (acc, tl)
        | [] => POk (acc, tl)
        end
      else if r =? cBSL then
        match tl with
        | [] => scan_sq tl acc
        | r2 :: tl2 => if r2 =? cNL then scan_sq tl2 acc else scan_sq tl (acc ++ [r])
        end
      else scan_sq tl (acc ++ [r])
  end.

(* peekNotSpace: (newlines seen, rest starting at the first non-space rune) *)
Fixpoint skip_space (l : str) (nl : bool) : bool * str :=
  match l with
  | [] => (nl, [])
  | r :: tl => if is_space r then skip_space tl (nl || (r =? cNL)) else (nl, l)
  end.

Inductive sform := SUnq | SDq | SSq.

(* parseString on input whose first rune is not a space: Some (form, value) or None for "no string" *)
Definition parse_string (inKey : bool) (l : str) : pres (option (sform * str) * str) :=
  match l with
  | [] => POk (None, [])
  | r :: tl =>
      if r =? cDQ then match scan_dq inKey tl [] with POk (v, rest) => POk (Some (SDq, v), rest) | PErr => PErr | PUns => PUns end
      else if r =? cSQ then match scan_sq tl [] with POk (v, rest) => POk (Some (SSq, v), rest) | PErr => PErr | PUns => PUns end
      else if r =? cPIPE then PUns
      else match scan_unq inKey l [] with
           | POk (v, rest) => match trim_right v with
                              | [] => POk (None, rest)
                              | t => POk (Some (SUnq, t), rest)
                              end
           | PErr => PErr | PUns => PUns
           end
  end.

(* parseKey + ParseKey's error handling: the key path, or an error *)
Fixpoint parse_key_loop (fuel : nat) (l : str) (acc : list str) : pres (list str) :=
  let finish (acc : list str) := match acc with [] => PErr | _ => POk acc end in
  match fuel with
  | O => PUns
  | S fuel' =>
      let '(nl, l1) := skip_space l false in
      match l1 with
      | [] => finish acc
      | r :: tl =>
          if nl || (r =? cLP) then finish acc
          else if r =? cDOT then finish acc  (* the peeked '.' is never committed: parseString then sees it and returns no string *)
          else
            match parse_string true l1 with
            | PErr => PErr | PUns => PUns
            | POk (None, _) => finish acc
            | POk (Some (f, v), rest) =>
                if match f, v with SUnq, c :: _ => c =? cAT | _, _ => false end then PErr
                else
                  let acc' := acc ++ [v] in
                  let '(nl2, l2) := skip_space rest false in
                  match l2 with
                  | [] => finish acc'
                  | r2 :: tl2 => if nl2 || negb (r2 =? cDOT) then finish acc' else parse_key_loop fuel' tl2 acc'
                  end
            end
      end
  end.

Definition parse_key (l : str) : pres (list str) := parse_key_loop (S (length l)) l [].

(* parseValue for scalars *)
Inductive value :=
| VNull | VSusp (b : bool) | VBool (b : bool) | VNum (raw : str) | VStr (f : sform) (s : str).

Definition parse_value (is_num : str -> bool) (l : str) : pres value :=
  let '(nl, l1) := skip_space l false in
  match l1 with
  | [] => PErr
  | r :: _ =>
      if nl then PErr
      else if (r =? cLB) || (r =? cLC) || (r =? cAT) then PUns
      else match parse_string false l1 with
           | PErr => PErr | PUns => PUns
           | POk (None, _) => PErr
           | POk (Some (SUnq, v), _) =>
               if equal_fold v w_null then POk VNull
               else if equal_fold v w_suspend then POk (VSusp true)
               else if equal_fold v w_unsuspend then POk (VSusp false)
               else if equal_fold v w_true then POk (VBool true)
               else if equal_fold v w_false then POk (VBool false)
               else if is_num v then POk (VNum v) else POk (VStr SUnq v)
           | POk (Some (f, v), _) => POk (VStr f v)
           end
  end.

(* ------------------------------------------------------------------ hazards (see Props.v) *)

(* Inputs on which the unquoted form does not read back as the same string: the formatter lower-cases
   reserved keywords, writes any-case "null" as 'null', and parseValue classifies keyword-like text. *)
Definition key_hazard (s : str) : bool :=
  match raw_form s true with
  | FUnq => is_reserved (lower_str s) && negb (str_eqb (lower_str s) s)
  | _ => false
  end.

Definition value_hazard (s : str) : bool :=
  match raw_form s false with
  | FUnq => str_eqb s w_true || str_eqb s w_false
  | _ => false
  end.
