(* C12 — Globs apply to exactly the matching objects and connections.  Statements only. *)
From Coq Require Import List NArith Bool.
Import ListNotations.
Require Import V.C12.Model V.C12.Proofs.
Open Scope N_scope.

(* ---- the specification is the standard wildcard semantics ---- *)

(* [wild] (the executable matcher used by glob_matches) is exactly the inductive relation: Star covers any
   sequence, a literal covers itself, the parts cover the whole name. *)
Theorem C12_wild_is_standard_wildcard_semantics :
  forall ps s, wild ps s = true <-> Matches ps s.
Proof. exact wild_iff_Matches. Qed.

(* ---- matchPattern with the end of the name anchored (coq/C12/fix_anchor.patch): equals the specification on
        ALL byte strings.  This is the statement the property needs; the patch changes the pinned test
        d2ir TestCompile/patterns/suffix, which requires `*l` to match `jingle`. ---- *)

(* For every name (any bytes, any length, valid UTF-8 or not) and every pattern the parser can produce
   (stars and literals alternate), the anchored function never panics and answers glob_matches. *)
Theorem C12_match_pattern_spec :
  forall s pat, alternating pat = true -> match_pattern_anchored s pat = Ok (glob_matches s pat).
Proof. exact thm_anchored_spec. Qed.

(* The same algorithm for any lower-casing function and any reserved-name test; with lw := map lower_rune on
   lists of code points this is the reading "over case-folded runes". *)
Theorem C12_match_pattern_spec_generic :
  forall (lw : str -> str) (rsv : str -> bool) s pat, alternating pat = true ->
    match_pattern_anchored_with lw rsv s pat = Ok (glob_matches_with lw rsv s pat).
Proof. exact anchored_spec. Qed.

(* ---- matchPattern, repaired so that the pinned suite stays green (coq/C12/fix.patch): for ALL byte strings it
        never panics, never matches a keyword in any letter case, and answers "some prefix of the name matches";
        it is exact for every pattern that ends in a star. ---- *)
Theorem C12_match_pattern_fixed_total_prefix_match :
  forall s pat, pat <> [] -> alternating pat = true ->
    match_pattern_fixed s pat = Ok (glob_matches s (pat ++ [star])).
Proof. exact thm_fixed_prefix. Qed.

Theorem C12_match_pattern_fixed_trailing_star :
  forall s pat, alternating (pat ++ [star]) = true ->
    match_pattern_fixed s (pat ++ [star]) = Ok (glob_matches s (pat ++ [star])).
Proof. exact thm_fixed_trailing. Qed.

(* ---- matchPattern, pinned code ---- *)

(* Full statement (the one the property needs):
     forall s pat, alternating pat = true -> match_pattern_pinned s pat = Ok (glob_matches s pat).
   It is false in three independent ways, each replayed on d2compiler.Compile: *)

(* (1) the tail of the name is not anchored: `*b` matches `abc`
       (`ab; abc; xb; *b.style.fill: red` fills all three) *)
Theorem C12_match_pattern_tail_refuted :
  exists s pat, alternating pat = true /\ match_pattern_pinned s pat = Ok true /\ glob_matches s pat = false.
Proof. exact thm_tail_refuted. Qed.

(* (2) byte offsets computed on strings.ToLower(s) are applied to s: pattern `K*` (U+212A) against the name `k`
       panics (slice bounds out of range [3:1]); `*b*b*` matches U+0130 b, which has one b *)
Theorem C12_match_pattern_offsets_refuted :
  (exists s pat, alternating pat = true /\ match_pattern_pinned s pat = Crash) /\
  (exists s pat, alternating pat = true /\ match_pattern_pinned s pat = Ok true /\ glob_matches s pat = false).
Proof. exact thm_offsets_refuted. Qed.

(* (3) the reserved-keyword lookup is case-sensitive although `Shape: circle` is the keyword: `*` matches `Shape`
       (`x: {Shape: circle; *.style.fill: red}` fails with "reserved field shape does not accept composite") *)
Theorem C12_match_reserved_case_refuted :
  exists s pat, alternating pat = true /\ reserved_ci s = true /\ match_pattern_pinned s pat = Ok true.
Proof. exact thm_reserved_case_refuted. Qed.

(* What the pinned code does compute, for all-ASCII names and patterns of any length: the specification of the
   pattern followed by one more star (i.e. "some prefix of the name matches") ... *)
Theorem C12_match_pattern_pinned_is_prefix_match :
  forall s pat, pat <> [] -> alternating pat = true ->
    is_ascii s = true -> forallb is_ascii pat = true ->
    match_pattern_pinned s pat = Ok (glob_matches_with go_lower go_reserved s (pat ++ [star])).
Proof. exact thm_pinned_prefix. Qed.

(* ... so it is exactly right when the pattern ends in a star. *)
Theorem C12_match_pattern_pinned_trailing_star :
  forall s pat, alternating (pat ++ [star]) = true ->
    is_ascii s = true -> forallb is_ascii pat = true ->
    match_pattern_pinned s (pat ++ [star]) = Ok (glob_matches_with go_lower go_reserved s (pat ++ [star])).
Proof. exact thm_pinned_trailing. Qed.

(* ---- reserved keywords ---- *)

(* Neither function ever matches a name for which its reserved test answers yes (exact spelling for the pinned
   code, any letter case for the repaired one and for the specification). *)
Theorem C12_match_never_reserved :
  forall s pat, pat <> [] ->
    (go_reserved s = true -> match_pattern_pinned s pat = Ok false) /\
    (reserved_ci s = true ->
       match_pattern_fixed s pat = Ok false /\ match_pattern_anchored s pat = Ok false /\ glob_matches s pat = false).
Proof. exact thm_never_reserved. Qed.

(* non-vacuity of the hypotheses *)
Example C12_match_pattern_spec_satisfiable :
  alternating [[97];[42];[98]] = true /\ glob_matches [97;120;98] [[97];[42];[98]] = true.
Proof. vm_compute. auto. Qed.
Example C12_match_pattern_pinned_is_prefix_match_satisfiable :
  [[42];[98]] <> [] /\ alternating [[42];[98]] = true /\ is_ascii [97;98;99] = true /\ forallb is_ascii [[42];[98]] = true.
Proof. repeat split; try reflexivity. discriminate. Qed.
Example C12_match_pattern_pinned_trailing_star_satisfiable :
  alternating ([[97]] ++ [star]) = true /\ is_ascii [97;98] = true /\ forallb is_ascii [[97]] = true.
Proof. repeat split. Qed.
Example C12_match_never_reserved_satisfiable :
  go_reserved [108;97;98;101;108] = true /\ reserved_ci [76;97;98;101;108] = true.
Proof. vm_compute. auto. Qed.

Print Assumptions C12_wild_is_standard_wildcard_semantics.
Print Assumptions C12_match_pattern_spec.
Print Assumptions C12_match_pattern_spec_generic.
Print Assumptions C12_match_pattern_fixed_total_prefix_match.
Print Assumptions C12_match_pattern_fixed_trailing_star.
Print Assumptions C12_match_pattern_tail_refuted.
Print Assumptions C12_match_pattern_offsets_refuted.
Print Assumptions C12_match_reserved_case_refuted.
Print Assumptions C12_match_pattern_pinned_is_prefix_match.
Print Assumptions C12_match_pattern_pinned_trailing_star.
Print Assumptions C12_match_never_reserved.
