(* C12 — Globs apply to exactly the matching objects and connections.  Statements only. *)
From Coq Require Import List NArith Bool.
Import ListNotations.
Require Import V.C12.Model V.C12.Proofs V.C12.GlobModel V.C12.GlobProofs V.C12.GlobOrder.
Open Scope N_scope.

(* ---- the specification is the standard wildcard semantics ---- *)

(* [wild] (the executable matcher used by glob_matches) is exactly the inductive relation: Star covers any
   sequence, a literal covers itself, the parts cover the whole name. *)
Theorem C12_wild_is_standard_wildcard_semantics :
  forall ps s, wild ps s = true <-> Matches ps s.
Proof. exact wild_iff_Matches. Qed.

(* ---- matchPattern with the end of the name anchored (coq/C12/fix_anchor.patch): equals the specification on
        ALL byte strings.  This is the statement the property needs; the patch changes the pinned test
        d2ir TestCompile/patterns/suffix, which requires `*l` to match `jingle`. ---- *)

(* For every name (any bytes, any length, valid UTF-8 or not) and every pattern the parser can produce
   (stars and literals alternate), the anchored function never panics and answers glob_matches. *)
Theorem C12_match_pattern_spec :
  forall s pat, alternating pat = true -> match_pattern_anchored s pat = Ok (glob_matches s pat).
Proof. exact thm_anchored_spec. Qed.

(* The same algorithm for any lower-casing function and any reserved-name test; with lw := map lower_rune on
   lists of code points this is the reading "over case-folded runes". *)
Theorem C12_match_pattern_spec_generic :
  forall (lw : str -> str) (rsv : str -> bool) s pat, alternating pat = true ->
    match_pattern_anchored_with lw rsv s pat = Ok (glob_matches_with lw rsv s pat).
Proof. exact anchored_spec. Qed.

(* ---- matchPattern, repaired so that the pinned suite stays green (coq/C12/fix.patch): for ALL byte strings it
        never panics, never matches a keyword in any letter case, and answers "some prefix of the name matches";
        it is exact for every pattern that ends in a star. ---- *)
Theorem C12_match_pattern_fixed_total_prefix_match :
  forall s pat, pat <> [] -> alternating pat = true ->
    match_pattern_fixed s pat = Ok (glob_matches s (pat ++ [star])).
Proof. exact thm_fixed_prefix. Qed.

Theorem C12_match_pattern_fixed_trailing_star :
  forall s pat, alternating (pat ++ [star]) = true ->
    match_pattern_fixed s (pat ++ [star]) = Ok (glob_matches s (pat ++ [star])).
Proof. exact thm_fixed_trailing. Qed.

(* ---- matchPattern, pinned code ---- *)

(* Full statement (the one the property needs):
     forall s pat, alternating pat = true -> match_pattern_pinned s pat = Ok (glob_matches s pat).
   It is false in three independent ways, each replayed on d2compiler.Compile: *)

(* (1) the tail of the name is not anchored: `*b` matches `abc`
       (`ab; abc; xb; *b.style.fill: red` fills all three) *)
Theorem C12_match_pattern_tail_refuted :
  exists s pat, alternating pat = true /\ match_pattern_pinned s pat = Ok true /\ glob_matches s pat = false.
Proof. exact thm_tail_refuted. Qed.

(* (2) byte offsets computed on strings.ToLower(s) are applied to s: pattern `K*` (U+212A) against the name `k`
       panics (slice bounds out of range [3:1]); `*b*b*` matches U+0130 b, which has one b *)
Theorem C12_match_pattern_offsets_refuted :
  (exists s pat, alternating pat = true /\ match_pattern_pinned s pat = Crash) /\
  (exists s pat, alternating pat = true /\ match_pattern_pinned s pat = Ok true /\ glob_matches s pat = false).
Proof. exact thm_offsets_refuted. Qed.

(* (3) the reserved-keyword lookup is case-sensitive although `Shape: circle` is the keyword: `*` matches `Shape`
       (`x: {Shape: circle; *.style.fill: red}` fails with "reserved field shape does not accept composite") *)
Theorem C12_match_reserved_case_refuted :
  exists s pat, alternating pat = true /\ reserved_ci s = true /\ match_pattern_pinned s pat = Ok true.
Proof. exact thm_reserved_case_refuted. Qed.

(* What the pinned code does compute, for all-ASCII names and patterns of any length: the specification of the
   pattern followed by one more star (i.e. "some prefix of the name matches") ... *)
Theorem C12_match_pattern_pinned_is_prefix_match :
  forall s pat, pat <> [] -> alternating pat = true ->
    is_ascii s = true -> forallb is_ascii pat = true ->
    match_pattern_pinned s pat = Ok (glob_matches_with go_lower go_reserved s (pat ++ [star])).
Proof. exact thm_pinned_prefix. Qed.

(* ... so it is exactly right when the pattern ends in a star. *)
Theorem C12_match_pattern_pinned_trailing_star :
  forall s pat, alternating (pat ++ [star]) = true ->
    is_ascii s = true -> forallb is_ascii pat = true ->
    match_pattern_pinned s (pat ++ [star]) = Ok (glob_matches_with go_lower go_reserved s (pat ++ [star])).
Proof. exact thm_pinned_trailing. Qed.

(* ---- reserved keywords ---- *)

(* Neither function ever matches a name for which its reserved test answers yes (exact spelling for the pinned
   code, any letter case for the repaired one and for the specification). *)
Theorem C12_match_never_reserved :
  forall s pat, pat <> [] ->
    (go_reserved s = true -> match_pattern_pinned s pat = Ok false) /\
    (reserved_ci s = true ->
       match_pattern_fixed s pat = Ok false /\ match_pattern_anchored s pat = Ok false /\ glob_matches s pat = false).
Proof. exact thm_never_reserved. Qed.

(* ---- part 2: the glob mechanism of d2ir on the core fragment (GlobModel.v) ---- *)

(* glob_equiv_expansion.  For every program of explicit keys and single-level field globs (any number of
   statements, keys of any depth, globs with any number of pattern levels, written before or after their
   targets, explicit values before or after the globs), compiling the program with the glob mechanism
   (glob contexts, appliedFields, the nested lazy re-application loops of compileKey / EnsureField, fuel never
   exhausted) yields exactly the IR - same fields, same order, same values - as compiling its reference
   expansion, which contains no glob: each glob replaced by its body on every existing target, and re-declared
   for every later target at the key that creates it (bare key, then the bodies, then the key's own value).
   For any field-name equality keq (reflexive) and ANY matching function mt; the suffix names of a glob must be
   names no pattern matches (reserved keywords), a glob key must not be written twice (see the refutation). *)
Theorem C12_glob_equiv_expansion :
  forall (keq : str -> str -> bool) (mt : str -> list str -> bool), (forall a, keq a a = true) ->
  forall p, wf_from mt [] p -> run keq mt p = Some (run_plain keq (expand keq mt p)).
Proof. exact glob_equiv_expansion. Qed.

(* the same for what d2ir runs (strings.EqualFold, the pinned matchPattern), with the decidable side condition *)
Theorem C12_glob_equiv_expansion_d2ir :
  forall p, wf_progb p = true -> run keq_go mt_go p = Some (run_plain keq_go (expand keq_go mt_go p)).
Proof. exact glob_equiv_expansion_go. Qed.

(* explicit_after_glob_wins: whatever globs the program declared, after a final explicit key `q: v` the field q
   holds v *)
Theorem C12_explicit_after_glob_wins :
  forall (keq : str -> str -> bool) (mt : str -> list str -> bool), (forall a, keq a a = true) ->
  forall p q v, wf_from mt [] (p ++ [SKey q (Some v)]) ->
  exists st term, run keq mt (p ++ [SKey q (Some v)]) = Some st /\ resolves keq st [] q term /\ prim_at st term = Some v.
Proof. exact explicit_after_glob_wins. Qed.

(* glob_after_explicit_wins: whatever the program set before, after a final glob every target of the glob (every
   matching field that exists at that point) holds the glob's value at the glob's suffix *)
Theorem C12_glob_after_explicit_wins :
  forall (keq : str -> str -> bool) (mt : str -> list str -> bool), (forall a, keq a a = true) ->
  forall p g, wf_from mt [] (p ++ [SGlob g]) ->
  exists st0 st, run keq mt p = Some st0 /\ run keq mt (p ++ [SGlob g]) = Some st /\
    forall t, In t (targets keq mt g st0) ->
      exists term, resolves keq st t (g_suf g) term /\ prim_at st term = Some (g_val g).
Proof. exact glob_after_explicit_wins. Qed.

(* "exactly the matching objects": the targets of a glob are exactly the existing fields at the depth of its
   pattern part whose names the patterns match, level by level *)
Theorem C12_glob_targets_exactly_the_matching_fields :
  forall (keq : str -> str -> bool) (mt : str -> list str -> bool) g st t, g_pre g = [] ->
  (In t (targets keq mt g st) <-> chain st [] t /\ Forall2 (fun m p => mt m p = true) t (g_pats g)).
Proof. exact targets_spec. Qed.

(* globs never match reserved keywords (exact spelling; for other letter cases see C12_match_reserved_case_refuted) *)
Theorem C12_glob_targets_never_reserved :
  forall g st t, g_pre g = [] -> g_pats g <> [] -> Forall (fun p => p <> []) (g_pats g) ->
  In t (targets keq_go mt_go g st) -> forall n, In n t -> go_reserved n = false.
Proof. exact glob_targets_never_reserved. Qed.

(* without the side condition "not written twice" the statement is false, on the model as on the real compiler:
   `*.style.fill: r; a; *.style.fill: bl; *.style.fill: r` leaves a.style.fill = bl *)
Theorem C12_glob_duplicate_refuted :
  run keq_go mt_go dup_witness <> Some (run_plain keq_go (expand keq_go mt_go dup_witness)).
Proof. exact glob_duplicate_refuted. Qed.

(* non-vacuity of the hypotheses *)
Example C12_glob_equiv_expansion_satisfiable :
  wf_progb [SGlob (G [] [[[42]]] [[115;116;121;108;101];[102;105;108;108]] [114]);
            SKey [[97];[115;116;121;108;101];[102;105;108;108]] (Some [98]); SKey [[98];[99]] None;
            SGlob (G [] [[[97];[42]];[[42]]] [[108;97;98;101;108]] [120])] = true.
Proof. vm_compute. reflexivity. Qed.
Example C12_explicit_after_glob_wins_satisfiable :
  wf_from mt_go [] ([SGlob (G [] [[[42]]] [[108;97;98;101;108]] [120])] ++ [SKey [[97];[108;97;98;101;108]] (Some [121])]).
Proof. apply wf_fromb_sound. vm_compute. reflexivity. Qed.
Example C12_glob_after_explicit_wins_satisfiable :
  wf_from mt_go [] ([SKey [[97];[108;97;98;101;108]] (Some [121])] ++ [SGlob (G [] [[[42]]] [[108;97;98;101;108]] [120])]).
Proof. apply wf_fromb_sound. vm_compute. reflexivity. Qed.
Example C12_match_pattern_fixed_total_prefix_match_satisfiable :
  [[42];[98]] <> [] /\ alternating [[42];[98]] = true.
Proof. split; [discriminate | reflexivity]. Qed.
Example C12_match_pattern_spec_satisfiable :
  alternating [[97];[42];[98]] = true /\ glob_matches [97;120;98] [[97];[42];[98]] = true.
Proof. vm_compute. auto. Qed.
Example C12_match_pattern_pinned_is_prefix_match_satisfiable :
  [[42];[98]] <> [] /\ alternating [[42];[98]] = true /\ is_ascii [97;98;99] = true /\ forallb is_ascii [[42];[98]] = true.
Proof. repeat split; try reflexivity. discriminate. Qed.
Example C12_match_pattern_pinned_trailing_star_satisfiable :
  alternating ([[97]] ++ [star]) = true /\ is_ascii [97;98] = true /\ forallb is_ascii [[97]] = true.
Proof. repeat split. Qed.
Example C12_match_never_reserved_satisfiable :
  go_reserved [108;97;98;101;108] = true /\ reserved_ci [76;97;98;101;108] = true.
Proof. vm_compute. auto. Qed.

Print Assumptions C12_wild_is_standard_wildcard_semantics.
Print Assumptions C12_match_pattern_spec.
Print Assumptions C12_match_pattern_spec_generic.
Print Assumptions C12_match_pattern_fixed_total_prefix_match.
Print Assumptions C12_match_pattern_fixed_trailing_star.
Print Assumptions C12_match_pattern_tail_refuted.
Print Assumptions C12_match_pattern_offsets_refuted.
Print Assumptions C12_match_reserved_case_refuted.
Print Assumptions C12_match_pattern_pinned_is_prefix_match.
Print Assumptions C12_match_pattern_pinned_trailing_star.
Print Assumptions C12_match_never_reserved.
Print Assumptions C12_glob_equiv_expansion.
Print Assumptions C12_glob_equiv_expansion_d2ir.
Print Assumptions C12_explicit_after_glob_wins.
Print Assumptions C12_glob_after_explicit_wins.
Print Assumptions C12_glob_targets_exactly_the_matching_fields.
Print Assumptions C12_glob_targets_never_reserved.
Print Assumptions C12_glob_duplicate_refuted.
