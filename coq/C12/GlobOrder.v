(* C12 part 2 — values follow source order: two consequences of glob_equiv_expansion.
   explicit_after_glob_wins : after `p ; q: v` the field q holds v, whatever globs p declared;
   glob_after_explicit_wins : after `p ; <glob g>` every target of g holds g's value at g's suffix, whatever p set. *)
From Coq Require Import List NArith Bool Arith Lia.
Import ListNotations.
Require Import V.C12.Model V.C12.Proofs V.C12.GlobModel V.C12.GlobProofs.

Section Order.
Variable keq : str -> str -> bool.
Variable mt : str -> list str -> bool.
Hypothesis keq_refl : forall a, keq a a = true.

(* the value of the field with display path q *)
Definition prim_at (st : ir) (q : path) : option str :=
  match find (fun e => path_eqb (epath e) q) st with Some e => eprim e | None => None end.

Lemma prim_at_set st q v : exists_p st q -> prim_at (set_prim st q v) q = Some v.
Proof.
  intros (e0 & Hin & He). unfold prim_at, set_prim.
  induction st as [|e st IH]; [destruct Hin|]. simpl.
  destruct (path_eqb (epath e) q) eqn:Eq; simpl.
  - unfold epath at 1. simpl. fold (epath e). rewrite Eq. reflexivity.
  - rewrite Eq. apply IH. destruct Hin as [->|Hin]; [|assumption].
    rewrite He, path_eqb_refl in Eq. discriminate.
Qed.

Lemma prim_at_set_other st q q' v : q <> q' -> prim_at (set_prim st q v) q' = prim_at st q'.
Proof.
  intro Hne. unfold prim_at, set_prim. induction st as [|e st IH]; [reflexivity|]. simpl.
  destruct (path_eqb (epath e) q) eqn:Eq; simpl.
  - unfold epath at 1. simpl. fold (epath e). destruct (path_eqb (epath e) q') eqn:Eq'.
    + apply path_eqb_eq in Eq, Eq'. congruence.
    + apply IH.
  - destruct (path_eqb (epath e) q'); [reflexivity | apply IH].
Qed.

Lemma prim_at_app st more q : exists_p st q -> prim_at (st ++ more) q = prim_at st q.
Proof.
  intros (e0 & Hin & He). unfold prim_at.
  destruct (find (fun e => path_eqb (epath e) q) st) as [e|] eqn:F.
  - rewrite (find_app_some _ _ more _ F). reflexivity.
  - eapply find_none in F; [|exact Hin]. rewrite He, path_eqb_refl in F. discriminate.
Qed.

(* explicit_after_glob_wins *)
Theorem explicit_after_glob_wins p q v :
  wf_from mt [] (p ++ [SKey q (Some v)]) ->
  exists st term, run keq mt (p ++ [SKey q (Some v)]) = Some st /\ resolves keq st [] q term /\ prim_at st term = Some v.
Proof.
  intro Wf.
  assert (Hsplit : forall p0 s, inv keq mt s -> wf_from mt (c_globs s) (p0 ++ [SKey q (Some v)]) ->
            exists s' term, run_from keq mt s (p0 ++ [SKey q (Some v)]) = Some s' /\
                            resolves keq (c_ir s') [] q term /\ prim_at (c_ir s') term = Some v).
  { induction p0 as [|x p0 IH]; intros s Iv W.
    - cbn [app wf_from] in W. destruct W as [Hq _].
      destruct (step_key keq mt keq_refl s q (Some v) Iv Hq) as (s1 & Es & Iv1 & Eg & Eir).
      exists s1. cbn [app GlobModel.run_from]. rewrite Es.
      (* the last statement of the expansion is the key itself *)
      set (out := flat_map (fun g => map (body g) (new_targets keq mt g (c_ir s) (fst (ensure keq (c_ir s) [] q)))) (c_globs s)) in *.
      change (SKey q None :: out ++ [SKey q (Some v)]) with ((SKey q None :: out) ++ [SKey q (Some v)]) in Eir.
      rewrite run_plain_app in Eir. set (stb := run_plain_from keq (c_ir s) (SKey q None :: out)) in *.
      unfold GlobModel.run_plain_from in Eir. cbn [fold_left GlobModel.plain_step] in Eir.
      pose proof (ensure_resolves keq keq_refl q stb []) as R. pose proof (ensure_exists keq q stb [] Hq) as Ex.
      pose proof (ensure_ext keq q stb []) as X.
      destruct (ensure keq stb [] q) as [st1 term]. simpl in *. exists term. split; [reflexivity|]. rewrite Eir. split.
      + eapply resolves_ext; [apply ext_set_prim | exact R].
      + apply prim_at_set. exact Ex.
    - cbn [app] in *. destruct x as [q0 w0|g0]; cbn [wf_from] in W.
      + destruct W as [Hq0 W]. destruct (step_key keq mt keq_refl s q0 w0 Iv Hq0) as (s1 & Es & Iv1 & Eg & _).
        rewrite <- Eg in W. destruct (IH s1 Iv1 W) as (s' & term & Er & R & P).
        exists s', term. cbn [GlobModel.run_from]. rewrite Es. auto.
      + destruct W as (Ok & Hpn & Hf & W). destruct (step_glob keq mt keq_refl s g0 Iv Ok Hpn Hf) as (s1 & Es & Iv1 & Eg & _).
        rewrite <- Eg in W. destruct (IH s1 Iv1 W) as (s' & term & Er & R & P).
        exists s', term. cbn [GlobModel.run_from]. rewrite Es. auto. }
  destruct (Hsplit p (C [] [] []) (inv_init keq mt) Wf) as (s' & term & Er & R & P).
  exists (c_ir s'), term. unfold GlobModel.run. rewrite Er. auto.
Qed.

(* ---------------------------------------------------------------- glob_after_explicit_wins *)

Lemma ensure_appends : forall names st par, exists more, fst (ensure keq st par names) = st ++ more.
Proof.
  induction names as [|n names IH]; intros st par; simpl; [exists []; rewrite app_nil_r; reflexivity|].
  destruct (find_child keq st par n).
  - apply IH.
  - destruct (IH (st ++ [E par n None]) (par ++ [n])) as [more H]. exists ([E par n None] ++ more).
    rewrite H, <- app_assoc. reflexivity.
Qed.

Section Bodies.
Variable g : glob.
Let suf := g_suf g.
Let v := g_val g.
Hypothesis suf_ne : suf <> [].

Lemma pstep_keeps s t term0 : exists_p s term0 -> (forall d, term0 <> t ++ d) ->
  exists_p (pstep keq g s t) term0 /\ prim_at (pstep keq g s t) term0 = prim_at s term0.
Proof.
  intros Ex Hne. unfold pstep. fold suf v.
  pose proof (ensure_appends suf s t) as [more Hm]. pose proof (ensure_resolves keq keq_refl suf s t) as R.
  destruct (ensure keq s t suf) as [s1 tm]. simpl in *. subst s1.
  apply resolves_length in R as (d & Htm & _). split.
  - eapply exists_p_ext; [apply ext_set_prim | apply exists_p_app; assumption].
  - rewrite prim_at_set_other; [apply prim_at_app; assumption|]. intro E. apply (Hne d). congruence.
Qed.

Lemma fold_pstep_keeps : forall N s term0, exists_p s term0 -> (forall t d, In t N -> term0 <> t ++ d) ->
  prim_at (fold_left (pstep keq g) N s) term0 = prim_at s term0.
Proof.
  induction N as [|t N IH]; intros s term0 Ex Hne; [reflexivity|]. cbn [fold_left].
  destruct (pstep_keeps s t term0 Ex (fun d => Hne t d (or_introl eq_refl))) as [Ex1 P1].
  rewrite IH; [exact P1 | exact Ex1 | intros t' d Hin; apply Hne; right; assumption].
Qed.

Lemma fold_pstep_ext : forall N s, ext s (fold_left (pstep keq g) N s).
Proof.
  induction N as [|t N IH]; intro s; [apply ext_refl|]. cbn [fold_left].
  eapply ext_trans; [apply pstep_ext | apply IH].
Qed.

Lemma fold_pstep_value k : forall N s t, NoDup N -> (forall t', In t' N -> length t' = k) -> In t N ->
  exists term, resolves keq (fold_left (pstep keq g) N s) t suf term /\
               prim_at (fold_left (pstep keq g) N s) term = Some v.
Proof.
  induction N as [|t0 N IH]; intros s t ND HL Hin; [destruct Hin|].
  inversion ND as [|? ? Hnin ND']; subst. cbn [fold_left]. destruct Hin as [<-|Hin].
  - (* this body; the later ones leave its terminal alone *)
    pose proof (ensure_resolves keq keq_refl suf s t0) as R. pose proof (ensure_exists keq suf s t0 suf_ne) as Ex.
    assert (Es : pstep keq g s t0 = set_prim (fst (ensure keq s t0 suf)) (snd (ensure keq s t0 suf)) v).
    { unfold pstep. fold suf v. destruct (ensure keq s t0 suf); reflexivity. }
    set (term := snd (ensure keq s t0 suf)) in *. set (s1 := fst (ensure keq s t0 suf)) in *.
    destruct (resolves_length keq _ _ _ _ R) as (d & Hterm & _).
    exists term. split.
    + eapply resolves_ext; [|exact R]. rewrite Es. eapply ext_trans; [apply ext_set_prim | apply fold_pstep_ext].
    + rewrite fold_pstep_keeps.
      * rewrite Es. apply prim_at_set. exact Ex.
      * rewrite Es. eapply exists_p_ext; [apply ext_set_prim | exact Ex].
      * intros t' d' Hin' E. rewrite Hterm in E.
        assert (t0 = t').
        { assert (L : length t0 = length t') by (rewrite (HL t0 (or_introl eq_refl)), (HL t' (or_intror Hin')); reflexivity).
          apply (f_equal (firstn (length t0))) in E. rewrite firstn_app, Nat.sub_diag, firstn_all in E.
          rewrite L, firstn_app, Nat.sub_diag, firstn_all in E. simpl in E. rewrite !app_nil_r in E. exact E. }
        subst t'. contradiction.
  - apply IH; [assumption | intros; apply HL; right; assumption | assumption].
Qed.

End Bodies.

Theorem glob_after_explicit_wins p g :
  wf_from mt [] (p ++ [SGlob g]) ->
  exists st0 st, run keq mt p = Some st0 /\ run keq mt (p ++ [SGlob g]) = Some st /\
    forall t, In t (targets keq mt g st0) ->
      exists term, resolves keq st t (g_suf g) term /\ prim_at st term = Some (g_val g).
Proof.
  intro Wf.
  assert (Hsplit : forall p0 s, inv keq mt s -> wf_from mt (c_globs s) (p0 ++ [SGlob g]) ->
            exists s0 s', run_from keq mt s p0 = Some s0 /\ run_from keq mt s (p0 ++ [SGlob g]) = Some s' /\
              forall t, In t (targets keq mt g (c_ir s0)) ->
                exists term, resolves keq (c_ir s') t (g_suf g) term /\ prim_at (c_ir s') term = Some (g_val g)).
  { induction p0 as [|x p0 IH]; intros s Iv W.
    - cbn [app wf_from] in W. destruct W as (Ok & Hpn & Hf & _).
      destruct (step_glob keq mt keq_refl s g Iv Ok Hpn Hf) as (s1 & Es & Iv1 & Eg & Eir).
      exists s, s1. cbn [app GlobModel.run_from]. rewrite Es. split; [reflexivity|]. split; [reflexivity|].
      destruct Ok as [W Hne]. destruct Iv as ((U & L & H) & Cl & S).
      (* the expansion of the glob statement is the list of its bodies *)
      rewrite (wf_pre mt g W) in Eir. cbn [bare app ensure fst] in Eir.
      rewrite flat_map_nil in Eir.
      2:{ intros g' Hg'. destruct (In_nth_error _ _ Hg') as [i Ei]. destruct (H i g' Ei) as ([W' _] & Hp' & _).
          unfold GlobModel.new_targets. rewrite (targets_walk keq mt g' _ (wf_pre mt g' W')).
          rewrite filter_none; [reflexivity|]. intros t Ht. rewrite (walk_exists mt _ _ _ Hp' Ht). reflexivity. }
      cbn [app] in Eir. rewrite (targets_walk keq mt g _ (wf_pre mt g W)) in *.
      rewrite plain_bodies in Eir by (assumption || (intros t Ht; apply (walk_resolves_self keq mt keq_refl g); assumption)).
      intros t Ht. rewrite Eir.
      apply (fold_pstep_value g Hne (length (g_pats g))).
      + apply (walk_nodup keq mt keq_refl); assumption.
      + intros t' Ht'. eapply walk_length; eassumption.
      + exact Ht.
    - cbn [app] in *. destruct x as [q0 w0|g0]; cbn [wf_from] in W.
      + destruct W as [Hq0 W]. destruct (step_key keq mt keq_refl s q0 w0 Iv Hq0) as (s1 & Es & Iv1 & Eg & _).
        rewrite <- Eg in W. destruct (IH s1 Iv1 W) as (s0 & s' & E0 & Er & P).
        exists s0, s'. cbn [GlobModel.run_from]. rewrite Es. auto.
      + destruct W as (Ok & Hpn & Hf & W). destruct (step_glob keq mt keq_refl s g0 Iv Ok Hpn Hf) as (s1 & Es & Iv1 & Eg & _).
        rewrite <- Eg in W. destruct (IH s1 Iv1 W) as (s0 & s' & E0 & Er & P).
        exists s0, s'. cbn [GlobModel.run_from]. rewrite Es. auto. }
  destruct (Hsplit p (C [] [] []) (inv_init keq mt) Wf) as (s0 & s' & E0 & Er & P).
  exists (c_ir s0), (c_ir s'). unfold GlobModel.run. rewrite E0, Er. auto.
Qed.

End Order.
