(* C12 part 1 — proofs about matchPattern (pinned and repaired) against the wildcard specification. *)
From Coq Require Import List NArith Bool Lia Arith.
Import ListNotations.
Require Import V.Gen.C12Tables V.C12.Model.
Open Scope N_scope.

Lemma bool_ext (a b : bool) : (a = true <-> b = true) -> a = b.
Proof. destruct a, b; intros [H1 H2]; try reflexivity; [symmetry; apply H1; reflexivity | apply H2; reflexivity]. Qed.

Lemma str_eqb_eq a b : str_eqb a b = true <-> a = b.
Proof.
  revert b; induction a as [|x a IH]; intros [|y b]; simpl; split; intro H; try reflexivity; try discriminate.
  - apply andb_prop in H as [H1 H2]. apply N.eqb_eq in H1. apply IH in H2. congruence.
  - inversion H; subst. rewrite N.eqb_refl. simpl. apply IH. reflexivity.
Qed.

Lemma str_eqb_refl a : str_eqb a a = true.
Proof. apply str_eqb_eq. reflexivity. Qed.

(* ------------------------------------------------------------------ prefixes, suffixes *)

Lemma strip_prefix_has_prefix l : forall s,
  strip_prefix l s = if has_prefix s l then Some (skipn (length l) s) else None.
Proof.
  induction l as [|y l IH]; intros s; cbn [strip_prefix has_prefix length skipn].
  - destruct s; reflexivity.
  - destruct s as [|x s]; [reflexivity|]. cbn [strip_prefix has_prefix length skipn].
    destruct (x =? y); simpl; [apply IH | reflexivity].
Qed.

Lemma strip_prefix_Some l : forall s r, strip_prefix l s = Some r <-> s = l ++ r.
Proof.
  induction l as [|y l IH]; intros s r; simpl.
  - split; intro H; [inversion H; reflexivity | subst; reflexivity].
  - destruct s as [|x s].
    + split; intro H; discriminate.
    + destruct (x =? y) eqn:E.
      * apply N.eqb_eq in E. subst y. rewrite IH. split; intro H; [subst; reflexivity | inversion H; reflexivity].
      * split; intro H; [discriminate|]. inversion H; subst. rewrite N.eqb_refl in E. discriminate.
Qed.

Lemma has_prefix_true s p : has_prefix s p = true <-> exists t, s = p ++ t.
Proof.
  pose proof (strip_prefix_has_prefix p s) as E. split.
  - intro H. rewrite H in E. apply strip_prefix_Some in E. eauto.
  - intros [t Ht]. destruct (has_prefix s p); [reflexivity|].
    assert (strip_prefix p s = Some t) by (apply strip_prefix_Some; exact Ht). congruence.
Qed.

Lemma has_prefix_length s p : has_prefix s p = true -> (length p <= length s)%nat.
Proof. intro H. apply has_prefix_true in H as [t ->]. rewrite app_length. lia. Qed.

Lemma app_suffix {A} (a b c d : list A) :
  a ++ b = c ++ d -> (length a <= length c)%nat -> exists e, b = e ++ d.
Proof.
  revert c; induction a as [|x a IH]; intros c H L; simpl in *.
  - exists c. exact H.
  - destruct c as [|y c]; simpl in *; [lia|]. inversion H; subst. apply (IH c); [assumption | lia].
Qed.

Lemma has_suffix_true s p : has_suffix s p = true <-> exists pre, s = pre ++ p.
Proof.
  unfold has_suffix. split.
  - intro H. apply andb_prop in H as [H1 H2]. apply str_eqb_eq in H2.
    exists (firstn (length s - length p) s).
    transitivity (firstn (length s - length p) s ++ skipn (length s - length p) s);
      [symmetry; apply firstn_skipn | rewrite H2; reflexivity].
  - intros [pre ->]. rewrite app_length. apply andb_true_intro; split.
    + apply Nat.leb_le. lia.
    + replace (length pre + length p - length p)%nat with (length pre + 0)%nat by lia.
      rewrite skipn_app, Nat.add_0_r, skipn_all. simpl.
      replace (length pre - length pre)%nat with 0%nat by lia. simpl. apply str_eqb_refl.
Qed.

(* ------------------------------------------------------------------ the specification *)

Lemma wild_star_spec k : forall s, wild_star k s = true <-> exists pre t, s = pre ++ t /\ k t = true.
Proof.
  induction s as [|x s IH]; simpl.
  - rewrite orb_false_r. split.
    + intro H. exists [], []. auto.
    + intros (pre & t & E & H). symmetry in E. apply app_eq_nil in E as [_ ->]. exact H.
  - split.
    + intro H. apply orb_prop in H as [H|H].
      * exists [], (x :: s). auto.
      * apply IH in H as (pre & t & -> & H). exists (x :: pre), t. auto.
    + intros (pre & t & E & H). destruct pre as [|y pre]; simpl in E.
      * subst t. rewrite H. reflexivity.
      * inversion E; subst. apply orb_true_intro. right. apply IH. eauto.
Qed.

Theorem wild_iff_Matches : forall ps s, wild ps s = true <-> Matches ps s.
Proof.
  induction ps as [|[|l] ps IH]; intros s.
  - simpl. destruct s; split; intro H; try discriminate; try constructor. inversion H.
  - cbn [wild]. rewrite wild_star_spec. split.
    + intros (pre & t & -> & H). constructor. apply IH. exact H.
    + intro H. inversion H; subst. exists x, s0. split; [reflexivity | apply IH; assumption].
  - cbn [wild]. split.
    + intro H. destruct (strip_prefix l s) as [r|] eqn:E; [|discriminate].
      apply strip_prefix_Some in E. subst. constructor. apply IH. exact H.
    + intro H. inversion H; subst.
      assert (E : strip_prefix l (l ++ s0) = Some s0) by (apply strip_prefix_Some; reflexivity).
      rewrite E. apply IH. assumption.
Qed.

Definition mono (k : str -> bool) : Prop := forall pre t, k t = true -> k (pre ++ t) = true.

Lemma wild_star_mono k : mono (wild_star k).
Proof.
  intros pre t H. apply wild_star_spec in H as (p2 & u & -> & H). apply wild_star_spec.
  exists (pre ++ p2), u. rewrite app_assoc. auto.
Qed.

Lemma wild_star_nil s : wild_star (wild []) s = true.
Proof. apply wild_star_spec. exists s, []. rewrite app_nil_r. auto. Qed.

Lemma wild_star_true s : wild_star (fun _ => true) s = true.
Proof. destruct s; reflexivity. Qed.

(* leftmost occurrence is enough when what follows is insensitive to a longer remainder *)
Lemma greedy_leftmost (k : str -> bool) (l : str) : mono k -> forall s,
  wild_star (fun t => match strip_prefix l t with Some r => k r | None => false end) s
  = match index s l with None => false | Some j => k (skipn (j + length l) s) end.
Proof.
  intros Hm. induction s as [|x s IH].
  - destruct l; simpl; rewrite ?orb_false_r; reflexivity.
  - cbn [wild_star index]. rewrite strip_prefix_has_prefix. destruct (has_prefix (x :: s) l) eqn:HP.
    + cbn [Nat.add]. destruct (k (skipn (length l) (x :: s))) eqn:K; [reflexivity|]. simpl.
      destruct (wild_star _ s) eqn:W; [|reflexivity]. exfalso.
      apply wild_star_spec in W as (pre & t & Es & Ht).
      destruct (strip_prefix l t) as [r'|] eqn:E'; [|discriminate]. apply strip_prefix_Some in E'.
      apply has_prefix_true in HP as [r Hr].
      assert (exists e, r = e ++ r') as [e He].
      { apply (app_suffix l r ((x :: pre) ++ l) r').
        - rewrite <- Hr. subst. simpl. rewrite <- app_assoc. reflexivity.
        - rewrite app_length. lia. }
      assert (skipn (length l) (x :: s) = r).
      { rewrite Hr. rewrite skipn_app, skipn_all, Nat.sub_diag. reflexivity. }
      rewrite H, He, Hm in K; [discriminate | exact Ht].
    + simpl. rewrite IH. destruct (index s l); reflexivity.
Qed.

Lemma index_bound : forall s l j, index s l = Some j -> (j + length l <= length s)%nat.
Proof.
  induction s as [|x s IH]; intros l j; cbn [index].
  - destruct (has_prefix [] l) eqn:H; [|discriminate]. intro E; inversion E; subst.
    apply has_prefix_length in H. simpl in *. lia.
  - destruct (has_prefix (x :: s) l) eqn:H.
    + intro E; inversion E; subst. apply has_prefix_length in H. lia.
    + destruct (index s l) eqn:I; [|discriminate]. intro E; inversion E; subst.
      apply IH in I. simpl. lia.
Qed.

Lemma slice_from_ok s k : (k <= length s)%nat -> slice_from s k = Ok (skipn k s).
Proof. intro H. unfold slice_from. apply Nat.leb_le in H. rewrite H. reflexivity. Qed.

Lemma alternating_tail p rest : alternating (p :: rest) = true -> alternating rest = true.
Proof. cbn [alternating]. destruct rest; [reflexivity|]. intro H. apply andb_prop in H. apply H. Qed.

Lemma alternating_flip p q rest : alternating (p :: q :: rest) = true -> is_star q = negb (is_star p).
Proof.
  cbn [alternating]. intro H. apply andb_prop in H as [H _].
  destruct (is_star p), (is_star q); simpl in *; congruence.
Qed.

Lemma parts_of_cons lw p rest :
  parts_of lw (p :: rest) = (if is_star p then Star else Lit (lw p)) :: parts_of lw rest.
Proof. reflexivity. Qed.

(* ------------------------------------------------------------------ the repaired function *)

Lemma mpa_loop_spec lw : forall n pat t, (length pat <= n)%nat -> alternating pat = true ->
  mpa_loop lw t pat = Ok (wild (parts_of lw pat) t).
Proof.
  induction n as [|n IH]; intros pat t Hn Ha.
  - destruct pat; [|simpl in Hn; lia]. reflexivity.
  - destruct pat as [|p rest]; [reflexivity|].
    cbn [mpa_loop]. rewrite parts_of_cons. destruct (is_star p) eqn:Sp.
    + destruct rest as [|nxt rest'].
      * cbn [parts_of map wild]. rewrite wild_star_nil. reflexivity.
      * pose proof (alternating_flip _ _ _ Ha) as Sn. rewrite Sp in Sn. simpl in Sn.
        rewrite parts_of_cons, Sn.
        pose proof (alternating_tail _ _ (alternating_tail _ _ Ha)) as Ha'.
        destruct rest' as [|q rest''].
        -- cbn [parts_of map wild]. f_equal. apply bool_ext. rewrite has_suffix_true, wild_star_spec. split.
           ++ intros [pre ->]. exists pre, (lw nxt). split; [reflexivity|].
              assert (E : strip_prefix (lw nxt) (lw nxt) = Some []).
              { apply strip_prefix_Some. rewrite app_nil_r. reflexivity. }
              rewrite E. reflexivity.
           ++ intros (pre & u & -> & H). destruct (strip_prefix (lw nxt) u) as [r|] eqn:E; [|discriminate].
              apply strip_prefix_Some in E. destruct r; [|discriminate]. rewrite app_nil_r in E. subst. eauto.
        -- pose proof (alternating_flip _ _ _ (alternating_tail _ _ Ha)) as Sq. rewrite Sn in Sq. simpl in Sq.
           cbn [wild]. rewrite greedy_leftmost.
           2:{ rewrite parts_of_cons, Sq. cbn [wild]. apply wild_star_mono. }
           destruct (index t (lw nxt)) as [j|] eqn:I; [|reflexivity].
           rewrite slice_from_ok by (eapply index_bound; eassumption).
           apply IH; [simpl in *; lia | assumption].
    + cbn [wild]. rewrite strip_prefix_has_prefix. destruct (has_prefix t (lw p)) eqn:HP; [|reflexivity].
      rewrite slice_from_ok by (apply has_prefix_length; assumption).
      apply IH; [simpl in *; lia | eapply alternating_tail; eassumption].
Qed.

Theorem anchored_spec lw rsv : forall s pat, alternating pat = true ->
  match_pattern_anchored_with lw rsv s pat = Ok (glob_matches_with lw rsv s pat).
Proof.
  intros s pat Ha. unfold match_pattern_anchored_with, glob_matches_with.
  destruct pat as [|p rest]; [reflexivity|]. destruct (rsv s); [reflexivity|]. simpl negb. rewrite andb_true_l.
  apply (mpa_loop_spec lw (length (p :: rest))); [lia | assumption].
Qed.

(* ------------------------------------------------------------------ the pinned function

   On inputs where lower-casing is a bytewise map (all-ASCII names and patterns; or lists of code points)
   the pinned loop computes the specification of the pattern followed by one more star: the tail of
   the name is never looked at. *)

Definition bytewise (lw : str -> str) (f : N -> N) (s : str) : Prop := forall k, lw (skipn k s) = map f (skipn k s).

Lemma skipn_skipn_add {A} : forall a b (l : list A), skipn a (skipn b l) = skipn (b + a) l.
Proof.
  intros a b; induction b as [|b IH]; intros l; simpl; [reflexivity|].
  destruct l; [destruct a; reflexivity | apply IH].
Qed.

Lemma bytewise_skipn lw f s k : bytewise lw f s -> bytewise lw f (skipn k s).
Proof. intros H k'. rewrite skipn_skipn_add. apply H. Qed.

Lemma bytewise_0 lw f s : bytewise lw f s -> lw s = map f s.
Proof. intro H. apply (H 0%nat). Qed.

Lemma mp_loop_spec lw f : forall n pat s, (length pat <= n)%nat -> alternating pat = true ->
  bytewise lw f s -> Forall (fun p => lw p = map f p) pat ->
  mp_loop lw s pat = Ok (wild (parts_of lw pat ++ [Star]) (lw s)).
Proof.
  induction n as [|n IH]; intros pat s Hn Ha Hs Hp.
  - destruct pat; [|simpl in Hn; lia]. simpl. rewrite wild_star_nil. reflexivity.
  - destruct pat as [|p rest]; [simpl; rewrite wild_star_nil; reflexivity|].
    cbn [mp_loop]. rewrite parts_of_cons. inversion Hp as [|? ? Hp1 Hp2]; subst.
    destruct (is_star p) eqn:Sp.
    + destruct rest as [|nxt rest'].
      * cbn [parts_of map app wild]. f_equal. symmetry. apply wild_star_spec. exists (lw s), [].
        rewrite app_nil_r. auto.
      * pose proof (alternating_flip _ _ _ Ha) as Sn. rewrite Sp in Sn. simpl in Sn.
        rewrite parts_of_cons, Sn. inversion Hp2 as [|? ? Hn1 Hn2]; subst.
        pose proof (alternating_tail _ _ (alternating_tail _ _ Ha)) as Ha'.
        cbn [app wild]. rewrite greedy_leftmost.
        2:{ destruct rest' as [|q r].
            - cbn [parts_of map app wild]. apply wild_star_mono.
            - pose proof (alternating_flip _ _ _ (alternating_tail _ _ Ha)) as Sq. rewrite Sn in Sq. simpl in Sq.
              rewrite parts_of_cons, Sq. cbn [app wild]. apply wild_star_mono. }
        destruct (index (lw s) (lw nxt)) as [j|] eqn:I; [|reflexivity].
        assert (L : (j + length nxt <= length s)%nat).
        { apply index_bound in I. rewrite Hn1, (bytewise_0 _ _ _ Hs), !map_length in I. exact I. }
        rewrite slice_from_ok by exact L.
        rewrite (IH rest' (skipn (j + length nxt) s)); [| simpl in *; lia | assumption | apply bytewise_skipn; assumption | assumption].
        rewrite (Hs (j + length nxt)%nat), (bytewise_0 _ _ _ Hs), skipn_map, Hn1, map_length. reflexivity.
    + cbn [app wild]. rewrite strip_prefix_has_prefix. destruct (has_prefix (lw s) (lw p)) eqn:HP; [|reflexivity].
      assert (L : (length p <= length s)%nat).
      { apply has_prefix_length in HP. rewrite Hp1, (bytewise_0 _ _ _ Hs), !map_length in HP. exact HP. }
      rewrite slice_from_ok by exact L.
      rewrite (IH rest (skipn (length p) s)); [| simpl in *; lia | eapply alternating_tail; eassumption | apply bytewise_skipn; assumption | assumption].
      rewrite (Hs (length p)), (bytewise_0 _ _ _ Hs), skipn_map, Hp1, map_length. reflexivity.
Qed.

Lemma parts_of_app lw a b : parts_of lw (a ++ b) = parts_of lw a ++ parts_of lw b.
Proof. apply map_app. Qed.

Theorem pinned_spec lw rsv f : forall s pat, pat <> [] -> alternating pat = true ->
  bytewise lw f s -> Forall (fun p => lw p = map f p) pat ->
  match_pattern_pinned_with lw rsv s pat = Ok (glob_matches_with lw rsv s (pat ++ [star])).
Proof.
  intros s pat Hne Ha Hs Hp. unfold match_pattern_pinned_with, glob_matches_with.
  destruct pat as [|p rest]; [congruence|]. cbn [app]. destruct (rsv s); [reflexivity|]. simpl negb. rewrite andb_true_l.
  rewrite (mp_loop_spec lw f (length (p :: rest))); try assumption; [|lia].
  change (p :: rest ++ [star]) with ((p :: rest) ++ [star]). rewrite parts_of_app. reflexivity.
Qed.

(* a trailing star makes the extra star redundant *)
Lemma wild_app_star_star ps : forall s, wild ((ps ++ [Star]) ++ [Star]) s = wild (ps ++ [Star]) s.
Proof.
  induction ps as [|[|l] ps IH]; intros s.
  - cbn [app wild]. apply bool_ext. rewrite !wild_star_spec. split.
    + intros (pre & t & -> & H). exists (pre ++ t), []. rewrite app_nil_r. auto.
    + intros (pre & t & -> & H). exists pre, t. split; [reflexivity|]. apply wild_star_nil.
  - cbn [app wild]. apply bool_ext. rewrite !wild_star_spec.
    split; intros (pre & t & -> & H); exists pre, t; (split; [reflexivity|]); [rewrite <- IH | rewrite IH]; exact H.
  - cbn [app wild]. destruct (strip_prefix l s); [apply IH | reflexivity].
Qed.

Theorem pinned_spec_trailing_star lw rsv f : forall s pat, alternating (pat ++ [star]) = true ->
  bytewise lw f s -> Forall (fun p => lw p = map f p) pat -> lw star = map f star ->
  match_pattern_pinned_with lw rsv s (pat ++ [star]) = Ok (glob_matches_with lw rsv s (pat ++ [star])).
Proof.
  intros s pat Ha Hs Hp Hst. rewrite pinned_spec with (f := f); try assumption.
  - f_equal. unfold glob_matches_with.
    destruct (pat ++ [star]) eqn:E1; [destruct pat; discriminate|]. rewrite <- E1.
    destruct ((pat ++ [star]) ++ [star]) eqn:E2; [destruct pat; discriminate|]. rewrite <- E2.
    f_equal. rewrite !parts_of_app. change (parts_of lw [star]) with [Star]. apply wild_app_star_star.
  - destruct pat; discriminate.
  - apply Forall_app. split; [assumption | constructor; [assumption | constructor]].
Qed.

(* ------------------------------------------------------------------ the repaired function (fix.patch):
   the same loop on a string that was lower-cased once; no hypothesis on the bytes is needed any more *)

Lemma mpl_loop_spec lw : forall n pat t, (length pat <= n)%nat -> alternating pat = true ->
  mpl_loop lw t pat = Ok (wild (parts_of lw pat ++ [Star]) t).
Proof.
  induction n as [|n IH]; intros pat t Hn Ha.
  - destruct pat; [|simpl in Hn; lia]. simpl. rewrite wild_star_nil. reflexivity.
  - destruct pat as [|p rest]; [simpl; rewrite wild_star_nil; reflexivity|].
    cbn [mpl_loop]. rewrite parts_of_cons. destruct (is_star p) eqn:Sp.
    + destruct rest as [|nxt rest'].
      * cbn [parts_of map app wild]. f_equal. symmetry. apply wild_star_spec. exists t, [].
        rewrite app_nil_r. auto.
      * pose proof (alternating_flip _ _ _ Ha) as Sn. rewrite Sp in Sn. simpl in Sn.
        rewrite parts_of_cons, Sn.
        pose proof (alternating_tail _ _ (alternating_tail _ _ Ha)) as Ha'.
        cbn [app wild]. rewrite greedy_leftmost.
        2:{ destruct rest' as [|q r].
            - cbn [parts_of map app wild]. apply wild_star_mono.
            - pose proof (alternating_flip _ _ _ (alternating_tail _ _ Ha)) as Sq. rewrite Sn in Sq. simpl in Sq.
              rewrite parts_of_cons, Sq. cbn [app wild]. apply wild_star_mono. }
        destruct (index t (lw nxt)) as [j|] eqn:I; [|reflexivity].
        rewrite slice_from_ok by (eapply index_bound; eassumption).
        apply IH; [simpl in *; lia | assumption].
    + cbn [app wild]. rewrite strip_prefix_has_prefix. destruct (has_prefix t (lw p)) eqn:HP; [|reflexivity].
      rewrite slice_from_ok by (apply has_prefix_length; assumption).
      apply IH; [simpl in *; lia | eapply alternating_tail; eassumption].
Qed.

Theorem fixed_spec lw rsv : forall s pat, pat <> [] -> alternating pat = true ->
  match_pattern_fixed_with lw rsv s pat = Ok (glob_matches_with lw rsv s (pat ++ [star])).
Proof.
  intros s pat Hne Ha. unfold match_pattern_fixed_with, glob_matches_with.
  destruct pat as [|p rest]; [congruence|]. cbn [app]. destruct (rsv s); [reflexivity|]. simpl negb. rewrite andb_true_l.
  rewrite (mpl_loop_spec lw (length (p :: rest))); try assumption; [|lia].
  change (p :: rest ++ [star]) with ((p :: rest) ++ [star]). rewrite parts_of_app. reflexivity.
Qed.

Theorem fixed_spec_trailing_star lw rsv : forall s pat, alternating (pat ++ [star]) = true ->
  match_pattern_fixed_with lw rsv s (pat ++ [star]) = Ok (glob_matches_with lw rsv s (pat ++ [star])).
Proof.
  intros s pat Ha. rewrite fixed_spec; try assumption.
  - f_equal. unfold glob_matches_with.
    destruct (pat ++ [star]) eqn:E1; [destruct pat; discriminate|]. rewrite <- E1.
    destruct ((pat ++ [star]) ++ [star]) eqn:E2; [destruct pat; discriminate|]. rewrite <- E2.
    f_equal. rewrite !parts_of_app. change (parts_of lw [star]) with [Star]. apply wild_app_star_star.
  - destruct pat; discriminate.
Qed.

(* ------------------------------------------------------------------ reserved keywords *)

Theorem never_reserved lw rsv s pat : pat <> [] -> rsv s = true ->
  match_pattern_fixed_with lw rsv s pat = Ok false /\
  match_pattern_pinned_with lw rsv s pat = Ok false /\
  match_pattern_anchored_with lw rsv s pat = Ok false /\
  glob_matches_with lw rsv s pat = false.
Proof.
  intros Hne Hr.
  unfold match_pattern_fixed_with, match_pattern_pinned_with, match_pattern_anchored_with, glob_matches_with.
  destruct pat; [congruence|]. rewrite Hr. auto.
Qed.

(* ------------------------------------------------------------------ the Go instance on ASCII *)

(* the early exit of lookup_lower is sound for the regenerated table: entries are sorted by their lower bound *)
Fixpoint sorted_lo (prev : N) (t : list (N * N * N * N)) : bool :=
  match t with
  | [] => true
  | (lo, _, _, _) :: t' => (prev <=? lo) && sorted_lo lo t'
  end.
Lemma lower_ranges_sorted : sorted_lo 0 lower_ranges = true.
Proof. vm_compute. reflexivity. Qed.

Fixpoint nrange (n : nat) : list N := match n with O => [] | S k => nrange k ++ [N.of_nat k] end.

Lemma nrange_in n : forall b, (b < N.of_nat n) -> In b (nrange n).
Proof.
  induction n as [|n IH]; intros b H; [lia|]. simpl. apply in_or_app.
  destruct (N.eq_dec b (N.of_nat n)) as [->|Hne]; [right; left; reflexivity | left; apply IH; lia].
Qed.

Lemma lower_rune_ascii_table :
  forallb (fun b => (lower_rune b =? ascii_lower b) && (ascii_lower b <? 128)) (nrange 128) = true.
Proof. vm_compute. reflexivity. Qed.

Lemma lower_rune_ascii b : b < 128 -> encode (lower_rune b) = [ascii_lower b].
Proof.
  intro H. pose proof lower_rune_ascii_table as T. rewrite forallb_forall in T.
  specialize (T b (nrange_in 128 b H)). apply andb_prop in T as [T1 T2]. apply N.eqb_eq in T1.
  unfold encode. rewrite T1, T2. reflexivity.
Qed.

Lemma decode_all_ascii : forall s fuel, is_ascii s = true -> (length s <= fuel)%nat -> decode_all fuel s = s.
Proof.
  induction s as [|b s IH]; intros fuel Ha Hf.
  - destruct fuel; reflexivity.
  - destruct fuel; [simpl in Hf; lia|]. simpl in Ha. apply andb_prop in Ha as [Hb Ha].
    cbn [decode_all decode1]. rewrite Hb. cbn [skipn]. rewrite IH; [reflexivity | assumption | simpl in Hf; lia].
Qed.

Lemma go_lower_ascii s : is_ascii s = true -> go_lower s = map ascii_lower s.
Proof.
  intro Ha. unfold go_lower. rewrite decode_all_ascii by (auto; lia).
  induction s as [|b s IH]; [reflexivity|]. simpl in Ha. apply andb_prop in Ha as [Hb Ha].
  cbn [flat_map map]. rewrite lower_rune_ascii by (apply N.ltb_lt; exact Hb). rewrite IH by assumption. reflexivity.
Qed.

Lemma is_ascii_skipn s k : is_ascii s = true -> is_ascii (skipn k s) = true.
Proof.
  revert s; induction k as [|k IH]; intros s H; [exact H|]. destruct s as [|b s]; [reflexivity|].
  simpl in H. apply andb_prop in H as [_ H]. simpl. apply IH. exact H.
Qed.

Lemma go_lower_bytewise s : is_ascii s = true -> bytewise go_lower ascii_lower s.
Proof. intros H k. apply go_lower_ascii. apply is_ascii_skipn. exact H. Qed.

Lemma map_bytewise f s : bytewise (map f) f s.
Proof. intro k. reflexivity. Qed.

(* ------------------------------------------------------------------ witnesses (replayed on the real code) *)

(* `*b` against `abc`: the pinned function says yes, the specification says no *)
Lemma tail_witness :
  match_pattern_pinned [97;98;99] [[42];[98]] = Ok true /\ glob_matches [97;98;99] [[42];[98]] = false.
Proof. vm_compute. auto. Qed.

(* pattern `K*` (U+212A KELVIN SIGN, bytes E2 84 AA) against the name `k`: the prefix test succeeds on the
   lower-cased strings and s[3:] of a 1-byte string panics *)
Lemma crash_witness : match_pattern_pinned [107] [[226;132;170];[42]] = Crash.
Proof. vm_compute. reflexivity. Qed.

(* `*b*b*` against U+0130 b (one b; the pattern ends in a star, so the unanchored tail plays no role): the
   offset found in the shorter lower-cased string "ib" is applied to the original, the same b is found twice *)
Lemma offset_witness :
  match_pattern_pinned [196;176;98] [[42];[98];[42];[98];[42]] = Ok true /\
  glob_matches [196;176;98] [[42];[98];[42];[98];[42]] = false.
Proof. vm_compute. auto. Qed.

(* `*b*` against U+023A b: ToLower makes the name longer (2 -> 3 bytes), s[4:] of a 3-byte string panics *)
Lemma crash_witness_longer : match_pattern_pinned [200;186;98] [[42];[98];[42]] = Crash.
Proof. vm_compute. reflexivity. Qed.

(* ------------------------------------------------------------------ statements used by Props.v *)

Lemma thm_anchored_spec : forall s pat, alternating pat = true -> match_pattern_anchored s pat = Ok (glob_matches s pat).
Proof. intros; apply anchored_spec; assumption. Qed.

Lemma thm_tail_refuted :
  exists s pat, alternating pat = true /\ match_pattern_pinned s pat = Ok true /\ glob_matches s pat = false.
Proof. exists [97;98;99], [[42];[98]]. split; [reflexivity | exact tail_witness]. Qed.

Lemma thm_offsets_refuted :
  (exists s pat, alternating pat = true /\ match_pattern_pinned s pat = Crash) /\
  (exists s pat, alternating pat = true /\ match_pattern_pinned s pat = Ok true /\ glob_matches s pat = false).
Proof.
  split.
  - exists [107], [[226;132;170];[42]]. split; [reflexivity | exact crash_witness].
  - exists [196;176;98], [[42];[98];[42];[98];[42]]. split; [reflexivity | exact offset_witness].
Qed.

Lemma thm_reserved_case_refuted :
  exists s pat, alternating pat = true /\ reserved_ci s = true /\ match_pattern_pinned s pat = Ok true.
Proof. exists [83;104;97;112;101], [[42]]. vm_compute. auto. Qed.

Lemma thm_pinned_prefix :
  forall s pat, pat <> [] -> alternating pat = true ->
    is_ascii s = true -> forallb is_ascii pat = true ->
    match_pattern_pinned s pat = Ok (glob_matches_with go_lower go_reserved s (pat ++ [star])).
Proof.
  intros s pat Hne Ha Hs Hp. apply pinned_spec with (f := ascii_lower); try assumption.
  - apply go_lower_bytewise; assumption.
  - rewrite forallb_forall in Hp. apply Forall_forall. intros p Hin. apply go_lower_ascii. apply Hp. assumption.
Qed.

Lemma thm_pinned_trailing :
  forall s pat, alternating (pat ++ [star]) = true ->
    is_ascii s = true -> forallb is_ascii pat = true ->
    match_pattern_pinned s (pat ++ [star]) = Ok (glob_matches_with go_lower go_reserved s (pat ++ [star])).
Proof.
  intros s pat Ha Hs Hp. apply pinned_spec_trailing_star with (f := ascii_lower); try assumption.
  - apply go_lower_bytewise; assumption.
  - rewrite forallb_forall in Hp. apply Forall_forall. intros p Hin. apply go_lower_ascii. apply Hp. assumption.
  - reflexivity.
Qed.

Lemma thm_never_reserved :
  forall s pat, pat <> [] ->
    (go_reserved s = true -> match_pattern_pinned s pat = Ok false) /\
    (reserved_ci s = true ->
       match_pattern_fixed s pat = Ok false /\ match_pattern_anchored s pat = Ok false /\ glob_matches s pat = false).
Proof.
  intros s pat Hne. split; intro Hr.
  - apply (never_reserved go_lower go_reserved s pat Hne Hr).
  - destruct (never_reserved go_lower reserved_ci s pat Hne Hr) as (H1 & _ & H3 & H4). auto.
Qed.

Lemma thm_fixed_prefix : forall s pat, pat <> [] -> alternating pat = true ->
  match_pattern_fixed s pat = Ok (glob_matches s (pat ++ [star])).
Proof. intros; apply fixed_spec; assumption. Qed.

Lemma thm_fixed_trailing : forall s pat, alternating (pat ++ [star]) = true ->
  match_pattern_fixed s (pat ++ [star]) = Ok (glob_matches s (pat ++ [star])).
Proof. intros; apply fixed_spec_trailing_star; assumption. Qed.

(* the repaired function on the three witnesses of the offset and keyword defects *)
Lemma fixed_witnesses :
  match_pattern_fixed [107] [[226;132;170];[42]] = Ok true /\
  match_pattern_fixed [196;176;98] [[42];[98];[42];[98];[42]] = Ok false /\
  match_pattern_fixed [200;186;98] [[42];[98];[42]] = Ok true /\
  match_pattern_fixed [83;104;97;112;101] [[42]] = Ok false.
Proof. vm_compute. auto. Qed.
