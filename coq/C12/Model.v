(* C12 part 1 — d2ir.matchPattern, exactly as written, and its declarative specification.

   Go strings are byte strings here (list N, every element < 256): matchPattern slices `s` with byte
   offsets that it computes on strings.ToLower(s), and ToLower can change the byte length of a rune
   (U+212A KELVIN SIGN, 3 bytes -> k, 1 byte; U+0130 -> i; U+023A, 2 bytes -> U+2C65, 3 bytes), so
   the byte level is where the behaviour of the code is decided.  Slicing past the end is the
   explicit result [Crash] (Go: "slice bounds out of range" panic).

   strings.ToLower, utf8.DecodeRuneInString and utf8.EncodeRune are modelled below; the table of
   unicode.ToLower and the reserved keyword table come from V.Gen.C12Tables, regenerated from the
   toolchain / the linked d2ast package on every run.

   All functions take the lower-casing function [lw] and the reserved test [rsv] as arguments, so
   the same definitions serve the byte-level instance (what Go runs) and the rune-level instance
   (lists of code points with a pointwise ToLower: what the property talks about). *)
From Coq Require Import List NArith Bool.
Import ListNotations.
Require Import V.Gen.C12Tables.
Open Scope N_scope.

Definition str := list N.

Fixpoint str_eqb (a b : str) : bool :=
  match a, b with
  | [], [] => true
  | x :: xs, y :: ys => (x =? y) && str_eqb xs ys
  | _, _ => false
  end.

Inductive res (A : Type) := Ok (a : A) | Crash.
Arguments Ok {A} a.
Arguments Crash {A}.

(* ------------------------------------------------------------------ Go string primitives *)

(* strings.HasPrefix *)
Fixpoint has_prefix (s p : str) : bool :=
  match p, s with
  | [], _ => true
  | y :: p', x :: s' => (x =? y) && has_prefix s' p'
  | _ :: _, [] => false
  end.

(* strings.Index: byte offset of the first occurrence, None for -1 *)
Fixpoint index (s sub : str) : option nat :=
  if has_prefix s sub then Some O
  else match s with
       | [] => None
       | _ :: s' => match index s' sub with Some j => Some (S j) | None => None end
       end.

(* s[k:] *)
Definition slice_from (s : str) (k : nat) : res str :=
  if Nat.leb k (length s) then Ok (skipn k s) else Crash.

(* strings.HasSuffix *)
Definition has_suffix (s p : str) : bool :=
  Nat.leb (length p) (length s) && str_eqb (skipn (length s - length p) s) p.

Definition star : str := [42].
Definition is_star (p : str) : bool := str_eqb p star.

(* ------------------------------------------------------------------ matchPattern, pinned code

   for i := 0; i < len(pattern); i++ {
     if pattern[i] == "*" {
       if i != len(pattern)-1 {
         j := strings.Index(strings.ToLower(s), strings.ToLower(pattern[i+1]))
         if j == -1 { return false }
         s = s[j+len(pattern[i+1]):]
         i++
       }
     } else {
       if !strings.HasPrefix(strings.ToLower(s), strings.ToLower(pattern[i])) { return false }
       s = s[len(pattern[i]):]
     }
   }
   return true                                                                                    *)
Fixpoint mp_loop (lw : str -> str) (s : str) (pat : list str) : res bool :=
  match pat with
  | [] => Ok true
  | p :: rest =>
      if is_star p then
        match rest with
        | [] => Ok true
        | nxt :: rest' =>
            match index (lw s) (lw nxt) with
            | None => Ok false
            | Some j =>
                match slice_from s (j + length nxt) with
                | Crash => Crash
                | Ok s' => mp_loop lw s' rest'
                end
            end
        end
      else if has_prefix (lw s) (lw p) then
        match slice_from s (length p) with
        | Crash => Crash
        | Ok s' => mp_loop lw s' rest
        end
      else Ok false
  end.

Definition match_pattern_pinned_with (lw : str -> str) (rsv : str -> bool) (s : str) (pat : list str) : res bool :=
  match pat with
  | [] => Ok true
  | _ => if rsv s then Ok false else mp_loop lw s pat
  end.

(* ------------------------------------------------------------------ matchPattern, repaired (coq/C12/fix.patch)

   The repair that keeps the pinned test suite green: the name is lower-cased once and only the lower-cased
   string is sliced (no panic, no misaligned offsets), the keyword lookup is done on the lower-cased name.
   The end of the name stays unanchored, because the pinned test d2ir TestCompile/patterns/suffix (and its golden
   file) requires `*l` to match `jingle`.

   s = strings.ToLower(s)
   for i := 0; i < len(pattern); i++ {
     if pattern[i] == "*" {
       if i != len(pattern)-1 {
         next := strings.ToLower(pattern[i+1])
         j := strings.Index(s, next)
         if j == -1 { return false }
         s = s[j+len(next):]
         i++
       }
     } else {
       part := strings.ToLower(pattern[i])
       if !strings.HasPrefix(s, part) { return false }
       s = s[len(part):]
     }
   }
   return true                                                                                    *)
Fixpoint mpl_loop (lw : str -> str) (s : str) (pat : list str) : res bool :=
  match pat with
  | [] => Ok true
  | p :: rest =>
      if is_star p then
        match rest with
        | [] => Ok true
        | nxt :: rest' =>
            match index s (lw nxt) with
            | None => Ok false
            | Some j =>
                match slice_from s (j + length (lw nxt)) with
                | Crash => Crash
                | Ok s' => mpl_loop lw s' rest'
                end
            end
        end
      else if has_prefix s (lw p) then
        match slice_from s (length (lw p)) with
        | Crash => Crash
        | Ok s' => mpl_loop lw s' rest
        end
      else Ok false
  end.

Definition match_pattern_fixed_with (lw : str -> str) (rsv : str -> bool) (s : str) (pat : list str) : res bool :=
  match pat with
  | [] => Ok true
  | _ => if rsv s then Ok false else mpl_loop lw (lw s) pat
  end.

(* ------------------------------------------------------------------ matchPattern, anchored (the specification's
   algorithm; coq/C12/fix_anchor.patch = fix.patch + the end of the name is anchored; it changes the pinned
   test patterns/suffix)

   s = strings.ToLower(s)
   for i := 0; i < len(pattern); i++ {
     if pattern[i] == "*" {
       if i == len(pattern)-1 { return true }
       next := strings.ToLower(pattern[i+1])
       if i+1 == len(pattern)-1 { return strings.HasSuffix(s, next) }
       j := strings.Index(s, next)
       if j == -1 { return false }
       s = s[j+len(next):]
       i++
     } else {
       p := strings.ToLower(pattern[i])
       if !strings.HasPrefix(s, p) { return false }
       s = s[len(p):]
     }
   }
   return s == ""                                                                                 *)
Fixpoint mpa_loop (lw : str -> str) (s : str) (pat : list str) : res bool :=
  match pat with
  | [] => Ok (match s with [] => true | _ => false end)
  | p :: rest =>
      if is_star p then
        match rest with
        | [] => Ok true
        | nxt :: rest' =>
            match rest' with
            | [] => Ok (has_suffix s (lw nxt))
            | _ =>
                match index s (lw nxt) with
                | None => Ok false
                | Some j =>
                    match slice_from s (j + length (lw nxt)) with
                    | Crash => Crash
                    | Ok s' => mpa_loop lw s' rest'
                    end
                end
            end
        end
      else if has_prefix s (lw p) then
        match slice_from s (length (lw p)) with
        | Crash => Crash
        | Ok s' => mpa_loop lw s' rest
        end
      else Ok false
  end.

Definition match_pattern_anchored_with (lw : str -> str) (rsv : str -> bool) (s : str) (pat : list str) : res bool :=
  match pat with
  | [] => Ok true
  | _ => if rsv s then Ok false else mpa_loop lw (lw s) pat
  end.

(* ------------------------------------------------------------------ specification

   Standard wildcard semantics: a pattern is a list of parts, Star matches any (possibly empty)
   sequence, Lit l matches exactly l; the parts must cover the whole string. *)
Inductive part := Star | Lit (l : str).

Fixpoint strip_prefix (l s : str) : option str :=
  match l, s with
  | [], _ => Some s
  | y :: l', x :: s' => if x =? y then strip_prefix l' s' else None
  | _ :: _, [] => None
  end.

(* some suffix of s is accepted by k *)
Fixpoint wild_star (k : str -> bool) (s : str) : bool :=
  k s || match s with [] => false | _ :: s' => wild_star k s' end.

Fixpoint wild (ps : list part) : str -> bool :=
  match ps with
  | [] => fun s => match s with [] => true | _ => false end
  | Star :: ps' => wild_star (wild ps')
  | Lit l :: ps' => fun s => match strip_prefix l s with Some r => wild ps' r | None => false end
  end.

(* the same as an inductive relation (Proofs.v: wild ps s = true <-> Matches ps s) *)
Inductive Matches : list part -> str -> Prop :=
| M_nil : Matches [] []
| M_star : forall ps x s, Matches ps s -> Matches (Star :: ps) (x ++ s)
| M_lit : forall ps l s, Matches ps s -> Matches (Lit l :: ps) (l ++ s).

Definition parts_of (lw : str -> str) (pat : list str) : list part :=
  map (fun p => if is_star p then Star else Lit (lw p)) pat.

(* A name matches a glob pattern iff it is not a reserved keyword and its lower-cased form matches the
   lower-cased pattern.  (The empty pattern is "no glob": matchPattern answers true.) *)
Definition glob_matches_with (lw : str -> str) (rsv : str -> bool) (s : str) (pat : list str) : bool :=
  match pat with
  | [] => true
  | _ => negb (rsv s) && wild (parts_of lw pat) (lw s)
  end.

(* What the parser produces (d2parser.parseUnquotedString): stars and literals alternate, adjacent
   stars are separated by an empty literal ("**" = ["*"; ""; "*"]). *)
Fixpoint alternating (pat : list str) : bool :=
  match pat with
  | [] => true
  | p :: rest =>
      match rest with
      | [] => true
      | q :: _ => negb (Bool.eqb (is_star p) (is_star q)) && alternating rest
      end
  end.

(* ------------------------------------------------------------------ the Go instance *)

Definition in_rng (lo hi b : N) : bool := (lo <=? b) && (b <=? hi).
Definition cont (b : N) : bool := in_rng 128 191 b.
Definition rune_error : N := 65533.

(* utf8.DecodeRuneInString on a non-empty string: (rune, width); every invalid or truncated
   sequence decodes to (U+FFFD, 1) *)
Definition decode1 (s : str) : N * nat :=
  match s with
  | [] => (rune_error, 0%nat)
  | b0 :: t =>
      if b0 <? 128 then (b0, 1%nat)
      else if in_rng 194 223 b0 then
        match t with
        | b1 :: _ => if cont b1 then ((b0 - 192) * 64 + (b1 - 128), 2%nat) else (rune_error, 1%nat)
        | _ => (rune_error, 1%nat)
        end
      else if in_rng 224 239 b0 then
        let lo := if b0 =? 224 then 160 else 128 in
        let hi := if b0 =? 237 then 159 else 191 in
        match t with
        | b1 :: b2 :: _ =>
            if in_rng lo hi b1 && cont b2
            then ((b0 - 224) * 4096 + (b1 - 128) * 64 + (b2 - 128), 3%nat) else (rune_error, 1%nat)
        | _ => (rune_error, 1%nat)
        end
      else if in_rng 240 244 b0 then
        let lo := if b0 =? 240 then 144 else 128 in
        let hi := if b0 =? 244 then 143 else 191 in
        match t with
        | b1 :: b2 :: b3 :: _ =>
            if in_rng lo hi b1 && cont b2 && cont b3
            then ((b0 - 240) * 262144 + (b1 - 128) * 4096 + (b2 - 128) * 64 + (b3 - 128), 4%nat)
            else (rune_error, 1%nat)
        | _ => (rune_error, 1%nat)
        end
      else (rune_error, 1%nat)
  end.

Fixpoint decode_all (fuel : nat) (s : str) : list N :=
  match fuel with
  | O => []
  | S f => match s with
           | [] => []
           | _ => let (r, w) := decode1 s in r :: decode_all f (skipn w s)
           end
  end.

(* utf8.AppendRune for a valid scalar value *)
Definition encode (r : N) : str :=
  if r <? 128 then [r]
  else if r <? 2048 then [192 + r / 64; 128 + r mod 64]
  else if r <? 65536 then [224 + r / 4096; 128 + (r / 64) mod 64; 128 + r mod 64]
  else [240 + r / 262144; 128 + (r / 4096) mod 64; 128 + (r / 64) mod 64; 128 + r mod 64].

(* unicode.ToLower from the generated ranges *)
Fixpoint lookup_lower (t : list (N * N * N * N)) (r : N) : N :=
  match t with
  | [] => r
  | (lo, hi, stride, img) :: t' =>
      if r <? lo then r     (* the generated ranges are sorted by lo (Proofs.lower_ranges_sorted) *)
      else if (r <=? hi) && ((r - lo) mod stride =? 0) then img + (r - lo)
      else lookup_lower t' r
  end.
Definition lower_rune (r : N) : N := lookup_lower lower_ranges r.

(* strings.ToLower (= strings.Map(unicode.ToLower, s); the ASCII fast path computes the same) *)
Definition go_lower (s : str) : str :=
  flat_map (fun r => encode (lower_rune r)) (decode_all (length s) s).

(* `_, ok := d2ast.ReservedKeywords[s]`: an exact, case-sensitive lookup (pinned code) *)
Definition go_reserved (s : str) : bool := existsb (str_eqb s) reserved_keywords.
(* the lookup as the rest of d2 does it (ensureField, d2compiler): on the lower-cased key, so that
   `Shape: circle` is the keyword; used by the specification and by the repaired function *)
Definition reserved_ci (s : str) : bool := go_reserved (go_lower s).

Definition match_pattern_pinned := match_pattern_pinned_with go_lower go_reserved.
Definition match_pattern_fixed := match_pattern_fixed_with go_lower reserved_ci.
Definition match_pattern_anchored := match_pattern_anchored_with go_lower reserved_ci.
Definition glob_matches := glob_matches_with go_lower reserved_ci.

(* The function the check compares with d2ir.matchPattern.  Switch to match_pattern_fixed when
   coq/C12/fix.patch lands (C12_match_pattern_fixed_* are about it), to match_pattern_anchored when
   coq/C12/fix_anchor.patch lands (C12_match_pattern_spec). *)
Definition match_pattern := match_pattern_pinned.

Definition ascii_lower (b : N) : N := if in_rng 65 90 b then b + 32 else b.
Definition is_ascii (s : str) : bool := forallb (fun b => b <? 128) s.
