(* C12 part 2 — single-level field globs in one scope: a model of the d2ir mechanism
   (compiler.compileKey / EnsureField / ensureField / _compileField, globContext.appliedFields, the lazy
   re-application loops) on the core fragment, and the reference expansion of globs into explicit keys.

   Fragment.  One scope (the root map).  Statements:
     SKey path v     `a.b.style.fill: v`  /  `a.b`         explicit key, every element a plain name
     SGlob g         `pre.p1.p2.suf: v`                    pre: plain names, p1..pk: patterns (k >= 1, each
                                                            with a star, no double or triple glob), suf: plain
                                                            names that no pattern matches (reserved keywords:
                                                            style.fill, label, shape ...), v a scalar
   d2ir does not distinguish objects from attributes: everything is a Field with an optional primary value and
   children; so does the model.  The IR is the list of fields in creation order; a field knows the display
   path of its parent (the spelling used when each ancestor was created) and its own name.

   The two functions the mechanism is parameterised by are arguments:
     keq : field lookup compares names with strings.EqualFold
     mt  : d2ir.matchPattern (part 1)                                                           *)
From Coq Require Import List NArith Bool Arith.
Import ListNotations.
Require Import V.C12.Model.

Definition path := list str.

Fixpoint path_eqb (a b : path) : bool :=
  match a, b with
  | [], [] => true
  | x :: a', y :: b' => str_eqb x y && path_eqb a' b'
  | _, _ => false
  end.

Record entry := E { epar : path; ename : str; eprim : option str }.
Definition ir := list entry.
Definition epath (e : entry) : path := epar e ++ [ename e].

Record glob := G { g_pre : path; g_pats : list (list str); g_suf : path; g_val : str }.

Fixpoint pats_eqb (a b : list (list str)) : bool :=
  match a, b with
  | [], [] => true
  | x :: a', y :: b' => path_eqb x y && pats_eqb a' b'
  | _, _ => false
  end.

(* RefContext.Equal for two glob keys of the same scope: the keys are textually equal *)
Definition glob_eqb (a b : glob) : bool :=
  path_eqb (g_pre a) (g_pre b) && pats_eqb (g_pats a) (g_pats b) && path_eqb (g_suf a) (g_suf b)
  && str_eqb (g_val a) (g_val b).

Inductive stmt := SKey (p : path) (v : option str) | SGlob (g : glob).
Definition program := list stmt.

Section Mechanism.
Variable keq : str -> str -> bool.
Variable mt : str -> list str -> bool.

(* ---------------------------------------------------------------- fields *)

(* `for _, f := range m.Fields { if strings.EqualFold(f.Name, head) ...`: the first child of the map at
   display path [par] whose name equals n; returns its stored name *)
Definition find_child (st : ir) (par : path) (n : str) : option str :=
  match find (fun e => path_eqb (epar e) par && keq (ename e) n) st with
  | Some e => Some (ename e)
  | None => None
  end.

(* Map.ensureField along plain names with create = true: walks / creates, returns the display path reached *)
Fixpoint ensure (st : ir) (par : path) (names : path) : ir * path :=
  match names with
  | [] => (st, par)
  | n :: rest =>
      match find_child st par n with
      | Some nm => ensure st (par ++ [nm]) rest
      | None => ensure (st ++ [E par n None]) (par ++ [n]) rest
      end
  end.

(* f.Primary_ = &Scalar{...} on the field with display path p *)
Definition set_prim (st : ir) (p : path) (v : str) : ir :=
  map (fun e => if path_eqb (epath e) p then E (epar e) (ename e) (Some v) else e) st.

Definition has_prim (st : ir) (p : path) : bool :=
  existsb (fun e => path_eqb (epath e) p && match eprim e with Some _ => true | None => false end) st.

Definition children (st : ir) (par : path) : list entry := filter (fun e => path_eqb (epar e) par) st.

(* ---------------------------------------------------------------- one application of a glob key

   ensureField with a pattern element: `for _, f := range m.Fields { if matchPattern(f.Name, pattern) { ...
   f.Map().ensureField(i+1, ...) } }`, level by level; the result is the display paths of the fields the
   pattern part of the key reaches, in the order the loops visit them.  (The loops range over slices that are
   not appended to while they run: what a glob application creates lies below the matched fields.) *)
Fixpoint walk (st : ir) (par : path) (pats : list (list str)) : list path :=
  match pats with
  | [] => [par]
  | p :: ps => flat_map (fun e => if mt (ename e) p then walk st (par ++ [ename e]) ps else []) (children st par)
  end.

Definition mem_path (p : path) (l : list path) : bool := existsb (path_eqb p) l.

(* compiler.ignoreLazyGlob(f) = lazyGlobBeingApplied && f.Primary() != nil &&
                                lastPrimaryRef != nil && !lastPrimaryRef.DueToLazyGlob().
   ensureField appends the FieldReference of the current visit (DueToLazyGlob_ = lazyGlobBeingApplied, and it is
   a primary reference: the field is the last element of the key path) BEFORE _compileField consults
   LastPrimaryRef, so lastPrimaryRef is that very reference and its flag is [lz] itself. *)
Definition ignore_lazy (lz : bool) (st : ir) (term : path) : bool :=
  let last_primary_ref_lazy := lz in
  lz && has_prim st term && negb last_primary_ref_lazy.

(* phase 1 (EnsureField): reach the suffix below every matched field, creating it; filter() drops the fields
   the glob context has already been applied to and records the others.
   phase 2 (compileField): _compileField on every field EnsureField returned. *)
Definition reach (g : glob) (acc : ir * list path * list path) (t : path) : ir * list path * list path :=
  let '(s, fa, ap) := acc in
  let (s', term) := ensure s t (g_suf g) in
  if mem_path term ap then (s', fa, ap) else (s', fa ++ [term], ap ++ [term]).

Definition assign (lz : bool) (g : glob) (s : ir) (term : path) : ir :=
  if ignore_lazy lz s term then s else set_prim s term (g_val g).

Definition apply_glob (lz : bool) (g : glob) (st : ir) (applied : list path) : ir * list path :=
  let (st1, base) := ensure st [] (g_pre g) in
  let '(st2, fa, applied') := fold_left (reach g) (walk st1 base (g_pats g)) (st1, [], applied) in
  (fold_left (assign lz g) fa st2, applied').

(* ---------------------------------------------------------------- the compiler state: IR + glob contexts *)

Record cstate := C { c_ir : ir; c_globs : list glob; c_applied : list (list path) }.

Fixpoint set_nth {A} (l : list A) (i : nat) (x : A) : list A :=
  match l, i with
  | [], _ => []
  | _ :: l', O => x :: l'
  | y :: l', S j => y :: set_nth l' j x
  end.

Definition apply_idx (lz : bool) (i : nat) (s : cstate) : cstate :=
  match nth_error (c_globs s) i with
  | None => s
  | Some g =>
      let (st', ap') := apply_glob lz g (c_ir s) (nth i (c_applied s) []) in
      C st' (c_globs s) (set_nth (c_applied s) i ap')
  end.

(* oldFields != refctx.ScopeMap.FieldCountRecursive() *)
Definition changed (a b : cstate) : bool := negb (Nat.eqb (length (c_ir a)) (length (c_ir b))).

(* compileKey's tail and EnsureField's tail:
     for _, gctx2 := range c.globContexts() { c.lazyGlobBeingApplied = true; c.compileKey(gctx2.refctx) }
   compileKey(glob key) returns at once when the key is on globRefContextStack ([stack], indices), otherwise it
   pushes it, applies the key, and when the field count changed runs the same loop again, nested.
   Explicit fuel (DESIGN 2.4); Proofs: length globs + 1 - length stack is never exhausted. *)
Fixpoint reapply (fuel : nat) (stack : list nat) (s : cstate) : option cstate :=
  match fuel with
  | O => None
  | S f =>
      fold_left (fun acc i =>
                   match acc with
                   | None => None
                   | Some s0 =>
                       if existsb (Nat.eqb i) stack then Some s0
                       else let s1 := apply_idx true i s0 in
                            if changed s0 s1 then reapply f (i :: stack) s1 else Some s1
                   end)
                (seq 0 (length (c_globs s))) (Some s)
  end.

Definition fuel_of (s : cstate) : nat := S (length (c_globs s)).

Fixpoint find_glob (gs : list glob) (g : glob) (i : nat) : option nat :=
  match gs with
  | [] => None
  | g' :: gs' => if glob_eqb g' g then Some i else find_glob gs' g (S i)
  end.

Definition step (s : cstate) (x : stmt) : option cstate :=
  match x with
  | SKey p v =>
      (* compileKey -> compileField -> EnsureField: the fields of the path exist afterwards; fa is not empty and
         globRefContextStack is empty, so every glob context is re-applied lazily; then _compileField assigns
         the value; then compileKey re-applies again if the field count changed *)
      let (ir1, term) := ensure (c_ir s) [] p in
      match reapply (fuel_of s) [] (C ir1 (c_globs s) (c_applied s)) with
      | None => None
      | Some s2 =>
          let s3 := match v with
                    | Some x => C (set_prim (c_ir s2) term x) (c_globs s2) (c_applied s2)
                    | None => s2
                    end in
          if changed s s3 then reapply (fuel_of s3) [] s3 else Some s3
      end
  | SGlob g =>
      (* ensureGlobContext: an equal key reuses its context *)
      let '(s0, i) := match find_glob (c_globs s) g 0 with
                      | Some i => (s, i)
                      | None => (C (c_ir s) (c_globs s ++ [g]) (c_applied s ++ [[]]), length (c_globs s))
                      end in
      let s1 := apply_idx false i s0 in
      if changed s0 s1 then reapply (fuel_of s1) [i] s1 else Some s1
  end.

Fixpoint run_from (s : cstate) (p : program) : option cstate :=
  match p with
  | [] => Some s
  | x :: rest => match step s x with None => None | Some s' => run_from s' rest end
  end.

Definition run (p : program) : option ir :=
  match run_from (C [] [] []) p with Some s => Some (c_ir s) | None => None end.

(* ---------------------------------------------------------------- programs without globs, and the expansion *)

Definition plain_step (st : ir) (x : stmt) : ir :=
  match x with
  | SKey p v => let (st1, term) := ensure st [] p in
                match v with Some x => set_prim st1 term x | None => st1 end
  | SGlob _ => st
  end.
Definition run_plain_from (st : ir) (p : program) : ir := fold_left plain_step p st.
Definition run_plain (p : program) : ir := run_plain_from [] p.

(* every field the pattern part of g reaches (Proofs: exactly the existing paths pre ++ ms whose ms match) *)
Definition targets (g : glob) (st : ir) : list path :=
  let (st1, base) := ensure st [] (g_pre g) in walk st1 base (g_pats g).

Definition body (g : glob) (t : path) : stmt := SKey (t ++ g_suf g) (Some (g_val g)).

Definition exists_path (st : ir) (p : path) : bool := existsb (fun e => path_eqb (epath e) p) st.

(* the targets of g among the fields that [st1] has and [st0] had not *)
Definition new_targets (g : glob) (st0 st1 : ir) : list path :=
  filter (fun t => negb (exists_path st0 t)) (targets g st1).

Definition bare (p : path) : list stmt := match p with [] => [] | _ => [SKey p None] end.

(* Reference expansion.  A glob stands for its body declared on every target that exists where the glob is
   written, and declared again on every later target right where that target is created: an explicit key first
   creates its fields (bare key), then come the bodies of the globs written so far, in their order, for the
   targets the key created, then the key with its value. *)
Fixpoint expand_from (st : ir) (gs : list glob) (p : program) : program :=
  match p with
  | [] => []
  | SKey q v :: rest =>
      let st1 := fst (ensure st [] q) in
      let out := SKey q None :: flat_map (fun g => map (body g) (new_targets g st st1)) gs ++ [SKey q v] in
      out ++ expand_from (run_plain_from st out) gs rest
  | SGlob g :: rest =>
      let st1 := fst (ensure st [] (g_pre g)) in
      let out := bare (g_pre g)
                 ++ flat_map (fun g' => map (body g') (new_targets g' st st1)) gs
                 ++ map (body g) (targets g st1) in
      out ++ expand_from (run_plain_from st out) (gs ++ [g]) rest
  end.
Definition expand (p : program) : program := expand_from [] [] p.

End Mechanism.

(* ---------------------------------------------------------------- the instance d2ir runs (ASCII names):
   strings.EqualFold, the pinned matchPattern (a panic counts as "no match": the harness keeps such names out) *)
Definition keq_go (a b : str) : bool := str_eqb (go_lower a) (go_lower b).
Definition mt_go (n : str) (p : list str) : bool := match match_pattern n p with Ok b => b | Crash => false end.

(* decidable well-formedness of a core-fragment program: explicit keys are not empty; a glob has no explicit
   prefix, at least one pattern, no empty pattern, a non-empty suffix of reserved keywords (exact spelling), and
   the same glob key is not written twice *)
Definition nonemptyb {A} (l : list A) : bool := match l with [] => false | _ => true end.
Definition glob_okb (g : glob) : bool :=
  negb (nonemptyb (g_pre g)) && nonemptyb (g_pats g) && forallb nonemptyb (g_pats g)
  && nonemptyb (g_suf g) && forallb go_reserved (g_suf g).
Fixpoint wf_fromb (gs : list glob) (p : program) : bool :=
  match p with
  | [] => true
  | SKey q _ :: r => nonemptyb q && wf_fromb gs r
  | SGlob g :: r => glob_okb g && negb (existsb (fun g' => glob_eqb g' g) gs) && wf_fromb (gs ++ [g]) r
  end.
Definition wf_progb (p : program) : bool := wf_fromb [] p.
