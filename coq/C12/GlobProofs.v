(* C12 part 2 — proofs about the glob mechanism model (GlobModel.v). *)
From Coq Require Import List NArith Bool Arith Lia.
Import ListNotations.
Require Import V.C12.Model V.C12.Proofs V.C12.GlobModel.

Lemma path_eqb_eq a b : path_eqb a b = true <-> a = b.
Proof.
  revert b; induction a as [|x a IH]; intros [|y b]; simpl; split; intro H; try reflexivity; try discriminate.
  - apply andb_prop in H as [H1 H2]. apply str_eqb_eq in H1. apply IH in H2. congruence.
  - inversion H; subst. rewrite str_eqb_refl. simpl. apply IH. reflexivity.
Qed.
Lemma path_eqb_refl a : path_eqb a a = true.
Proof. apply path_eqb_eq. reflexivity. Qed.
Lemma path_eqb_neq a b : a <> b -> path_eqb a b = false.
Proof. intro H. destruct (path_eqb a b) eqn:E; [apply path_eqb_eq in E; contradiction | reflexivity]. Qed.

Lemma find_first {A} (f : A -> bool) : forall a x c,
  f x = true -> (forall y, In y a -> f y = false) -> find f (a ++ x :: c) = Some x.
Proof.
  induction a as [|y a IH]; intros x c Hx Ha; simpl.
  - rewrite Hx. reflexivity.
  - rewrite (Ha y (or_introl eq_refl)). apply IH; [assumption | intros; apply Ha; right; assumption].
Qed.

Lemma find_app_some {A} (f : A -> bool) a b x : find f a = Some x -> find f (a ++ b) = Some x.
Proof. induction a as [|y a IH]; simpl; [discriminate|]. destruct (f y); auto. Qed.

Lemma find_app_none {A} (f : A -> bool) a b : find f a = None -> find f (a ++ b) = find f b.
Proof. induction a as [|y a IH]; simpl; [reflexivity|]. destruct (f y); [discriminate | auto]. Qed.

Section Proofs.
Variable keq : str -> str -> bool.
Variable mt : str -> list str -> bool.
Hypothesis keq_refl : forall a, keq a a = true.

Notation find_child := (find_child keq).
Notation ensure := (ensure keq).
Notation walk := (walk mt).
Notation apply_glob := (apply_glob keq mt).
Notation apply_idx := (apply_idx keq mt).
Notation reapply := (reapply keq mt).
Notation step := (step keq mt).
Notation run_from := (run_from keq mt).
Notation plain_step := (plain_step keq).
Notation run_plain_from := (run_plain_from keq).
Notation targets := (targets keq mt).
Notation new_targets := (new_targets keq mt).
Notation expand_from := (expand_from keq mt).

(* ------------------------------------------------------------------ well-formed IR *)

(* no two fields of one map have equal names (in the sense of keq); stated for an earlier and a later field *)
Definition uniq (st : ir) : Prop :=
  forall a e1 b e2 c, st = a ++ e1 :: b ++ e2 :: c -> epar e1 = epar e2 -> keq (ename e1) (ename e2) = false.

Definition has (st : ir) (par : path) (n : str) : Prop := exists e, In e st /\ epar e = par /\ ename e = n.

(* the parent of every field is the root or a field *)
Definition closed (st : ir) : Prop :=
  forall e, In e st -> epar e = [] \/ exists par n, epar e = par ++ [n] /\ has st par n.

Lemma find_child_has st par n : uniq st -> has st par n -> find_child st par n = Some n.
Proof.
  intros U (e & Hin & Hp & Hn). unfold GlobModel.find_child.
  destruct (in_split _ _ Hin) as (a & c & Hs). rewrite Hs, find_first with (x := e).
  - rewrite Hn. reflexivity.
  - rewrite Hp, path_eqb_refl, Hn, keq_refl. reflexivity.
  - intros y Hy. destruct (path_eqb (epar y) par) eqn:Ey; [|reflexivity]. simpl.
    apply path_eqb_eq in Ey. destruct (in_split _ _ Hy) as (a1 & a2 & ->).
    rewrite <- Hn. apply (U a1 y a2 e c); [rewrite Hs, <- app_assoc; reflexivity | congruence].
Qed.

Lemma find_child_some st par n nm : find_child st par n = Some nm -> has st par nm /\ keq nm n = true.
Proof.
  unfold GlobModel.find_child. destruct (find _ st) as [e|] eqn:F; [|discriminate].
  intro H; inversion H; subst. apply find_some in F as [Hin Hc]. apply andb_prop in Hc as [Hc1 Hc2].
  apply path_eqb_eq in Hc1. split; [exists e; auto | assumption].
Qed.

Lemma find_child_app_some st more par n nm :
  find_child st par n = Some nm -> find_child (st ++ more) par n = Some nm.
Proof.
  unfold GlobModel.find_child. destruct (find _ st) as [e|] eqn:F; [|discriminate].
  intro H. rewrite (find_app_some _ _ more _ F). exact H.
Qed.

(* ------------------------------------------------------------------ names only: what lookups depend on *)

Definition key (e : entry) : path * str := (epar e, ename e).
Definition keys (st : ir) : list (path * str) := map key st.

Lemma find_child_keys st st' par n : keys st = keys st' -> find_child st par n = find_child st' par n.
Proof.
  unfold GlobModel.find_child. revert st'. induction st as [|e st IH]; intros [|e' st'] H; try discriminate; [reflexivity|].
  simpl in H. inversion H as [[H1 H2 H3]]. simpl. rewrite H1, H2.
  destruct (path_eqb (epar e') par && keq (ename e') n)%bool; [simpl; congruence | apply IH; assumption].
Qed.

Lemma keys_set_prim st p v : keys (set_prim st p v) = keys st.
Proof.
  unfold keys, set_prim. rewrite map_map. apply map_ext. intro e. destruct (path_eqb (epath e) p); reflexivity.
Qed.

(* [ext st st']: st' has the fields of st, in the same order, possibly with other values, followed by more *)
Definition ext (st st' : ir) : Prop := exists more, keys st' = keys st ++ more.

Lemma ext_refl st : ext st st.
Proof. exists []. rewrite app_nil_r. reflexivity. Qed.
Lemma ext_trans a b c : ext a b -> ext b c -> ext a c.
Proof. intros [m1 H1] [m2 H2]. exists (m1 ++ m2). rewrite H2, H1, app_assoc. reflexivity. Qed.
Lemma ext_app st more : ext st (st ++ more).
Proof. exists (keys more). unfold keys. apply map_app. Qed.
Lemma ext_set_prim st p v : ext st (set_prim st p v).
Proof. exists []. rewrite app_nil_r. apply keys_set_prim. Qed.

Lemma find_child_ext st st' par n nm : ext st st' -> find_child st par n = Some nm -> find_child st' par n = Some nm.
Proof.
  intros [more H] F.
  (* st' = s1 ++ s2 with keys s1 = keys st *)
  assert (exists s1 s2, st' = s1 ++ s2 /\ keys s1 = keys st) as (s1 & s2 & -> & K).
  { exists (firstn (length st) st'), (skipn (length st) st'). split; [symmetry; apply firstn_skipn|].
    unfold keys in *. rewrite <- firstn_map, H. rewrite firstn_app, firstn_all2 by (rewrite map_length; lia).
    rewrite map_length, Nat.sub_diag. simpl. apply app_nil_r. }
  apply find_child_app_some. rewrite (find_child_keys s1 st) by assumption. exact F.
Qed.

(* ------------------------------------------------------------------ ensure *)

Lemma ensure_app : forall a b st par,
  ensure st par (a ++ b) = let (s1, p1) := ensure st par a in ensure s1 p1 b.
Proof.
  induction a as [|n a IH]; intros b st par; simpl; [reflexivity|].
  destruct (find_child st par n); apply IH.
Qed.

Lemma ensure_ext : forall names st par, ext st (fst (ensure st par names)).
Proof.
  induction names as [|n names IH]; intros st par; simpl; [apply ext_refl|].
  destruct (find_child st par n); [apply IH|]. eapply ext_trans; [apply ext_app | apply IH].
Qed.

(* the path resolves without creating anything *)
Inductive resolves (st : ir) : path -> path -> path -> Prop :=
| R_nil : forall par, resolves st par [] par
| R_cons : forall par n nm rest term,
    find_child st par n = Some nm -> resolves st (par ++ [nm]) rest term -> resolves st par (n :: rest) term.

Lemma resolves_ensure st par names term : resolves st par names term -> ensure st par names = (st, term).
Proof. induction 1; simpl; [reflexivity|]. rewrite H. assumption. Qed.

Lemma resolves_ext st st' par names term : ext st st' -> resolves st par names term -> resolves st' par names term.
Proof.
  intros X R. induction R; [constructor|]. econstructor; [eapply find_child_ext; eassumption | assumption].
Qed.

Lemma resolves_length st par names term : resolves st par names term -> exists d, term = par ++ d /\ length d = length names.
Proof.
  induction 1.
  - exists []. rewrite app_nil_r. auto.
  - destruct IHresolves as (d & -> & L). exists (nm :: d). rewrite <- app_assoc. simpl. auto.
Qed.

Lemma find_child_new st par n : find_child st par n = None -> find_child (st ++ [E par n None]) par n = Some n.
Proof.
  unfold GlobModel.find_child. destruct (find _ st) eqn:F; [discriminate|]. intros _.
  rewrite (find_app_none _ _ _ F). simpl. rewrite path_eqb_refl, keq_refl. reflexivity.
Qed.

(* after ensure, the path resolves to the returned display path *)
Lemma ensure_resolves : forall names st par,
  resolves (fst (ensure st par names)) par names (snd (ensure st par names)).
Proof.
  induction names as [|n names IH]; intros st par; simpl; [constructor|].
  destruct (find_child st par n) as [nm|] eqn:F.
  - econstructor; [|apply IH]. eapply find_child_ext; [apply ensure_ext | exact F].
  - econstructor; [|apply IH]. eapply find_child_ext; [apply ensure_ext | apply find_child_new; exact F].
Qed.

(* chain st par ms: the fields par.m1, par.m1.m2, ... exist with exactly these names *)
Fixpoint chain (st : ir) (par : path) (ms : path) : Prop :=
  match ms with
  | [] => True
  | m :: r => has st par m /\ chain st (par ++ [m]) r
  end.

Lemma chain_resolves st : uniq st -> forall ms par, chain st par ms -> resolves st par ms (par ++ ms).
Proof.
  intros U. induction ms as [|m r IH]; intros par H; simpl in *.
  - rewrite app_nil_r. constructor.
  - destruct H as [H1 H2]. econstructor; [apply find_child_has; eassumption|].
    replace (par ++ m :: r) with ((par ++ [m]) ++ r) by (rewrite <- app_assoc; reflexivity). apply IH. assumption.
Qed.

(* ------------------------------------------------------------------ invariants of ensure *)

Lemma has_app st more par n : has st par n -> has (st ++ more) par n.
Proof. intros (e & H & ?). exists e. split; [apply in_or_app; left; assumption | assumption]. Qed.

Lemma uniq_snoc st par n : uniq st -> find_child st par n = None -> uniq (st ++ [E par n None]).
Proof.
  intros U F a e1 b e2 c H Hp.
  destruct c as [|x c].
  - (* e2 is the new field *)
    replace (a ++ e1 :: b ++ [e2]) with ((a ++ e1 :: b) ++ [e2]) in H by (rewrite <- app_assoc; reflexivity).
    apply app_inj_tail in H as [H1 H2]. subst e2. simpl in *.
    unfold GlobModel.find_child in F. destruct (find _ st) eqn:F2; [discriminate|].
    assert (Hin : In e1 st) by (rewrite H1; apply in_or_app; right; left; reflexivity).
    eapply find_none in F2; [|exact Hin]. rewrite Hp, path_eqb_refl in F2. exact F2.
  - (* both are old *)
    assert (exists c', c = c' /\ st = a ++ e1 :: b ++ e2 :: removelast (x :: c)).
    { exists c. split; [reflexivity|].
      assert (L : a ++ e1 :: b ++ e2 :: x :: c = (a ++ e1 :: b ++ e2 :: removelast (x :: c)) ++ [last (x :: c) e1]).
      { rewrite (app_removelast_last e1 (l := x :: c)) at 1 by discriminate.
        repeat (rewrite <- app_assoc; simpl). reflexivity. }
      rewrite L in H. apply app_inj_tail in H as [H _]. exact H. }
    destruct H0 as (_ & _ & Hst). eapply U; eassumption.
Qed.

Lemma ensure_uniq : forall names st par, uniq st -> uniq (fst (ensure st par names)).
Proof.
  induction names as [|n names IH]; intros st par U; simpl; [assumption|].
  destruct (find_child st par n) eqn:F; [apply IH; assumption | apply IH; apply uniq_snoc; assumption].
Qed.

Lemma uniq_keys st st' : keys st = keys st' -> uniq st -> uniq st'.
Proof.
  intros K U a e1 b e2 c H Hp.
  (* transport the decomposition through keys *)
  assert (Hk : keys st = keys a ++ key e1 :: keys b ++ key e2 :: keys c).
  { rewrite K, H. unfold keys. rewrite map_app. simpl. rewrite map_app. reflexivity. }
  unfold keys in Hk. apply map_eq_app in Hk as (a' & r1 & -> & Ha & Hk).
  destruct r1 as [|f1 r1]; [discriminate|]. simpl in Hk. unfold key at 1 3 in Hk. injection Hk as Hf1p Hf1n Hk.
  apply map_eq_app in Hk as (b' & r2 & -> & Hb & Hk).
  destruct r2 as [|f2 c']; [discriminate|]. simpl in Hk. unfold key at 1 3 in Hk. injection Hk as Hf2p Hf2n Hc.
  rewrite <- Hf1n, <- Hf2n. apply (U a' f1 b' f2 c' eq_refl). congruence.
Qed.

Lemma set_prim_uniq st p v : uniq st -> uniq (set_prim st p v).
Proof. apply uniq_keys. symmetry. apply keys_set_prim. Qed.

(* ------------------------------------------------------------------ walk *)

(* a name no (non-empty) pattern matches: reserved keywords *)
Definition unm (n : str) : Prop := forall p, p <> [] -> mt n p = false.

Lemma children_app st more par : children (st ++ more) par = children st par ++ children more par.
Proof. unfold children. apply filter_app. Qed.

Lemma walk_snoc : forall pats st e par, Forall (fun p => p <> []) pats -> unm (ename e) ->
  walk (st ++ [e]) par pats = walk st par pats.
Proof.
  induction pats as [|p ps IH]; intros st e par Hp Hu; [reflexivity|].
  inversion Hp as [|? ? Hp1 Hp2]; subst. cbn [GlobModel.walk]. rewrite children_app, flat_map_app.
  replace (flat_map _ (children [e] par)) with (@nil path).
  - rewrite app_nil_r. apply flat_map_ext. intro x. rewrite IH by assumption. reflexivity.
  - unfold children. simpl. destruct (path_eqb (epar e) par); [|reflexivity]. simpl.
    rewrite (Hu p Hp1). reflexivity.
Qed.

Lemma walk_set_prim : forall pats st q v par, walk (set_prim st q v) par pats = walk st par pats.
Proof.
  induction pats as [|p ps IH]; intros st q v par; [reflexivity|]. cbn [GlobModel.walk].
  assert (C : children (set_prim st q v) par
              = map (fun e => if path_eqb (epath e) q then E (epar e) (ename e) (Some v) else e) (children st par)).
  { unfold children, set_prim. induction st as [|e st IHst]; [reflexivity|]. simpl.
    destruct (path_eqb (epath e) q) eqn:Eq; simpl; destruct (path_eqb (epar e) par) eqn:Ep; simpl;
      rewrite ?Eq, IHst; reflexivity. }
  rewrite C, flat_map_concat_map, map_map, <- flat_map_concat_map. apply flat_map_ext. intro e.
  destruct (path_eqb (epath e) q); simpl; rewrite IH; reflexivity.
Qed.

Lemma walk_ensure_unm : forall names st par0 par pats, Forall (fun p => p <> []) pats -> Forall unm names ->
  walk (fst (ensure st par0 names)) par pats = walk st par pats.
Proof.
  induction names as [|n names IH]; intros st par0 par pats Hp Hu; [reflexivity|]. simpl.
  inversion Hu; subst. destruct (find_child st par0 n).
  - apply IH; assumption.
  - rewrite IH by assumption. apply walk_snoc; assumption.
Qed.

Lemma walk_spec : forall pats st par t,
  In t (walk st par pats) <->
  exists ms, t = par ++ ms /\ chain st par ms /\ Forall2 (fun m p => mt m p = true) ms pats.
Proof.
  induction pats as [|p ps IH]; intros st par t; cbn [GlobModel.walk].
  - split.
    + intros [<-|[]]. exists []. rewrite app_nil_r. repeat split. constructor.
    + intros (ms & -> & _ & F). inversion F. rewrite app_nil_r. left. reflexivity.
  - rewrite in_flat_map. split.
    + intros (e & He & Ht). unfold children in He. apply filter_In in He as [He Hp]. apply path_eqb_eq in Hp.
      destruct (mt (ename e) p) eqn:M; [|destruct Ht]. apply IH in Ht as (ms & -> & C & F).
      exists (ename e :: ms). rewrite <- app_assoc. repeat split.
      * exists e. auto.
      * assumption.
      * constructor; assumption.
    + intros (ms & -> & C & F). inversion F as [|m ? ms' ? Hm F']; subst. destruct C as [(e & He & Hp & Hn) C].
      exists e. split.
      * unfold children. apply filter_In. split; [assumption | rewrite Hp; apply path_eqb_refl].
      * rewrite Hn, Hm. apply IH. exists ms'. rewrite <- app_assoc. auto.
Qed.

Lemma walk_length st pats t : In t (walk st [] pats) -> length t = length pats.
Proof.
  intro H. apply walk_spec in H as (ms & -> & _ & F). simpl.
  induction F; simpl; [reflexivity | f_equal; assumption].
Qed.

Lemma nodup_app {A} (a b : list A) :
  NoDup a -> NoDup b -> (forall x, In x a -> In x b -> False) -> NoDup (a ++ b).
Proof.
  induction a as [|x a IH]; intros Ha Hb Hd; simpl; [assumption|].
  inversion Ha; subst. constructor.
  - intro Hin. apply in_app_or in Hin as [Hin|Hin]; [contradiction | apply (Hd x); [left; reflexivity | assumption]].
  - apply IH; [assumption | assumption | intros y Hy; apply Hd; right; assumption].
Qed.

Lemma uniq_tail e st : uniq (e :: st) -> uniq st.
Proof. intros U a e1 b e2 c H Hp. apply (U (e :: a) e1 b e2 c); [rewrite H; reflexivity | assumption]. Qed.

Lemma children_names_nodup st par : uniq st -> NoDup (map ename (children st par)).
Proof.
  induction st as [|e st IH]; intro U; [constructor|]. unfold children. simpl.
  destruct (path_eqb (epar e) par) eqn:Ep.
  - simpl. constructor; [|apply IH; eapply uniq_tail; eassumption].
    intro Hin. apply in_map_iff in Hin as (e2 & Hn & Hin). apply filter_In in Hin as [Hin Hp2].
    apply path_eqb_eq in Ep. apply path_eqb_eq in Hp2.
    destruct (in_split _ _ Hin) as (b & c & ->).
    assert (K : keq (ename e) (ename e2) = false) by (apply (U [] e b e2 c eq_refl); congruence).
    rewrite Hn, keq_refl in K. discriminate.
  - apply IH. eapply uniq_tail; eassumption.
Qed.

Lemma walk_nodup : forall pats st par, uniq st -> NoDup (walk st par pats).
Proof.
  induction pats as [|p ps IH]; intros st par U; cbn [GlobModel.walk]; [repeat constructor; intros []|].
  pose proof (children_names_nodup st par U) as ND. revert ND.
  generalize (children st par) as l. induction l as [|e l IHl]; intro ND; [constructor|].
  simpl in *. inversion ND as [|? ? Hn ND']; subst.
  destruct (mt (ename e) p); [|apply IHl; assumption]. apply nodup_app.
  - apply IH. assumption.
  - apply IHl. assumption.
  - intros t H1 H2. apply in_flat_map in H2 as (e2 & He2 & Ht2).
    destruct (mt (ename e2) p); [|destruct Ht2].
    apply walk_spec in H1 as (m1 & E1 & _). apply walk_spec in Ht2 as (m2 & E2 & _).
    rewrite E1 in E2. rewrite <- !app_assoc in E2. apply app_inv_head in E2. inversion E2.
    apply Hn. rewrite H0. apply in_map. assumption.
Qed.

(* ------------------------------------------------------------------ one application of a glob, analysed *)

Record wf_glob (g : glob) : Prop := {
  wf_pre : g_pre g = [];
  wf_pats : Forall (fun p => p <> []) (g_pats g);
  wf_suf : Forall unm (g_suf g) }.

Definition prefixb (t term : path) : bool := path_eqb t (firstn (length t) term).
(* no applied terminal lies below t *)
Definition pendb (ap : list path) (t : path) : bool := negb (existsb (prefixb t) ap).

Lemma prefixb_app t d : prefixb t (t ++ d) = true.
Proof. unfold prefixb. rewrite firstn_app, Nat.sub_diag, firstn_all. simpl. rewrite app_nil_r. apply path_eqb_refl. Qed.

Lemma prefixb_other t t' d : length t' = length t -> t' <> t -> prefixb t' (t ++ d) = false.
Proof.
  intros L N. unfold prefixb. rewrite L, firstn_app, Nat.sub_diag, firstn_all. simpl. rewrite app_nil_r.
  apply path_eqb_neq. assumption.
Qed.

Lemma pendb_app ap more t : pendb (ap ++ more) t = (pendb ap t && pendb more t)%bool.
Proof. unfold pendb. rewrite existsb_app, negb_orb. reflexivity. Qed.

Lemma mem_path_In p l : mem_path p l = true <-> In p l.
Proof.
  unfold mem_path. rewrite existsb_exists. split.
  - intros (x & Hx & E). apply path_eqb_eq in E. subst. assumption.
  - intro H. exists p. split; [assumption | apply path_eqb_refl].
Qed.

Section OneGlob.
Variable g : glob.
Let suf := g_suf g.
Let v := g_val g.

(* what is pending is reached in turn: the suffix is created below each target *)
Fixpoint phase1 (N : list path) (s : ir) : ir * list path :=
  match N with
  | [] => (s, [])
  | t :: N' => let (s1, term) := ensure s t suf in
               let (s2, tl) := phase1 N' s1 in (s2, term :: tl)
  end.

Definition done (s : ir) (ap : list path) (t : path) : Prop :=
  exists term, resolves s t suf term /\ In term ap.

Lemma done_not_pend s ap t : done s ap t -> pendb ap t = false.
Proof.
  intros (term & R & Hin). apply resolves_length in R as (d & -> & _). unfold pendb.
  apply negb_false_iff. apply existsb_exists. exists (t ++ d). split; [assumption | apply prefixb_app].
Qed.

Lemma reach_fold k : forall l s fa apc,
  NoDup l -> (forall t, In t l -> length t = k) ->
  (forall t, In t l -> done s apc t \/ pendb apc t = true) ->
  fold_left (reach keq g) l (s, fa, apc)
  = let (s', tl) := phase1 (filter (pendb apc) l) s in (s', fa ++ tl, apc ++ tl).
Proof.
  induction l as [|t l IH]; intros s fa apc ND HL HP.
  - simpl. rewrite !app_nil_r. reflexivity.
  - inversion ND as [|? ? Hnin ND']; subst. cbn [fold_left filter].
    destruct (HP t (or_introl eq_refl)) as [D|P].
    + rewrite (done_not_pend _ _ _ D). destruct D as (term & R & Hin).
      unfold reach at 2. fold suf. rewrite (resolves_ensure _ _ _ _ R).
      apply mem_path_In in Hin. rewrite Hin.
      apply IH; [assumption | intros; apply HL; right; assumption | intros; apply HP; right; assumption].
    + rewrite P. unfold reach at 2. fold suf. cbn [phase1].
      pose proof (ensure_resolves suf s t) as R. pose proof (ensure_ext suf s t) as X.
      destruct (ensure s t suf) as [s1 term] eqn:En. simpl in R, X.
      destruct (resolves_length _ _ _ _ R) as (d & Hterm & _).
      assert (Hmem : mem_path term apc = false).
      { destruct (mem_path term apc) eqn:M; [|reflexivity]. apply mem_path_In in M.
        unfold pendb in P. apply negb_true_iff in P.
        assert (existsb (prefixb t) apc = true) by (apply existsb_exists; exists term; split; [assumption | rewrite Hterm; apply prefixb_app]).
        congruence. }
      rewrite Hmem.
      assert (Hf : filter (pendb (apc ++ [term])) l = filter (pendb apc) l).
      { apply filter_ext_in. intros t' Ht'. rewrite pendb_app. unfold pendb at 2. simpl. rewrite orb_false_r.
        rewrite Hterm, prefixb_other; [apply andb_true_r | | ].
        - rewrite (HL t' (or_intror Ht')), (HL t (or_introl eq_refl)). reflexivity.
        - intro E. subst. contradiction. }
      rewrite IH; [| assumption | intros; apply HL; right; assumption |].
      * rewrite Hf. destruct (phase1 (filter (pendb apc) l) s1) as [s2 tl].
        rewrite <- !app_assoc. reflexivity.
      * intros t' Ht'. destruct (HP t' (or_intror Ht')) as [(tm & R' & Hin')|P'].
        -- left. exists tm. split; [eapply resolves_ext; eassumption | apply in_or_app; left; assumption].
        -- right. rewrite pendb_app, P'. unfold pendb. simpl. rewrite orb_false_r.
           rewrite Hterm, prefixb_other; [reflexivity | | ].
           ++ rewrite (HL t' (or_intror Ht')), (HL t (or_introl eq_refl)). reflexivity.
           ++ intro E. subst. contradiction.
Qed.

Lemma assign_set lz s term : assign lz g s term = set_prim s term v.
Proof. unfold assign, ignore_lazy. destruct lz; simpl; [rewrite andb_false_r|]; reflexivity. Qed.

(* the body of the glob on target t, as the plain semantics executes it once t resolves to itself *)
Definition pstep (s : ir) (t : path) : ir := let (s1, tm) := ensure s t suf in set_prim s1 tm v.

Lemma find_child_set_prim s q w par n : find_child (set_prim s q w) par n = find_child s par n.
Proof. apply find_child_keys. apply keys_set_prim. Qed.

Definition exists_p (s : ir) (q : path) : Prop := exists e, In e s /\ epath e = q.

Lemma exists_p_app s more q : exists_p s q -> exists_p (s ++ more) q.
Proof. intros (e & H & ?). exists e. split; [apply in_or_app; left; assumption | assumption]. Qed.

Lemma has_path_find s par n : has s par n -> find_child s par n <> None.
Proof.
  intros (e & Hin & Hp & Hn). unfold GlobModel.find_child. destruct (find _ s) eqn:F; [discriminate|].
  eapply find_none in F; [|exact Hin]. rewrite Hp, path_eqb_refl, Hn, keq_refl in F. discriminate.
Qed.

(* assigning a value to an existing field commutes with ensure *)
Lemma ensure_set_prim : forall names s par q w, exists_p s q ->
  ensure (set_prim s q w) par names = (set_prim (fst (ensure s par names)) q w, snd (ensure s par names)).
Proof.
  induction names as [|n names IH]; intros s par q w Hq; simpl; [reflexivity|].
  rewrite find_child_set_prim. destruct (find_child s par n) as [nm|] eqn:F.
  - apply IH. assumption.
  - replace (set_prim s q w ++ [E par n None]) with (set_prim (s ++ [E par n None]) q w).
    + apply IH. apply exists_p_app. assumption.
    + unfold set_prim. rewrite map_app. simpl. f_equal.
      destruct (path_eqb (epath (E par n None)) q) eqn:Eq; [|reflexivity]. exfalso.
      apply path_eqb_eq in Eq. destruct Hq as (e & Hin & He). unfold epath in *. simpl in Eq. rewrite <- Eq in He.
      apply app_inj_tail in He as [Hp Hn]. apply (has_path_find s par n); [exists e; auto | assumption].
Qed.

Lemma ensure_exists : forall names s par, names <> [] -> exists_p (fst (ensure s par names)) (snd (ensure s par names)).
Proof.
  induction names as [|n names IH]; intros s par Hne; [congruence|]. simpl.
  destruct names as [|n2 names].
  - simpl. destruct (find_child s par n) as [nm|] eqn:F; simpl.
    + apply find_child_some in F as [(e & Hin & Hp & Hn) _]. exists e. split; [assumption|]. unfold epath. congruence.
    + exists (E par n None). split; [apply in_or_app; right; left; reflexivity | reflexivity].
  - destruct (find_child s par n); apply IH; discriminate.
Qed.

Lemma exists_p_ext s s' q : ext s s' -> exists_p s q -> exists_p s' q.
Proof.
  intros [more K] (e & Hin & He). unfold keys in K.
  assert (In (key e) (map key s')) by (rewrite K; apply in_or_app; left; apply in_map; assumption).
  apply in_map_iff in H as (e' & Hk & Hin'). exists e'. split; [assumption|].
  unfold key in Hk. inversion Hk. unfold epath in *. congruence.
Qed.

Lemma phase1_set_prim : forall N s q w, exists_p s q ->
  phase1 N (set_prim s q w) = (set_prim (fst (phase1 N s)) q w, snd (phase1 N s)).
Proof.
  induction N as [|t N IH]; intros s q w Hq; simpl; [reflexivity|].
  rewrite ensure_set_prim by assumption. pose proof (ensure_ext suf s t) as X.
  destruct (ensure s t suf) as [s1 term]. simpl in *.
  rewrite IH by (eapply exists_p_ext; eassumption). destruct (phase1 N s1). reflexivity.
Qed.

Lemma two_phase : suf <> [] -> forall N s,
  fold_left (fun s term => set_prim s term v) (snd (phase1 N s)) (fst (phase1 N s)) = fold_left pstep N s.
Proof.
  intros Hne. induction N as [|t N IH]; intros s; simpl; [reflexivity|].
  unfold pstep at 2. pose proof (ensure_exists suf s t Hne) as Ex.
  destruct (ensure s t suf) as [s1 term]. simpl in Ex.
  rewrite <- IH. rewrite phase1_set_prim by assumption.
  destruct (phase1 N s1) as [s2 tl]. reflexivity.
Qed.

Lemma pstep_ext s t : ext s (pstep s t).
Proof.
  unfold pstep. pose proof (ensure_ext suf s t). destruct (ensure s t suf). simpl in *.
  eapply ext_trans; [eassumption | apply ext_set_prim].
Qed.

Lemma plain_bodies : forall N s, (forall t, In t N -> resolves s [] t t) ->
  run_plain_from s (map (body g) N) = fold_left pstep N s.
Proof.
  induction N as [|t N IH]; intros s HR; [reflexivity|]. cbn [map]. unfold GlobModel.run_plain_from in *. cbn [fold_left].
  assert (E : plain_step s (body g t) = pstep s t).
  { unfold GlobModel.plain_step, body, pstep. fold suf v. rewrite ensure_app.
    rewrite (resolves_ensure _ _ _ _ (HR t (or_introl eq_refl))). reflexivity. }
  rewrite E. apply IH. intros t' Ht'. eapply resolves_ext; [apply pstep_ext | apply HR; right; assumption].
Qed.

Lemma phase1_ext : forall N s, ext s (fst (phase1 N s)).
Proof.
  induction N as [|t N IH]; intros s; simpl; [apply ext_refl|].
  pose proof (ensure_ext suf s t). destruct (ensure s t suf) as [s1 term]. simpl in *.
  specialize (IH s1). destruct (phase1 N s1). simpl in *. eapply ext_trans; eassumption.
Qed.

Lemma phase1_done : forall N s t, In t N ->
  exists term, resolves (fst (phase1 N s)) t suf term /\ In term (snd (phase1 N s)).
Proof.
  induction N as [|t0 N IH]; intros s t Hin; [destruct Hin|]. simpl.
  pose proof (ensure_resolves suf s t0) as R. destruct (ensure s t0 suf) as [s1 term0]. simpl in R.
  pose proof (phase1_ext N s1) as X. specialize (IH s1).
  destruct (phase1 N s1) as [s2 tl]. simpl in *. destruct Hin as [<-|Hin].
  - exists term0. split; [eapply resolves_ext; eassumption | left; reflexivity].
  - destruct (IH t Hin) as (tm & R' & Hin'). exists tm. split; [assumption | right; assumption].
Qed.

Definition pend_ok (s : ir) (ap : list path) : Prop :=
  forall t, In t (walk s [] (g_pats g)) -> done s ap t \/ pendb ap t = true.
Definition sat (s : ir) (ap : list path) : Prop :=
  forall t, In t (walk s [] (g_pats g)) -> done s ap t.

Lemma sat_pend s ap : sat s ap -> pend_ok s ap.
Proof. intros H t Ht. left. apply H. assumption. Qed.

Lemma filter_none {A} (f : A -> bool) l : (forall x, In x l -> f x = false) -> filter f l = [].
Proof.
  induction l as [|a l IH]; simpl; intros H; [reflexivity|].
  rewrite (H a (or_introl eq_refl)). apply IH. intros; apply H; right; assumption.
Qed.

Lemma fold_left_ext_fun {A B} (f h : A -> B -> A) : (forall a b, f a b = h a b) ->
  forall l a, fold_left f l a = fold_left h l a.
Proof. intros E. induction l as [|b l IH]; intro a; simpl; [reflexivity | rewrite E; apply IH]. Qed.

Lemma walk_resolves_self s t : uniq s -> In t (walk s [] (g_pats g)) -> resolves s [] t t.
Proof.
  intros U H. apply walk_spec in H as (ms & -> & C & _). apply (chain_resolves s U ms [] C).
Qed.

(* the glob, applied once: exactly the plain semantics of its body on the pending targets *)
Theorem apply_glob_char lz s ap : wf_glob g -> suf <> [] -> uniq s -> pend_ok s ap ->
  let N := filter (pendb ap) (walk s [] (g_pats g)) in
  apply_glob lz g s ap = (run_plain_from s (map (body g) N), ap ++ snd (phase1 N s))
  /\ run_plain_from s (map (body g) N)
     = fold_left (fun s term => set_prim s term v) (snd (phase1 N s)) (fst (phase1 N s)).
Proof.
  intros W Hne U P N. unfold GlobModel.apply_glob. rewrite (wf_pre g W). simpl.
  rewrite (reach_fold (length (g_pats g))).
  - fold N. rewrite plain_bodies.
    + rewrite <- two_phase by assumption. destruct (phase1 N s) as [s' tl]. simpl. split; [|reflexivity].
      f_equal. apply fold_left_ext_fun. intros. apply assign_set.
    + intros t Ht. apply filter_In in Ht as [Ht _]. apply walk_resolves_self; assumption.
  - apply walk_nodup. assumption.
  - intros t Ht. apply walk_length with (st := s). assumption.
  - exact P.
Qed.

Lemma fold_set_ext : forall tl s, ext s (fold_left (fun s term => set_prim s term v) tl s).
Proof.
  induction tl as [|x tl IH]; intro s; simpl; [apply ext_refl|].
  eapply ext_trans; [apply ext_set_prim | apply IH].
Qed.
Lemma fold_set_uniq : forall tl s, uniq s -> uniq (fold_left (fun s term => set_prim s term v) tl s).
Proof. induction tl as [|x tl IH]; intros s U; simpl; [assumption | apply IH, set_prim_uniq, U]. Qed.
Lemma fold_set_walk : forall tl s par pats,
  walk (fold_left (fun s term => set_prim s term v) tl s) par pats = walk s par pats.
Proof. induction tl as [|x tl IH]; intros; simpl; [reflexivity | rewrite IH; apply walk_set_prim]. Qed.

Lemma phase1_uniq : forall N s, uniq s -> uniq (fst (phase1 N s)).
Proof.
  induction N as [|t N IH]; intros s U; simpl; [assumption|].
  pose proof (ensure_uniq suf s t U). destruct (ensure s t suf) as [s1 tm]. simpl in *.
  specialize (IH s1 H). destruct (phase1 N s1). assumption.
Qed.
Lemma phase1_walk : Forall unm suf -> forall N s par pats, Forall (fun p => p <> []) pats ->
  walk (fst (phase1 N s)) par pats = walk s par pats.
Proof.
  intros Hu. induction N as [|t N IH]; intros s par pats Hp; simpl; [reflexivity|].
  pose proof (walk_ensure_unm suf s t par pats Hp Hu). destruct (ensure s t suf) as [s1 tm]. simpl in *.
  specialize (IH s1 par pats Hp). destruct (phase1 N s1). simpl in *. congruence.
Qed.

Lemma phase1_terms : forall N s term, In term (snd (phase1 N s)) ->
  exists t d, In t N /\ term = t ++ d.
Proof.
  induction N as [|t0 N IH]; intros s term Hin; simpl in *; [destruct Hin|].
  pose proof (ensure_resolves suf s t0) as R. destruct (ensure s t0 suf) as [s1 term0]. simpl in R.
  specialize (IH s1 term). destruct (phase1 N s1) as [s2 tl]. simpl in *. destruct Hin as [<-|Hin].
  - apply resolves_length in R as (d & -> & _). exists t0, d. auto.
  - destruct (IH Hin) as (t & d & Ht & ->). exists t, d. auto.
Qed.

(* afterwards: nothing is pending, and what other globs see has not changed *)
Theorem apply_glob_post lz s ap : wf_glob g -> suf <> [] -> uniq s -> pend_ok s ap ->
  let r := apply_glob lz g s ap in
  ext s (fst r) /\ uniq (fst r) /\ sat (fst r) (snd r)
  /\ (forall par pats, Forall (fun p => p <> []) pats -> walk (fst r) par pats = walk s par pats)
  /\ (forall term, In term (snd r) -> In term ap \/ exists t d, In t (walk s [] (g_pats g)) /\ term = t ++ d).
Proof.
  intros W Hne U P r. subst r.
  destruct (apply_glob_char lz s ap W Hne U P) as [E1 E2]. rewrite E1. simpl. rewrite E2.
  set (N := filter (pendb ap) (walk s [] (g_pats g))) in *.
  pose proof (phase1_ext N s) as X1. pose proof (phase1_uniq N s U) as U1.
  pose proof (phase1_walk (wf_suf g W) N s) as W1. pose proof (phase1_done N s) as D1.
  pose proof (phase1_terms N s) as T1.
  destruct (phase1 N s) as [s' tl]. simpl in *.
  assert (Wk : forall par pats, Forall (fun p => p <> []) pats ->
             walk (fold_left (fun s term => set_prim s term v) tl s') par pats = walk s par pats).
  { intros. rewrite fold_set_walk. apply W1. assumption. }
  repeat split.
  - eapply ext_trans; [exact X1 | apply fold_set_ext].
  - apply fold_set_uniq. assumption.
  - intros t Ht. rewrite Wk in Ht by (apply (wf_pats g W)).
    destruct (P t Ht) as [(tm & R & Hin)|Pd].
    + exists tm. split; [|apply in_or_app; left; assumption].
      eapply resolves_ext; [|exact R]. eapply ext_trans; [exact X1 | apply fold_set_ext].
    + assert (HN : In t N) by (apply filter_In; split; assumption).
      destruct (D1 t HN) as (tm & R & Hin). exists tm. split; [|apply in_or_app; right; assumption].
      eapply resolves_ext; [apply fold_set_ext | exact R].
  - exact Wk.
  - intros term Hin. apply in_app_or in Hin as [Hin|Hin]; [left; assumption | right].
    destruct (T1 term Hin) as (t & d & Ht & ->). exists t, d. split; [|reflexivity].
    apply filter_In in Ht. apply Ht.
Qed.

Lemma apply_glob_sat_id lz s ap : wf_glob g -> suf <> [] -> uniq s -> sat s ap -> apply_glob lz g s ap = (s, ap).
Proof.
  intros W Hne U S. destruct (apply_glob_char lz s ap W Hne U (sat_pend _ _ S)) as [E _]. rewrite E.
  replace (filter (pendb ap) (walk s [] (g_pats g))) with (@nil path).
  - simpl. rewrite app_nil_r. reflexivity.
  - symmetry. apply filter_none. intros t Ht. apply (done_not_pend s). apply S. assumption.
Qed.

End OneGlob.

Lemma pend_frame g s s' ap : pend_ok g s ap -> ext s s' -> walk s' [] (g_pats g) = walk s [] (g_pats g) -> pend_ok g s' ap.
Proof.
  intros P X Wk t Ht. rewrite Wk in Ht. destruct (P t Ht) as [(tm & R & Hin)|Pd]; [left|right; assumption].
  exists tm. split; [eapply resolves_ext; eassumption | assumption].
Qed.
Lemma sat_frame g s s' ap : sat g s ap -> ext s s' -> walk s' [] (g_pats g) = walk s [] (g_pats g) -> sat g s' ap.
Proof.
  intros P X Wk t Ht. rewrite Wk in Ht. destruct (P t Ht) as (tm & R & Hin).
  exists tm. split; [eapply resolves_ext; eassumption | assumption].
Qed.

(* ------------------------------------------------------------------ the compiler state *)

Lemma nth_set_nth_eq {A} : forall (l : list A) i x d, (i < length l)%nat -> nth i (set_nth l i x) d = x.
Proof. induction l as [|y l IH]; intros [|i] x d H; simpl in *; try lia; [reflexivity | apply IH; lia]. Qed.
Lemma nth_set_nth_neq {A} : forall (l : list A) i j x d, i <> j -> nth j (set_nth l i x) d = nth j l d.
Proof.
  induction l as [|y l IH]; intros [|i] [|j] x d H; simpl; try reflexivity; try congruence. apply IH. congruence.
Qed.
Lemma length_set_nth {A} : forall (l : list A) i x, length (set_nth l i x) = length l.
Proof. induction l as [|y l IH]; intros [|i] x; simpl; try reflexivity. f_equal. apply IH. Qed.
Lemma set_nth_same {A} : forall (l : list A) i d, (i < length l)%nat -> set_nth l i (nth i l d) = l.
Proof. induction l as [|y l IH]; intros [|i] d H; simpl in *; try lia; [reflexivity | f_equal; apply IH; lia]. Qed.

Definition glob_ok (g : glob) : Prop := wf_glob g /\ g_suf g <> [].

Lemma chain_exists st : forall ms par, ms <> [] -> chain st par ms -> exists_p st (par ++ ms).
Proof.
  induction ms as [|m r IH]; intros par Hne C; [congruence|]. destruct C as [(e & Hin & Hp & Hn) C].
  destruct r as [|m2 r].
  - exists e. split; [assumption|]. unfold epath. congruence.
  - replace (par ++ m :: m2 :: r) with ((par ++ [m]) ++ m2 :: r) by (rewrite <- app_assoc; reflexivity).
    apply IH; [discriminate | assumption].
Qed.

(* every applied terminal lies below a field that exists, at the depth of the pattern part *)
Definition apok (g : glob) (st : ir) (ap : list path) : Prop :=
  forall term, In term ap -> exists t d, term = t ++ d /\ length t = length (g_pats g) /\ exists_p st t.

Lemma apok_ext g st st' ap : apok g st ap -> ext st st' -> apok g st' ap.
Proof.
  intros A X term Hin. destruct (A term Hin) as (t & d & -> & L & Ex). exists t, d.
  repeat split; [assumption | eapply exists_p_ext; eassumption].
Qed.

Definition good (s : cstate) : Prop :=
  uniq (c_ir s) /\ length (c_applied s) = length (c_globs s) /\
  forall i g, nth_error (c_globs s) i = Some g ->
    glob_ok g /\ g_pats g <> [] /\ pend_ok g (c_ir s) (nth i (c_applied s) []) /\ apok g (c_ir s) (nth i (c_applied s) []).

Definition sat_idx (i : nat) (s : cstate) : Prop :=
  forall g, nth_error (c_globs s) i = Some g -> sat g (c_ir s) (nth i (c_applied s) []).

Lemma apply_idx_globs lz i s : c_globs (apply_idx lz i s) = c_globs s.
Proof.
  unfold GlobModel.apply_idx. destruct (nth_error (c_globs s) i); [|reflexivity].
  destruct (apply_glob lz g (c_ir s) (nth i (c_applied s) [])). reflexivity.
Qed.

Lemma apply_idx_good lz i s : good s ->
  good (apply_idx lz i s) /\ sat_idx i (apply_idx lz i s)
  /\ (forall j, sat_idx j s -> sat_idx j (apply_idx lz i s)).
Proof.
  intros (U & L & H). unfold GlobModel.apply_idx, sat_idx.
  destruct (nth_error (c_globs s) i) as [g|] eqn:Eg.
  2:{ split; [|split]; [split; [|split]; assumption | intros g Hg; congruence | auto]. }
  destruct (H i g Eg) as ([W Hne] & Hpn & P & A).
  pose proof (apply_glob_post g lz (c_ir s) (nth i (c_applied s) []) W Hne U P) as (X & U' & S & Wk & T).
  destruct (apply_glob lz g (c_ir s) (nth i (c_applied s) [])) as [st' ap'] eqn:Ea. simpl in *.
  assert (Hi : (i < length (c_applied s))%nat) by (rewrite L; apply nth_error_Some; congruence).
  unfold good. simpl. split; [|split].
  - split; [assumption|]. split; [rewrite length_set_nth; assumption|]. intros i0 g0 H0.
    destruct (H i0 g0 H0) as ([W0 Hne0] & Hpn0 & P0 & A0). split; [split; assumption|]. split; [assumption|].
    destruct (Nat.eq_dec i i0) as [<-|Hne'].
    + rewrite nth_set_nth_eq by assumption. assert (g0 = g) by congruence. subst. split; [apply sat_pend; assumption|].
      intros term Hin. destruct (T term Hin) as [Hold|(t & d & Ht & ->)].
      * eapply apok_ext; [exact A | exact X | exact Hold].
      * exists t, d. split; [reflexivity|]. split; [eapply walk_length; eassumption|].
        eapply exists_p_ext; [exact X|]. apply walk_spec in Ht as (ms & -> & C & F). apply chain_exists; [|assumption].
        intro E. subst. inversion F. symmetry in H1. contradiction.
    + rewrite nth_set_nth_neq by assumption. split.
      * eapply pend_frame; [eassumption | assumption | apply Wk, (wf_pats g0 W0)].
      * eapply apok_ext; eassumption.
  - intros g0 Hg0. assert (g0 = g) by congruence. subst. rewrite nth_set_nth_eq by assumption. assumption.
  - intros j Sj g0 Hg0. destruct (Nat.eq_dec i j) as [<-|Hne'].
    + assert (g0 = g) by congruence. subst. rewrite nth_set_nth_eq by assumption. assumption.
    + rewrite nth_set_nth_neq by assumption. destruct (H j g0 Hg0) as ([W0 _] & _).
      eapply sat_frame; [apply Sj; assumption | assumption | apply Wk, (wf_pats g0 W0)].
Qed.

Lemma apply_idx_sat_id lz i s : good s -> sat_idx i s -> apply_idx lz i s = s.
Proof.
  intros (U & L & H) S. unfold GlobModel.apply_idx. destruct (nth_error (c_globs s) i) as [g|] eqn:Eg; [|reflexivity].
  destruct (H i g Eg) as ([W Hne] & _). rewrite (apply_glob_sat_id g lz _ _ W Hne U (S g Eg)).
  rewrite set_nth_same by (rewrite L; apply nth_error_Some; congruence). destruct s; reflexivity.
Qed.

Definition seqapp (l : list nat) (s : cstate) : cstate := fold_left (fun s i => apply_idx true i s) l s.

Lemma seqapp_good : forall l s, good s -> good (seqapp l s) /\ c_globs (seqapp l s) = c_globs s
  /\ (forall j, sat_idx j s -> sat_idx j (seqapp l s)) /\ (forall j, In j l -> sat_idx j (seqapp l s)).
Proof.
  induction l as [|i l IH]; intros s G; simpl.
  - split; [assumption|]. split; [reflexivity|]. split; [auto|]. intros j [].
  - destruct (apply_idx_good true i s G) as (G1 & S1 & F1). destruct (IH _ G1) as (G2 & E2 & F2 & A2).
    split; [assumption|]. split; [rewrite E2; apply apply_idx_globs|]. split.
    + intros j Sj. apply F2, F1, Sj.
    + intros j [<-|Hj]; [apply F2, S1 | apply A2, Hj].
Qed.

Lemma seqapp_sat_id : forall l s, good s -> (forall j, In j l -> sat_idx j s) -> seqapp l s = s.
Proof.
  induction l as [|i l IH]; intros s G H; simpl; [reflexivity|].
  rewrite apply_idx_sat_id by (auto; apply H; left; reflexivity). apply IH; [assumption | intros; apply H; right; assumption].
Qed.

Lemma seqapp_app a b s : seqapp (a ++ b) s = seqapp b (seqapp a s).
Proof. apply fold_left_app. Qed.

Definition loop_body (f : nat) (stack : list nat) (acc : option cstate) (i : nat) : option cstate :=
  match acc with
  | None => None
  | Some s0 =>
      if existsb (Nat.eqb i) stack then Some s0
      else let s1 := apply_idx true i s0 in
           if changed s0 s1 then reapply f (i :: stack) s1 else Some s1
  end.

Lemma reapply_unfold f stack s :
  reapply (S f) stack s = fold_left (loop_body f stack) (seq 0 (length (c_globs s))) (Some s).
Proof. reflexivity. Qed.

Lemma changed_same s : changed s s = false.
Proof. unfold changed. rewrite Nat.eqb_refl. reflexivity. Qed.

Lemma loop_all_sat f stack : forall l s, good s -> (forall j, In j l -> sat_idx j s) ->
  fold_left (loop_body f stack) l (Some s) = Some s.
Proof.
  induction l as [|i l IH]; intros s G H; simpl; [reflexivity|].
  destruct (existsb (Nat.eqb i) stack).
  - apply IH; [assumption | intros; apply H; right; assumption].
  - rewrite apply_idx_sat_id by (auto; apply H; left; reflexivity). rewrite changed_same.
    apply IH; [assumption | intros; apply H; right; assumption].
Qed.

Lemma in_stack i stack : existsb (Nat.eqb i) stack = true <-> In i stack.
Proof.
  rewrite existsb_exists. split.
  - intros (x & Hx & E). apply Nat.eqb_eq in E. subst. assumption.
  - intro H. exists i. split; [assumption | apply Nat.eqb_refl].
Qed.

(* the nested re-application loops amount to applying every glob context once, in declaration order *)
Theorem reapply_seq : forall fuel stack s, good s ->
  (forall i, In i stack -> sat_idx i s) -> NoDup stack ->
  (forall i, In i stack -> (i < length (c_globs s))%nat) ->
  (length (c_globs s) - length stack < fuel)%nat ->
  reapply fuel stack s = Some (seqapp (seq 0 (length (c_globs s))) s).
Proof.
  induction fuel as [|f IHf]; intros stack s G HS ND HB HF; [lia|].
  rewrite reapply_unfold. set (n := length (c_globs s)) in *.
  assert (Inner : forall l dn s0, seq 0 n = dn ++ l -> good s0 -> c_globs s0 = c_globs s ->
            (forall i, In i stack -> sat_idx i s0) -> (forall i, In i dn -> sat_idx i s0) ->
            fold_left (loop_body f stack) l (Some s0) = Some (seqapp l s0)).
  { induction l as [|i l IHl]; intros dn s0 Hsplit G0 E0 HS0 HD0; [reflexivity|]. cbn [fold_left seqapp].
    unfold loop_body at 2. destruct (existsb (Nat.eqb i) stack) eqn:Ei.
    - apply in_stack in Ei. rewrite apply_idx_sat_id by (auto).
      apply (IHl (dn ++ [i])); try assumption.
      + rewrite <- app_assoc. assumption.
      + intros j Hj. apply in_app_or in Hj as [Hj|[<-|[]]]; auto.
    - destruct (apply_idx_good true i s0 G0) as (G1 & S1 & F1).
      set (s1 := apply_idx true i s0) in *.
      assert (E1 : c_globs s1 = c_globs s) by (unfold s1; rewrite apply_idx_globs; assumption).
      destruct (changed s0 s1).
      + (* nested loop *)
        assert (Hin : ~ In i stack) by (intro Hc; apply in_stack in Hc; congruence).
        assert (Hi : (i < n)%nat).
        { assert (In i (seq 0 n)) by (rewrite Hsplit; apply in_or_app; right; left; reflexivity).
          apply in_seq in H. lia. }
        assert (Hlen : (length (i :: stack) <= n)%nat).
        { rewrite <- (seq_length n 0). apply NoDup_incl_length.
          - constructor; assumption.
          - intros j [<-|Hj]; apply in_seq; [lia | specialize (HB j Hj); lia]. }
        rewrite (IHf (i :: stack) s1).
        * rewrite E1. fold n. rewrite Hsplit.
          replace (dn ++ i :: l) with ((dn ++ [i]) ++ l) by (rewrite <- app_assoc; reflexivity).
          rewrite seqapp_app.
          rewrite (seqapp_sat_id (dn ++ [i]) s1 G1).
          2:{ intros j Hj. apply in_app_or in Hj as [Hj|[<-|[]]]; [apply F1, HD0, Hj | apply S1]. }
          destruct (seqapp_good l s1 G1) as (G2 & E2 & F2 & A2).
          apply loop_all_sat; assumption.
        * assumption.
        * intros j [<-|Hj]; [apply S1 | apply F1, HS0, Hj].
        * constructor; assumption.
        * rewrite E1. fold n. intros j [<-|Hj]; [assumption | apply HB, Hj].
        * rewrite E1. fold n. simpl in *. lia.
      + apply (IHl (dn ++ [i])); try assumption.
        * rewrite <- app_assoc. assumption.
        * intros j Hj. apply F1, HS0, Hj.
        * intros j Hj. apply in_app_or in Hj as [Hj|[<-|[]]]; [apply F1, HD0, Hj | apply S1]. }
  apply (Inner (seq 0 n) [] s); auto. intros i [].
Qed.

(* ------------------------------------------------------------------ closedness: parents exist *)

Definition closed' (st : ir) : Prop := forall e, In e st -> chain st [] (epar e).

Lemma has_ext st st' par n : ext st st' -> has st par n -> has st' par n.
Proof.
  intros [more K] (e & Hin & Hp & Hn). unfold keys in K.
  assert (H : In (key e) (map key st')) by (rewrite K; apply in_or_app; left; apply in_map; assumption).
  apply in_map_iff in H as (e' & Hk & Hin'). exists e'. unfold key in Hk. inversion Hk. repeat split; congruence.
Qed.

Lemma chain_ext st st' : ext st st' -> forall ms par, chain st par ms -> chain st' par ms.
Proof.
  intros X. induction ms as [|m r IH]; intros par C; simpl in *; [exact I|].
  destruct C as [H C]. split; [eapply has_ext; eassumption | apply IH; assumption].
Qed.

Lemma chain_snoc st : forall ms par n, chain st par ms -> has st (par ++ ms) n -> chain st par (ms ++ [n]).
Proof.
  induction ms as [|m r IH]; intros par n C H; simpl in *.
  - rewrite app_nil_r in H. auto.
  - destruct C as [H1 C]. split; [assumption|]. apply IH; [assumption|]. rewrite <- app_assoc. exact H.
Qed.

Lemma ensure_closed : forall names st par, closed' st -> chain st [] par ->
  closed' (fst (ensure st par names)) /\ chain (fst (ensure st par names)) [] (snd (ensure st par names)).
Proof.
  induction names as [|n names IH]; intros st par Cl Cp; simpl; [auto|].
  destruct (find_child st par n) as [nm|] eqn:F.
  - apply IH; [assumption|]. apply find_child_some in F as [H _]. apply chain_snoc; assumption.
  - assert (X : ext st (st ++ [E par n None])) by apply ext_app.
    assert (Hn : has (st ++ [E par n None]) par n).
    { exists (E par n None). split; [apply in_or_app; right; left; reflexivity | auto]. }
    apply IH.
    + intros e Hin. apply in_app_or in Hin as [Hin|[<-|[]]].
      * eapply chain_ext; [exact X | apply Cl; assumption].
      * simpl. eapply chain_ext; eassumption.
    + apply chain_snoc; [eapply chain_ext; eassumption | simpl; assumption].
Qed.

Lemma set_prim_closed st q w : closed' st -> closed' (set_prim st q w).
Proof.
  intros Cl e Hin. unfold set_prim in Hin. apply in_map_iff in Hin as (e0 & He & Hin).
  assert (epar e = epar e0) by (destruct (path_eqb (epath e0) q); subst; reflexivity).
  rewrite H. eapply chain_ext; [apply ext_set_prim | apply Cl; assumption].
Qed.

Lemma plain_step_props st x : uniq st -> closed' st ->
  uniq (plain_step st x) /\ closed' (plain_step st x) /\ ext st (plain_step st x).
Proof.
  intros U Cl. destruct x as [q w|g]; simpl; [|auto using ext_refl].
  pose proof (ensure_uniq q st [] U) as U1. pose proof (ensure_closed q st [] Cl I) as [Cl1 _].
  pose proof (ensure_ext q st []) as X1.
  destruct (ensure st [] q) as [st1 term]. simpl in *. destruct w as [w|]; [|auto].
  split; [apply set_prim_uniq; assumption|]. split; [apply set_prim_closed; assumption|].
  eapply ext_trans; [eassumption | apply ext_set_prim].
Qed.

Lemma run_plain_props : forall p st, uniq st -> closed' st ->
  uniq (run_plain_from st p) /\ closed' (run_plain_from st p) /\ ext st (run_plain_from st p).
Proof.
  induction p as [|x p IH]; intros st U Cl; [simpl; auto using ext_refl|].
  unfold GlobModel.run_plain_from in *. cbn [fold_left].
  destruct (plain_step_props st x U Cl) as (U1 & Cl1 & X1). destruct (IH _ U1 Cl1) as (U2 & Cl2 & X2).
  split; [assumption|]. split; [assumption|]. eapply ext_trans; eassumption.
Qed.

Lemma run_plain_app st a b : run_plain_from st (a ++ b) = run_plain_from (run_plain_from st a) b.
Proof. apply fold_left_app. Qed.

Lemma exists_path_iff st q : exists_path st q = true <-> exists_p st q.
Proof.
  unfold exists_path, exists_p. rewrite existsb_exists. split.
  - intros (e & Hin & E). apply path_eqb_eq in E. eauto.
  - intros (e & Hin & E). exists e. split; [assumption | rewrite E; apply path_eqb_refl].
Qed.

Lemma exists_chain st t : closed' st -> exists_p st t -> chain st [] t.
Proof.
  intros Cl (e & Hin & <-). unfold epath. apply chain_snoc; [apply Cl; assumption|].
  simpl. exists e. auto.
Qed.

(* ------------------------------------------------------------------ pending = new *)

Lemma pend_after_ensure g st st1 ap :
  uniq st -> closed' st -> sat g st ap -> apok g st ap -> ext st st1 ->
  pend_ok g st1 ap /\
  (forall t, In t (walk st1 [] (g_pats g)) -> pendb ap t = negb (exists_path st t)).
Proof.
  intros U Cl S A X.
  assert (K : forall t, In t (walk st1 [] (g_pats g)) ->
            (exists_path st t = true /\ done g st1 ap t) \/ (exists_path st t = false /\ pendb ap t = true)).
  { intros t Ht. destruct (exists_path st t) eqn:Ex.
    - left. split; [reflexivity|]. apply exists_path_iff in Ex. pose proof (exists_chain st t Cl Ex) as C.
      assert (Ht0 : In t (walk st [] (g_pats g))).
      { apply walk_spec in Ht as (ms & E & _ & F). simpl in E. subst ms. apply walk_spec. exists t. auto. }
      destruct (S t Ht0) as (tm & R & Hin). exists tm. split; [eapply resolves_ext; eassumption | assumption].
    - right. split; [reflexivity|]. unfold pendb. apply negb_true_iff.
      destruct (existsb (prefixb t) ap) eqn:Eb; [|reflexivity]. exfalso.
      apply existsb_exists in Eb as (term & Hin & Hp). destruct (A term Hin) as (t0 & d & -> & L & Ex0).
      unfold prefixb in Hp. rewrite (walk_length _ _ _ Ht), <- L, firstn_app, Nat.sub_diag, firstn_all in Hp.
      simpl in Hp. rewrite app_nil_r in Hp. apply path_eqb_eq in Hp. subst t0.
      apply exists_path_iff in Ex0. congruence. }
  split.
  - intros t Ht. destruct (K t Ht) as [[_ D]|[_ P]]; auto.
  - intros t Ht. destruct (K t Ht) as [[E D]|[E P]]; rewrite E; simpl; [apply (done_not_pend g st1); assumption | assumption].
Qed.

(* ------------------------------------------------------------------ what the loop computes, as explicit keys *)

Fixpoint seq_bodies (st0 : ir) (gs : list glob) (aps : list (list path)) : program :=
  match gs, aps with
  | g :: gs', ap :: aps' => map (body g) (filter (pendb ap) (walk st0 [] (g_pats g))) ++ seq_bodies st0 gs' aps'
  | _, _ => []
  end.

Lemma skipn_nth_error {A} : forall (l : list A) k x, nth_error l k = Some x -> skipn k l = x :: skipn (S k) l.
Proof. induction l as [|y l IH]; intros [|k] x H; simpl in *; try discriminate; [inversion H; reflexivity | apply IH; assumption]. Qed.

Lemma skipn_set_nth {A} : forall (l : list A) k x, skipn (S k) (set_nth l k x) = skipn (S k) l.
Proof. induction l as [|y l IH]; intros [|k] x; simpl; try reflexivity. apply IH. Qed.

Lemma nth_error_nth' {A} : forall (l : list A) k d, (k < length l)%nat -> nth_error l k = Some (nth k l d).
Proof. induction l as [|y l IH]; intros [|k] d H; simpl in *; try lia; [reflexivity | apply IH; lia]. Qed.

Lemma apply_idx_ir lz i s g : good s -> nth_error (c_globs s) i = Some g ->
  c_ir (apply_idx lz i s)
  = run_plain_from (c_ir s) (map (body g) (filter (pendb (nth i (c_applied s) [])) (walk (c_ir s) [] (g_pats g))))
  /\ (forall par pats, Forall (fun p => p <> []) pats -> walk (c_ir (apply_idx lz i s)) par pats = walk (c_ir s) par pats)
  /\ (exists ap', c_applied (apply_idx lz i s) = set_nth (c_applied s) i ap')
  /\ ext (c_ir s) (c_ir (apply_idx lz i s)).
Proof.
  intros (U & L & H) Eg. destruct (H i g Eg) as ([W Hne] & Hpn & P & A).
  pose proof (apply_glob_char g lz (c_ir s) (nth i (c_applied s) []) W Hne U P) as [E _].
  pose proof (apply_glob_post g lz (c_ir s) (nth i (c_applied s) []) W Hne U P) as (X & _ & _ & Wk & _).
  unfold GlobModel.apply_idx. rewrite Eg.
  destruct (apply_glob lz g (c_ir s) (nth i (c_applied s) [])) as [st' ap'] eqn:Ea. simpl in *.
  inversion E; subst. split; [reflexivity|]. split; [assumption|]. split; [eexists; reflexivity | assumption].
Qed.

Lemma seqapp_ir st0 : forall m k s, good s -> (k + m = length (c_globs s))%nat ->
  (forall j g, (k <= j)%nat -> nth_error (c_globs s) j = Some g -> walk (c_ir s) [] (g_pats g) = walk st0 [] (g_pats g)) ->
  c_ir (seqapp (seq k m) s)
  = run_plain_from (c_ir s) (seq_bodies st0 (skipn k (c_globs s)) (skipn k (c_applied s))).
Proof.
  induction m as [|m IH]; intros k s G Hl Hw.
  - simpl. rewrite skipn_all2 by lia. reflexivity.
  - cbn [seq seqapp fold_left]. fold (seqapp (seq (S k) m) (apply_idx true k s)).
    destruct G as (U & L & H). assert (G : good s) by (split; [|split]; assumption).
    assert (Hk : (k < length (c_globs s))%nat) by lia.
    destruct (nth_error (c_globs s) k) as [g|] eqn:Eg; [|apply nth_error_None in Eg; lia].
    destruct (apply_idx_ir true k s g G Eg) as (Eir & Wk & (ap' & Eap) & X).
    destruct (apply_idx_good true k s G) as (G1 & _ & _).
    rewrite (IH (S k) (apply_idx true k s) G1).
    + rewrite apply_idx_globs, Eap, skipn_set_nth, Eir.
      rewrite (skipn_nth_error _ _ _ Eg).
      rewrite (skipn_nth_error (c_applied s) k (nth k (c_applied s) [])) by (apply nth_error_nth'; lia).
      cbn [seq_bodies]. rewrite run_plain_app. rewrite (Hw k g (le_n k) Eg). reflexivity.
    + rewrite apply_idx_globs. lia.
    + intros j g0 Hj Hg0. rewrite apply_idx_globs in Hg0. destruct (H j g0 Hg0) as ([W0 _] & _).
      rewrite Wk by (apply (wf_pats g0 W0)). apply (Hw j g0); [lia | assumption].
Qed.

Lemma seq_bodies_eq st0 (F : glob -> program) : forall gs aps, length aps = length gs ->
  (forall i g, nth_error gs i = Some g ->
     map (body g) (filter (pendb (nth i aps [])) (walk st0 [] (g_pats g))) = F g) ->
  seq_bodies st0 gs aps = flat_map F gs.
Proof.
  induction gs as [|g gs IH]; intros [|ap aps] L H; simpl in *; try discriminate; [reflexivity|].
  rewrite (H 0%nat g eq_refl). f_equal. apply IH; [lia|]. intros i g0 Hg0. apply (H (S i) g0 Hg0).
Qed.

(* ------------------------------------------------------------------ the invariant between statements *)

Definition inv (s : cstate) : Prop := good s /\ closed' (c_ir s) /\ forall i, sat_idx i s.

Fixpoint wf_from (gs : list glob) (p : program) : Prop :=
  match p with
  | [] => True
  | SKey q _ :: r => q <> [] /\ wf_from gs r
  | SGlob g :: r => glob_ok g /\ g_pats g <> [] /\ find_glob gs g 0 = None /\ wf_from (gs ++ [g]) r
  end.

Lemma targets_walk g st : g_pre g = [] -> targets g st = walk st [] (g_pats g).
Proof. intro E. unfold GlobModel.targets. rewrite E. reflexivity. Qed.

Lemma good_with_ir s st1 : good s -> closed' (c_ir s) -> (forall i, sat_idx i s) -> ext (c_ir s) st1 -> uniq st1 ->
  good (C st1 (c_globs s) (c_applied s)).
Proof.
  intros (U & L & H) Cl S X U1. split; [assumption|]. split; [assumption|]. simpl. intros i g Eg.
  destruct (H i g Eg) as (Ok & Hpn & P & A). split; [assumption|]. split; [assumption|]. split.
  - apply (pend_after_ensure g (c_ir s) st1 _ U Cl (S i g Eg) A X).
  - eapply apok_ext; eassumption.
Qed.

Theorem step_key s q w : inv s -> q <> [] ->
  exists s', step s (SKey q w) = Some s' /\ inv s' /\ c_globs s' = c_globs s /\
    c_ir s' = run_plain_from (c_ir s)
                (SKey q None :: flat_map (fun g => map (body g) (new_targets g (c_ir s) (fst (ensure (c_ir s) [] q))))
                                         (c_globs s) ++ [SKey q w]).
Proof.
  intros (G & Cl & S) Hq. pose proof G as (U & L & H).
  unfold GlobModel.step. pose proof (ensure_resolves q (c_ir s) []) as Rq.
  pose proof (ensure_ext q (c_ir s) []) as X1. pose proof (ensure_uniq q (c_ir s) [] U) as U1.
  pose proof (ensure_closed q (c_ir s) [] Cl I) as [Cl1 _].
  destruct (ensure (c_ir s) [] q) as [ir1 term] eqn:En. simpl in Rq, X1, U1, Cl1. cbv beta iota.
  set (s1 := C ir1 (c_globs s) (c_applied s)).
  assert (G1 : good s1) by (apply good_with_ir; assumption).
  set (n := length (c_globs s)).
  rewrite (reapply_seq _ [] s1 G1); [| intros i [] | apply NoDup_nil | intros i [] | unfold fuel_of, s1; simpl; lia].
  change (length (c_globs s1)) with n.
  destruct (seqapp_good (seq 0 n) s1 G1) as (G2 & E2 & _ & A2). set (s2 := seqapp (seq 0 n) s1) in *.
  assert (S2 : forall i, sat_idx i s2).
  { intros i g Eg. rewrite E2 in Eg. apply (A2 i); [|rewrite E2; assumption].
    apply in_seq. assert (i < n)%nat by (apply nth_error_Some; unfold s1 in Eg; simpl in Eg; congruence). lia. }
  (* the IR after the loop, as explicit keys *)
  assert (Eir : c_ir s2 = run_plain_from ir1
                 (flat_map (fun g => map (body g) (new_targets g (c_ir s) ir1)) (c_globs s))).
  { unfold s2. rewrite (seqapp_ir ir1 n 0 s1 G1); [| reflexivity | reflexivity]. simpl.
    f_equal. apply seq_bodies_eq; [assumption|]. intros i g Eg. destruct (H i g Eg) as ([W _] & _ & _ & A).
    unfold GlobModel.new_targets. rewrite (targets_walk g ir1 (wf_pre g W)). f_equal. apply filter_ext_in.
    intros t Ht. apply (pend_after_ensure g (c_ir s) ir1 _ U Cl (S i g Eg) A X1). assumption. }
  (* the value *)
  set (s3 := match w with Some x => C (set_prim (c_ir s2) term x) (c_globs s2) (c_applied s2) | None => s2 end).
  assert (X2 : ext ir1 (c_ir s2)).
  { rewrite Eir. pose proof (run_plain_props (flat_map (fun g => map (body g) (new_targets g (c_ir s) ir1)) (c_globs s)) ir1 U1 Cl1).
    apply H0. }
  assert (Cl2 : closed' (c_ir s2)).
  { rewrite Eir. apply run_plain_props; assumption. }
  assert (G3 : good s3 /\ closed' (c_ir s3) /\ (forall i, sat_idx i s3) /\ c_globs s3 = c_globs s
               /\ c_ir s3 = match w with Some x => set_prim (c_ir s2) term x | None => c_ir s2 end).
  { destruct w as [x|];
      [|unfold s3; split; [assumption|]; split; [assumption|]; split; [assumption|]; split; [assumption | reflexivity]].
    destruct G2 as (Ug & Lg & Hg). unfold s3. simpl. split; [|split; [|split; [|split]]].
    - split; [apply set_prim_uniq; assumption|]. split; [assumption|]. simpl. intros i g Eg.
      destruct (Hg i g Eg) as (Ok & Hpn & P & A). split; [assumption|]. split; [assumption|]. split.
      + eapply pend_frame; [exact P | apply ext_set_prim | apply walk_set_prim].
      + eapply apok_ext; [exact A | apply ext_set_prim].
    - apply set_prim_closed. assumption.
    - intros i g Eg. simpl in *. eapply sat_frame; [apply (S2 i g Eg) | apply ext_set_prim | apply walk_set_prim].
    - assumption.
    - reflexivity. }
  destruct G3 as (G3 & Cl3 & S3 & Eg3 & Eir3).
  exists s3. split.
  - fold s3. destruct (changed s s3); [|reflexivity].
    rewrite (reapply_seq (fuel_of s3) [] s3 G3); [| intros i [] | apply NoDup_nil | intros i [] | unfold fuel_of; lia].
    f_equal. apply seqapp_sat_id; [assumption | intros; apply S3].
  - split; [split; [|split]; assumption|]. split; [assumption|].
    rewrite Eir3. change (SKey q None :: ?l ++ [SKey q w]) with ([SKey q None] ++ l ++ [SKey q w]).
    rewrite !run_plain_app. simpl. rewrite En. simpl. rewrite <- Eir.
    assert (Rq2 : ensure (c_ir s2) [] q = (c_ir s2, term)).
    { apply resolves_ensure. eapply resolves_ext; eassumption. }
    unfold GlobModel.run_plain_from. simpl. rewrite Rq2. destruct w; reflexivity.
Qed.

Lemma filter_all {A} (f : A -> bool) l : (forall x, In x l -> f x = true) -> filter f l = l.
Proof.
  induction l as [|a l IH]; simpl; intros H; [reflexivity|].
  rewrite (H a (or_introl eq_refl)). f_equal. apply IH. intros; apply H; right; assumption.
Qed.

Lemma flat_map_nil {A B} (f : A -> list B) l : (forall x, In x l -> f x = []) -> flat_map f l = [].
Proof.
  induction l as [|a l IH]; simpl; intros H; [reflexivity|].
  rewrite (H a (or_introl eq_refl)). apply IH. intros; apply H; right; assumption.
Qed.

Lemma walk_exists st pats t : pats <> [] -> In t (walk st [] pats) -> exists_path st t = true.
Proof.
  intros Hne Ht. apply exists_path_iff. apply walk_spec in Ht as (ms & -> & C & F).
  apply chain_exists; [|assumption]. intro E. subst. inversion F. congruence.
Qed.

Theorem step_glob s g : inv s -> glob_ok g -> g_pats g <> [] -> find_glob (c_globs s) g 0 = None ->
  exists s', step s (SGlob g) = Some s' /\ inv s' /\ c_globs s' = c_globs s ++ [g] /\
    c_ir s' = run_plain_from (c_ir s)
                (bare (g_pre g)
                 ++ flat_map (fun g' => map (body g') (new_targets g' (c_ir s) (fst (ensure (c_ir s) [] (g_pre g))))) (c_globs s)
                 ++ map (body g) (targets g (fst (ensure (c_ir s) [] (g_pre g))))).
Proof.
  intros (G & Cl & S) Ok Hpn Hf. pose proof G as (U & L & H). destruct Ok as [W Hne].
  unfold GlobModel.step. rewrite Hf. set (n := length (c_globs s)).
  set (s0 := C (c_ir s) (c_globs s ++ [g]) (c_applied s ++ [[]])).
  assert (Eg : nth_error (c_globs s0) n = Some g).
  { unfold s0. simpl. rewrite nth_error_app2 by (unfold n; lia). unfold n. rewrite Nat.sub_diag. reflexivity. }
  assert (G0 : good s0).
  { split; [assumption|]. split; [unfold s0; simpl; rewrite !app_length; simpl; lia|].
    intros i g0 Eg0. unfold s0 in *. simpl in *. destruct (Nat.lt_ge_cases i n) as [Hi|Hi].
    - rewrite nth_error_app1 in Eg0 by assumption. rewrite app_nth1 by (rewrite L; assumption).
      destruct (H i g0 Eg0) as (Ok0 & Hp0 & _ & A0). split; [assumption|]. split; [assumption|].
      split; [apply sat_pend, (S i g0 Eg0) | assumption].
    - assert (i = n).
      { assert (i < length (c_globs s ++ [g]))%nat by (apply nth_error_Some; congruence).
        rewrite app_length in H0. simpl in H0. unfold n in *. lia. }
      subst i. rewrite Eg in Eg0. inversion Eg0; subst g0.
      rewrite app_nth2 by (rewrite L; unfold n; lia). rewrite L. unfold n. rewrite Nat.sub_diag. simpl.
      split; [split; assumption|]. split; [assumption|]. split.
      + intros t Ht. right. reflexivity.
      + intros term []. }
  assert (S0 : forall i, (i < n)%nat -> sat_idx i s0).
  { intros i Hi g0 Eg0. unfold s0 in *. simpl in *. rewrite nth_error_app1 in Eg0 by assumption.
    rewrite app_nth1 by (rewrite L; assumption). apply (S i g0 Eg0). }
  destruct (apply_idx_good false n s0 G0) as (G1 & Sn & F1).
  destruct (apply_idx_ir false n s0 g G0 Eg) as (Eir & _ & _ & X).
  set (s1 := apply_idx false n s0) in *.
  assert (E1 : c_globs s1 = c_globs s ++ [g]) by (unfold s1; rewrite apply_idx_globs; reflexivity).
  assert (S1 : forall i, sat_idx i s1).
  { intros i. destruct (Nat.lt_ge_cases i n) as [Hi|Hi]; [apply F1, S0, Hi|].
    destruct (Nat.eq_dec i n) as [->|Hn]; [assumption|]. intros g0 Eg0. rewrite E1 in Eg0.
    assert (i < length (c_globs s ++ [g]))%nat by (apply nth_error_Some; congruence).
    rewrite app_length in H0. simpl in H0. unfold n in *. lia. }
  assert (Eir' : c_ir s1 = run_plain_from (c_ir s) (map (body g) (walk (c_ir s) [] (g_pats g)))).
  { rewrite Eir. unfold s0. simpl. rewrite app_nth2 by (rewrite L; unfold n; lia). rewrite L. unfold n.
    rewrite Nat.sub_diag. simpl. rewrite filter_all; [reflexivity | intros; reflexivity]. }
  exists s1. split.
  - destruct (changed s0 s1); [|reflexivity].
    rewrite (reapply_seq (fuel_of s1) [n] s1 G1).
    + f_equal. apply seqapp_sat_id; [assumption | intros; apply S1].
    + intros i [<-|[]]. apply S1.
    + constructor; [intros [] | constructor].
    + intros i [<-|[]]. rewrite E1, app_length. simpl. unfold n. lia.
    + unfold fuel_of. rewrite E1, app_length. simpl. lia.
  - split; [|split; [assumption|]].
    + split; [assumption|]. split; [|assumption]. rewrite Eir'. apply run_plain_props; assumption.
    + rewrite (wf_pre g W). simpl. rewrite Eir'. rewrite (targets_walk g _ (wf_pre g W)).
      rewrite flat_map_nil; [reflexivity|]. intros g' Hg'.
      destruct (In_nth_error _ _ Hg') as [i Ei]. destruct (H i g' Ei) as ([W' _] & Hp' & _).
      unfold GlobModel.new_targets. rewrite (targets_walk g' _ (wf_pre g' W')).
      rewrite filter_none; [reflexivity|]. intros t Ht. rewrite (walk_exists _ _ _ Hp' Ht). reflexivity.
Qed.

Lemma inv_init : inv (C [] [] []).
Proof.
  split; [|split].
  - split; [|split].
    + intros a e1 b e2 c Hc. destruct a; discriminate.
    + reflexivity.
    + intros i g Hg. destruct i; discriminate.
  - intros e [].
  - intros i g Hg. destruct i; discriminate.
Qed.

Theorem run_expand : forall p s, inv s -> wf_from (c_globs s) p ->
  exists s', run_from s p = Some s' /\
             c_ir s' = run_plain_from (c_ir s) (expand_from (c_ir s) (c_globs s) p).
Proof.
  induction p as [|x p IH]; intros s Iv Wf.
  - exists s. split; reflexivity.
  - destruct x as [q w|g]; cbn [wf_from] in Wf.
    + destruct Wf as [Hq Wf]. destruct (step_key s q w Iv Hq) as (s1 & Es & Iv1 & Eg & Eir).
      rewrite <- Eg in Wf. destruct (IH s1 Iv1 Wf) as (s' & Er & Eir').
      exists s'. cbn [GlobModel.run_from]. rewrite Es. split; [assumption|].
      cbn [GlobModel.expand_from]. rewrite run_plain_app, <- Eir, <- Eg. exact Eir'.
    + destruct Wf as (Ok & Hpn & Hf & Wf). destruct (step_glob s g Iv Ok Hpn Hf) as (s1 & Es & Iv1 & Eg & Eir).
      rewrite <- Eg in Wf. destruct (IH s1 Iv1 Wf) as (s' & Er & Eir').
      exists s'. cbn [GlobModel.run_from]. rewrite Es. split; [assumption|].
      cbn [GlobModel.expand_from]. rewrite run_plain_app, <- Eir, <- Eg. exact Eir'.
Qed.

(* glob_equiv_expansion: the program with globs compiles to exactly the IR of its reference expansion *)
Theorem glob_equiv_expansion p : wf_from [] p ->
  GlobModel.run keq mt p = Some (GlobModel.run_plain keq (GlobModel.expand keq mt p)).
Proof.
  intro Wf. destruct (run_expand p (C [] [] []) inv_init Wf) as (s' & Er & Eir).
  unfold GlobModel.run. rewrite Er. f_equal. exact Eir.
Qed.

(* every field a glob reaches exists, lies at the depth of its pattern part, and each of its names is matched
   by the corresponding pattern; conversely every such field is reached *)
Theorem targets_spec g st t : g_pre g = [] ->
  (In t (targets g st) <->
   chain st [] t /\ Forall2 (fun m p => mt m p = true) t (g_pats g)).
Proof.
  intro E. rewrite (targets_walk g st E), walk_spec. split.
  - intros (ms & -> & C & F). auto.
  - intros [C F]. exists t. auto.
Qed.

End Proofs.

(* ------------------------------------------------------------------ the d2ir instance *)

Lemma keq_go_refl a : keq_go a a = true.
Proof. apply str_eqb_refl. Qed.

Lemma reserved_unm n : go_reserved n = true -> unm mt_go n.
Proof.
  intros Hr p Hp. unfold mt_go, match_pattern.
  destruct (never_reserved go_lower go_reserved n p Hp Hr) as (_ & E & _).
  unfold match_pattern_pinned. rewrite E. reflexivity.
Qed.

Lemma nonemptyb_ne {A} (l : list A) : nonemptyb l = true -> l <> [].
Proof. destruct l; [discriminate | discriminate]. Qed.

Lemma find_glob_none g : forall gs k, existsb (fun g' => glob_eqb g' g) gs = false -> find_glob gs g k = None.
Proof.
  induction gs as [|g' gs IH]; intros k H; simpl in *; [reflexivity|].
  apply orb_false_iff in H as [H1 H2]. rewrite H1. apply IH. assumption.
Qed.

Lemma wf_fromb_sound : forall p gs, wf_fromb gs p = true -> wf_from mt_go gs p.
Proof.
  induction p as [|x p IH]; intros gs H; [exact I|]. destruct x as [q w|g]; simpl in *.
  - apply andb_prop in H as [H1 H2]. split; [apply nonemptyb_ne; assumption | apply IH; assumption].
  - apply andb_prop in H as [H H3]. apply andb_prop in H as [H1 H2]. unfold glob_okb in H1.
    apply andb_prop in H1 as [H1 Hr]. apply andb_prop in H1 as [H1 Hs]. apply andb_prop in H1 as [H1 Hp].
    apply andb_prop in H1 as [Hpre Hpn].
    split; [|split; [apply nonemptyb_ne; assumption | split; [|apply IH; assumption]]].
    + split; [|apply nonemptyb_ne; assumption]. constructor.
      * destruct (g_pre g); [reflexivity | discriminate].
      * apply Forall_forall. intros x Hx. rewrite forallb_forall in Hp. apply nonemptyb_ne, Hp, Hx.
      * apply Forall_forall. intros x Hx. rewrite forallb_forall in Hr. apply reserved_unm, Hr, Hx.
    + apply find_glob_none. apply negb_true_iff. assumption.
Qed.

Theorem glob_equiv_expansion_go p : wf_progb p = true ->
  run keq_go mt_go p = Some (run_plain keq_go (expand keq_go mt_go p)).
Proof. intro H. apply glob_equiv_expansion; [exact keq_go_refl | apply wf_fromb_sound; exact H]. Qed.

(* the mechanism never runs out of fuel and never matches a reserved keyword field *)
Theorem glob_targets_never_reserved g st t : g_pre g = [] -> g_pats g <> [] -> Forall (fun p => p <> []) (g_pats g) ->
  In t (targets keq_go mt_go g st) -> forall n, In n t -> go_reserved n = false.
Proof.
  intros Hpre Hne Hp Ht n Hn. apply (targets_spec keq_go mt_go g st t Hpre) in Ht as [_ F].
  destruct (go_reserved n) eqn:R; [|reflexivity]. exfalso.
  remember (g_pats g) as pats eqn:Ep. clear Ep Hne.
  induction F as [|m p ms ps Hm F IH]; [destruct Hn|].
  inversion Hp as [|? ? Hp1 Hp2]; subst. destruct Hn as [E|Hn].
  - subst m. rewrite (reserved_unm n R p Hp1) in Hm. discriminate.
  - apply IH; assumption.
Qed.

(* the same glob key written twice: the second declaration is ignored (ensureGlobContext reuses the context of
   the first, whose applied set already holds every target): `*.style.fill: r; a; *.style.fill: bl; *.style.fill: r`
   leaves a.style.fill = bl, the reference expansion gives r *)
Definition dup_witness : program :=
  let sf := [[115;116;121;108;101];[102;105;108;108]] in
  [SGlob (G [] [[[42]]] sf [114]); SKey [[97]] None; SGlob (G [] [[[42]]] sf [98;108]); SGlob (G [] [[[42]]] sf [114])].

Lemma glob_duplicate_refuted :
  run keq_go mt_go dup_witness <> Some (run_plain keq_go (expand keq_go mt_go dup_witness)).
Proof. vm_compute. discriminate. Qed.
