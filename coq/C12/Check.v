(* Executable checker for C12 cases. *)
From Coq Require Import List NArith Bool.
Import ListNotations.
Require Import V.Lib.RunCases V.C12.Model.
Open Scope N_scope.

Inductive case :=
| CMatch (pat : list str) (rows : list (str * option bool))
    (* d2ir.matchPattern (through the hook VerifMatchPattern) on every name of [rows] with pattern [pat];
       None = the call panicked *)
| CPat (text : str) (pat : list str).
    (* d2parser.ParseKey(text): the Pattern of its first path element (oracle hypothesis: alternating) *)

Definition res_eqb (m : res bool) (i : option bool) : bool :=
  match m, i with
  | Ok a, Some b => Bool.eqb a b
  | Crash, None => true
  | _, _ => false
  end.

Definition glob_matches_ci := glob_matches.

Definition check_row (pat : list str) (row : str * option bool) : list N :=
  let (s, impl) := row in
  flag (res_eqb (match_pattern s pat) impl) 1
  ++ (if alternating pat then
        match impl with
        | None => [11]
        | Some b =>
            flag (Bool.eqb b (glob_matches_ci s pat) || (reserved_ci s && nonempty pat)) 10
            ++ flag (negb (reserved_ci s && nonempty pat && b)) 12
        end
      else []).

(* `\*` in the key text: the AST cannot tell an escaped star from a wildcard (Pattern stores both as "*"), such
   keys are outside the theorems *)
Fixpoint has_escaped_star (t : str) : bool :=
  match t with
  | [] => false
  | x :: t' =>
      match t' with
      | y :: _ => ((x =? 92) && (y =? 42)) || has_escaped_star t'
      | [] => false
      end
  end.

Definition check_case (c : case) : list N :=
  match c with
  | CMatch pat rows => nodup N.eq_dec (flat_map (check_row pat) rows)
  | CPat text pat => flag (alternating pat || has_escaped_star text) 2
  end.
