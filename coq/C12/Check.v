(* Executable checker for C12 cases. *)
From Coq Require Import List NArith Bool.
Import ListNotations.
Require Import V.Lib.RunCases V.C12.Model.
Require Export V.C12.GlobModel.
Open Scope N_scope.

(* projection of a compiled d2graph: per board (sorted by board path) the objects (AbsID; label, shape, fill,
   stroke, opacity), sorted, and the connections (source AbsID, destination AbsID; label, stroke, opacity), sorted *)
Definition pobj := (str * list str)%type.
Definition pedge := (str * str * list str)%type.
Definition pboard := (str * list pobj * list pedge)%type.
Inductive gres := GErr | GOk (boards : list pboard).

Inductive case :=
| CMatch (pat : list str) (rows : list (str * option bool))
    (* d2ir.matchPattern (through the hook VerifMatchPattern) on every name of [rows] with pattern [pat];
       None = the call panicked *)
| CPat (text : str) (pat : list str)
    (* d2parser.ParseKey(text): the Pattern of its first path element (oracle hypothesis: alternating) *)
| CIR (p : program) (impl : option (list (path * option str)))
    (* d2ir.Compile of a core-fragment program (one scope, explicit keys and single-level field globs): the
       fields in depth-first order with their primary values; None = compile error *)
| CExp (g e : gres).
    (* d2compiler.Compile of a glob program, and of its reference expansion (globs replaced by explicit
       declarations on every matching target, at the glob's position for existing targets and at the creation
       point for later ones) *)

Definition strs_eqb := list_eqb str_eqb.
Definition pobj_eqb (a b : pobj) : bool := str_eqb (fst a) (fst b) && strs_eqb (snd a) (snd b).
Definition pedge_ends_eqb (a b : pedge) : bool :=
  str_eqb (fst (fst a)) (fst (fst b)) && str_eqb (snd (fst a)) (snd (fst b)).
Definition pedge_eqb (a b : pedge) : bool := pedge_ends_eqb a b && strs_eqb (snd a) (snd b).
Definition is_self (e : pedge) : bool := str_eqb (fst (fst e)) (snd (fst e)).

Definition bname (b : pboard) : str := fst (fst b).
Definition bobjs (b : pboard) : list pobj := snd (fst b).
Definition bedges (b : pboard) : list pedge := snd b.

(* clause by clause, per board *)
Definition check_board (g e : pboard) : list N :=
  flag (strs_eqb (map fst (bobjs g)) (map fst (bobjs e))) 10          (* same objects *)
  ++ flag (list_eqb pobj_eqb (bobjs g) (bobjs e)) 11                   (* with the same attribute values *)
  ++ flag (list_eqb pedge_ends_eqb (bedges g) (bedges e)) 13           (* same connections (multiset of ends) *)
  ++ flag (list_eqb pedge_eqb (bedges g) (bedges e)) 14                (* with the same attribute values *)
  ++ flag (Nat.leb (length (filter is_self (bedges g))) (length (filter is_self (bedges e)))) 15.
                                                                       (* no self-connection made by a glob *)

Fixpoint check_boards (g e : list pboard) : list N :=
  match g, e with
  | [], [] => []
  | b :: g', c :: e' => flag (str_eqb (bname b) (bname c)) 17 ++ check_board b c ++ check_boards g' e'
  | _, _ => [17]
  end.

Definition res_eqb (m : res bool) (i : option bool) : bool :=
  match m, i with
  | Ok a, Some b => Bool.eqb a b
  | Crash, None => true
  | _, _ => false
  end.

Definition glob_matches_ci := glob_matches.

Definition check_row (pat : list str) (row : str * option bool) : list N :=
  let (s, impl) := row in
  flag (res_eqb (match_pattern s pat) impl) 1
  ++ (if alternating pat then
        match impl with
        | None => [11]
        | Some b =>
            flag (Bool.eqb b (glob_matches_ci s pat) || (reserved_ci s && nonempty pat)) 10
            ++ flag (negb (reserved_ci s && nonempty pat && b)) 12
        end
      else []).

(* `\*` in the key text: the AST cannot tell an escaped star from a wildcard (Pattern stores both as "*"), such
   keys are outside the theorems *)
Fixpoint has_escaped_star (t : str) : bool :=
  match t with
  | [] => false
  | x :: t' =>
      match t' with
      | y :: _ => ((x =? 92) && (y =? 42)) || has_escaped_star t'
      | [] => false
      end
  end.

(* ---- the IR model against d2ir.Compile ---- *)

Definition fproj := (path * option str)%type.
Definition fproj_eqb (a b : fproj) : bool := path_eqb (fst a) (fst b) && opt_eqb str_eqb (snd a) (snd b).

Fixpoint dfs (fuel : nat) (st : ir) (par : path) : list fproj :=
  match fuel with
  | O => []
  | S f => flat_map (fun e => (epath e, eprim e) :: dfs f st (epath e)) (children st par)
  end.
Definition ir_proj (st : ir) : list fproj := dfs (S (length st)) st [].

Definition subset (a b : list fproj) : bool := forallb (fun x => existsb (fproj_eqb x) b) a.
Definition same_set (a b : list fproj) : bool := Nat.eqb (length a) (length b) && subset a b && subset b a.

Definition check_ir (p : program) (impl : option (list fproj)) : list N :=
  match impl with
  | None => [19]
  | Some fs =>
      flag (match run keq_go mt_go p with
            | Some st => list_eqb fproj_eqb (ir_proj st) fs
            | None => false end) 1
      (* glob_equiv_expansion evaluated on the implementation's IR: it holds the fields and values of the
         reference expansion *)
      ++ flag (same_set fs (ir_proj (run_plain keq_go (expand keq_go mt_go p)))) 18
  end.

Definition check_case (c : case) : list N :=
  match c with
  | CMatch pat rows => nodup N.eq_dec (flat_map (check_row pat) rows)
  | CPat text pat => flag (alternating pat || has_escaped_star text) 2
  | CIR p impl => check_ir p impl
  | CExp g e =>
      match g, e with
      | GOk bg, GOk be => nodup N.eq_dec (check_boards bg be)
      | GErr, GErr => []
      | _, _ => [16]       (* one of the two does not compile (e.g. the glob touched a reserved keyword field) *)
      end
  end.
