(* C27 — Fitted shapes contain their content; traced ends land on the outline.  Statements only.
   Q = exact rationals; fit = GetDimensionsToFit, inner = GetInnerBox / GetInnerBoxForContent(content),
   boxes at the origin.  The circle is modelled with the float64 constant math.Sqrt2; the oval (trig) is
   outside the model: monitored by the harness. *)
From Coq Require Import ZArith QArith Bool.
Require Import V.C27.Model V.C27.Proofs.
Open Scope Q_scope.

(* Rectangle/square, table, class, code, text, image, real square, diamond, hexagon, parallelogram, step,
   callout, document, cylinder, queue, package, page, stored data: for ALL content sizes and paddings >= 0
   the inner box of the fitted size holds content + padding and lies inside the shape's box. *)
Theorem C27_fit_contains_exact_shapes :
  forall s, exact_shape s = true ->
  forall w h px py, 0 <= w -> 0 <= h -> 0 <= px -> 0 <= py ->
    let WH := fit s w h px py in
    let b := inner s (fst WH) (snd WH) w h in
    Contains (w + px) (h + py) b /\ Inside (fst WH) (snd WH) b.
Proof. exact fit_contains_exact. Qed.

(* All 17 modelled shapes (the above + person, c4-person, cloud, circle): content + padding minus [loss]
   (2 for the circle, whose inner top-left is rounded up twice; 0 otherwise) fits, under the decidable side
   condition [guard] on the input (true for the exact shapes and the circle; see Model.v for the others). *)
Theorem C27_fit_contains_guarded :
  forall s w h px py, 0 <= w -> 0 <= h -> 0 <= px -> 0 <= py ->
    guard s w h px py = true ->
    let WH := fit s w h px py in
    Contains (w + px - loss s) (h + py - loss s) (inner s (fst WH) (snd WH) w h).
Proof. exact fit_contains_guarded. Qed.

(* In the property's own words: the inner box of the fitted size is at least as large as the CONTENT. *)
Theorem C27_fit_contains_content :
  forall s w h px py, 0 <= w -> 0 <= h -> loss s <= px -> loss s <= py ->
    guard s w h px py = true ->
    let WH := fit s w h px py in
    Contains w h (inner s (fst WH) (snd WH) w h).
Proof. exact fit_contains_content. Qed.

(* All 17 modelled shapes, all inputs: the inner box lies inside the shape's box (cloud: within 1 px,
   because its inner top-left is rounded up). *)
Theorem C27_inner_inside_box :
  forall s w h px py, 0 <= w -> 0 <= h -> 0 <= px -> 0 <= py ->
    let WH := fit s w h px py in
    inside_b (inside_slack s) (fst WH) (snd WH) (inner s (fst WH) (snd WH) w h) = true.
Proof. exact fit_inside. Qed.

(* Person without the side condition: never more than half a pixel short (LimitAR rounds) ... *)
Theorem C27_person_within_half_px_partial :
  forall w h px py, 0 <= w -> 0 <= h -> 0 <= px -> 0 <= py ->
    let WH := fit Person w h px py in
    let b := inner Person (fst WH) (snd WH) w h in
    w + px - (1#2) <= bw b /\ h + py - (1#2) <= bh b.
Proof. exact person_fit_half_px. Qed.

(* ... but the full statement "for every shape, content size and padding" is refuted on the faithful model:
   person 25x92, padding 0 (inner width 24.918);  c4-person label 80x360 with its default padding (10,40)
   (inner height 301.6);  cloud content 300x245 with its default padding (40,20) (inner width 275.8). *)
Theorem C27_fit_contains_person_refuted :
  contains_b 0 25 92 (let WH := fit Person 25 92 0 0 in inner Person (fst WH) (snd WH) 25 92) = false.
Proof. exact person_refuted. Qed.

Theorem C27_fit_contains_c4person_refuted :
  contains_b 0 80 360 (let WH := fit C4Person 80 360 10 40 in inner C4Person (fst WH) (snd WH) 80 360) = false.
Proof. exact c4person_refuted. Qed.

Theorem C27_fit_contains_cloud_refuted :
  contains_b 0 300 245 (let WH := fit Cloud 300 245 40 20 in inner Cloud (fst WH) (snd WH) 300 245) = false.
Proof. exact cloud_content_aspect_refuted. Qed.

(* The repaired cloud fit (coq/C27/fix.patch: aspect ratio taken before the padding is added) has the
   guarantee for all inputs, no side condition. *)
Theorem C27_cloud_fixed_contains :
  forall w h px py, 0 <= w -> 0 <= h -> 0 <= px -> 0 <= py ->
    let WH := fit_cloud_fixed w h px py in
    Contains (w + px) (h + py) (inner Cloud (fst WH) (snd WH) w h).
Proof. exact cloud_fixed_contains. Qed.

(* circle 98x98 without padding: inner box 97x97 (with padding >= 2 the theorem above applies) *)
Theorem C27_fit_contains_circle_zero_padding_refuted :
  contains_b 0 98 98 (let WH := fit Circle 98 98 0 0 in inner Circle (fst WH) (snd WH) 98 98) = false.
Proof. exact circle_zero_padding_refuted. Qed.

(* Oval, relative to its trigonometric oracle (c, s = cos, sin of the content angle; cr, sr = cos*r, sin*r of
   the fitted ellipse; hypotheses evaluated by the harness on the values Go's math package returns):
   the inner box holds content + the padding's projection, less 2px (two math.Ceil) and 1e-5 relative.
   Full statement (no oracle, no loss) is not provable: atan2/sin/cos/sqrt are outside the model. *)
Theorem C27_fit_contains_oval_partial :
  forall c s cr sr w h px py, 0 <= w -> 0 <= h -> 0 <= px -> 0 <= py ->
    H_pad_b c s w h px py = true ->
    let WH := fit_oval c s w h px py in
    H_radius_b cr sr (fst WH) (snd WH) = true ->
    let b := inner_oval cr sr (fst WH) (snd WH) in
    Contains ((w + px * c) * (1 - rho) - 2) ((h + py * s) * (1 - rho) - 2) b /\ Inside (fst WH) (snd WH) b.
Proof. exact oval_fit_partial. Qed.

(* the boolean predicates executed by Check.v are the Props above *)
Theorem C27_contains_b_reflects : forall cw ch b, contains_b 0 cw ch b = true <-> Contains cw ch b.
Proof. exact Contains_b. Qed.
Theorem C27_inside_b_reflects : forall W H b, inside_b 0 W H b = true <-> Inside W H b.
Proof. exact Inside_b. Qed.

(* TraceToShapeBorder, rectangular shapes: the border point handed in is returned unchanged, so it is on
   the rectangle's outline whenever the layout engine put it there. *)
Theorem C27_trace_rect_on_border :
  forall tol x y w h p, on_rect_border_b tol x y w h p = true -> on_rect_border_b tol x y w h (trace_rect p) = true.
Proof. exact trace_rect_on_border. Qed.

(* non-vacuity of the side conditions *)
Example C27_oval_hyps_satisfiable :
  H_pad_b (4#5) (3#5) 100 50 0 0 = true /\
  H_radius_b (502046 # 10000) (251023 # 10000) (fst (fit_oval (4#5) (3#5) 100 50 0 0)) (snd (fit_oval (4#5) (3#5) 100 50 0 0)) = true.
Proof. split; vm_compute; reflexivity. Qed.

Example C27_guard_satisfiable :
  guard Person 60 100 10 40 = true /\ guard C4Person 300 60 10 40 = true /\ guard Cloud 100 50 40 20 = true /\ loss Circle <= 40
  /\ exact_shape Hexagon = true /\ on_rect_border_b 0 0 0 10 10 (0, 5) = true.
Proof. repeat split; vm_compute; try reflexivity; discriminate. Qed.

Print Assumptions C27_fit_contains_exact_shapes.
Print Assumptions C27_fit_contains_guarded.
Print Assumptions C27_fit_contains_content.
Print Assumptions C27_inner_inside_box.
Print Assumptions C27_cloud_fixed_contains.
Print Assumptions C27_fit_contains_oval_partial.
Print Assumptions C27_fit_contains_circle_zero_padding_refuted.
Print Assumptions C27_person_within_half_px_partial.
Print Assumptions C27_fit_contains_person_refuted.
Print Assumptions C27_fit_contains_c4person_refuted.
Print Assumptions C27_fit_contains_cloud_refuted.
Print Assumptions C27_contains_b_reflects.
Print Assumptions C27_inside_b_reflects.
Print Assumptions C27_trace_rect_on_border.
