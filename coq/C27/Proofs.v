(* C27 — proofs about the model of lib/shape fit / inner-box formulas. *)
From Coq Require Import ZArith QArith Qround Qabs Bool Lqa Lia.
Require Import V.C27.Model.
Open Scope Q_scope.

Lemma cloud_boundaries :
  cloudWideBoundary == (1 + cloudWideW / cloudWideH) / 2 /\
  cloudTallBoundary == (1 + cloudTallW / cloudTallH) / 2 /\
  personShoulderFactor == (202 # 10) / (683 # 10).
Proof. repeat split; vm_compute; reflexivity. Qed.

Lemma ceil_ge x : x <= ceilQ x.
Proof. apply Qle_ceiling. Qed.

Lemma ceil_lt x : ceilQ x < x + 1.
Proof.
  unfold ceilQ. pose proof (Qceiling_lt x) as H.
  assert (E : inject_Z (Qceiling x - 1) == inject_Z (Qceiling x) - 1)
    by (unfold Z.sub; rewrite inject_Z_plus, inject_Z_opp; reflexivity).
  rewrite E in H. lra.
Qed.

Lemma floor_le x : inject_Z (Qfloor x) <= x.
Proof. apply Qfloor_le. Qed.

Lemma floor_gt x : x - 1 < inject_Z (Qfloor x).
Proof.
  pose proof (Qlt_floor x) as H. rewrite inject_Z_plus in H. change (inject_Z 1) with 1 in H. lra.
Qed.

Lemma round_bounds x : 0 <= x -> x - (1#2) < roundQ x /\ roundQ x <= x + (1#2).
Proof.
  intros Hx. unfold roundQ. destruct (Qlt_le_dec x 0); [lra|].
  pose proof (floor_le (x + (1#2))). pose proof (floor_gt (x + (1#2))). lra.
Qed.

Lemma round_nonneg x : 0 <= x -> 0 <= roundQ x.
Proof.
  intros Hx. unfold roundQ. destruct (Qlt_le_dec x 0); [lra|].
  assert (H : (Qfloor 0 <= Qfloor (x + (1#2)))%Z) by (apply Qfloor_resp_le; lra).
  change (Qfloor 0) with 0%Z in H. rewrite Zle_Qle in H. exact H.
Qed.

Lemma roundQ_integral x : exists z, roundQ x = inject_Z z.
Proof.
  unfold roundQ. destruct (Qlt_le_dec x 0).
  - exists (- Qfloor (- x + (1#2)))%Z. rewrite inject_Z_opp. reflexivity.
  - eexists; reflexivity.
Qed.

Lemma ceil_inject z : ceilQ (inject_Z z) = inject_Z z.
Proof. unfold ceilQ. now rewrite Qceiling_Z. Qed.

Lemma ceil_round x : ceilQ (roundQ x) = roundQ x.
Proof. destruct (roundQ_integral x) as [z ->]. apply ceil_inject. Qed.

Lemma Contains_b cw ch b : contains_b 0 cw ch b = true <-> Contains cw ch b.
Proof.
  unfold contains_b, Contains. rewrite andb_true_iff, !Qle_bool_iff.
  split; intros [A B]; split; lra.
Qed.

Lemma Inside_b W H b : inside_b 0 W H b = true <-> Inside W H b.
Proof.
  unfold inside_b, Inside. rewrite !andb_true_iff, !Qle_bool_iff.
  split; intros H0; decompose [and] H0; repeat split; lra.
Qed.

Definition InsideTol (tol W H : Q) (b : box) : Prop :=
  0 - tol <= bx b /\ 0 - tol <= by_ b /\ bx b + bw b <= W + tol /\ by_ b + bh b <= H + tol.

Lemma Inside_b_tol tol W H b : InsideTol tol W H b <-> inside_b tol W H b = true.
Proof.
  unfold inside_b, InsideTol. rewrite !andb_true_iff, !Qle_bool_iff.
  split; intros H0; decompose [and] H0; repeat split; lra.
Qed.

Lemma contains_b_mono tol cw ch b : 0 <= tol -> contains_b 0 cw ch b = true -> contains_b tol cw ch b = true.
Proof.
  unfold contains_b. rewrite !andb_true_iff, !Qle_bool_iff. intros ? [? ?]; split; lra.
Qed.

Lemma inside_b_mono tol W H b : 0 <= tol -> inside_b 0 W H b = true -> inside_b tol W H b = true.
Proof.
  unfold inside_b. rewrite !andb_true_iff, !Qle_bool_iff. intros ? H0; decompose [and] H0; repeat split; lra.
Qed.

Ltac consts :=
  unfold parallelWedgeWidth, stepWedgeWidth, tipHeight, docPathHeight, docPathInnerBottom, arcDepth,
    pkgTopMaxHeight, pkgVScalar, pageCornerWidth, pageCornerHeight, storedDataWedgeWidth,
    personShoulderFactor, personAR, c4AR, headRadiusFactor, bodyTopFactor,
    cloudWideX, cloudWideY, cloudWideW, cloudWideH, cloudTallX, cloudTallY, cloudTallW, cloudTallH,
    cloudSqX, cloudSqY, cloudSqW, cloudSqH, cloudWideBoundary, cloudTallBoundary, sqrt2f in *.

Ltac ceil_facts :=
  repeat match goal with
  | |- context [ceilQ ?e] =>
      lazymatch goal with
      | _ : e <= ceilQ e |- _ => fail
      | _ => pose proof (ceil_ge e); pose proof (ceil_lt e)
      end
  end.

Ltac cases :=
  repeat match goal with |- context [Qlt_le_dec ?a ?b] =>
    lazymatch a with context [Qlt_le_dec _ _] => fail | _ => idtac end;
    lazymatch b with context [Qlt_le_dec _ _] => fail | _ => idtac end;
    destruct (Qlt_le_dec a b) end.

Ltac inv_consts :=
  unfold Qdiv in *;
  repeat match goal with
  | |- context [Qinv ?c] => let v := eval vm_compute in (Qinv c) in progress change (Qinv c) with v
  | H : context [Qinv ?c] |- _ => let v := eval vm_compute in (Qinv c) in progress change (Qinv c) with v in H
  end.

Ltac crunch :=
  unfold Contains, Inside, InsideTol, bx, by_, bw, bh, qmax, qmin; cbn [fst snd]; cases; ceil_facts; consts;
  inv_consts; repeat split; lra.

(* ---- the shapes for which the guarantee holds unconditionally ---- *)

Theorem fit_contains_exact :
  forall s, exact_shape s = true ->
  forall w h px py, 0 <= w -> 0 <= h -> 0 <= px -> 0 <= py ->
    let WH := fit s w h px py in
    let b := inner s (fst WH) (snd WH) w h in
    Contains (w + px) (h + py) b /\ Inside (fst WH) (snd WH) b.
Proof.
  intros s Hs w h px py Hw Hh Hpx Hpy.
  destruct s; try discriminate Hs; cbv zeta; unfold fit, inner; cbn [fst snd].
  - crunch.
  - crunch.
  - crunch.
  - crunch.
  - crunch.
  - crunch.
  - crunch.
  - crunch.
  - crunch.
  - crunch.
  - crunch.
  - crunch.
  - crunch.
Qed.

(* ---- cloud ---- *)

Lemma cloud_fit_padded_aspect :
  forall w h px py, 0 <= w -> 0 <= h -> 0 <= px -> 0 <= py ->
    let WH := fit Cloud w h px py in
    let b := inner Cloud (fst WH) (snd WH) (w + px) (h + py) in
    Contains (w + px) (h + py) b /\ inside_b 1 (fst WH) (snd WH) b = true.
Proof.
  intros w h px py Hw Hh Hpx Hpy. cbv zeta. unfold fit, inner; cbn [fst snd].
  rewrite <- Inside_b_tol.
  destruct (cloud_branch (w + px) (h + py)); unfold cloud_iw, cloud_ih, cloud_ix, cloud_iy; crunch.
Qed.

Lemma cloud_branch_eq_of_guard w h px py :
  guard Cloud w h px py = true -> cloud_branch w h = cloud_branch (w + px) (h + py).
Proof.
  unfold guard. destruct (cloud_branch w h), (cloud_branch (w + px) (h + py)); congruence.
Qed.

(* ---- person ---- *)

Lemma person_tw_eq cw : person_tw cw == cw * (683 # 279).
Proof. unfold person_tw, personShoulderFactor. field. Qed.

Ltac round_facts :=
  repeat match goal with |- context [roundQ ?e] =>
    lazymatch goal with
    | _ : 0 <= roundQ e |- _ => fail
    | _ => let R := fresh in assert (R : 0 <= e) by (inv_consts; lra);
           destruct (round_bounds e R); pose proof (round_nonneg e R)
    end end.

Lemma fit_person_nonneg w h px py :
  0 <= w -> 0 <= h -> 0 <= px -> 0 <= py ->
  0 <= fst (fit Person w h px py) /\ 0 <= snd (fit Person w h px py).
Proof.
  intros. unfold fit. fold (person_tw (w + px)). pose proof (person_tw_eq (w + px)) as E.
  set (tw := person_tw (w + px)) in *. unfold limit_ar, personAR.
  cases; cbn [fst snd]; rewrite ?ceil_round; round_facts; ceil_facts; inv_consts; split; lra.
Qed.

Ltac person_setup w px :=
  cbv zeta; unfold fit, inner; fold (person_tw (w + px));
  let E := fresh "E" in pose proof (person_tw_eq (w + px)) as E; set (tw := person_tw (w + px)) in *;
  unfold limit_ar, personAR.

Lemma person_fit_guarded :
  forall w h px py, 0 <= w -> 0 <= h -> 0 <= px -> 0 <= py ->
    guard Person w h px py = true ->
    let WH := fit Person w h px py in
    Contains (w + px) (h + py) (inner Person (fst WH) (snd WH) w h).
Proof.
  intros w h px py Hw Hh Hpx Hpy G. unfold guard in G. apply andb_true_iff in G as [G1 G2].
  apply Qle_bool_iff in G1, G2. unfold personAR in G1, G2. person_setup w px.
  cases; cbn [fst snd]; try lra.
  unfold Contains, bw, bh; cbn [fst snd]. ceil_facts. consts. split; lra.
Qed.

(* without the guard: never more than half a pixel short *)
Lemma person_fit_half_px :
  forall w h px py, 0 <= w -> 0 <= h -> 0 <= px -> 0 <= py ->
    let WH := fit Person w h px py in
    let b := inner Person (fst WH) (snd WH) w h in
    w + px - (1#2) <= bw b /\ h + py - (1#2) <= bh b.
Proof.
  intros w h px py Hw Hh Hpx Hpy. person_setup w px.
  cases; cbn [fst snd]; rewrite ?ceil_round; unfold bw, bh; cbn [fst snd];
    round_facts; ceil_facts; consts; inv_consts; split; lra.
Qed.

Lemma person_inside :
  forall w h px py, 0 <= w -> 0 <= h -> 0 <= px -> 0 <= py ->
    let WH := fit Person w h px py in
    Inside (fst WH) (snd WH) (inner Person (fst WH) (snd WH) w h).
Proof.
  intros w h px py Hw Hh Hpx Hpy. cbv zeta.
  destruct (fit_person_nonneg w h px py Hw Hh Hpx Hpy) as [A B].
  set (W := fst (fit Person w h px py)) in *. set (H := snd (fit Person w h px py)) in *.
  unfold inner, Inside, bx, by_, bw, bh; cbn [fst snd]. consts. repeat split; lra.
Qed.

Lemma person_refuted :
  contains_b 0 25 92 (let WH := fit Person 25 92 0 0 in inner Person (fst WH) (snd WH) 25 92) = false.
Proof. vm_compute. reflexivity. Qed.

(* ---- c4-person ---- *)

Lemma c4_fit_facts w h px py :
  0 <= w -> 0 <= h -> 0 <= px -> 0 <= py ->
  let WH := fit C4Person w h px py in
  0 <= fst WH /\ 0 <= snd WH /\
  (guard C4Person w h px py = true ->
     (w + px) / (9#10) <= fst WH /\ fst WH < (w + px) / (9#10) + 1 /\
     h + py + (w + px) / (9#10) * (456#1000) <= snd WH).
Proof.
  intros Hw Hh Hpx Hpy. cbv zeta. unfold fit, guard, limit_ar, c4AR, headRadiusFactor, bodyTopFactor.
  set (cw := w + px). set (ch := h + py). assert (0 <= cw) by (unfold cw; lra). assert (0 <= ch) by (unfold ch; lra).
  set (tw := cw / (9#10)). assert (Etw : tw == cw * (10#9)) by (unfold tw; field).
  rewrite Qle_bool_iff.
  cases; cbn [fst snd]; rewrite ?ceil_round; round_facts; ceil_facts; inv_consts; repeat split; try lra; intros; try lra.
Qed.

Lemma c4person_fit_guarded :
  forall w h px py, 0 <= w -> 0 <= h -> 0 <= px -> 0 <= py ->
    guard C4Person w h px py = true ->
    let WH := fit C4Person w h px py in
    Contains (w + px) (h + py) (inner C4Person (fst WH) (snd WH) w h).
Proof.
  intros w h px py Hw Hh Hpx Hpy G. cbv zeta.
  destruct (c4_fit_facts w h px py Hw Hh Hpx Hpy) as (A & B & C). specialize (C G) as (C1 & C2 & C3).
  unfold guard in G. apply Qle_bool_iff in G.
  set (W := fst (fit C4Person w h px py)) in *. set (H := snd (fit C4Person w h px py)) in *.
  unfold inner, Contains, bw, bh; cbn [fst snd]. consts. inv_consts. split; lra.
Qed.

Lemma c4person_inside :
  forall w h px py, 0 <= w -> 0 <= h -> 0 <= px -> 0 <= py ->
    let WH := fit C4Person w h px py in
    Inside (fst WH) (snd WH) (inner C4Person (fst WH) (snd WH) w h).
Proof.
  intros w h px py Hw Hh Hpx Hpy. cbv zeta.
  destruct (c4_fit_facts w h px py Hw Hh Hpx Hpy) as (A & B & _).
  set (W := fst (fit C4Person w h px py)) in *. set (H := snd (fit C4Person w h px py)) in *.
  unfold inner, Inside, bx, by_, bw, bh; cbn [fst snd]. consts. repeat split; lra.
Qed.

(* label 80x360 with the default padding (10,40): the inner box is 301.6 high *)
Lemma c4person_refuted :
  contains_b 0 80 360 (let WH := fit C4Person 80 360 10 40 in inner C4Person (fst WH) (snd WH) 80 360) = false.
Proof. vm_compute. reflexivity. Qed.

(* content 300x245 with the default padding (40,20): fitted 416x484, inner box 275.8 wide *)
Lemma cloud_content_aspect_refuted :
  contains_b 0 300 245 (let WH := fit Cloud 300 245 40 20 in inner Cloud (fst WH) (snd WH) 300 245) = false.
Proof. vm_compute. reflexivity. Qed.

(* the cloud's inner box can stick out below the box (by less than one pixel) *)
Lemma cloud_inside_exact_refuted :
  inside_b 0 50 101 (inner Cloud 50 101 10 100) = false.
Proof. vm_compute. reflexivity. Qed.

Lemma cloud_inside_any W H aw ah : 0 <= W -> 0 <= H -> inside_b 1 W H (inner Cloud W H aw ah) = true.
Proof.
  intros. rewrite <- Inside_b_tol. unfold inner.
  destruct (cloud_branch aw ah); unfold cloud_iw, cloud_ih, cloud_ix, cloud_iy; crunch.
Qed.

Lemma fit_cloud_nonneg w h px py :
  0 <= w -> 0 <= h -> 0 <= px -> 0 <= py -> 0 <= fst (fit Cloud w h px py) /\ 0 <= snd (fit Cloud w h px py).
Proof.
  intros. unfold fit. destruct (cloud_branch (w + px) (h + py)); unfold cloud_iw, cloud_ih; cbn [fst snd];
    ceil_facts; consts; inv_consts; split; lra.
Qed.

(* ---- circle ---- *)

Lemma circle_fit :
  forall w h px py, 0 <= w -> 0 <= h -> 0 <= px -> 0 <= py ->
    let WH := fit Circle w h px py in
    let b := inner Circle (fst WH) (snd WH) w h in
    Contains (w + px - 2) (h + py - 2) b /\ Inside (fst WH) (snd WH) b.
Proof.
  intros w h px py Hw Hh Hpx Hpy. cbv zeta. unfold fit, inner; cbn [fst snd]. crunch.
Qed.

(* ---- all modelled shapes together ---- *)

Theorem fit_contains_guarded :
  forall s w h px py, 0 <= w -> 0 <= h -> 0 <= px -> 0 <= py ->
    guard s w h px py = true ->
    let WH := fit s w h px py in
    Contains (w + px - loss s) (h + py - loss s) (inner s (fst WH) (snd WH) w h).
Proof.
  intros s w h px py Hw Hh Hpx Hpy G.
  assert (Z0 : forall cw ch b, Contains cw ch b -> Contains (cw - 0) (ch - 0) b)
    by (unfold Contains; intros ? ? ? [? ?]; split; lra).
  destruct s; cbv zeta; unfold loss; try apply Z0;
    try (refine (proj1 (fit_contains_exact _ _ w h px py Hw Hh Hpx Hpy)); reflexivity).
  - apply person_fit_guarded; assumption.
  - apply c4person_fit_guarded; assumption.
  - cbv zeta. unfold inner. rewrite (cloud_branch_eq_of_guard _ _ _ _ G).
    apply (cloud_fit_padded_aspect w h px py Hw Hh Hpx Hpy).
  - apply (circle_fit w h px py Hw Hh Hpx Hpy).
Qed.

Theorem fit_inside :
  forall s w h px py, 0 <= w -> 0 <= h -> 0 <= px -> 0 <= py ->
    let WH := fit s w h px py in
    inside_b (inside_slack s) (fst WH) (snd WH) (inner s (fst WH) (snd WH) w h) = true.
Proof.
  intros s w h px py Hw Hh Hpx Hpy.
  destruct s;
    try (apply Inside_b; refine (proj2 (fit_contains_exact _ _ w h px py Hw Hh Hpx Hpy)); reflexivity).
  - apply Inside_b. apply person_inside; assumption.
  - apply Inside_b. apply c4person_inside; assumption.
  - cbv zeta. destruct (fit_cloud_nonneg w h px py Hw Hh Hpx Hpy). apply cloud_inside_any; assumption.
  - apply Inside_b. apply (circle_fit w h px py Hw Hh Hpx Hpy).
Qed.

(* the property's own wording: the CONTENT fits (padding at least the ceil loss) *)
Theorem fit_contains_content :
  forall s w h px py, 0 <= w -> 0 <= h -> loss s <= px -> loss s <= py ->
    guard s w h px py = true ->
    let WH := fit s w h px py in
    Contains w h (inner s (fst WH) (snd WH) w h).
Proof.
  intros s w h px py Hw Hh Hpx Hpy G. cbv zeta.
  assert (L : 0 <= loss s) by (destruct s; unfold loss; lra).
  assert (P : 0 <= px) by lra. assert (P' : 0 <= py) by lra.
  pose proof (fit_contains_guarded s w h px py Hw Hh P P' G) as C. cbv zeta in C.
  unfold Contains in *. destruct C; split; lra.
Qed.

(* the circle really can lose a pixel: content 98x98, no padding, inner box 97x97 *)
Lemma circle_zero_padding_refuted :
  contains_b 0 98 98 (let WH := fit Circle 98 98 0 0 in inner Circle (fst WH) (snd WH) 98 98) = false.
Proof. vm_compute. reflexivity. Qed.

(* content (without padding) fits wherever content + padding fits *)
Lemma contains_weaken w h px py b : 0 <= px -> 0 <= py -> Contains (w + px) (h + py) b -> Contains w h b.
Proof. unfold Contains. intros ? ? [? ?]; split; lra. Qed.

(* TraceToShapeBorder on rectangular shapes returns the point it was given *)
Lemma trace_rect_on_border tol x y w h p :
  on_rect_border_b tol x y w h p = true -> on_rect_border_b tol x y w h (trace_rect p) = true.
Proof. exact (fun H => H). Qed.

(* ---- oval, relative to its trigonometric oracle ---- *)

Lemma limit_ar_grows_integral (a b : Z) :
  (0 <= a)%Z -> (0 <= b)%Z ->
  let r := limit_ar (inject_Z a) (inject_Z b) ovalAR in
  inject_Z a <= fst r /\ inject_Z b <= snd r.
Proof.
  intros Ha Hb. rewrite Zle_Qle in Ha, Hb. change (inject_Z 0) with 0 in *.
  unfold limit_ar, ovalAR. cases; cbn [fst snd]; try (split; lra).
  - split; [lra|]. unfold roundQ. destruct (Qlt_le_dec (inject_Z a / 3) 0).
    + exfalso. revert q0. inv_consts. intros. lra.
    + rewrite <- Zle_Qle.
      assert (L : inject_Z b <= inject_Z a / 3 + (1 # 2)) by (revert q; inv_consts; intros; lra).
      apply Qfloor_resp_le in L. rewrite Qfloor_Z in L. exact L.
  - split; [|lra]. unfold roundQ. destruct (Qlt_le_dec (inject_Z b / 3) 0).
    + exfalso. revert q1. inv_consts. intros. lra.
    + assert (L : inject_Z a <= inject_Z b / 3 + (1 # 2)) by (revert q0; inv_consts; intros; lra).
      rewrite <- Zle_Qle. apply Qfloor_resp_le in L. rewrite Qfloor_Z in L. exact L.
Qed.

Lemma ceil_nonneg_of_gt_m1 x : - (1) < x -> (0 <= Qceiling x)%Z.
Proof.
  intros H. pose proof (Qle_ceiling x) as C.
  assert (L : inject_Z (-1) < inject_Z (Qceiling x)) by (change (inject_Z (-1)) with (- (1)); lra).
  rewrite <- Zlt_Qlt in L. lia.
Qed.

Theorem oval_fit_partial :
  forall c s cr sr w h px py, 0 <= w -> 0 <= h -> 0 <= px -> 0 <= py ->
    H_pad_b c s w h px py = true ->
    let WH := fit_oval c s w h px py in
    H_radius_b cr sr (fst WH) (snd WH) = true ->
    let b := inner_oval cr sr (fst WH) (snd WH) in
    Contains ((w + px * c) * (1 - rho) - 2) ((h + py * s) * (1 - rho) - 2) b /\ Inside (fst WH) (snd WH) b.
Proof.
  intros c s cr sr w h px py Hw Hh Hpx Hpy HU. cbv zeta. unfold fit_oval.
  unfold H_pad_b in HU. rewrite !andb_true_iff, !Qle_bool_iff in HU. destruct HU as [PC PS].
  set (pc := px * c) in *. set (ps := py * s) in *.
  pose proof (ceil_ge (sqrt2f * (w + pc))) as A1. pose proof (ceil_ge (sqrt2f * (h + ps))) as B1.
  unfold ceilQ in *.
  assert (A0 : (0 <= Qceiling (sqrt2f * (w + pc)))%Z) by (apply ceil_nonneg_of_gt_m1; unfold sqrt2f; lra).
  assert (B0 : (0 <= Qceiling (sqrt2f * (h + ps)))%Z) by (apply ceil_nonneg_of_gt_m1; unfold sqrt2f; lra).
  destruct (limit_ar_grows_integral _ _ A0 B0) as [GW GH].
  rewrite Zle_Qle in A0, B0. change (inject_Z 0) with 0 in A0, B0.
  set (W := fst (limit_ar _ _ ovalAR)) in *. set (H := snd (limit_ar _ _ ovalAR)) in *.
  intros HR. unfold H_radius_b in HR. rewrite !andb_true_iff, !Qle_bool_iff in HR.
  destruct HR as [[[R1 R2] R3] R4].
  unfold inner_oval, Contains, Inside, bx, by_, bw, bh; cbn [fst snd].
  ceil_facts. unfold rho, sqrt2f in *. inv_consts. repeat split; lra.
Qed.

Theorem cloud_fixed_contains :
  forall w h px py, 0 <= w -> 0 <= h -> 0 <= px -> 0 <= py ->
    let WH := fit_cloud_fixed w h px py in
    Contains (w + px) (h + py) (inner Cloud (fst WH) (snd WH) w h).
Proof.
  intros w h px py Hw Hh Hpx Hpy. cbv zeta. unfold fit_cloud_fixed, inner; cbn [fst snd].
  destruct (cloud_branch w h); unfold cloud_iw, cloud_ih, cloud_ix, cloud_iy; crunch.
Qed.

(* ---- pieces reused by C21 (the oval is limited once more by SizeToContent) ---- *)

Lemma oval_inner_contains :
  forall W H pw ph cr sr,
    sqrt2f * pw <= W -> sqrt2f * ph <= H -> H_radius_b cr sr W H = true ->
    let b := inner_oval cr sr W H in
    Contains (pw * (1 - rho) - 2) (ph * (1 - rho) - 2) b /\ Inside W H b.
Proof.
  intros W H pw ph cr sr A B HR. cbv zeta.
  unfold H_radius_b in HR. rewrite !andb_true_iff, !Qle_bool_iff in HR.
  destruct HR as [[[R1 R2] R3] R4].
  unfold inner_oval, Contains, Inside, bx, by_, bw, bh; cbn [fst snd].
  ceil_facts. unfold rho, sqrt2f in *. inv_consts. repeat split; lra.
Qed.

Lemma limit_ar_integral (a b : Z) :
  exists a' b', limit_ar (inject_Z a) (inject_Z b) ovalAR = (inject_Z a', inject_Z b').
Proof.
  unfold limit_ar. cases.
  - destruct (roundQ_integral (inject_Z a / ovalAR)) as [z ->]. now exists a, z.
  - destruct (roundQ_integral (inject_Z b / ovalAR)) as [z ->]. now exists z, b.
  - now exists a, b.
Qed.

Lemma limit_ar_twice_grows (a b : Z) :
  (0 <= a)%Z -> (0 <= b)%Z ->
  let r1 := limit_ar (inject_Z a) (inject_Z b) ovalAR in
  let r2 := limit_ar (fst r1) (snd r1) ovalAR in
  inject_Z a <= fst r2 /\ inject_Z b <= snd r2.
Proof.
  intros Ha Hb. cbv zeta.
  destruct (limit_ar_grows_integral a b Ha Hb) as [G1 G2].
  destruct (limit_ar_integral a b) as (a' & b' & E). rewrite E in *. cbn [fst snd] in *.
  rewrite <- Zle_Qle in G1, G2.
  destruct (limit_ar_grows_integral a' b' ltac:(lia) ltac:(lia)) as [G3 G4].
  rewrite Zle_Qle in G1, G2. split; lra.
Qed.
