(* C27 — fitted shapes contain their content.
   Model of lib/shape: GetDimensionsToFit and GetInnerBox (GetInnerBoxForContent for the cloud) of every
   shape whose formula is rational, over exact rationals Q with ceil/floor/round.  The Go code computes in
   float64; the correspondence (Check.v) compares within a stated tolerance.
   The circle is modelled with math.Sqrt2 as the float64 constant it is.  The oval (atan2/sin/cos/sqrt/pow)
   is NOT modelled; it is monitored by the harness only.

   All boxes are at the origin (TopLeft = (0,0)); GetInnerBox only translates by Box.TopLeft.            *)
From Coq Require Import ZArith QArith Qround Bool.
Open Scope Q_scope.

Definition ceilQ (x : Q) : Q := inject_Z (Qceiling x).                 (* math.Ceil  *)
Definition roundQ (x : Q) : Q :=                                       (* math.Round: half away from zero *)
  if Qlt_le_dec x 0 then - inject_Z (Qfloor (- x + (1#2))) else inject_Z (Qfloor (x + (1#2))).
Definition qmax (a b : Q) : Q := if Qlt_le_dec a b then b else a.      (* math.Max on finite values *)
Definition qmin (a b : Q) : Q := if Qlt_le_dec a b then a else b.      (* math.Min on finite values *)

(* shape.LimitAR *)
Definition limit_ar (w h ar : Q) : Q * Q :=
  if Qlt_le_dec (ar * h) w then (w, roundQ (w / ar))
  else if Qlt_le_dec (ar * w) h then (roundQ (h / ar), h)
  else (w, h).

(* Plain = every shape that uses baseShape.GetDimensionsToFit and baseShape.GetInnerBox:
   Square (rectangle), Table, Class, Code, Text, Image, and unknown type strings. *)
Inductive shape :=
  Plain | RealSquare | Diamond | Hexagon | Parallelogram | Step | Callout | Document | Cylinder | Queue
| Package | Page | StoredData | Person | C4Person | Cloud | Circle.

(* constants, lib/shape/shape_*.go *)
Definition parallelWedgeWidth : Q := 26.
Definition stepWedgeWidth : Q := 35.
Definition tipHeight : Q := 45.
Definition docPathHeight : Q := 18925 # 1000.
Definition docPathInnerBottom : Q := 14.
Definition arcDepth : Q := 24.
Definition pkgTopMaxHeight : Q := 55.
Definition pkgVScalar : Q := 2 # 10.
Definition pageCornerWidth : Q := 208164 # 10000.
Definition pageCornerHeight : Q := 20348 # 1000.
Definition storedDataWedgeWidth : Q := 15.
Definition personShoulderFactor : Q := 202 # 683.          (* 20.2 / 68.3 *)
Definition personAR : Q := 3 # 2.
Definition c4AR : Q := 3 # 2.
Definition headRadiusFactor : Q := 22 # 100.
Definition bodyTopFactor : Q := 8 # 10.

(* math.Sqrt2 as the float64 constant the code multiplies with (exactly this dyadic rational; its square is
   2.0000000000000004 > 2) *)
Definition sqrt2f : Q := 6369051672525773 # 4503599627370496.

Definition cloudWideX : Q := 85 # 1000.    Definition cloudWideY : Q := 409 # 1000.
Definition cloudWideW : Q := 819 # 1000.   Definition cloudWideH : Q := 548 # 1000.
Definition cloudTallX : Q := 228 # 1000.   Definition cloudTallY : Q := 179 # 1000.
Definition cloudTallW : Q := 549 # 1000.   Definition cloudTallH : Q := 820 # 1000.
Definition cloudSqX : Q := 167 # 1000.     Definition cloudSqY : Q := 335 # 1000.
Definition cloudSqW : Q := 663 # 1000.     Definition cloudSqH : Q := 663 # 1000.
Definition cloudWideBoundary : Q := 1367 # 1096.           (* (1 + 0.819/0.548) / 2, see Proofs.cloud_boundaries *)
Definition cloudTallBoundary : Q := 1369 # 1640.           (* (1 + 0.549/0.820) / 2 *)

(* which of the three cloud inner boxes is used for content of aspect ratio w/h.
   Go: aspectRatio := width/height; `> WIDE` / `< TALL` / else.  For h > 0 this is the cross-multiplied
   test; for h = 0, w > 0 the quotient is +Inf (wide), for 0/0 it is NaN (both tests false: square) —
   the cross-multiplied test gives the same answers. *)
Inductive cloud_kind := CWide | CTall | CSquare.
Definition cloud_branch (w h : Q) : cloud_kind :=
  if Qlt_le_dec (cloudWideBoundary * h) w then CWide
  else if Qlt_le_dec w (cloudTallBoundary * h) then CTall
  else CSquare.
Definition cloud_iw k := match k with CWide => cloudWideW | CTall => cloudTallW | CSquare => cloudSqW end.
Definition cloud_ih k := match k with CWide => cloudWideH | CTall => cloudTallH | CSquare => cloudSqH end.
Definition cloud_ix k := match k with CWide => cloudWideX | CTall => cloudTallX | CSquare => cloudSqX end.
Definition cloud_iy k := match k with CWide => cloudWideY | CTall => cloudTallY | CSquare => cloudSqY end.

(* GetDimensionsToFit(width, height, paddingX, paddingY) *)
Definition fit (s : shape) (w h px py : Q) : Q * Q :=
  let cw := w + px in
  let ch := h + py in
  match s with
  | Plain => (ceilQ cw, ceilQ ch)
  | RealSquare => let l := ceilQ (qmax cw ch) in (l, l)
  | Diamond => (ceilQ (2 * cw), ceilQ (2 * ch))
  | Hexagon => (ceilQ ((3#2) * cw), ceilQ ((3#2) * ch))
  | Parallelogram => (ceilQ (cw + parallelWedgeWidth * 2), ceilQ ch)
  | Step => (ceilQ (cw + 2 * stepWedgeWidth), ceilQ ch)
  | Callout => (ceilQ cw, ceilQ (if Qlt_le_dec ch tipHeight then ch * 2 else ch + tipHeight))
  | Document => (ceilQ cw, ceilQ (ch * docPathHeight / docPathInnerBottom))
  | Cylinder => (ceilQ cw, ceilQ (ch + 3 * arcDepth))
  | Queue => (ceilQ (3 * arcDepth + cw), ceilQ ch)
  | Package =>
      let top := ch * pkgVScalar / (1 - pkgVScalar) in
      (ceilQ cw, ceilQ (ch + qmin top pkgTopMaxHeight))
  | Page =>
      let tw := if Qlt_le_dec ch (3 * pageCornerHeight) then cw + pageCornerWidth else cw in
      (ceilQ (qmax tw (2 * pageCornerWidth)), ceilQ (qmax ch pageCornerHeight))
  | StoredData => (ceilQ (cw + 2 * storedDataWedgeWidth), ceilQ ch)
  | Person =>
      let shoulder := cw * personShoulderFactor / (1 - 2 * personShoulderFactor) in
      let tw := cw + 2 * shoulder in
      let '(tw', th') := limit_ar tw ch personAR in
      (ceilQ tw', ceilQ th')
  | C4Person =>
      let tw := cw / (9 # 10) in
      let head := tw * headRadiusFactor in
      let bodyTop := head + head * bodyTopFactor in
      let vpad := tw * (6 # 100) in
      let th := ch + bodyTop + vpad in
      let minH := tw * (95 # 100) in
      let th := if Qlt_le_dec th minH then minH else th in
      let '(tw', th') := limit_ar tw th c4AR in
      (ceilQ tw', ceilQ th')
  | Cloud =>
      let k := cloud_branch cw ch in
      (ceilQ (cw / cloud_iw k), ceilQ (ch / cloud_ih k))
  | Circle => let d := ceilQ (sqrt2f * qmax cw ch) in (d, d)
  end.

(* inner box (x, y, width, height) of the shape whose box is (0,0,W,H).
   [aw ah]: only for the cloud — the content dimensions whose aspect ratio selects the inner box
   (GetInnerBoxForContent(aw, ah); d2graph passes the content WITHOUT padding, see SizeToContent). *)
Definition box := (Q * Q * Q * Q)%type.
Definition inner (s : shape) (W H aw ah : Q) : box :=
  match s with
  | Plain | RealSquare => (0, 0, W, H)
  | Diamond => (W / 4, H / 4, W / 2, H / 2)
  | Hexagon => (W / 6, H / 6, W / (3#2), H / (3#2))
  | Parallelogram => (parallelWedgeWidth, 0, W - 2 * parallelWedgeWidth, H)
  | Step => (stepWedgeWidth, 0, W - 2 * stepWedgeWidth, H)
  | Callout =>
      let tip := if Qlt_le_dec H (tipHeight * 2) then H / 2 else tipHeight in
      (0, 0, W, H - tip)
  | Document => (0, 0, W, H * docPathInnerBottom / docPathHeight)
  | Cylinder =>
      let arc := if Qlt_le_dec H (arcDepth * 2) then H / 2 else arcDepth in
      (0, 2 * arc, W, H - 3 * arc)
  | Queue =>
      let arc := if Qlt_le_dec W (arcDepth * 2) then W / 2 else arcDepth in
      (arc, 0, W - 3 * arc, H)
  | Package =>
      let top := qmin pkgTopMaxHeight (H * pkgVScalar) in
      (0, top, W, H - top)
  | Page =>
      let w := if Qlt_le_dec H (3 * pageCornerHeight) then W - pageCornerWidth else W in
      (0, 0, w, H)
  | StoredData => (storedDataWedgeWidth, 0, W - 2 * storedDataWedgeWidth, H)
  | Person =>
      let shoulder := personShoulderFactor * W in
      (shoulder, 0, W - shoulder * 2, H)
  | C4Person =>
      let head := W * headRadiusFactor in
      let bodyTop := head + head * bodyTopFactor in
      let hp := W * (5 # 100) in
      let vp := H * (3 # 100) in
      (hp, bodyTop + vp, W - hp * 2, H - bodyTop - vp * 2)
  | Cloud =>
      let k := cloud_branch aw ah in
      (ceilQ (W * cloud_ix k), ceilQ (H * cloud_iy k), W * cloud_iw k, H * cloud_ih k)
  | Circle =>
      (* GetInsidePlacement(width, height, 0, 0): both coordinates from r = Box.Width / 2 *)
      let r := W / 2 in
      let half := r * sqrt2f / 2 in
      let t := ceilQ (r - half + 0 / 2) in
      (t, t, W - 2 * (t - 0), H - 2 * (t - 0))
  end.

Definition bx (b : box) : Q := fst (fst (fst b)).
Definition by_ (b : box) : Q := snd (fst (fst b)).
Definition bw (b : box) : Q := snd (fst b).
Definition bh (b : box) : Q := snd b.

(* The property predicates (boolean: executed by Check.v on the implementation's numbers; Prop: theorems).
   [tol] is the absolute tolerance; theorems are proved for tol = 0. *)
Definition contains_b (tol cw ch : Q) (b : box) : bool :=
  Qle_bool (cw - tol) (bw b) && Qle_bool (ch - tol) (bh b).
Definition inside_b (tol W H : Q) (b : box) : bool :=
  Qle_bool (0 - tol) (bx b) && Qle_bool (0 - tol) (by_ b)
  && Qle_bool (bx b + bw b) (W + tol) && Qle_bool (by_ b + bh b) (H + tol).

Definition Contains (cw ch : Q) (b : box) : Prop := cw <= bw b /\ ch <= bh b.
Definition Inside (W H : Q) (b : box) : Prop :=
  0 <= bx b /\ 0 <= by_ b /\ bx b + bw b <= W /\ by_ b + bh b <= H.

(* shapes for which the fit guarantee is proved without any side condition *)
Definition exact_shape (s : shape) : bool :=
  match s with Person | C4Person | Cloud | Circle => false | _ => true end.

(* TraceToShapeBorder for rectangular shapes (IsRectangular() or empty type): the identity on the
   point handed in (which the layout engines put on the rectangle's border). *)
Definition trace_rect (p : Q * Q) : Q * Q := p.
Definition on_rect_border_b (tol x y w h : Q) (p : Q * Q) : bool :=
  let '(px, py) := p in
  let near a b := Qle_bool (a - b) tol && Qle_bool (b - a) tol in
  let within a lo hi := Qle_bool (lo - tol) a && Qle_bool a (hi + tol) in
  ((near px x || near px (x + w)) && within py y (y + h))
  || ((near py y || near py (y + h)) && within px x (x + w)).

(* ---- where the padded-content guarantee is claimed (decidable side condition on the INPUT) ----
   exact shapes: everywhere.
   Person:   LimitAR does not fire (its math.Round can shrink the fitted width/height).
   C4Person: content wide enough relative to its height (the fit formula adds 6% of the WIDTH as
             vertical padding, the inner box removes 6% of the HEIGHT, and LimitAR widens the shape
             after the body-top offset was computed).
   Cloud:    padded and unpadded content select the same inner box. *)
Definition person_tw (cw : Q) : Q := cw + 2 * (cw * personShoulderFactor / (1 - 2 * personShoulderFactor)).
Definition guard (s : shape) (w h px py : Q) : bool :=
  let cw := w + px in
  let ch := h + py in
  match s with
  | Person => Qle_bool (person_tw cw) (personAR * ch) && Qle_bool ch (personAR * person_tw cw)
  | C4Person => Qle_bool ((6#100) * ch + (396#1000)) ((3264#100000) * (cw / (9#10)))
  | Cloud =>
      match cloud_branch w h, cloud_branch cw ch with
      | CWide, CWide | CTall, CTall | CSquare, CSquare => true
      | _, _ => false
      end
  | _ => true
  end.

(* what the two math.Ceil calls on the circle's inner top-left can take back from the inner box *)
Definition loss (s : shape) : Q := match s with Circle => 2 | _ => 0 end.

(* the inner box may overshoot the box by less than this much (cloud: math.Ceil on the inner top-left) *)
Definition inside_slack (s : shape) : Q := match s with Cloud => 1 | _ => 0 end.

(* ---- oval: modelled up to its four trigonometric values (oracles) ----
   GetDimensionsToFit:  theta = float32(atan2(h, w));  c = cos theta, s = sin theta.
   GetInnerBox (GetInsidePlacement with zero padding) of the box (W,H): rx = W/2, ry = H/2,
   theta' = float32(atan2(ry, rx)), r = rx*ry / sqrt((rx sin theta')^2 + (ry cos theta')^2);
   cr = cos theta' * r,  sr = sin theta' * r.
   The harness recomputes c, s, cr, sr with the same Go expressions and hands them to Check.v, which
   evaluates the hypotheses below on them (codes 3 and 4). *)
Definition ovalAR : Q := 3.
Definition fit_oval (c s w h px py : Q) : Q * Q :=
  let pw := w + px * c in
  let ph := h + py * s in
  limit_ar (ceilQ (sqrt2f * pw)) (ceilQ (sqrt2f * ph)) ovalAR.
Definition inner_oval (cr sr W H : Q) : box :=
  let tx := ceilQ (W / 2 - cr) in
  let ty := ceilQ (H / 2 - sr) in
  (tx, ty, W - 2 * (tx - 0), H - 2 * (ty - 0)).

Definition rho : Q := 1 # 100000.   (* relative accuracy demanded of the trigonometric oracle *)
(* float32(atan2(h, 0)) is slightly ABOVE pi/2, so the real cos can be about -4e-8: what the theorem needs is
   only that the padded content stays above -1/2 *)
Definition H_pad_b (c s w h px py : Q) : bool :=
  Qle_bool (- (1#2)) (w + px * c) && Qle_bool (- (1#2)) (h + py * s).
(* exact trigonometry gives cr = rx / sqrt 2 and sr = ry / sqrt 2 *)
Definition H_radius_b (cr sr W H : Q) : bool :=
  Qle_bool (W / 2 * (1 - rho)) (sqrt2f * cr) && Qle_bool cr (W / 2)
  && Qle_bool (H / 2 * (1 - rho)) (sqrt2f * sr) && Qle_bool sr (H / 2).

(* the repaired cloud fit of coq/C27/fix.patch: the inner box is selected by the UNPADDED content's aspect
   ratio, as d2graph.SizeToContent / GetInnerBox do afterwards *)
Definition fit_cloud_fixed (w h px py : Q) : Q * Q :=
  let k := cloud_branch w h in
  (ceilQ ((w + px) / cloud_iw k), ceilQ ((h + py) / cloud_ih k)).
