(* Executable checker for C27 cases.  The harness calls the real lib/shape package and passes every
   float64 as an exact dyadic rational (mantissa, exponent).
   codes: 1  model <> implementation (fit dims or inner box beyond tolerance; rectangular trace not identity)
          3  oracle hypothesis (oval): content + padding*cos / padding*sin (content angle) is >= -1/2
          4  oracle hypothesis (oval): cos*r, sin*r of the fitted ellipse are rx/sqrt2, ry/sqrt2 within 1e-5 relative
          2  oracle hypothesis: a traced end on a non-rectangular shape is within 1px of its outline
         10  inner box of the fitted size is smaller than the content (w,h)
         11  ... smaller than content + padding - loss although the side condition [guard] of the theorem holds
         12  inner box not inside the shape's box (cloud: 1px slack)
         13  traced end on a rectangular shape is not on the rectangle's border                      *)
From Coq Require Import ZArith QArith Qround Qabs List Bool.
Import ListNotations.
Require Import V.Lib.RunCases.
Require Export V.C27.Model.
Open Scope Q_scope.

Definition F := (Z * Z)%type.
Definition qf (f : F) : Q :=
  let '(m, e) := f in
  if (0 <=? e)%Z then inject_Z (m * 2 ^ e) else Qmake m (Z.to_pos (2 ^ (- e))).   (* harness: m odd, so reduced *)

Definition eps : Q := 1 # 1000000000.          (* relative tolerance model vs float64 *)
Definition delta : Q := 1 # 1000000000000.     (* input perturbation used at rounding knife-edges *)
Definition close (a b : Q) : bool := Qle_bool (Qabs (a - b)) (eps * (1 + Qabs b)).

(* The float64 code can land on the other side of a math.Ceil / math.Round / branch knife-edge than the
   exact model; the model is therefore also evaluated at inputs scaled by (1 +- delta). *)
Definition variants : list (Q * Q) :=
  [(1, 1); (1 + delta, 1 + delta); (1 - delta, 1 - delta); (1 + delta, 1 - delta); (1 - delta, 1 + delta)].

(* lazy exists (orb is strict under vm_compute): later variants are evaluated only when needed *)
Fixpoint lexists {A} (f : A -> bool) (l : list A) : bool :=
  match l with [] => false | a :: l => if f a then true else lexists f l end.

Definition box_close (m i : box) : bool :=
  close (bx m) (bx i) && close (by_ m) (by_ i) && close (bw m) (bw i) && close (bh m) (bh i).

(* every float64 is two consecutive Z arguments: mantissa, exponent (flat: big literals of pairs parse slowly) *)
Inductive case :=
| Fit (s : option shape) (w we h he px pxe py pye W We H He ix ixe iy iye iw iwe ih ihe : Z)
| FitOval (c ce s se cr cre sr sre w we h he px pxe py pye W We H He ix ixe iy iye iw iwe ih ihe : Z)
| Trace (rect : bool) (x xe y ye w we h he px pxe py pye rx rxe ry rye : Z) (on_outline : bool).

Definition check_fit (s : option shape) (w h px py W H : Q) (ib : box) : list N :=
  let tol := eps * (1 + W + H + w + h + px + py) in
  let corr :=
    match s with
    | None => true
    | Some s =>
        lexists (fun d => let '(dw, dh) := d in
                          let '(mW, mH) := fit s (Qred (w * dw)) (Qred (h * dh)) (Qred (px * dw)) (Qred (py * dh)) in
                          close mW W && close mH H) variants
        && lexists (fun d => let '(dw, dh) := d in
                             box_close (inner s (Qred (W * dw)) (Qred (H * dh)) (Qred (w * dw)) (Qred (h * dh))) ib) variants
    end in
  let weak := contains_b tol w h ib in
  let strong :=
    match s with
    | Some s => if guard s w h px py then contains_b tol (w + px - loss s) (h + py - loss s) ib else true
    | None => true
    end in
  let slack := match s with Some s => inside_slack s | None => 0 end in
  let ins := inside_b (slack + tol) W H ib in
  flag corr 1 ++ flag weak 10 ++ flag strong 11 ++ flag ins 12.

Definition check_oval (c s cr sr w h px py W H : Q) (ib : box) : list N :=
  let tol := eps * (1 + W + H + w + h + px + py) in
  let corr :=
    lexists (fun d => let '(dw, dh) := d in
                      let '(mW, mH) := fit_oval c s (Qred (w * dw)) (Qred (h * dh)) (Qred (px * dw)) (Qred (py * dh)) in
                      close mW W && close mH H) variants
    && lexists (fun d => let '(dw, dh) := d in
                         box_close (inner_oval (Qred (cr * dw)) (Qred (sr * dh)) W H) ib) variants in
  flag corr 1 ++ flag (H_pad_b c s w h px py) 3 ++ flag (H_radius_b cr sr W H) 4
  ++ flag (contains_b tol w h ib) 10
  ++ flag (contains_b tol ((w + px * c) * (1 - rho) - 2) ((h + py * s) * (1 - rho) - 2) ib) 11
  ++ flag (inside_b tol W H ib) 12.

Definition check_case (c : case) : list N :=
  match c with
  | FitOval c ce s se cr cre sr sre w we h he px pxe py pye W We H He ix ixe iy iye iw iwe ih ihe =>
      check_oval (qf (c, ce)) (qf (s, se)) (qf (cr, cre)) (qf (sr, sre)) (qf (w, we)) (qf (h, he)) (qf (px, pxe))
                 (qf (py, pye)) (qf (W, We)) (qf (H, He)) (qf (ix, ixe), qf (iy, iye), qf (iw, iwe), qf (ih, ihe))
  | Fit s w we h he px pxe py pye W We H He ix ixe iy iye iw iwe ih ihe =>
      check_fit s (qf (w, we)) (qf (h, he)) (qf (px, pxe)) (qf (py, pye)) (qf (W, We)) (qf (H, He))
                (qf (ix, ixe), qf (iy, iye), qf (iw, iwe), qf (ih, ihe))
  | Trace rect x xe y ye w we h he px pxe py pye rx rxe ry rye on =>
      let x := (x, xe) in let y := (y, ye) in let w := (w, we) in let h := (h, he) in
      if rect then
        let r := (qf (rx, rxe), qf (ry, rye)) in
        let m := trace_rect (qf (px, pxe), qf (py, pye)) in
        flag (Qeq_bool (fst m) (fst r) && Qeq_bool (snd m) (snd r)) 1
        ++ flag (on_rect_border_b (1 # 1000000) (qf x) (qf y) (qf w) (qf h) r) 13
      else flag on 2
  end.
