(* C15 — layers may use the classes of their base: overlayClasses after d2 2ba3646d1, and the pinned
   variant (which returned at once when a board had no classes of its own) as a historical lemma. *)
From Coq Require Import List NArith Bool Arith Lia.
Import ListNotations.
Require Import V.C15.Boards V.C15.Variants V.C15.Proofs V.C15.Theorems.

Definition names (fs : list fld) : list str := map f_name fs.

(* ---------------------------------------------------------------- OverlayMap keeps every class of the base *)

Lemma names_repl n f' fs : f_name f' = n -> names (repl_fs n f' fs) = names fs.
Proof.
  intro H. induction fs as [|f tl IH]; simpl; auto.
  destruct (str_eqb (f_name f) n) eqn:E; simpl.
  - apply str_eqb_eq in E. congruence.
  - rewrite IH. reflexivity.
Qed.

Lemma overlay_map_keeps_names base over n :
  In n (names (m_fs base)) -> In n (names (m_fs (overlay_map base over))).
Proof.
  destruct over as [ofs oes]. cbn [overlay_map m_fs].
  generalize (m_fs base). clear base.
  match goal with
  | |- forall l, _ -> In n (names (?F ofs l)) =>
      assert (E : forall o b, In n (names b) -> In n (names (F o b)))
  end.
  { induction o as [|[fn p c] tl IH]; intros b Hb; auto.
    apply IH. destruct (find_f fn b) as [bf|] eqn:Ef.
    - rewrite names_repl; auto. apply find_some_name in Ef. exact Ef.
    - unfold names. rewrite map_app. apply in_or_app. left. exact Hb. }
  intros l Hl. apply E; auto.
Qed.

(* ---------------------------------------------------------------- what a layer receives *)

(* the recursion into the layers field does not touch any other field *)
Lemma oc_in_fields inh fs es :
  exists fs1, oc_in inh (IMap fs es) = IMap (put_classes inh fs1) es
              /\ find_f s_classes fs1 = find_f s_classes fs.
Proof.
  cbn [oc_in]. cbv zeta.
  match goal with
  | |- exists fs1, IMap (put_classes inh (?F fs false)) es = _ /\ _ =>
      exists (F fs false); split; [reflexivity|];
      assert (E : forall l seen, find_f s_classes (F l seen) = find_f s_classes l)
  end.
  { induction l as [|[n p [[lfs les]|]] tl IH]; intro seen; auto.
    - destruct (str_eqb n s_layers && negb seen) eqn:C.
      + cbn [find_f f_name]. apply andb_prop in C as [C _]. apply str_eqb_eq in C. subst n.
        cbn. apply IH.
      + cbn [find_f f_name]. destruct (str_eqb n s_classes); auto.
    - cbn [find_f f_name]. destruct (str_eqb n s_classes); auto. }
  apply E.
Qed.

(* A layer below a board that ends with the classes map cm (the board's own classes, or the ones it received
   itself) ends with a classes field that has every class of cm — whether or not the boards further up
   declare classes.  (own classes that are not a map are left alone by the compiler: excluded) *)
Theorem layer_receives_classes :
  forall cm fs es,
    (match find_f s_classes fs with Some f => f_comp f <> None | None => True end) ->
    exists pre merged,
      m_fs (oc_in (Some cm) (IMap fs es)) = pre ++ [Fld s_classes None (Some merged)]
      /\ forall n, In n (names (m_fs cm)) -> In n (names (m_fs merged)).
Proof.
  intros cm fs es H. destruct (oc_in_fields (Some cm) fs es) as [fs1 [E F]].
  rewrite E. cbn [m_fs]. unfold put_classes. rewrite F.
  destruct (find_f s_classes fs) as [f|].
  - destruct (f_comp f) as [own|]; [|congruence].
    exists (del_fs s_classes fs1), (overlay_map cm own). split; auto.
    intros n Hn. apply overlay_map_keeps_names; auto.
  - exists fs1, cm. split; auto.
Qed.

(* ---------------------------------------------------------------- the pinned variant (before 2ba3646d1) *)

Fixpoint oc_in_pinned (inh : option imap) (m : imap) {struct m} : imap :=
  match m with
  | IMap fs es =>
      let mine := merged_classes inh fs in
      let fs1 :=
        match mine with
        | None => fs
        | Some _ =>
            (fix go (fs : list fld) (seen : bool) : list fld :=
               match fs with
               | [] => []
               | Fld n p (Some (IMap lfs les)) :: tl =>
                   if str_eqb n s_layers && negb seen
                   then Fld n p (Some (IMap
                          ((fix go2 (lfs : list fld) : list fld :=
                              match lfs with
                              | [] => []
                              | Fld ln None (Some l) :: ltl => Fld ln None (Some (oc_in_pinned mine l)) :: go2 ltl
                              | lf :: ltl => lf :: go2 ltl
                              end) lfs) les)) :: go tl true
                   else Fld n p (Some (IMap lfs les)) :: go tl (seen || str_eqb n s_layers)
               | f :: tl => f :: go tl (seen || str_eqb (f_name f) s_layers)
               end) fs false
        end in
      IMap (put_classes inh fs1) es
  end.

Definition h_x : str := [120%N].
Definition h_l : str := [108%N].
Definition h_l2 : str := [108; 50]%N.
Definition h_c : str := [99%N].
Definition h_q : str := [113%N].
Definition h_r : str := [114%N].
Definition h_fill : str := [102;105;108;108]%N.

(* x;  layers: { l: { classes: {c: {style.fill: red}};  q.class: c;  layers: { l2: { r.class: c } } } } *)
Definition nested_layers_prog : list decl :=
  [DKey [h_x] None None;
   DBoards Layers
     [(h_l, [DKey [s_classes] None (Some [DKey [h_c] None (Some [DKey [s_style; h_fill] (Some 1%N) None])]);
             DKey [h_q; s_class] (Some 2%N) None;
             DBoards Layers [(h_l2, [DKey [h_r; s_class] (Some 3%N) None])]])]].

Definition inner_layer (m : imap) : option imap :=
  match child Layers h_l m with Some l => child Layers h_l2 l | None => None end.

Definition has_classes (o : option imap) : bool :=
  match o with
  | Some m => match find_f s_classes (m_fs m) with Some _ => true | None => false end
  | None => false
  end.

(* Historical (finding C15-nested-layer-classes, repaired by 2ba3646d1): with the early return the layer l2
   never received the classes of its parent layer l, because the root board has none; now it does. *)
Lemma nested_layer_classes_pinned_lost :
  has_classes (inner_layer (oc_in_pinned None (cb empty_map nested_layers_prog))) = false
  /\ has_classes (inner_layer (overlay_classes (cb empty_map nested_layers_prog))) = true.
Proof. split; vm_compute; reflexivity. Qed.
