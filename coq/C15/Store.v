(* C15 — the store: what in-place substitution does to aliased string nodes *)
From Coq Require Import List NArith Bool Arith Lia.
Import ListNotations.
Require Import V.C15.Boards V.C15.Variants V.C15.Proofs V.C15.Theorems V.C15.Check.

(* ---------------------------------------------------------------- induction on IR maps *)

Definition sub_ok (P : imap -> Prop) (o : option imap) : Prop := match o with Some m => P m | None => True end.

Section ImapInd.
  Variable P : imap -> Prop.
  Hypothesis H : forall fs es,
      Forall (fun f => sub_ok P (f_comp f)) fs -> Forall (fun e => sub_ok P (e_map e)) es -> P (IMap fs es).

  Fixpoint imap_ind' (m : imap) : P m :=
    match m with
    | IMap fs es =>
        H fs es
          ((fix gf (fs : list fld) : Forall (fun f => sub_ok P (f_comp f)) fs :=
              match fs with
              | [] => Forall_nil _
              | f :: tl =>
                  @Forall_cons fld (fun f => sub_ok P (f_comp f)) f tl
                    (match f return sub_ok P (f_comp f) with
                     | Fld _ _ c => match c return sub_ok P c with Some sub => imap_ind' sub | None => I end
                     end) (gf tl)
              end) fs)
          ((fix ge (es : list edg) : Forall (fun e => sub_ok P (e_map e)) es :=
              match es with
              | [] => Forall_nil _
              | e :: tl =>
                  @Forall_cons edg (fun e => sub_ok P (e_map e)) e tl
                    (match e return sub_ok P (e_map e) with
                     | Edg _ _ _ _ c => match c return sub_ok P c with Some sub => imap_ind' sub | None => I end
                     end) (ge tl)
              end) es)
    end.
End ImapInd.

(* ---------------------------------------------------------------- compileSubstitutions, unfolded *)

Fixpoint sub_fs (stack' : list imap) (fs : list fld) (st : store) : list fld * (store * bool) :=
  match fs with
  | [] => ([], (st, false))
  | Fld n p c :: tl =>
      let rp := resolve_opt stack' st p in
      let rc :=
        match c with
        | Some sub => let r := subst_map stack' sub (fst (snd rp)) in (Some (fst r), snd r)
        | None => (None, (fst (snd rp), false))
        end in
      let rt := sub_fs stack' tl (fst (snd rc)) in
      (Fld n (fst rp) (fst rc) :: fst rt,
       (fst (snd rt), snd (snd rp) || snd (snd rc) || snd (snd rt)))
  end.

Fixpoint sub_es (stack' : list imap) (es : list edg) (st : store) : list edg * (store * bool) :=
  match es with
  | [] => ([], (st, false))
  | Edg s d i p em :: tl =>
      let rp := resolve_opt stack' st p in
      let rc :=
        match em with
        | Some sub => let r := subst_map stack' sub (fst (snd rp)) in (Some (fst r), snd r)
        | None => (None, (fst (snd rp), false))
        end in
      let rt := sub_es stack' tl (fst (snd rc)) in
      (Edg s d i (fst rp) (fst rc) :: fst rt,
       (fst (snd rt), snd (snd rp) || snd (snd rc) || snd (snd rt)))
  end.

Lemma subst_map_unfold stack fs es st :
  subst_map stack (IMap fs es) st =
  let stack' := push_vars stack fs in
  let rf := sub_fs stack' fs st in
  let re := sub_es stack' es (fst (snd rf)) in
  (IMap (fst rf) (fst re), (fst (snd re), snd (snd rf) || snd (snd re))).
Proof.
  cbn [subst_map]. cbv zeta.
  match goal with
  | |- context [?F fs st] =>
      is_fix F;
      assert (Ef : forall l st0, F l st0 = sub_fs (push_vars stack fs) l st0)
        by (induction l as [|[n p c] tl IH]; intro st0;
            [reflexivity | cbn [sub_fs]; cbv zeta; rewrite <- !IH; reflexivity])
  end.
  rewrite !Ef.
  match goal with
  | |- context [?G es ?s0] =>
      is_fix G;
      assert (Ee : forall l st0, G l st0 = sub_es (push_vars stack fs) l st0)
        by (induction l as [|[s d i p c] tl IH]; intro st0;
            [reflexivity | cbn [sub_es]; cbv zeta; rewrite <- !IH; reflexivity])
  end.
  rewrite !Ee. reflexivity.
Qed.

(* ---------------------------------------------------------------- stores that are never written *)

(* a string node is simple when it is exactly one substitution or has none: those are resolved by
   re-pointing the IR scalar, never by rewriting the node *)
Definition simple_val (v : sval) : bool :=
  match v with
  | [PSub _] => true
  | _ => negb (existsb is_sub v)
  end.

Definition store_simple (st : store) : bool := forallb (fun e => simple_val (snd e)) st.

Lemma st_get_simple st i : store_simple st = true -> simple_val (st_get st i) = true.
Proof.
  induction st as [|[j v] tl IH]; simpl; auto.
  intro H. apply andb_prop in H as [H1 H2]. destruct (N.eqb i j); auto.
Qed.

Lemma resolve_prim_store stack st s :
  store_simple st = true -> fst (snd (resolve_prim stack st s)) = st.
Proof.
  intro H. unfold resolve_prim. pose proof (st_get_simple st s H) as S.
  destruct (st_get st s) as [|[l|v] tl]; auto.
  - cbn [simple_val] in S. rewrite negb_true_iff in S. rewrite S. reflexivity.
  - destruct tl as [|q tl].
    + destruct (resolve_var stack v); reflexivity.
    + cbn in S. discriminate.
Qed.

Lemma resolve_opt_store stack st o :
  store_simple st = true -> fst (snd (resolve_opt stack st o)) = st.
Proof. destruct o; simpl; auto. apply resolve_prim_store. Qed.

Theorem subst_map_store : forall m stack st,
  store_simple st = true -> fst (snd (subst_map stack m st)) = st.
Proof.
  induction m as [fs es Hf He] using imap_ind'. intros stack st S.
  rewrite subst_map_unfold. cbv zeta. cbn [fst snd].
  set (stack' := push_vars stack fs).
  assert (Ff : forall l, Forall (fun f => sub_ok (fun m => forall stack st, store_simple st = true ->
                                     fst (snd (subst_map stack m st)) = st) (f_comp f)) l ->
                         fst (snd (sub_fs stack' l st)) = st).
  { induction 1 as [|[n p c] tl Hc _ IH]; [reflexivity|].
    cbn [sub_fs]. cbv zeta. cbn [fst snd].
    assert (E : fst (snd match c with
                         | Some sub => (Some (fst (subst_map stack' sub (fst (snd (resolve_opt stack' st p))))),
                                        snd (subst_map stack' sub (fst (snd (resolve_opt stack' st p)))))
                         | None => (None, (fst (snd (resolve_opt stack' st p)), false))
                         end) = st).
    { rewrite resolve_opt_store by auto. destruct c as [sub|]; cbn [fst snd]; auto;
        try (simpl in Hc; apply Hc; auto). }
    rewrite E. exact IH. }
  rewrite (Ff fs Hf).
  assert (Fe : forall l, Forall (fun e => sub_ok (fun m => forall stack st, store_simple st = true ->
                                     fst (snd (subst_map stack m st)) = st) (e_map e)) l ->
                         fst (snd (sub_es stack' l st)) = st).
  { induction 1 as [|[s d i p c] tl Hc _ IH]; [reflexivity|].
    cbn [sub_es]. cbv zeta. cbn [fst snd].
    assert (E : fst (snd match c with
                         | Some sub => (Some (fst (subst_map stack' sub (fst (snd (resolve_opt stack' st p))))),
                                        snd (subst_map stack' sub (fst (snd (resolve_opt stack' st p)))))
                         | None => (None, (fst (snd (resolve_opt stack' st p)), false))
                         end) = st).
    { rewrite resolve_opt_store by auto. destruct c as [sub|]; cbn [fst snd]; auto;
        try (simpl in Hc; apply Hc; auto). }
    rewrite E. exact IH. }
  apply Fe; auto.
Qed.

(* No program whose strings are plain text or a single ${v} ever writes an AST string node: whatever a board
   reads from the store is what the source says, whichever other boards exist. *)
Theorem store_never_written : forall prog st,
  store_simple st = true -> r_store (run prog st) = st.
Proof. intros prog st S. unfold run. simpl. apply subst_map_store; auto. Qed.

(* ---------------------------------------------------------------- refutations: strings mixing text and ${v} *)

Definition c_v : str := [118%N].
Definition c_w : str := [119%N].
Definition c_x : str := [120%N].
Definition c_g : str := [103%N].
Definition c_e : str := [101%N].
Definition c_s1 : str := [115; 49]%N.
Definition c_s2 : str := [115; 50]%N.
Definition c_pre : str := [112; 114; 101; 32]%N.
Definition c_alpha : str := [97; 108; 112; 104; 97]%N.
Definition c_beta : str := [98; 101; 116; 97]%N.
Definition c_gamma : str := [103; 97; 109; 109; 97]%N.

(* vars: {w: gamma};  g -> e: pre ${w};  scenarios: { s1: { vars: {w: beta} } } *)
Definition leak_back_prog : list decl :=
  [DKey [s_vars] None (Some [DKey [c_w] (Some 1%N) None]);
   DEdge [c_g] [c_e] (Some 2%N) None;
   DBoards Scenarios [(c_s1, [DKey [s_vars] None (Some [DKey [c_w] (Some 3%N) None])])]].
Definition leak_back_store : store :=
  [(1%N, [PLit c_gamma]); (2%N, [PLit c_pre; PSub c_w]); (3%N, [PLit c_beta])].

(* "Changes made inside any board never alter its base board" is FALSE for the faithful model: the
   scenario's own value of w ends up in the label of the base board's connection (the scenarios field is
   visited before the connections of the root map, and both copies of the connection point at the same
   string node). *)
Theorem no_leak_back_refuted :
  exists prog st b1 b2,
    wf_top prog = true
    /\ compile prog st = Some b1 /\ compile (strip prog) st = Some b2
    /\ content_eqb b1 b2 = false.
Proof.
  exists leak_back_prog, leak_back_store.
  eexists. eexists. split; [reflexivity|]. split; [vm_compute; reflexivity|].
  split; [vm_compute; reflexivity|]. vm_compute. reflexivity.
Qed.

(* vars: {v: alpha};  x: pre ${v};  scenarios: { s1: { vars: {v: beta} }; s2: { vars: {v: gamma} } };  x: null *)
Definition sibling_prog : list decl :=
  [DKey [s_vars] None (Some [DKey [c_v] (Some 1%N) None]);
   DKey [c_x] (Some 2%N) None;
   DBoards Scenarios [(c_s1, [DKey [s_vars] None (Some [DKey [c_v] (Some 3%N) None])]);
                      (c_s2, [DKey [s_vars] None (Some [DKey [c_v] (Some 4%N) None])])];
   DNull [c_x]].
Definition sibling_store : store :=
  [(1%N, [PLit c_alpha]); (2%N, [PLit c_pre; PSub c_v]); (3%N, [PLit c_beta]); (4%N, [PLit c_gamma])].

(* "... or sibling boards" is FALSE as well: scenario s2 shows `pre beta` (s1's value) when s1 exists and
   `pre gamma` when s1 is removed. *)
Theorem no_sibling_leak_refuted :
  exists prog st q k b target b1 b2,
    compile prog st = Some b1 /\ compile (remove_board q k b prog) st = Some b2
    /\ (exists t1 t2, board_at target b1 = Some t1 /\ board_at target b2 = Some t2 /\ tree_eqb t1 t2 = false).
Proof.
  exists sibling_prog, sibling_store, [], Scenarios, c_s1, [(Scenarios, c_s2)].
  eexists. eexists. split; [vm_compute; reflexivity|]. split; [vm_compute; reflexivity|].
  eexists. eexists. split; [vm_compute; reflexivity|]. split; [vm_compute; reflexivity|].
  vm_compute. reflexivity.
Qed.

(* the two witnesses are outside the guard of store_never_written *)
Example witnesses_not_simple :
  store_simple leak_back_store = false /\ store_simple sibling_store = false.
Proof. split; reflexivity. Qed.

(* ---------------------------------------------------------------- no leak back, end to end (guarded) *)

(* with a store that is never written, compileSubstitutions rewrites every field on its own *)
Definition sub_f (stack' : list imap) (st : store) (f : fld) : fld :=
  match f with
  | Fld n p c =>
      Fld n (fst (resolve_opt stack' st p))
          (match c with Some sub => Some (fst (subst_map stack' sub st)) | None => None end)
  end.

Lemma sub_fs_map stack' st : store_simple st = true ->
  forall fs, fst (sub_fs stack' fs st) = map (sub_f stack' st) fs /\ fst (snd (sub_fs stack' fs st)) = st.
Proof.
  intro S. induction fs as [|[n p c] tl [IH1 IH2]]; [split; reflexivity|].
  cbn [sub_fs]. cbv zeta. cbn [fst snd].
  assert (E : fst (snd match c with
                       | Some sub => (Some (fst (subst_map stack' sub (fst (snd (resolve_opt stack' st p))))),
                                      snd (subst_map stack' sub (fst (snd (resolve_opt stack' st p)))))
                       | None => (None, (fst (snd (resolve_opt stack' st p)), false))
                       end) = st).
  { rewrite resolve_opt_store by auto. destruct c as [sub|]; cbn [fst snd]; auto.
    apply subst_map_store; auto. }
  rewrite E. split; [|exact IH2].
  rewrite IH1. cbn [map sub_f]. f_equal. f_equal.
  rewrite resolve_opt_store by auto. destruct c; reflexivity.
Qed.

Lemma filter_map_names (kp : str -> bool) (h : fld -> fld) fs :
  (forall f, f_name (h f) = f_name f) ->
  filter (K kp) (map h fs) = map h (filter (K kp) fs).
Proof.
  intro Hn. induction fs as [|f tl IH]; auto.
  cbn [map filter].
  replace (K kp (h f)) with (K kp f) by (unfold K; rewrite Hn; reflexivity).
  destruct (K kp f); cbn [map]; rewrite IH; reflexivity.
Qed.

Lemma sub_f_name stack' st f : f_name (sub_f stack' st f) = f_name f.
Proof. destruct f; reflexivity. Qed.

Lemma push_vars_copy_base stack fs : push_vars stack (filter (K nb) fs) = push_vars stack fs.
Proof. unfold push_vars. rewrite keep_find by reflexivity. reflexivity. Qed.

Lemma subst_copy_base m st : store_simple st = true ->
  copy_base (fst (subst_map [] m st)) = fst (subst_map [] (copy_base m) st).
Proof.
  intro S. destruct m as [fs es]. unfold copy_base. cbn [m_fs m_es].
  change (fun f => negb (is_board_fld f)) with (K nb).
  rewrite !subst_map_unfold. cbv zeta. cbn [fst snd m_fs m_es].
  rewrite push_vars_copy_base.
  destruct (sub_fs_map (push_vars [] fs) st S fs) as [A1 A2].
  destruct (sub_fs_map (push_vars [] fs) st S (filter (K nb) fs)) as [B1 B2].
  rewrite A1, A2, B1, B2. f_equal.
  apply filter_map_names. apply sub_f_name.
Qed.

(* overlayClasses only rewrites the layers field (and, below the root, the classes field) *)
Lemma copy_base_overlay_classes m : copy_base (overlay_classes m) = copy_base m.
Proof.
  destruct m as [fs es]. unfold overlay_classes. cbn [oc_in]. cbv zeta.
  unfold put_classes, copy_base. cbn [m_fs m_es]. f_equal.
  change (fun f => negb (is_board_fld f)) with (K nb).
  destruct (merged_classes None fs); auto.
  match goal with
  | |- filter _ (?F fs false) = _ =>
      assert (E : forall l seen, filter (K nb) (F l seen) = filter (K nb) l)
  end.
  { induction l as [|[n p [[lfs les]|]] tl IH]; intro seen; auto.
    - destruct (str_eqb n s_layers && negb seen) eqn:C.
      + cbn [filter]. apply andb_prop in C as [C _]. apply str_eqb_eq in C. subst n.
        unfold K at 1 3. cbn [f_name]. cbn. apply IH.
      + cbn [filter]. rewrite IH. reflexivity.
    - cbn [filter]. rewrite IH. reflexivity. }
  apply E.
Qed.

Lemma filter_idem {A} (f : A -> bool) l : filter f (filter f l) = filter f l.
Proof.
  induction l as [|x tl IH]; simpl; auto. destruct (f x) eqn:E; simpl; rewrite ?E, IH; reflexivity.
Qed.

(* No leak back, end to end: as long as no string mixes text and substitutions, the fields and connections
   of the root board after the whole IR compilation are those of the program without its child boards. *)
Theorem no_leak :
  forall prog st,
    wf_top prog = true -> store_simple st = true ->
    copy_base (r_map (run prog st)) = copy_base (r_map (run (strip prog) st))
    /\ r_store (run prog st) = r_store (run (strip prog) st).
Proof.
  intros prog st W S. split.
  - unfold run. cbn [r_map]. rewrite !copy_base_overlay_classes.
    rewrite !subst_copy_base by auto.
    change (fst (steps [] empty_map prog)) with (cb empty_map prog).
    change (fst (steps [] empty_map (strip prog))) with (cb empty_map (strip prog)).
    rewrite no_leak_ir by auto.
    change (copy_base empty_map) with empty_map.
    assert (E : copy_base (cb empty_map (strip prog)) = cb empty_map (strip prog)).
    { pose proof (no_leak_ir prog empty_map W) as N.
      change (copy_base empty_map) with empty_map in N. rewrite <- N.
      unfold copy_base. cbn [m_fs m_es]. rewrite filter_idem. reflexivity. }
    rewrite E. reflexivity.
  - rewrite !store_never_written by auto. reflexivity.
Qed.

(* ---------------------------------------------------------------- the projection only reads the kept fields *)

Lemma is_reserved_board n : nb n = false -> is_reserved n = true.
Proof.
  unfold nb, is_reserved. rewrite negb_false_iff. intro H. rewrite H. rewrite !orb_true_r. reflexivity.
Qed.

Lemma objs_copy_base st cls prefix m : objs st cls prefix (copy_base m) = objs st cls prefix m.
Proof.
  destruct m as [fs es]. unfold copy_base. cbn [m_fs m_es objs].
  change (fun f => negb (is_board_fld f)) with (K nb).
  match goal with
  | |- ?F (filter (K nb) fs) = _ => assert (E : forall l, F (filter (K nb) l) = F l)
  end.
  { induction l as [|[n p c] tl IH]; auto.
    cbn [filter]. unfold K at 1. cbn [f_name]. destruct (nb n) eqn:B.
    - destruct (is_reserved n); [exact IH|]. destruct c; rewrite IH; reflexivity.
    - rewrite (is_reserved_board n B). exact IH. }
  apply E.
Qed.

Lemma edges_copy_base st cls prefix m : edges st cls prefix (copy_base m) = edges st cls prefix m.
Proof.
  destruct m as [fs es]. unfold copy_base. cbn [m_fs m_es edges].
  change (fun f => negb (is_board_fld f)) with (K nb). f_equal.
  match goal with
  | |- ?F (filter (K nb) fs) = _ => assert (E : forall l, F (filter (K nb) l) = F l)
  end.
  { induction l as [|[n p c] tl IH]; auto.
    cbn [filter]. unfold K at 1. cbn [f_name]. destruct (nb n) eqn:B.
    - destruct c as [sub|]; [|exact IH]. destruct (is_reserved n); rewrite IH; reflexivity.
    - destruct c as [sub|]; [|exact IH]. rewrite (is_reserved_board n B). exact IH. }
  apply E.
Qed.

Lemma classes_of_copy_base m : classes_of (copy_base m) = classes_of m.
Proof.
  unfold classes_of, copy_base. cbn [m_fs].
  change (fun f => negb (is_board_fld f)) with (K nb). rewrite keep_find by reflexivity. reflexivity.
Qed.

(* own objects and connections of a projected board *)
Definition content (b : pboard) : list pobj * list pedge := match b with PBoard os es _ => (os, es) end.

Lemma content_copy_base st m : content (proj_board st (copy_base m)) = content (proj_board st m).
Proof.
  destruct m as [fs es].
  assert (E : forall x, content (proj_board st x) =
                        (objs st (classes_of x) [] x, edges st (classes_of x) [] x)).
  { intros [fs' es']. reflexivity. }
  rewrite !E. rewrite classes_of_copy_base, objs_copy_base, edges_copy_base. reflexivity.
Qed.

(* No leak back on what d2compiler produces for the root board. *)
Theorem no_leak_projection :
  forall prog st,
    wf_top prog = true -> store_simple st = true ->
    content (proj_board (r_store (run prog st)) (r_map (run prog st)))
    = content (proj_board (r_store (run (strip prog) st)) (r_map (run (strip prog) st))).
Proof.
  intros prog st W S. destruct (no_leak prog st W S) as [A B].
  rewrite <- (content_copy_base _ (r_map (run prog st))).
  rewrite <- (content_copy_base _ (r_map (run (strip prog) st))).
  rewrite A, B. reflexivity.
Qed.
