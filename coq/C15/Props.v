(* C15 — boards inherit from their base and never leak changes back.  Statements only.
   cb m ds        = compileMap of the declarations ds on the board map m (first phase of d2ir.Compile)
   child k n m    = the map of the board n of kind k below the board map m
   copy_base m    = m without its layers / scenarios / steps fields (what CopyBase copies)
   run prog st    = d2ir.Compile: cb, then compileSubstitutions (the only writer of the store st of AST string
                    nodes), then overlayClasses;  proj_board = what d2compiler makes of a board map *)
From Coq Require Import List NArith Bool Arith.
Import ListNotations.
Require Import V.C15.Boards V.C15.Variants V.C15.Proofs V.C15.Theorems V.C15.Check V.C15.Store.

(* -------- a scenario shows its base as declared BEFORE it plus its own changes *)
Theorem C15_scenario_is_base_plus_own :
  forall pre s body,
    wf_top pre = true -> fresh Scenarios s (cb empty_map pre) ->
    child Scenarios s (cb empty_map (pre ++ [DBoards Scenarios [(s, body)]]))
    = Some (overlay_classes (cb (del_label (cb empty_map (strip pre))) body)).
Proof. exact scenario_is_base_plus_own. Qed.

(* the form the harness evaluates on the implementation (clause 10): the scenario is the root board of the
   flat program `declarations before it, without child boards` ++ `its own declarations` *)
Theorem C15_scenario_is_flat_program :
  forall pre s body,
    wf_top pre = true -> untouched s_label pre = true -> fresh Scenarios s (cb empty_map pre) ->
    child Scenarios s (cb empty_map (pre ++ [DBoards Scenarios [(s, body)]]))
    = Some (overlay_classes (cb empty_map (base_before pre ++ body))).
Proof. exact scenario_is_flat_program. Qed.

(* -------- a step additionally includes everything from the previous step *)
Theorem C15_step_includes_previous :
  forall m n body pfs pf pm kes,
    kind_map s_steps m = IMap (pfs ++ [pf]) kes ->
    find_f n (pfs ++ [pf]) = None ->
    f_comp pf = Some pm ->
    child Steps n (stepm [] m (DBoards Steps [(n, body)])) = Some (overlay_classes (cb (inherit pm) body))
    /\ forall x, nb x = true -> x <> s_label -> untouched x body = true ->
         find_f x (m_fs (cb (inherit pm) body)) = find_f x (m_fs pm).
Proof. exact step_includes_previous. Qed.

Theorem C15_first_step_is_base_plus_own :
  forall m n body kes,
    kind_map s_steps m = IMap [] kes ->
    child Steps n (stepm [] m (DBoards Steps [(n, body)])) = Some (overlay_classes (cb (inherit m) body)).
Proof. exact first_step_is_base_plus_own. Qed.

(* -------- a layer starts without the base board's objects and connections *)
Theorem C15_layer_starts_empty :
  forall m l body,
    fresh Layers l m ->
    child Layers l (stepm [] m (DBoards Layers [(l, body)])) = Some (cb empty_map body)
    /\ (forall x, nb x = true -> untouched x body = true -> find_f x (m_fs (cb empty_map body)) = None).
Proof. exact layer_starts_empty. Qed.

(* -------- changes made inside any board never alter its base board ... *)
(* first phase, ALL programs of the fragment: the base's own fields and connections are those of the
   program without its child boards *)
Theorem C15_no_leak_ir :
  forall ds m, wf_top ds = true -> copy_base (cb m ds) = cb (copy_base m) (strip ds).
Proof. exact no_leak_ir. Qed.

(* ... or sibling boards (first phase; layers and scenarios) *)
Theorem C15_sibling_untouched :
  forall m k name body n',
    k <> Steps -> n' <> name ->
    child k n' (stepm [] m (DBoards k [(name, body)])) = child k n' m.
Proof. exact sibling_untouched. Qed.

(* whole IR compilation and projection.  FULL STATEMENT (all programs): REFUTED below.  Proved for programs
   whose strings are plain text or exactly one ${v} (such strings are resolved by re-pointing the IR scalar;
   the AST node is never rewritten). *)
Theorem C15_store_never_written :
  forall prog st, store_simple st = true -> r_store (run prog st) = st.
Proof. exact store_never_written. Qed.

Theorem C15_no_leak :
  forall prog st,
    wf_top prog = true -> store_simple st = true ->
    copy_base (r_map (run prog st)) = copy_base (r_map (run (strip prog) st))
    /\ r_store (run prog st) = r_store (run (strip prog) st).
Proof. exact no_leak. Qed.

Theorem C15_no_leak_projection :
  forall prog st,
    wf_top prog = true -> store_simple st = true ->
    content (proj_board (r_store (run prog st)) (r_map (run prog st)))
    = content (proj_board (r_store (run (strip prog) st)) (r_map (run (strip prog) st))).
Proof. exact no_leak_projection. Qed.

(* the faithful model violates the unguarded statement: a scenario's own variable value ends up in a label
   of its BASE board, and one scenario's value in its SIBLING (witnesses replayed on the real compiler) *)
Theorem C15_no_leak_back_refuted :
  exists prog st b1 b2,
    wf_top prog = true
    /\ compile prog st = Some b1 /\ compile (strip prog) st = Some b2
    /\ content_eqb b1 b2 = false.
Proof. exact no_leak_back_refuted. Qed.

Theorem C15_no_sibling_leak_refuted :
  exists prog st q k b target b1 b2,
    compile prog st = Some b1 /\ compile (remove_board q k b prog) st = Some b2
    /\ (exists t1 t2, board_at target b1 = Some t1 /\ board_at target b2 = Some t2 /\ tree_eqb t1 t2 = false).
Proof. exact no_sibling_leak_refuted. Qed.

(* non-vacuity of the hypotheses:  x; y: L  then  scenarios: { s: { z } } *)
Example C15_hyps_satisfiable :
  let pre := [DKey [[120%N]] None None; DKey [[121%N]] (Some 1%N) None] in
  wf_top pre = true /\ untouched s_label pre = true /\ fresh Scenarios [115%N] (cb empty_map pre)
  /\ store_simple [(1%N, [PLit [76%N]]); (2%N, [PSub [118%N]])] = true.
Proof. repeat split; vm_compute; auto. Qed.

(* x; steps: { t1: { a } }  : the hypotheses of the step theorem hold with pf = t1, and a layer l is fresh *)
Example C15_step_hyps_satisfiable :
  let m := cb empty_map [DKey [[120%N]] None None; DBoards Steps [([116;49]%N, [DKey [[97%N]] None None])]] in
  (exists pfs pf pm kes,
      kind_map s_steps m = IMap (pfs ++ [pf]) kes /\ find_f [116;50]%N (pfs ++ [pf]) = None /\ f_comp pf = Some pm)
  /\ fresh Layers [108%N] m.
Proof.
  split.
  - exists []. eexists. eexists. eexists. vm_compute. repeat split; reflexivity.
  - vm_compute. exact I.
Qed.

Print Assumptions C15_scenario_is_base_plus_own.
Print Assumptions C15_scenario_is_flat_program.
Print Assumptions C15_step_includes_previous.
Print Assumptions C15_first_step_is_base_plus_own.
Print Assumptions C15_layer_starts_empty.
Print Assumptions C15_no_leak_ir.
Print Assumptions C15_sibling_untouched.
Print Assumptions C15_store_never_written.
Print Assumptions C15_no_leak.
Print Assumptions C15_no_leak_projection.
Print Assumptions C15_no_leak_back_refuted.
Print Assumptions C15_no_sibling_leak_refuted.
