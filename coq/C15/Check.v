(* Executable case checker for C15.

   CCore : a program of the model's fragment.  prog/st = the program and its AST string nodes, impl = the
           projection of EVERY board (recursively) that the real d2compiler.Compile produced (None = compile
           error), cs = the property clauses: each names a variant of the program (computed here by the
           Gallina functions of Variants.v, and independently by the harness, which compiled its variant
           with the real compiler) and says which board of the original must equal which board of the variant.
   CExt  : a program outside the fragment (globs): only the clauses, on the implementation's boards.

   codes  1  model <> implementation (on the program, or on a variant: then either the model or the
             harness' derivation of the variant disagrees with Variants.v)
          10 a scenario is not `base as declared before it + its own declarations`   (flat)
          11 a step is not `previous step + its own declarations`                     (flat)
          12 a layer is not `classes and vars of its base + its own declarations`     (flat)
          13 a board's own objects/connections change when its child boards are removed (leak back)
          14 a board changes when a sibling board is removed                            (sibling leak) *)
From Coq Require Import List NArith Bool Arith.
Import ListNotations.
Require Import V.Lib.RunCases.
Require Export V.C15.Boards V.C15.Variants.

Definition strs_eqb := list_eqb str_eqb.

Definition s_fill : str := [102;105;108;108]%N.
Definition s_stroke : str := [115;116;114;111;107;101]%N.
Definition s_opacity : str := [111;112;97;99;105;116;121]%N.

Definition attrs_eqb (a b : attrs) : bool :=
  str_eqb (a_label a) (a_label b) && str_eqb (a_shape a) (a_shape b)
  && strs_eqb (a_classes a) (a_classes b)
  && forallb (fun k => str_eqb (get_kv k (a_style a)) (get_kv k (a_style b))) [s_fill; s_stroke; s_opacity].

Definition pobj_eqb (a b : pobj) : bool := path_eqb (fst a) (fst b) && attrs_eqb (snd a) (snd b).
Definition pedge_eqb (a b : pedge) : bool :=
  path_eqb (pe_src a) (pe_src b) && path_eqb (pe_dst a) (pe_dst b) && Nat.eqb (pe_idx a) (pe_idx b)
  && attrs_eqb (pe_attrs a) (pe_attrs b).

Definition set_eqb {A} (eqb : A -> A -> bool) (l1 l2 : list A) : bool :=
  Nat.eqb (length l1) (length l2)
  && forallb (fun x => existsb (eqb x) l2) l1 && forallb (fun y => existsb (fun x => eqb x y) l1) l2.

(* own objects and connections of a board *)
Definition content_eqb (a b : pboard) : bool :=
  match a, b with
  | PBoard o1 e1 _, PBoard o2 e2 _ => set_eqb pobj_eqb o1 o2 && set_eqb pedge_eqb e1 e2
  end.

(* the whole subtree *)
Fixpoint tree_eqb (a b : pboard) {struct a} : bool :=
  match a, b with
  | PBoard o1 e1 k1, PBoard o2 e2 k2 =>
      set_eqb pobj_eqb o1 o2 && set_eqb pedge_eqb e1 e2
      && Nat.eqb (length k1) (length k2)
      && (fix go (k1 : list (str * str * pboard)) : bool :=
            match k1 with
            | [] => true
            | (k, n, c) :: tl =>
                match assoc_kid k n k2 with
                | Some c' => tree_eqb c c'
                | None => false
                end && go tl
            end) k1
  end.

Definition board_eqb (whole : bool) (a b : pboard) : bool := if whole then tree_eqb a b else content_eqb a b.

Definition opt_board_eqb (whole : bool) (a b : option pboard) : bool :=
  match a, b with
  | None, None => true
  | Some x, Some y => board_eqb whole x y
  | _, _ => false
  end.

Inductive variant :=
| VStrip (q : bpath)                         (* board q without its child boards *)
| VRemove (q : bpath) (k : bkind) (b : str)  (* board q without its child board (k, b) *)
| VFlat (q : bpath).                         (* the flat program of board q *)

Definition apply_variant (v : variant) (prog : list decl) : option (list decl) :=
  match v with
  | VStrip q => Some (strip_at q prog)
  | VRemove q k b => Some (remove_board q k b prog)
  | VFlat q => flat q prog
  end.

(* target: board of the original program; at_: board of the variant; iv: what the real compiler produced
   for the harness' variant at at_ (None: compile error or no such board) *)
Inductive chk := Chk (v : variant) (target at_ : bpath) (iv : option pboard) (code : N) (whole : bool).

Definition bind_board (o : option pboard) (q : bpath) : option pboard :=
  match o with Some b => board_at q b | None => None end.

Definition check_chk (prog : list decl) (st : store) (impl : pboard) (c : chk) : list N :=
  match c with
  | Chk v target at_ iv code whole =>
      flag (match apply_variant v prog with
            | Some p' => opt_board_eqb whole (bind_board (compile p' st) at_) iv
            | None => false
            end) 1
      ++ flag (match board_at target impl, iv with
               | Some a, Some b => board_eqb whole a b
               | _, _ => false
               end) code
  end.

(* clause on two projections produced by the implementation *)
Inductive xchk := XChk (a b : option pboard) (code : N) (whole : bool).

Definition check_xchk (c : xchk) : list N :=
  match c with
  | XChk a b code whole =>
      flag (match a, b with Some x, Some y => board_eqb whole x y | _, _ => false end) code
  end.

Inductive case :=
| CCore (prog : list decl) (st : store) (impl : option pboard) (cs : list chk)
| CExt (cs : list xchk).

Definition dedup (l : list N) : list N := nodup N.eq_dec l.

Definition check_case (c : case) : list N :=
  match c with
  | CCore prog st impl cs =>
      dedup (flag (opt_board_eqb true (compile prog st) impl) 1
             ++ match impl with
                | Some b => flat_map (check_chk prog st b) cs
                | None => []
                end)
  | CExt cs => dedup (flat_map check_xchk cs)
  end.

(* compact constructors for the case files *)
Definition A (label shape : str) (style : list (str * str)) (classes : list str) : attrs :=
  mkAttrs label shape style classes.
Definition E (s d : list str) (i : N) (a : attrs) : pedge := mkPedge s d (N.to_nat i) a.
Definition L := Layers.
Definition S := Scenarios.
Definition T := Steps.
Definition dn (src dst : list str) (i : N) : decl := DEdgeNull src dst (N.to_nat i).
Definition ds (src dst : list str) (i : N) (p : option sid) (b : option (list decl)) : decl :=
  DEdgeSet src dst (N.to_nat i) p b.
