(* C15 — program transformations used to state the property on programs:
     strip        the program without its child boards                      (no leak back)
     remove_board the program without one child board                      (sibling independence)
     flat         the flat program whose ROOT board is what board q should be:
                    scenario  = the parent's declarations before the scenario (child boards and the board
                                label removed) followed by the scenario's own declarations
                    step      = the previous step's flat program (first step: like a scenario) followed by
                                the step's own declarations
                    layer     = the parent's classes and vars followed by the layer's own declarations *)
From Coq Require Import List NArith Bool Arith.
Import ListNotations.
Require Import V.C15.Boards.

Definition bpath := list (bkind * str).

Definition kind_eqb (a b : bkind) : bool :=
  match a, b with
  | Layers, Layers | Scenarios, Scenarios | Steps, Steps => true
  | _, _ => false
  end.

Definition is_boards (d : decl) : bool := match d with DBoards _ _ => true | _ => false end.

Definition strip (ds : list decl) : list decl := filter (fun d => negb (is_boards d)) ds.

(* apply g to the body of every declaration of board q *)
Fixpoint map_board (q : bpath) (g : list decl -> list decl) (ds : list decl) {struct q} : list decl :=
  match q with
  | [] => g ds
  | (k, n) :: rest =>
      map (fun d =>
             match d with
             | DBoards k' bs =>
                 if kind_eqb k k'
                 then DBoards k' (map (fun b => if str_eqb (fst b) n then (fst b, map_board rest g (snd b)) else b) bs)
                 else d
             | _ => d
             end) ds
  end.

Definition strip_at (q : bpath) (ds : list decl) : list decl := map_board q strip ds.

Definition remove_entry (k : bkind) (b : str) (ds : list decl) : list decl :=
  map (fun d =>
         match d with
         | DBoards k' bs => if kind_eqb k k' then DBoards k' (filter (fun e => negb (str_eqb (fst e) b)) bs) else d
         | _ => d
         end) ds.

Definition remove_board (q : bpath) (k : bkind) (b : str) (ds : list decl) : list decl :=
  map_board q (remove_entry k b) ds.

(* ---------------------------------------------------------------- flat *)

Definition decl_head (d : decl) : option str :=
  match d with
  | DKey (n :: _) _ _ => Some n
  | DNull (n :: _) => Some n
  | _ => None
  end.

Definition is_label_decl (d : decl) : bool :=
  match d with
  | DKey [n] _ _ => str_eqb n s_label
  | DNull [n] => str_eqb n s_label
  | _ => false
  end.

Definition is_cls_or_vars (d : decl) : bool :=
  match decl_head d with
  | Some n => str_eqb n s_classes || str_eqb n s_vars
  | None => false
  end.

(* what a scenario / first step takes from the declarations before it *)
Definition base_before (pre : list decl) : list decl := filter (fun d => negb (is_label_decl d)) (strip pre).

(* all (pre, name, body) entries of kind k in declaration order; pre = the declarations before the
   `k: { ... }` block that holds the entry *)
Fixpoint entries (k : bkind) (pre ds : list decl) : list (list decl * (str * list decl)) :=
  match ds with
  | [] => []
  | d :: tl =>
      match d with
      | DBoards k' bs => if kind_eqb k k' then map (fun b => (pre, b)) bs else []
      | _ => []
      end ++ entries k (pre ++ [d]) tl
  end.

Definition count_name (n : str) (es : list (list decl * (str * list decl))) : nat :=
  length (filter (fun e => str_eqb (fst (snd e)) n) es).

Fixpoint find_entry (n : str) (es : list (list decl * (str * list decl))) : option (list decl * list decl) :=
  match es with
  | [] => None
  | (pre, (n', body)) :: tl => if str_eqb n' n then Some (pre, body) else find_entry n tl
  end.

(* flat programs of the steps, in order: each starts from the previous one *)
Fixpoint flat_steps (prev : option (list decl)) (es : list (list decl * (str * list decl)))
  : list (str * list decl) :=
  match es with
  | [] => []
  | (pre, (n, body)) :: tl =>
      let f := match prev with
               | None => base_before pre ++ body
               | Some p => base_before p ++ body
               end in
      (n, f) :: flat_steps (Some f) tl
  end.

Fixpoint assoc_str {A} (n : str) (l : list (str * A)) : option A :=
  match l with
  | [] => None
  | (n', x) :: tl => if str_eqb n' n then Some x else assoc_str n tl
  end.

(* None: the board is not declared, or is declared more than once (re-opened boards are outside `flat`) *)
Fixpoint flat (q : bpath) (ds : list decl) {struct q} : option (list decl) :=
  match q with
  | [] => Some ds
  | (k, n) :: rest =>
      let es := entries k [] ds in
      if negb (Nat.eqb (count_name n es) 1) then None
      else
        match k with
        | Layers =>
            match find_entry n es with
            | Some (_, body) => flat rest (filter is_cls_or_vars (strip ds) ++ body)
            | None => None
            end
        | Scenarios =>
            match find_entry n es with
            | Some (pre, body) => flat rest (base_before pre ++ body)
            | None => None
            end
        | Steps =>
            if forallb (fun e => Nat.eqb (count_name (fst (snd e)) es) 1) es
            then match assoc_str n (flat_steps None es) with
                 | Some f => flat rest f
                 | None => None
                 end
            else None
        end
  end.

(* ---------------------------------------------------------------- selecting a board of a projection *)

Fixpoint assoc_kid (k n : str) (l : list (str * str * pboard)) : option pboard :=
  match l with
  | [] => None
  | (k', n', b) :: tl => if str_eqb k' k && str_eqb n' n then Some b else assoc_kid k n tl
  end.

Fixpoint board_at (q : bpath) (b : pboard) : option pboard :=
  match q with
  | [] => Some b
  | (k, n) :: rest =>
      match b with
      | PBoard _ _ kids =>
          match assoc_kid (kind_name k) n kids with
          | Some c => board_at rest c
          | None => None
          end
      end
  end.
