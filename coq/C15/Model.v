(* C15 — the executable model lives in Boards.v (IR compilation of boards with the explicit store) and
   Variants.v (the program transformations the property is stated with); this file re-exports them. *)
Require Export V.C15.Boards V.C15.Variants.
