(* C15 — boards inherit from their base and never leak changes back.

   Executable model of the part of the d2 IR compiler that builds boards, on a core fragment:

     d2ir/compile.go   compileMap / compileKey / compileField / _compileField (plain keys, null),
                       compileEdges / _compileEdges (new edges, indexed edges, edge null),
                       overlay, overlayClasses, compileSubstitutions / resolveSubstitutions
     d2ir/d2ir.go      EnsureField (find or append along a path), DeleteField (with the deletion of the
                       connections that reference the field and of an emptied `style` holder),
                       CreateEdge / GetEdges / DeleteEdge (common-prefix trimming, index = number of
                       matching edges), Copy, CopyBase (delete board fields, copy, re-append)
     d2ir/merge.go     OverlayMap / OverlayField
     d2compiler/compile.go  compileBoard / compileMap / compileField / compileEdge / compileStyle
                       (projection of every board to objects and connections with label, shape, a few
                       style attributes and classes)

   What the Go code shares by pointer is explicit here: an IR scalar holds the id (sid) of the AST
   string node it points to, and the contents of those nodes live in a store.  ir Copy copies the tree
   but not the nodes, so copies made for scenarios and steps alias the base's string nodes, and the
   in-place substitution of `pre-${v}` strings (resolveSubstitutions writes s.Value[i].String and
   coalesces the node) is a write to the store that every alias observes. *)
From Coq Require Import List NArith Bool Arith.
Import ListNotations.

Definition str := list N.

Fixpoint str_eqb (a b : str) : bool :=
  match a, b with
  | [], [] => true
  | x :: xs, y :: ys => N.eqb x y && str_eqb xs ys
  | _, _ => false
  end.

Fixpoint path_eqb (a b : list str) : bool :=
  match a, b with
  | [], [] => true
  | x :: xs, y :: ys => str_eqb x y && path_eqb xs ys
  | _, _ => false
  end.

(* p is a prefix of q *)
Fixpoint has_prefix (p q : list str) : bool :=
  match p, q with
  | [], _ => true
  | x :: xs, y :: ys => str_eqb x y && has_prefix xs ys
  | _, _ => false
  end.

(* ---------------------------------------------------------------- AST string nodes and the store *)

Definition sid := N.
Inductive part := PLit (s : str) | PSub (v : str).      (* literal text | ${v} *)
Definition sval := list part.
Definition store := list (sid * sval).

Fixpoint st_get (st : store) (i : sid) : sval :=
  match st with
  | [] => []
  | (j, v) :: tl => if N.eqb i j then v else st_get tl i
  end.
Definition st_set (st : store) (i : sid) (v : sval) : store := (i, v) :: st.

(* ScalarString() of a node (substitutions left in a node print nothing here; a program with an
   unresolved substitution does not compile) *)
Fixpoint sval_str (v : sval) : str :=
  match v with
  | [] => []
  | PLit s :: tl => s ++ sval_str tl
  | PSub _ :: tl => sval_str tl
  end.
Definition sid_str (st : store) (i : sid) : str := sval_str (st_get st i).

(* ---------------------------------------------------------------- programs of the fragment *)

Inductive bkind := Layers | Scenarios | Steps.

Inductive decl :=
| DKey (path : list str) (prim : option sid) (body : option (list decl))   (* a.b: label { body } *)
| DNull (path : list str)                                                  (* a.b: null *)
| DEdge (src dst : list str) (prim : option sid) (body : option (list decl))  (* s -> d: label { body } *)
| DEdgeNull (src dst : list str) (idx : nat)                               (* (s -> d)[i]: null *)
| DEdgeSet (src dst : list str) (idx : nat) (prim : option sid) (body : option (list decl))
                                                                           (* (s -> d)[i]: label { body } *)
| DBoards (k : bkind) (bs : list (str * list decl)).                       (* layers: { name: { body }; ... } *)

Definition s_layers : str := [108;97;121;101;114;115]%N.
Definition s_scenarios : str := [115;99;101;110;97;114;105;111;115]%N.
Definition s_steps : str := [115;116;101;112;115]%N.
Definition s_classes : str := [99;108;97;115;115;101;115]%N.
Definition s_class : str := [99;108;97;115;115]%N.
Definition s_vars : str := [118;97;114;115]%N.
Definition s_label : str := [108;97;98;101;108]%N.
Definition s_shape : str := [115;104;97;112;101]%N.
Definition s_style : str := [115;116;121;108;101]%N.
Definition s_rectangle : str := [114;101;99;116;97;110;103;108;101]%N.

Definition kind_name (k : bkind) : str :=
  match k with Layers => s_layers | Scenarios => s_scenarios | Steps => s_steps end.

Definition is_board_name (n : str) : bool :=
  str_eqb n s_layers || str_eqb n s_scenarios || str_eqb n s_steps.

(* ---------------------------------------------------------------- IR *)

Inductive fld := Fld (name : str) (prim : option sid) (comp : option imap)
with imap := IMap (fs : list fld) (es : list edg)
with edg := Edg (src dst : list str) (idx : nat) (eprim : option sid) (emap : option imap).

Definition f_name (f : fld) := match f with Fld n _ _ => n end.
Definition f_prim (f : fld) := match f with Fld _ p _ => p end.
Definition f_comp (f : fld) := match f with Fld _ _ c => c end.
Definition m_fs (m : imap) := match m with IMap fs _ => fs end.
Definition m_es (m : imap) := match m with IMap _ es => es end.
Definition e_src (e : edg) := match e with Edg s _ _ _ _ => s end.
Definition e_dst (e : edg) := match e with Edg _ d _ _ _ => d end.
Definition e_idx (e : edg) := match e with Edg _ _ i _ _ => i end.
Definition e_prim (e : edg) := match e with Edg _ _ _ p _ => p end.
Definition e_map (e : edg) := match e with Edg _ _ _ _ m => m end.

Definition empty_map : imap := IMap [] [].
Definition map_of (f : fld) : imap := match f_comp f with Some m => m | None => empty_map end.
Definition opt_map (o : option imap) : imap := match o with Some m => m | None => empty_map end.

(* GetField on one level: the first field with the name (names of the fragment are lower-case ASCII,
   so EqualFold is equality) *)
Fixpoint find_f (n : str) (fs : list fld) : option fld :=
  match fs with
  | [] => None
  | f :: tl => if str_eqb (f_name f) n then Some f else find_f n tl
  end.

(* apply k to the first field named n; append k (fresh field) when there is none (EnsureField) *)
Fixpoint upd_fs (n : str) (k : fld -> fld) (fs : list fld) : list fld :=
  match fs with
  | [] => [k (Fld n None None)]
  | f :: tl => if str_eqb (f_name f) n then k f :: tl else f :: upd_fs n k tl
  end.

(* apply k to the first field named n, nothing when there is none *)
Fixpoint mod_fs (n : str) (k : fld -> fld) (fs : list fld) : list fld :=
  match fs with
  | [] => []
  | f :: tl => if str_eqb (f_name f) n then k f :: tl else f :: mod_fs n k tl
  end.

(* remove the first field named n *)
Fixpoint del_fs (n : str) (fs : list fld) : list fld :=
  match fs with
  | [] => []
  | f :: tl => if str_eqb (f_name f) n then tl else f :: del_fs n tl
  end.

(* number of fields before the first one named n *)
Fixpoint idx_of (n : str) (fs : list fld) : nat :=
  match fs with
  | [] => O
  | f :: tl => if str_eqb (f_name f) n then O else S (idx_of n tl)
  end.

Definition set_comp (f : fld) (m : imap) : fld := Fld (f_name f) (f_prim f) (Some m).
Definition with_map (f : fld) : fld := Fld (f_name f) (f_prim f) (Some (map_of f)).

(* EnsureField along a path: intermediate fields get a map, k is applied to the last one *)
Fixpoint upd_path (p : list str) (k : fld -> fld) (m : imap) : imap :=
  match p with
  | [] => m
  | n :: rest =>
      match rest with
      | [] => IMap (upd_fs n k (m_fs m)) (m_es m)
      | _ => IMap (upd_fs n (fun f => set_comp f (upd_path rest k (map_of f))) (m_fs m)) (m_es m)
      end
  end.

(* ensure every field of the path with a map and apply g to the map at its end *)
Fixpoint at_path (p : list str) (g : imap -> imap) (m : imap) : imap :=
  match p with
  | [] => g m
  | n :: rest => IMap (upd_fs n (fun f => set_comp f (at_path rest g (map_of f))) (m_fs m)) (m_es m)
  end.

(* apply g to the map at the end of the path when every field on it exists *)
Fixpoint at_existing (p : list str) (g : imap -> imap) (m : imap) : imap :=
  match p with
  | [] => g m
  | n :: rest =>
      match find_f n (m_fs m) with
      | Some f =>
          match f_comp f with
          | Some sub => IMap (mod_fs n (fun f => set_comp f (at_existing rest g sub)) (m_fs m)) (m_es m)
          | None => m
          end
      | None => m
      end
  end.

Fixpoint get_map (p : list str) (m : imap) : option imap :=
  match p with
  | [] => Some m
  | n :: rest =>
      match find_f n (m_fs m) with
      | Some f => match f_comp f with Some sub => get_map rest sub | None => None end
      | None => None
      end
  end.

Fixpoint get_fld (p : list str) (m : imap) : option fld :=
  match p with
  | [] => None
  | n :: rest =>
      match find_f n (m_fs m) with
      | Some f =>
          match rest with
          | [] => Some f
          | _ => match f_comp f with Some sub => get_fld rest sub | None => None end
          end
      | None => None
      end
  end.

(* DeleteField(path): remove the field; remove every connection (in the maps on the way down) that has the
   field on the path of an end point (they carry a reference created by the same key); remove a `style`
   holder left without fields *)
Definition edge_touches (p : list str) (e : edg) : bool :=
  has_prefix p (e_src e) || has_prefix p (e_dst e).

Definition no_fields (m : imap) : bool := match m_fs m with [] => true | _ => false end.

Fixpoint del_path (p : list str) (m : imap) : imap :=
  match p with
  | [] => m
  | n :: rest =>
      let es' := filter (fun e => negb (edge_touches p e)) (m_es m) in
      match rest with
      | [] => IMap (del_fs n (m_fs m)) es'
      | _ =>
          match find_f n (m_fs m) with
          | None => IMap (m_fs m) es'
          | Some f =>
              let sub := del_path rest (map_of f) in
              if str_eqb n s_style && Nat.eqb (length rest) 1 && no_fields sub
              then IMap (del_fs n (m_fs m)) es'
              else IMap (mod_fs n (fun f => set_comp f sub) (m_fs m)) es'
          end
      end
  end.

(* EdgeID.resolve without underscores: the common prefix while both sides keep a segment *)
Fixpoint trim_common (src dst : list str) {struct src} : list str * (list str * list str) :=
  match src with
  | s :: src' =>
      match src', dst with
      | _ :: _, d :: (d2 :: dtl) =>
          if str_eqb s d
          then let r := trim_common src' (d2 :: dtl) in (s :: fst r, snd r)
          else ([], (src, dst))
      | _, _ => ([], (src, dst))
      end
  | [] => ([], (src, dst))
  end.

Definition same_ends (s d : list str) (e : edg) : bool := path_eqb (e_src e) s && path_eqb (e_dst e) d.
Definition edge_is (s d : list str) (i : nat) (e : edg) : bool := same_ends s d e && Nat.eqb (e_idx e) i.

Fixpoint del_first_edge (s d : list str) (i : nat) (es : list edg) : list edg :=
  match es with
  | [] => []
  | e :: tl => if edge_is s d i e then tl else e :: del_first_edge s d i tl
  end.

(* ---------------------------------------------------------------- OverlayMap (classes only: no edges) *)

Fixpoint repl_fs (n : str) (f' : fld) (fs : list fld) : list fld :=
  match fs with
  | [] => []
  | f :: tl => if str_eqb (f_name f) n then f' :: tl else f :: repl_fs n f' tl
  end.

Fixpoint overlay_map (base over : imap) {struct over} : imap :=
  match over with
  | IMap ofs _ =>
      IMap
        ((fix go (ofs : list fld) (bfs : list fld) : list fld :=
            match ofs with
            | [] => bfs
            | Fld n p c :: tl =>
                go tl
                  (match find_f n bfs with
                   | None => bfs ++ [Fld n p c]
                   | Some bf =>
                       repl_fs n
                         (Fld (f_name bf)
                              (match p with Some _ => p | None => f_prim bf end)
                              (match c with
                               | None => f_comp bf
                               | Some om =>
                                   match f_comp bf with
                                   | Some bm => Some (overlay_map bm om)
                                   | None => Some om
                                   end
                               end)) bfs
                   end)
            end) ofs (m_fs base))
        (m_es base)
  end.

(* ---------------------------------------------------------------- CopyBase / overlay *)

Definition is_board_fld (f : fld) : bool := is_board_name (f_name f).

(* the copy that CopyBase returns: everything except the layers/scenarios/steps fields *)
Definition copy_base (m : imap) : imap := IMap (filter (fun f => negb (is_board_fld f)) (m_fs m)) (m_es m).

(* what CopyBase leaves behind in the map it copied: the three fields are deleted and re-appended *)
Definition opt_list {A} (o : option A) : list A := match o with Some x => [x] | None => [] end.
Definition reorder (m : imap) : imap :=
  let fs := m_fs m in
  let l := find_f s_layers fs in
  let fs1 := del_fs s_layers fs in
  let sc := find_f s_scenarios fs1 in
  let fs2 := del_fs s_scenarios fs1 in
  let st := find_f s_steps fs2 in
  let fs3 := del_fs s_steps fs2 in
  IMap (fs3 ++ opt_list l ++ opt_list sc ++ opt_list st) (m_es m).

Definition del_label (m : imap) : imap := IMap (del_fs s_label (m_fs m)) (m_es m).

(* the map a new scenario / first step starts from *)
Definition inherit (base : imap) : imap := del_label (copy_base base).

(* ---------------------------------------------------------------- overlayClasses *)

(* the classes map a board ends with, given the classes map it inherits *)
Definition merged_classes (inh : option imap) (fs : list fld) : option imap :=
  match inh with
  | None => match find_f s_classes fs with Some f => f_comp f | None => None end
  | Some cm =>
      match find_f s_classes fs with
      | None => Some cm
      | Some f => match f_comp f with Some own => Some (overlay_map cm own) | None => None end
      end
  end.

(* the field list after the inherited classes were merged in: appended when the board has none;
   deleted and re-appended (base overlaid by own) when it has a map; left alone otherwise *)
Definition put_classes (inh : option imap) (fs : list fld) : list fld :=
  match inh with
  | None => fs
  | Some cm =>
      match find_f s_classes fs with
      | None => fs ++ [Fld s_classes None (Some cm)]
      | Some f =>
          match f_comp f with
          | Some own => del_fs s_classes fs ++ [Fld s_classes None (Some (overlay_map cm own))]
          | None => fs
          end
      end
  end.

(* oc_in inh m: m after its parent pushed the classes `inh` into it and overlayClasses(m) ran.
   overlayClasses(m) returns at once when m has no classes map: then its layers are not visited. *)
Fixpoint oc_in (inh : option imap) (m : imap) {struct m} : imap :=
  match m with
  | IMap fs es =>
      let mine := merged_classes inh fs in
      let fs1 :=
        match mine with
        | None => fs
        | Some _ =>
            (fix go (fs : list fld) (seen : bool) : list fld :=
               match fs with
               | [] => []
               | Fld n p (Some (IMap lfs les)) :: tl =>
                   if str_eqb n s_layers && negb seen
                   then Fld n p (Some (IMap
                          ((fix go2 (lfs : list fld) : list fld :=
                              match lfs with
                              | [] => []
                              | Fld ln None (Some l) :: ltl => Fld ln None (Some (oc_in mine l)) :: go2 ltl
                              | lf :: ltl => lf :: go2 ltl
                              end) lfs) les)) :: go tl true
                   else Fld n p (Some (IMap lfs les)) :: go tl (seen || str_eqb n s_layers)
               | f :: tl => f :: go tl (seen || str_eqb (f_name f) s_layers)
               end) fs false
        end in
      IMap (put_classes inh fs1) es
  end.

Definition overlay_classes (m : imap) : imap := oc_in None m.

(* ---------------------------------------------------------------- compileMap on the fragment *)

Definition set_fld (prim : option sid) (has_body : bool) (f : fld) : fld :=
  Fld (f_name f)
      (match prim with Some s => Some s | None => f_prim f end)
      (if has_body then Some (map_of f) else f_comp f).

Definition is_some {A} (o : option A) : bool := match o with Some _ => true | None => false end.

(* append a new connection to the map it belongs to: index = number of connections with the same ends *)
Definition add_edge (s d : list str) (prim : option sid) (em : option imap) (m : imap) : imap :=
  IMap (m_fs m) (m_es m ++ [Edg s d (length (filter (same_ends s d) (m_es m))) prim em]).

Definition count_edges (s d : list str) (i : nat) (m : imap) : nat := length (filter (edge_is s d i) (m_es m)).

(* ---- boards: `kind: { name: { body } }` at the root of a board *)

(* the layers / scenarios / steps map of a board *)
Definition kind_map (kn : str) (m : imap) : imap :=
  match find_f kn (m_fs m) with Some kf => map_of kf | None => empty_map end.

(* _compileField on a board field.  Result: the map the board's body is compiled on, the boards map (with
   the board's field ensured; for a step after the first, with CopyBase's re-ordering of the previous
   step), and the parent board's map after CopyBase ran on it.
     existing board (its map is there): no overlay, the body is compiled on the map it has
     layer:     an empty map
     scenario:  a copy of the parent board as it is NOW, without its boards and its label
     step:      first field of the steps map: like a scenario; otherwise a copy of the step before it *)
Definition board_start (k : bkind) (name : str) (km m : imap) : imap * (imap * imap) :=
  match (match find_f name (m_fs km) with Some cf => f_comp cf | None => None end) with
  | Some cm => (cm, (km, m))
  | None =>
      let km1 := IMap (upd_fs name (fun f => f) (m_fs km)) (m_es km) in
      match k with
      | Layers => (empty_map, (km1, m))
      | Scenarios => (inherit m, (km1, reorder m))
      | Steps =>
          match idx_of name (m_fs km1) with
          | O => (inherit m, (km1, reorder m))
          | S j =>
              match nth_error (m_fs km1) j with
              | Some pf =>
                  (inherit (map_of pf),
                   (match f_comp pf with
                    | Some pm => IMap (mod_fs (f_name pf) (fun f => set_comp f (reorder pm)) (m_fs km1)) (m_es km1)
                    | None => km1
                    end, m))
              | None => (empty_map, (km1, m))
              end
          end
      end
  end.

(* after compileMap of a scenario / step: overlayClasses(f.Map()) *)
Definition finish_child (k : bkind) (r : imap) : imap :=
  match k with Layers => r | _ => overlay_classes r end.

Definition put_child (kn name : str) (child km parent : imap) : imap :=
  IMap (upd_fs kn (fun f => set_comp f (IMap (upd_fs name (fun f => set_comp f child) (m_fs km)) (m_es km)))
               (m_fs parent))
       (m_es parent).

(* A declaration is compiled against the root map of the current board.  Nested bodies are compiled
   with their keys prefixed by the scope (`x: { y }` builds the same IR as `x; x.y`), so that a deletion
   deep inside can reach the connections stored in the maps above it.
   Result: the new board map and whether the compiler reported an error. *)
Fixpoint step (scope : list str) (m : imap) (d : decl) {struct d} : imap * bool :=
  let steps :=
    (fix steps (sc : list str) (m : imap) (ds : list decl) {struct ds} : imap * bool :=
       match ds with
       | [] => (m, false)
       | d :: tl =>
           let r1 := step sc m d in
           let r2 := steps sc (fst r1) tl in
           (fst r2, snd r1 || snd r2)
       end) in
  match d with
  | DKey path prim body =>
      let p := scope ++ path in
      let m1 := upd_path p (set_fld prim (is_some body)) m in
      match body with
      | Some ds => steps p m1 ds
      | None => (m1, false)
      end
  | DNull path =>
      let p := scope ++ path in
      (del_path p (upd_path p (fun f => f) m), false)
  | DEdge src dst prim body =>
      let r := trim_common src dst in
      let loc := scope ++ fst r in
      let m1 := at_path loc (fun x => x) m in
      let m2 := upd_path (scope ++ src) (fun f => f) m1 in
      let m3 := upd_path (scope ++ dst) (fun f => f) m2 in
      let em :=
        match body with
        | Some ds => let r := steps [] empty_map ds in (Some (fst r), snd r)
        | None => (None, false)
        end in
      (at_path loc (add_edge (fst (snd r)) (snd (snd r)) prim (fst em)) m3, snd em)
  | DEdgeNull src dst i =>
      let r := trim_common src dst in
      (at_existing (scope ++ fst r)
         (fun x => IMap (m_fs x) (del_first_edge (fst (snd r)) (snd (snd r)) i (m_es x))) m, false)
  | DEdgeSet src dst i prim body =>
      let r := trim_common src dst in
      let loc := scope ++ fst r in
      let s' := fst (snd r) in
      let d' := snd (snd r) in
      let found :=
        match get_map loc m with
        | Some lm => negb (Nat.eqb (count_edges s' d' i lm) 0)
                     && is_some (get_fld (scope ++ src) m) && is_some (get_fld (scope ++ dst) m)
        | None => false
        end in
      if found then
        let upd (e : edg) : edg * bool :=
          if edge_is s' d' i e then
            let em :=
              match body with
              | Some ds => let r := steps [] (opt_map (e_map e)) ds in (Some (fst r), snd r)
              | None => (e_map e, false)
              end in
            (Edg (e_src e) (e_dst e) (e_idx e)
                 (match prim with Some s => Some s | None => e_prim e end) (fst em), snd em)
          else (e, false) in
        (at_existing loc (fun x => IMap (m_fs x) (map (fun e => fst (upd e)) (m_es x))) m,
         match get_map loc m with
         | Some lm => existsb (fun e => snd (upd e)) (m_es lm)
         | None => false
         end)
      else (m, true)
  | DBoards k bs =>
      match scope with
      | _ :: _ => (m, true)                     (* board keywords below the board root: outside the fragment *)
      | [] =>
          let kn := kind_name k in
          (fix boards (bs : list (str * list decl)) (m : imap) {struct bs} : imap * bool :=
             match bs with
             | [] => (m, false)
             | (name, body) :: tl =>
                 let start := board_start k name (kind_map kn m) m in
                 let r := steps [] (fst start) body in
                 let m2 := put_child kn name (finish_child k (fst r)) (fst (snd start)) (snd (snd start)) in
                 let r2 := boards tl m2 in
                 (fst r2, snd r || snd r2)
             end) bs (IMap (upd_fs kn with_map (m_fs m)) (m_es m))
      end
  end.

Fixpoint steps (sc : list str) (m : imap) (ds : list decl) {struct ds} : imap * bool :=
  match ds with
  | [] => (m, false)
  | d :: tl =>
      let r1 := step sc m d in
      let r2 := steps sc (fst r1) tl in
      (fst r2, snd r1 || snd r2)
  end.

(* compileMap of a board body on the map the board starts from *)
Definition cb (m : imap) (ds : list decl) : imap := fst (steps [] m ds).
Definition cb_err (m : imap) (ds : list decl) : bool := snd (steps [] m ds).

(* ---------------------------------------------------------------- compileSubstitutions *)

(* first vars map of the stack that defines v *)
Fixpoint resolve_var (stack : list imap) (v : str) : option sid :=
  match stack with
  | [] => None
  | vm :: tl =>
      match find_f v (m_fs vm) with
      | Some f => f_prim f
      | None => resolve_var tl v
      end
  end.

Definition is_sub (p : part) : bool := match p with PSub _ => true | PLit _ => false end.

(* text of a string with every ${v} replaced by the text of the variable's node; true = unresolved *)
Fixpoint subst_text (stack : list imap) (st : store) (v : sval) : str * bool :=
  match v with
  | [] => ([], false)
  | PLit s :: tl => let r := subst_text stack st tl in (s ++ fst r, snd r)
  | PSub x :: tl =>
      let r := subst_text stack st tl in
      match resolve_var stack x with
      | Some s' => (sid_str st s' ++ fst r, snd r)
      | None => (fst r, true)
      end
  end.

(* resolveSubstitutions on one IR scalar pointing at node s.
   - the node is exactly one substitution: the IR scalar is re-pointed at the variable's node
     (node.Primary().Value = resolvedField.Primary().Value); the store is not written
   - the node mixes text and substitutions: the NODE is rewritten in place (s.Value[i].String = ...,
     then Coalesce): a store write that every IR scalar aliasing the node observes
   - no substitution: nothing *)
Definition resolve_prim (stack : list imap) (st : store) (s : sid) : sid * (store * bool) :=
  let parts := st_get st s in
  match parts with
  | [PSub v] =>
      match resolve_var stack v with
      | Some s' => (s', (st, false))
      | None => (s, (st, true))
      end
  | _ =>
      if existsb is_sub parts
      then let r := subst_text stack st parts in (s, (st_set st s [PLit (fst r)], snd r))
      else (s, (st, false))
  end.

Definition resolve_opt (stack : list imap) (st : store) (o : option sid) : option sid * (store * bool) :=
  match o with
  | Some s => let r := resolve_prim stack st s in (Some (fst r), snd r)
  | None => (None, (st, false))
  end.

(* the vars map of a map is pushed before its fields are visited *)
Definition push_vars (stack : list imap) (fs : list fld) : list imap :=
  match find_f s_vars fs with
  | Some f => match f_comp f with Some vm => vm :: stack | None => stack end
  | None => stack
  end.

Fixpoint subst_map (stack : list imap) (m : imap) (st : store) {struct m} : imap * (store * bool) :=
  match m with
  | IMap fs es =>
      let stack' := push_vars stack fs in
      let rf :=
        (fix go (fs : list fld) (st : store) : list fld * (store * bool) :=
           match fs with
           | [] => ([], (st, false))
           | Fld n p c :: tl =>
               let rp := resolve_opt stack' st p in
               let rc :=
                 match c with
                 | Some sub => let r := subst_map stack' sub (fst (snd rp)) in (Some (fst r), snd r)
                 | None => (None, (fst (snd rp), false))
                 end in
               let rt := go tl (fst (snd rc)) in
               (Fld n (fst rp) (fst rc) :: fst rt,
                (fst (snd rt), snd (snd rp) || snd (snd rc) || snd (snd rt)))
           end) fs st in
      let re :=
        (fix go (es : list edg) (st : store) : list edg * (store * bool) :=
           match es with
           | [] => ([], (st, false))
           | Edg s d i p em :: tl =>
               let rp := resolve_opt stack' st p in
               let rc :=
                 match em with
                 | Some sub => let r := subst_map stack' sub (fst (snd rp)) in (Some (fst r), snd r)
                 | None => (None, (fst (snd rp), false))
                 end in
               let rt := go tl (fst (snd rc)) in
               (Edg s d i (fst rp) (fst rc) :: fst rt,
                (fst (snd rt), snd (snd rp) || snd (snd rc) || snd (snd rt)))
           end) es (fst (snd rf)) in
      (IMap (fst rf) (fst re), (fst (snd re), snd (snd rf) || snd (snd re)))
  end.

(* ---------------------------------------------------------------- d2ir.Compile *)

Record result := mkResult { r_map : imap; r_store : store; r_err : bool }.

Definition run (prog : list decl) (st : store) : result :=
  let r := steps [] empty_map prog in
  let s := subst_map [] (fst r) st in
  mkResult (overlay_classes (fst s)) (fst (snd s)) (snd r || snd (snd s)).

(* ---------------------------------------------------------------- d2compiler: projection of a board *)

Record attrs := mkAttrs { a_label : str; a_shape : str; a_style : list (str * str); a_classes : list str }.

Fixpoint set_kv (k v : str) (l : list (str * str)) : list (str * str) :=
  match l with
  | [] => [(k, v)]
  | (k', v') :: tl => if str_eqb k' k then (k, v) :: tl else (k', v') :: set_kv k v tl
  end.

Fixpoint get_kv (k : str) (l : list (str * str)) : str :=
  match l with
  | [] => []
  | (k', v') :: tl => if str_eqb k' k then v' else get_kv k tl
  end.

Definition is_reserved (n : str) : bool :=
  str_eqb n s_label || str_eqb n s_shape || str_eqb n s_style || str_eqb n s_class
  || str_eqb n s_classes || str_eqb n s_vars || is_board_name n.

Definition apply_style (st : store) (a : attrs) (sm : imap) : attrs :=
  fold_left (fun a f =>
               match f_prim f with
               | Some s => mkAttrs (a_label a) (a_shape a) (set_kv (f_name f) (sid_str st s) (a_style a)) (a_classes a)
               | None => a
               end) (m_fs sm) a.

(* compileField for a reserved field (shape is compiled before the loop and skipped in it) *)
Definition apply_reserved (st : store) (a : attrs) (f : fld) : attrs :=
  let n := f_name f in
  if str_eqb n s_label then
    match f_prim f with
    | Some s => mkAttrs (sid_str st s) (a_shape a) (a_style a) (a_classes a)
    | None => a
    end
  else if str_eqb n s_style then apply_style st a (map_of f)
  else if str_eqb n s_class then
    match f_prim f with
    | Some s => mkAttrs (a_label a) (a_shape a) (a_style a) (a_classes a ++ [sid_str st s])
    | None => a
    end
  else a.

Definition apply_shape (st : store) (a : attrs) (m : imap) : attrs :=
  match find_f s_shape (m_fs m) with
  | Some f =>
      match f_prim f with
      | Some s => mkAttrs (a_label a) (sid_str st s) (a_style a) (a_classes a)
      | None => a
      end
  | None => a
  end.

(* the attribute part of compileMap(obj, m) for a map without a class field *)
Definition apply_plain (st : store) (a : attrs) (m : imap) : attrs :=
  fold_left (apply_reserved st) (m_fs m) (apply_shape st a m).

(* compileMap(obj, m): the class map first, then shape, then the fields in order *)
Definition apply_map (st : store) (cls : imap) (a : attrs) (m : imap) : attrs :=
  let a1 :=
    match find_f s_class (m_fs m) with
    | Some cf =>
        match f_prim cf with
        | Some s =>
            match find_f (sid_str st s) (m_fs cls) with
            | Some c => match f_comp c with Some cm => apply_plain st a cm | None => a end
            | None => a
            end
        | None => a
        end
    | None => a
    end in
  apply_plain st a1 m.

Definition pobj := (list str * attrs)%type.
Record pedge := mkPedge { pe_src : list str; pe_dst : list str; pe_idx : nat; pe_attrs : attrs }.

Definition with_label (st : store) (a : attrs) (p : option sid) : attrs :=
  match p with
  | Some s => mkAttrs (sid_str st s) (a_shape a) (a_style a) (a_classes a)
  | None => a
  end.

Definition default_shape (a : attrs) : attrs :=
  match a_shape a with
  | [] => mkAttrs (a_label a) s_rectangle (a_style a) (a_classes a)
  | _ => a
  end.

Fixpoint objs (st : store) (cls : imap) (prefix : list str) (m : imap) {struct m} : list pobj :=
  match m with
  | IMap fs _ =>
      (fix go (fs : list fld) : list pobj :=
         match fs with
         | [] => []
         | Fld n p c :: tl =>
             if is_reserved n then go tl
             else
               let path := prefix ++ [n] in
               let a0 := with_label st (mkAttrs n [] [] []) p in
               match c with
               | Some sub => (path, default_shape (apply_map st cls a0 sub)) :: objs st cls path sub ++ go tl
               | None => (path, default_shape a0) :: go tl
               end
         end) fs
  end.

Fixpoint edge_list (st : store) (cls : imap) (prefix : list str) (seen : list edg) (es : list edg) : list pedge :=
  match es with
  | [] => []
  | e :: tl =>
      let a0 := with_label st (mkAttrs [] [] [] []) (e_prim e) in
      let a1 := match e_map e with Some em => apply_map st cls a0 em | None => a0 end in
      mkPedge (prefix ++ e_src e) (prefix ++ e_dst e)
              (length (filter (same_ends (e_src e) (e_dst e)) seen)) a1
      :: edge_list st cls prefix (seen ++ [e]) tl
  end.

Fixpoint edges (st : store) (cls : imap) (prefix : list str) (m : imap) {struct m} : list pedge :=
  match m with
  | IMap fs es =>
      (fix go (fs : list fld) : list pedge :=
         match fs with
         | [] => []
         | Fld n _ (Some sub) :: tl =>
             if is_reserved n then go tl else edges st cls (prefix ++ [n]) sub ++ go tl
         | _ :: tl => go tl
         end) fs
      ++ edge_list st cls prefix [] es
  end.

Definition classes_of (m : imap) : imap :=
  match find_f s_classes (m_fs m) with
  | Some f => map_of f
  | None => empty_map
  end.

Inductive pboard := PBoard (os : list pobj) (pes : list pedge) (kids : list (str * str * pboard)).

Fixpoint proj_board (st : store) (m : imap) {struct m} : pboard :=
  match m with
  | IMap fs es =>
      PBoard (objs st (classes_of (IMap fs es)) [] (IMap fs es))
             (edges st (classes_of (IMap fs es)) [] (IMap fs es))
             ((fix kids (l : list fld) (seen : list str) : list (str * str * pboard) :=
                 match l with
                 | [] => []
                 | Fld n _ (Some (IMap kfs _)) :: tl =>
                     if is_board_name n && negb (existsb (str_eqb n) seen) then
                       (fix kids2 (kfs : list fld) : list (str * str * pboard) :=
                          match kfs with
                          | [] => []
                          | Fld cn _ (Some cm) :: ktl => (n, cn, proj_board st cm) :: kids2 ktl
                          | Fld cn _ None :: ktl => (n, cn, PBoard [] [] []) :: kids2 ktl
                          end) kfs ++ kids tl (n :: seen)
                     else kids tl seen
                 | _ :: tl => kids tl seen
                 end) fs [])
  end.

(* what d2compiler.Compile returns for the program: None = a compile error *)
Definition compile (prog : list decl) (st : store) : option pboard :=
  let r := run prog st in
  if r_err r then None else Some (proj_board (r_store r) (r_map r)).
