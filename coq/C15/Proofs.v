(* C15 — proofs about the model in Boards.v *)
From Coq Require Import List NArith Bool Arith Lia.
Import ListNotations.
Require Import V.C15.Boards V.C15.Variants.

(* ---------------------------------------------------------------- strings *)

Lemma str_eqb_refl s : str_eqb s s = true.
Proof. induction s; simpl; auto. rewrite N.eqb_refl; auto. Qed.

Lemma str_eqb_eq a b : str_eqb a b = true <-> a = b.
Proof.
  revert b; induction a as [|x xs IH]; intros [|y ys]; simpl; split; intro H; try easy.
  - apply andb_prop in H as [H1 H2]. apply N.eqb_eq in H1. apply IH in H2. congruence.
  - inversion H; subst. rewrite N.eqb_refl. apply IH. reflexivity.
Qed.

Lemma str_eqb_neq a b : str_eqb a b = false <-> a <> b.
Proof.
  split; intro H.
  - intro E. apply str_eqb_eq in E. congruence.
  - destruct (str_eqb a b) eqn:E; auto. apply str_eqb_eq in E. contradiction.
Qed.

Lemma str_eqb_sym a b : str_eqb a b = str_eqb b a.
Proof.
  destruct (str_eqb a b) eqn:E.
  - apply str_eqb_eq in E. subst. symmetry. apply str_eqb_refl.
  - destruct (str_eqb b a) eqn:E2; auto. apply str_eqb_eq in E2. subst. rewrite str_eqb_refl in E. discriminate.
Qed.

(* ---------------------------------------------------------------- name-preserving field functions *)

Definition name_pres (k : fld -> fld) : Prop := forall f, f_name (k f) = f_name f.

Lemma np_id : name_pres (fun f => f).
Proof. intro f; reflexivity. Qed.
Lemma np_set_comp g : name_pres (fun f => set_comp f (g f)).
Proof. intro f; reflexivity. Qed.
Lemma np_with_map : name_pres with_map.
Proof. intro f; reflexivity. Qed.
Lemma np_set_fld p b : name_pres (set_fld p b).
Proof. intro f; reflexivity. Qed.

Global Hint Resolve np_id np_set_comp np_with_map np_set_fld : np.

(* ---------------------------------------------------------------- one level: find / upd / mod / del *)

Lemma find_upd_other x n k fs : n <> x -> name_pres k -> find_f x (upd_fs n k fs) = find_f x fs.
Proof.
  intros Hn Hk. induction fs as [|f tl IH]; simpl.
  - rewrite Hk. simpl. apply str_eqb_neq in Hn. rewrite Hn. reflexivity.
  - destruct (str_eqb (f_name f) n) eqn:E; simpl.
    + rewrite Hk. apply str_eqb_eq in E. rewrite E. apply str_eqb_neq in Hn. rewrite Hn. reflexivity.
    + rewrite IH. reflexivity.
Qed.

Lemma find_mod_other x n k fs : n <> x -> name_pres k -> find_f x (mod_fs n k fs) = find_f x fs.
Proof.
  intros Hn Hk. induction fs as [|f tl IH]; simpl; auto.
  destruct (str_eqb (f_name f) n) eqn:E; simpl.
  - rewrite Hk. apply str_eqb_eq in E. rewrite E. apply str_eqb_neq in Hn. rewrite Hn. reflexivity.
  - rewrite IH. reflexivity.
Qed.

Lemma find_del_other x n fs : n <> x -> find_f x (del_fs n fs) = find_f x fs.
Proof.
  intros Hn. induction fs as [|f tl IH]; simpl; auto.
  destruct (str_eqb (f_name f) n) eqn:E; simpl.
  - apply str_eqb_eq in E. rewrite E. apply str_eqb_neq in Hn. rewrite Hn. reflexivity.
  - rewrite IH. reflexivity.
Qed.

Lemma find_app x a b : find_f x (a ++ b) = match find_f x a with Some f => Some f | None => find_f x b end.
Proof. induction a as [|f tl IH]; simpl; auto. destruct (str_eqb (f_name f) x); auto. Qed.

Lemma find_some_name x fs f : find_f x fs = Some f -> f_name f = x.
Proof.
  induction fs as [|g tl IH]; simpl; try easy.
  destruct (str_eqb (f_name g) x) eqn:E; auto. intro H; inversion H; subst. apply str_eqb_eq; auto.
Qed.

Lemma find_upd_same n k fs :
  name_pres k ->
  find_f n (upd_fs n k fs) = Some (k (match find_f n fs with Some f => f | None => Fld n None None end)).
Proof.
  intro Hk. induction fs as [|f tl IH]; simpl.
  - rewrite Hk. simpl. rewrite str_eqb_refl. reflexivity.
  - destruct (str_eqb (f_name f) n) eqn:E; simpl.
    + rewrite Hk, E. reflexivity.
    + rewrite E. apply IH.
Qed.

Lemma del_none n fs : find_f n fs = None -> del_fs n fs = fs.
Proof.
  induction fs as [|f tl IH]; simpl; auto.
  destruct (str_eqb (f_name f) n); try easy. intro H. rewrite IH; auto.
Qed.

(* ---------------------------------------------------------------- filtering fields by name *)

Section Keep.
  Variable keep : str -> bool.
  Definition K (f : fld) : bool := keep (f_name f).
  Definition keepm (m : imap) : imap := IMap (filter K (m_fs m)) (m_es m).

  Lemma keep_upd h k fs : keep h = true -> name_pres k ->
    filter K (upd_fs h k fs) = upd_fs h k (filter K fs).
  Proof.
    intros Hh Hk. induction fs as [|f tl IH]; simpl.
    - unfold K. rewrite Hk. simpl. rewrite Hh. reflexivity.
    - destruct (str_eqb (f_name f) h) eqn:E; simpl.
      + assert (K f = true) by (unfold K; apply str_eqb_eq in E; rewrite E; auto).
        assert (K (k f) = true) by (unfold K in *; rewrite Hk; auto).
        rewrite H, H0. simpl. rewrite E. reflexivity.
      + destruct (K f) eqn:Kf; simpl; rewrite IH; auto. rewrite E. reflexivity.
  Qed.

  Lemma keep_mod h k fs : keep h = true -> name_pres k ->
    filter K (mod_fs h k fs) = mod_fs h k (filter K fs).
  Proof.
    intros Hh Hk. induction fs as [|f tl IH]; simpl; auto.
    destruct (str_eqb (f_name f) h) eqn:E; simpl.
    - assert (K f = true) by (unfold K; apply str_eqb_eq in E; rewrite E; auto).
      assert (K (k f) = true) by (unfold K in *; rewrite Hk; auto).
      rewrite H, H0. simpl. rewrite E. reflexivity.
    - destruct (K f) eqn:Kf; simpl; rewrite IH; auto. rewrite E. reflexivity.
  Qed.

  Lemma keep_del h fs : keep h = true -> filter K (del_fs h fs) = del_fs h (filter K fs).
  Proof.
    intros Hh. induction fs as [|f tl IH]; simpl; auto.
    destruct (str_eqb (f_name f) h) eqn:E; simpl.
    - assert (K f = true) by (unfold K; apply str_eqb_eq in E; rewrite E; auto).
      rewrite H. simpl. rewrite E. reflexivity.
    - destruct (K f) eqn:Kf; simpl; rewrite IH; auto. rewrite E. reflexivity.
  Qed.

  Lemma keep_find h fs : keep h = true -> find_f h (filter K fs) = find_f h fs.
  Proof.
    intros Hh. induction fs as [|f tl IH]; simpl; auto.
    destruct (str_eqb (f_name f) h) eqn:E; simpl.
    - assert (K f = true) by (unfold K; apply str_eqb_eq in E; rewrite E; auto).
      rewrite H. simpl. rewrite E. reflexivity.
    - destruct (K f) eqn:Kf; simpl; auto. rewrite E. auto.
  Qed.

  (* a function that only rewrites the connections of a map commutes with the filter *)
  Definition es_only (g : imap -> imap) : Prop :=
    forall m, m_fs (g m) = m_fs m /\ m_es (g (keepm m)) = m_es (g m).

  Lemma keepm_es_only g m : es_only g -> keepm (g m) = g (keepm m).
  Proof.
    intros H. destruct (H m) as [A B]. destruct (H (keepm m)) as [C _].
    unfold keepm at 1. rewrite A.
    destruct (g (keepm m)) as [fs' es'] eqn:E. simpl in *. subst. reflexivity.
  Qed.

  Definition head_ok (p : list str) : bool := match p with h :: _ => keep h | [] => false end.

  Lemma keep_upd_path p k m : head_ok p = true -> name_pres k ->
    keepm (upd_path p k m) = upd_path p k (keepm m).
  Proof.
    destruct p as [|h rest]; simpl; try easy. intros Hh Hk.
    destruct rest; unfold keepm; simpl.
    - rewrite keep_upd; auto.
    - rewrite keep_upd; auto. intro f; reflexivity.
  Qed.

  Lemma keep_at_path p g m : head_ok p = true -> keepm (at_path p g m) = at_path p g (keepm m).
  Proof.
    destruct p as [|h rest]; simpl; try easy. intros Hh.
    unfold keepm; simpl. rewrite keep_upd; auto. intro f; reflexivity.
  Qed.

  Lemma keep_at_existing p g m : head_ok p = true -> keepm (at_existing p g m) = at_existing p g (keepm m).
  Proof.
    destruct p as [|h rest]; simpl; try easy. intros Hh.
    rewrite keep_find by auto.
    destruct (find_f h (m_fs m)) as [f|]; auto.
    destruct (f_comp f); auto.
    unfold keepm; simpl. rewrite keep_mod; auto. intro f'; reflexivity.
  Qed.

  Lemma keep_del_path p m : head_ok p = true -> keepm (del_path p m) = del_path p (keepm m).
  Proof.
    destruct p as [|h rest]; simpl; try easy. intros Hh.
    destruct rest.
    - unfold keepm; simpl. rewrite keep_del; auto.
    - rewrite keep_find by auto.
      destruct (find_f h (m_fs m)) as [f|]; auto.
      match goal with |- context [if ?c then _ else _] => destruct c end;
        unfold keepm; simpl.
      + rewrite keep_del; auto.
      + rewrite keep_mod; auto. intro f'; reflexivity.
  Qed.

  Lemma keep_get_map p m : head_ok p = true -> get_map p (keepm m) = get_map p m.
  Proof. destruct p as [|h rest]; simpl; try easy. intros Hh. rewrite keep_find; auto. Qed.

  Lemma keep_get_fld p m : head_ok p = true -> get_fld p (keepm m) = get_fld p m.
  Proof. destruct p as [|h rest]; simpl; try easy. intros Hh. rewrite keep_find; auto. Qed.
End Keep.

(* ---------------------------------------------------------------- induction on declarations *)

Definition body_all (P : decl -> Prop) (body : option (list decl)) : Prop :=
  match body with Some ds => Forall P ds | None => True end.

Section DeclInd.
  Variable P : decl -> Prop.
  Hypothesis HKey : forall path prim body, body_all P body -> P (DKey path prim body).
  Hypothesis HNull : forall p, P (DNull p).
  Hypothesis HEdge : forall s d prim body, body_all P body -> P (DEdge s d prim body).
  Hypothesis HEdgeNull : forall s d i, P (DEdgeNull s d i).
  Hypothesis HEdgeSet : forall s d i prim body, body_all P body -> P (DEdgeSet s d i prim body).
  Hypothesis HBoards : forall k bs, Forall (fun b => Forall P (snd b)) bs -> P (DBoards k bs).

  Fixpoint decl_ind' (d : decl) : P d :=
    let lst := (fix go (ds : list decl) : Forall P ds :=
                  match ds with
                  | [] => Forall_nil _
                  | d :: tl => Forall_cons _ (decl_ind' d) (go tl)
                  end) in
    let bod := fun (body : option (list decl)) =>
                 match body return body_all P body with
                 | Some ds => lst ds
                 | None => I
                 end in
    match d with
    | DKey path prim body => HKey path prim body (bod body)
    | DNull p => HNull p
    | DEdge s d prim body => HEdge s d prim body (bod body)
    | DEdgeNull s d i => HEdgeNull s d i
    | DEdgeSet s d i prim body => HEdgeSet s d i prim body (bod body)
    | DBoards k bs =>
        HBoards k bs
          ((fix gob (bs : list (str * list decl)) : Forall (fun b => Forall P (snd b)) bs :=
              match bs with
              | [] => Forall_nil _
              | b :: tl => Forall_cons _ (lst (snd b)) (gob tl)
              end) bs)
    end.
End DeclInd.

(* ---------------------------------------------------------------- equations of `step` *)

Definition stepm (sc : list str) (m : imap) (d : decl) : imap := fst (step sc m d).
Definition stepsm (sc : list str) (m : imap) (ds : list decl) : imap := fst (steps sc m ds).

Lemma stepsm_nil sc m : stepsm sc m [] = m.
Proof. reflexivity. Qed.

Lemma stepsm_cons sc m d ds : stepsm sc m (d :: ds) = stepsm sc (stepm sc m d) ds.
Proof. reflexivity. Qed.

Lemma stepsm_app sc m a b : stepsm sc m (a ++ b) = stepsm sc (stepsm sc m a) b.
Proof. revert m; induction a as [|d a IH]; intro m; simpl; auto. rewrite !stepsm_cons. apply IH. Qed.

Lemma cb_app m a b : cb m (a ++ b) = cb (cb m a) b.
Proof. apply stepsm_app. Qed.

Lemma step_key sc m path prim body :
  stepm sc m (DKey path prim body) =
  match body with
  | Some ds => stepsm (sc ++ path) (upd_path (sc ++ path) (set_fld prim true) m) ds
  | None => upd_path (sc ++ path) (set_fld prim false) m
  end.
Proof. destruct body; reflexivity. Qed.

Lemma step_null sc m path :
  stepm sc m (DNull path) = del_path (sc ++ path) (upd_path (sc ++ path) (fun f => f) m).
Proof. reflexivity. Qed.

Definition edge_body (body : option (list decl)) : option imap :=
  match body with Some ds => Some (stepsm [] empty_map ds) | None => None end.

Lemma step_edge sc m src dst prim body :
  stepm sc m (DEdge src dst prim body) =
  let r := trim_common src dst in
  let loc := sc ++ fst r in
  at_path loc (add_edge (fst (snd r)) (snd (snd r)) prim (edge_body body))
    (upd_path (sc ++ dst) (fun f => f) (upd_path (sc ++ src) (fun f => f) (at_path loc (fun x => x) m))).
Proof. destruct body; reflexivity. Qed.

Lemma step_edge_null sc m src dst i :
  stepm sc m (DEdgeNull src dst i) =
  let r := trim_common src dst in
  at_existing (sc ++ fst r)
    (fun x => IMap (m_fs x) (del_first_edge (fst (snd r)) (snd (snd r)) i (m_es x))) m.
Proof. reflexivity. Qed.

(* what an indexed connection key does to one connection *)
Definition set_edge (s' d' : list str) (i : nat) (prim : option sid) (body : option (list decl)) (e : edg) : edg :=
  if edge_is s' d' i e then
    Edg (e_src e) (e_dst e) (e_idx e)
        (match prim with Some s => Some s | None => e_prim e end)
        (match body with
         | Some ds => Some (stepsm [] (opt_map (e_map e)) ds)
         | None => e_map e
         end)
  else e.

Definition edge_found (sc src dst : list str) (i : nat) (m : imap) : bool :=
  let r := trim_common src dst in
  match get_map (sc ++ fst r) m with
  | Some lm => negb (Nat.eqb (count_edges (fst (snd r)) (snd (snd r)) i lm) 0)
               && is_some (get_fld (sc ++ src) m) && is_some (get_fld (sc ++ dst) m)
  | None => false
  end.

Lemma mod_fs_ext n k k' fs : (forall f, k f = k' f) -> mod_fs n k fs = mod_fs n k' fs.
Proof.
  intro H. induction fs as [|f tl IH]; simpl; auto.
  destruct (str_eqb (f_name f) n); [rewrite H | rewrite IH]; reflexivity.
Qed.

Lemma at_existing_ext p g g' : (forall x, g x = g' x) -> forall m, at_existing p g m = at_existing p g' m.
Proof.
  intro H. induction p as [|n rest IH]; intro m; simpl; auto.
  destruct (find_f n (m_fs m)) as [f|]; auto. destruct (f_comp f) as [sub|]; auto.
  f_equal. apply mod_fs_ext. intro f'. rewrite IH. reflexivity.
Qed.

Lemma step_edge_set sc m src dst i prim body :
  stepm sc m (DEdgeSet src dst i prim body) =
  let r := trim_common src dst in
  if edge_found sc src dst i m
  then at_existing (sc ++ fst r)
         (fun x => IMap (m_fs x) (map (set_edge (fst (snd r)) (snd (snd r)) i prim body) (m_es x))) m
  else m.
Proof.
  unfold stepm, edge_found. simpl.
  destruct (get_map (sc ++ fst (trim_common src dst)) m) as [lm|]; simpl; auto.
  match goal with |- context [if ?c then _ else _] => destruct c end; simpl; auto.
  apply at_existing_ext. intro x. f_equal. apply map_ext. intro e.
  unfold set_edge. destruct (edge_is _ _ i e); destruct body; reflexivity.
Qed.

Fixpoint boards_go (k : bkind) (bs : list (str * list decl)) (m : imap) : imap :=
  match bs with
  | [] => m
  | (name, body) :: tl =>
      let start := board_start k name (kind_map (kind_name k) m) m in
      boards_go k tl
        (put_child (kind_name k) name (finish_child k (stepsm [] (fst start) body))
                   (fst (snd start)) (snd (snd start)))
  end.

Lemma step_boards m k bs :
  stepm [] m (DBoards k bs) =
  boards_go k bs (IMap (upd_fs (kind_name k) with_map (m_fs m)) (m_es m)).
Proof.
  unfold stepm. simpl.
  generalize (IMap (upd_fs (kind_name k) with_map (m_fs m)) (m_es m)). clear m.
  induction bs as [|[name body] tl IH]; intro m; simpl; auto.
Qed.

Lemma step_boards_nested h sc m k bs : stepm (h :: sc) m (DBoards k bs) = m.
Proof. reflexivity. Qed.

(* ---------------------------------------------------------------- declarations that do not name a filtered field *)

Lemma trim_common_head src dst :
  match fst (trim_common src dst) with
  | h :: _ => exists t, src = h :: t
  | [] => True
  end.
Proof.
  destruct src as [|s [|s2 stl]]; simpl; auto.
  destruct dst as [|d [|d2 dtl]]; simpl; auto.
  destruct (str_eqb s d); simpl; eauto.
Qed.

Section KeepStep.
  Variable keep : str -> bool.
  Notation KM := (keepm keep).
  Notation HO := (head_ok keep).

  (* the first segment of every absolute key of the declaration is kept *)
  Definition top_ok (sc : list str) (d : decl) : bool :=
    match sc with
    | h :: _ => keep h
    | [] =>
        match d with
        | DKey p _ _ => HO p
        | DNull p => HO p
        | DEdge s t _ _ => HO s && HO t
        | DEdgeNull s t _ => HO s && HO t
        | DEdgeSet s t _ _ _ => HO s && HO t
        | DBoards _ _ => false
        end
    end.

  Lemma ho_app sc p : HO sc = true -> HO (sc ++ p) = true.
  Proof. destruct sc; simpl; auto. discriminate. Qed.

  Lemma ho_scope sc p d : top_ok sc d = true -> (sc <> [] \/ HO p = true) -> HO (sc ++ p) = true.
  Proof. destruct sc as [|h t]; simpl; intros H [A|A]; auto; congruence. Qed.

  (* the map that holds a connection: either the board root (then only connections change) or a path
     whose head is kept *)
  Lemma loc_ok sc src dst : HO (sc ++ src) = true ->
    sc ++ fst (trim_common src dst) = [] \/ HO (sc ++ fst (trim_common src dst)) = true.
  Proof.
    intro H. destruct sc as [|h t]; simpl in *; auto.
    pose proof (trim_common_head src dst) as T.
    destruct (fst (trim_common src dst)) as [|c ct]; auto.
    destruct T as [t' ->]. simpl in H. auto.
  Qed.

  Lemma es_only_id : es_only keep (fun x => x).
  Proof. intro m; split; reflexivity. Qed.

  Lemma es_only_es (h : list edg -> list edg) : es_only keep (fun x => IMap (m_fs x) (h (m_es x))).
  Proof. intro m; split; reflexivity. Qed.

  Lemma es_only_add s d prim em : es_only keep (add_edge s d prim em).
  Proof. intro m; split; reflexivity. Qed.

  Lemma keep_at_path' p g m : (p = [] /\ es_only keep g) \/ HO p = true ->
    KM (at_path p g m) = at_path p g (KM m).
  Proof.
    intros [[-> H] | H].
    - simpl. apply keepm_es_only; auto.
    - apply keep_at_path; auto.
  Qed.

  Lemma keep_at_existing' p g m : (p = [] /\ es_only keep g) \/ HO p = true ->
    KM (at_existing p g m) = at_existing p g (KM m).
  Proof.
    intros [[-> H] | H].
    - simpl. apply keepm_es_only; auto.
    - apply keep_at_existing; auto.
  Qed.

  Lemma keep_get_map' p m : p = [] \/ HO p = true ->
    option_map m_es (get_map p (KM m)) = option_map m_es (get_map p m).
  Proof.
    intros [-> | H]; simpl; auto. rewrite keep_get_map; auto.
  Qed.

  Definition PK (d : decl) : Prop :=
    forall sc m, top_ok sc d = true -> KM (stepm sc m d) = stepm sc (KM m) d.

  Lemma steps_keep ds : Forall PK ds ->
    forall sc m, HO sc = true -> KM (stepsm sc m ds) = stepsm sc (KM m) ds.
  Proof.
    induction 1 as [|d ds Hd _ IH]; intros sc m Hs; auto.
    rewrite !stepsm_cons. rewrite IH by auto. f_equal. apply Hd.
    destruct sc; simpl in *; auto. discriminate.
  Qed.

  Lemma edge_found_keep sc src dst i m :
    HO (sc ++ src) = true -> HO (sc ++ dst) = true ->
    edge_found sc src dst i (KM m) = edge_found sc src dst i m.
  Proof.
    intros Hs Hd. unfold edge_found.
    rewrite !keep_get_fld by auto.
    pose proof (keep_get_map' (sc ++ fst (trim_common src dst)) m) as G.
    destruct (loc_ok sc src dst Hs) as [E | E].
    - rewrite E in *. simpl. reflexivity.
    - rewrite keep_get_map by auto. reflexivity.
  Qed.

  Lemma step_keep : forall d, PK d.
  Proof.
    induction d using decl_ind'; intros sc m Hok.
    - (* DKey *)
      assert (Hp : HO (sc ++ path) = true).
      { destruct sc; simpl in *; auto. }
      rewrite !step_key. destruct body as [ds|].
      + rewrite steps_keep by auto. rewrite keep_upd_path; auto with np.
      + rewrite keep_upd_path; auto with np.
    - (* DNull *)
      assert (Hp : HO (sc ++ p) = true).
      { destruct sc; simpl in *; auto. }
      rewrite !step_null. rewrite keep_del_path, keep_upd_path; auto with np.
    - (* DEdge *)
      assert (Hs : HO (sc ++ s) = true /\ HO (sc ++ d) = true).
      { destruct sc; simpl in *; auto. apply andb_prop in Hok. auto. }
      destruct Hs as [Hs Hd].
      rewrite !step_edge. cbv zeta.
      destruct (loc_ok sc s d Hs) as [E | E].
      + rewrite E. simpl at_path.
        rewrite keepm_es_only by apply es_only_add.
        rewrite !keep_upd_path; auto with np.
      + rewrite keep_at_path by auto. rewrite !keep_upd_path by auto with np.
        rewrite keep_at_path by auto. reflexivity.
    - (* DEdgeNull *)
      assert (Hs : HO (sc ++ s) = true).
      { destruct sc; simpl in *; auto. apply andb_prop in Hok. tauto. }
      rewrite !step_edge_null. cbv zeta.
      apply keep_at_existing'.
      destruct (loc_ok sc s d Hs) as [E | E]; auto.
      left; split; auto. apply es_only_es.
    - (* DEdgeSet *)
      assert (Hs : HO (sc ++ s) = true /\ HO (sc ++ d) = true).
      { destruct sc; simpl in *; auto. apply andb_prop in Hok. auto. }
      destruct Hs as [Hs Hd].
      rewrite !step_edge_set. cbv zeta. rewrite edge_found_keep by auto.
      destruct (edge_found sc s d i m); auto.
      apply keep_at_existing'.
      destruct (loc_ok sc s d Hs) as [E | E]; auto.
      left; split; auto. apply es_only_es.
    - (* DBoards *)
      destruct sc as [|h t]; simpl in Hok; try discriminate.
      rewrite !step_boards_nested. reflexivity.
  Qed.

  (* every top-level declaration of the list is a plain declaration whose keys start with a kept name *)
  Definition all_top_ok (ds : list decl) : bool := forallb (top_ok []) ds.

  Lemma cb_keep ds : all_top_ok ds = true -> forall m, KM (cb m ds) = cb (KM m) ds.
  Proof.
    change (all_top_ok ds = true -> forall m, KM (stepsm [] m ds) = stepsm [] (KM m) ds).
    induction ds as [|d ds IH]; intros H m; auto.
    simpl in H. apply andb_prop in H as [H1 H2].
    rewrite !stepsm_cons. rewrite IH by auto.
    f_equal. apply step_keep; auto.
  Qed.

  Lemma drop_upd h k fs : keep h = false -> name_pres k -> filter (K keep) (upd_fs h k fs) = filter (K keep) fs.
  Proof.
    intros Hh Hk. induction fs as [|f tl IH]; simpl.
    - unfold K. rewrite Hk. simpl. rewrite Hh. reflexivity.
    - destruct (str_eqb (f_name f) h) eqn:E; simpl.
      + assert (K keep f = false) by (unfold K; apply str_eqb_eq in E; rewrite E; auto).
        assert (K keep (k f) = false) by (unfold K in *; rewrite Hk; auto).
        rewrite H, H0. reflexivity.
      + rewrite IH. reflexivity.
  Qed.

  Lemma drop_del h fs : keep h = false -> filter (K keep) (del_fs h fs) = filter (K keep) fs.
  Proof.
    intros Hh. induction fs as [|f tl IH]; simpl; auto.
    destruct (str_eqb (f_name f) h) eqn:E; simpl.
    - assert (K keep f = false) by (unfold K; apply str_eqb_eq in E; rewrite E; auto).
      rewrite H. reflexivity.
    - rewrite IH. reflexivity.
  Qed.
End KeepStep.

(* ---------------------------------------------------------------- child boards do not touch the base *)

Definition nb (n : str) : bool := negb (is_board_name n).

Lemma copy_base_keepm m : copy_base m = keepm nb m.
Proof. reflexivity. Qed.

Lemma nb_kind k : nb (kind_name k) = false.
Proof. destruct k; reflexivity. Qed.

Lemma filter_opt_board n fs :
  is_board_name n = true -> filter (K nb) (opt_list (find_f n fs)) = [].
Proof.
  intro H. destruct (find_f n fs) as [f|] eqn:E; simpl; auto.
  apply find_some_name in E. unfold K, nb. rewrite E, H. reflexivity.
Qed.

Lemma copy_base_reorder m : copy_base (reorder m) = copy_base m.
Proof.
  unfold copy_base, reorder. simpl. f_equal.
  change (fun f => negb (is_board_fld f)) with (K nb).
  rewrite !filter_app.
  rewrite !filter_opt_board by reflexivity. rewrite !app_nil_r.
  rewrite !drop_del by reflexivity. reflexivity.
Qed.

Lemma copy_base_put_child k name child km parent :
  copy_base (put_child (kind_name k) name child km parent) = copy_base parent.
Proof.
  unfold copy_base, put_child. simpl. f_equal.
  change (fun f => negb (is_board_fld f)) with (K nb).
  apply drop_upd; [apply nb_kind | intro f; reflexivity].
Qed.

Lemma board_start_parent k name km m :
  snd (snd (board_start k name km m)) = m \/ snd (snd (board_start k name km m)) = reorder m.
Proof.
  unfold board_start.
  destruct (match find_f name (m_fs km) with Some cf => f_comp cf | None => None end); simpl; auto.
  destruct k; simpl; auto.
  destruct (idx_of name _); simpl; auto.
  destruct (nth_error _ n); simpl; auto.
Qed.

Lemma copy_base_boards_go k bs : forall m, copy_base (boards_go k bs m) = copy_base m.
Proof.
  induction bs as [|[name body] tl IH]; intro m; simpl; auto.
  rewrite IH, copy_base_put_child.
  destruct (board_start_parent k name (kind_map (kind_name k) m) m) as [E | E]; rewrite E; auto.
  apply copy_base_reorder.
Qed.

Lemma copy_base_step_boards m k bs : copy_base (stepm [] m (DBoards k bs)) = copy_base m.
Proof.
  rewrite step_boards, copy_base_boards_go.
  unfold copy_base. simpl. f_equal.
  change (fun f => negb (is_board_fld f)) with (K nb).
  apply drop_upd; [apply nb_kind | apply np_with_map].
Qed.

(* well-formed board body: every top-level declaration is a boards block or a plain declaration whose keys
   do not start with layers / scenarios / steps *)
Definition wf_top (ds : list decl) : bool := forallb (fun d => is_boards d || top_ok nb [] d) ds.

(* no leak back, on the IR: whatever the child boards of a board declare, the board's own fields and
   connections are those of the program without the child boards *)
Theorem no_leak_ir : forall ds m, wf_top ds = true -> copy_base (cb m ds) = cb (copy_base m) (strip ds).
Proof.
  change (forall ds m, wf_top ds = true -> copy_base (stepsm [] m ds) = stepsm [] (copy_base m) (strip ds)).
  induction ds as [|d ds IH]; intros m H; auto.
  simpl in H. apply andb_prop in H as [H1 H2].
  rewrite stepsm_cons, IH by auto.
  destruct d; simpl strip; simpl in H1;
    try (rewrite stepsm_cons; f_equal; rewrite !copy_base_keepm; apply step_keep; exact H1).
  rewrite copy_base_step_boards. reflexivity.
Qed.

(* ---------------------------------------------------------------- what a new board starts from *)

Definition child (k : bkind) (n : str) (m : imap) : option imap :=
  match find_f (kind_name k) (m_fs m) with
  | Some kf =>
      match f_comp kf with
      | Some km => match find_f n (m_fs km) with Some cf => f_comp cf | None => None end
      | None => None
      end
  | None => None
  end.

Lemma child_put_child k name c km parent : child k name (put_child (kind_name k) name c km parent) = Some c.
Proof.
  unfold child, put_child. simpl.
  rewrite find_upd_same by (intro f; reflexivity). simpl.
  rewrite find_upd_same by (intro f; reflexivity). reflexivity.
Qed.

(* the board is new: the boards map has no field of that name with a map *)
Definition fresh (k : bkind) (n : str) (m : imap) : Prop :=
  match find_f n (m_fs (kind_map (kind_name k) m)) with Some cf => f_comp cf = None | None => True end.

Lemma kind_map_ensure k m :
  kind_map (kind_name k) (IMap (upd_fs (kind_name k) with_map (m_fs m)) (m_es m)) = kind_map (kind_name k) m.
Proof.
  unfold kind_map. simpl. rewrite find_upd_same by apply np_with_map.
  destruct (find_f (kind_name k) (m_fs m)) as [f|]; reflexivity.
Qed.

Lemma copy_base_ensure k m :
  copy_base (IMap (upd_fs (kind_name k) with_map (m_fs m)) (m_es m)) = copy_base m.
Proof.
  unfold copy_base. simpl. f_equal.
  change (fun f => negb (is_board_fld f)) with (K nb).
  apply drop_upd; [apply nb_kind | apply np_with_map].
Qed.

Lemma inherit_ensure k m :
  inherit (IMap (upd_fs (kind_name k) with_map (m_fs m)) (m_es m)) = inherit m.
Proof. unfold inherit. rewrite copy_base_ensure. reflexivity. Qed.

Lemma fresh_start_none k n m :
  fresh k n m ->
  (match find_f n (m_fs (kind_map (kind_name k) m)) with Some cf => f_comp cf | None => None end) = None.
Proof. unfold fresh. destruct (find_f n _); auto. Qed.

Lemma board_start_new k n km m :
  (match find_f n (m_fs km) with Some cf => f_comp cf | None => None end) = None ->
  fst (board_start k n km m) =
  match k with
  | Layers => empty_map
  | Scenarios => inherit m
  | Steps =>
      match idx_of n (upd_fs n (fun f => f) (m_fs km)) with
      | O => inherit m
      | S j => match nth_error (upd_fs n (fun f => f) (m_fs km)) j with
               | Some pf => inherit (map_of pf)
               | None => empty_map
               end
      end
  end.
Proof.
  intro H. unfold board_start. rewrite H. destruct k; try reflexivity.
  cbn [m_fs]. destruct (idx_of n _); try reflexivity.
  destruct (nth_error _ n0); reflexivity.
Qed.

(* a new scenario: the parent board as it is now, without its boards and its label, then the scenario's own
   declarations (then overlayClasses of the scenario) *)
Lemma scenario_start : forall m s body,
  fresh Scenarios s m ->
  child Scenarios s (stepm [] m (DBoards Scenarios [(s, body)]))
  = Some (overlay_classes (cb (inherit m) body)).
Proof.
  intros m s body F. rewrite step_boards. cbn [boards_go].
  rewrite child_put_child. rewrite kind_map_ensure.
  rewrite board_start_new by (apply fresh_start_none; exact F).
  rewrite inherit_ensure. reflexivity.
Qed.

(* a new layer: an empty map, then the layer's own declarations *)
Lemma layer_start : forall m l body,
  fresh Layers l m ->
  child Layers l (stepm [] m (DBoards Layers [(l, body)])) = Some (cb empty_map body).
Proof.
  intros m l body F. rewrite step_boards. cbn [boards_go].
  rewrite child_put_child. rewrite kind_map_ensure.
  rewrite board_start_new by (apply fresh_start_none; exact F). reflexivity.
Qed.

Lemma upd_fs_absent n k fs : find_f n fs = None -> upd_fs n k fs = fs ++ [k (Fld n None None)].
Proof.
  induction fs as [|f tl IH]; simpl; auto.
  destruct (str_eqb (f_name f) n); try easy. intro H. rewrite IH; auto.
Qed.

Lemma idx_of_absent n fs x : find_f n fs = None -> f_name x = n -> idx_of n (fs ++ [x]) = length fs.
Proof.
  intros H Hx. induction fs as [|f tl IH]; simpl in *.
  - rewrite Hx, str_eqb_refl. reflexivity.
  - destruct (str_eqb (f_name f) n); try easy. rewrite IH; auto.
Qed.

(* a new step after the step pf (the last field of the steps map): a copy of pf's map without its boards and
   its label, then the step's own declarations *)
Lemma step_start_next : forall m n body pfs pf pm kes,
  kind_map s_steps m = IMap (pfs ++ [pf]) kes ->
  find_f n (pfs ++ [pf]) = None ->
  f_comp pf = Some pm ->
  child Steps n (stepm [] m (DBoards Steps [(n, body)]))
  = Some (overlay_classes (cb (inherit pm) body)).
Proof.
  intros m n body pfs pf pm kes Hk Hn Hp. rewrite step_boards. cbn [boards_go].
  rewrite child_put_child. rewrite (kind_map_ensure Steps).
  change (kind_name Steps) with s_steps. rewrite Hk.
  rewrite board_start_new by (cbn [m_fs]; rewrite Hn; reflexivity).
  cbn [m_fs]. rewrite upd_fs_absent by auto.
  rewrite idx_of_absent by auto.
  rewrite app_length. cbn [length]. rewrite Nat.add_1_r.
  rewrite nth_error_app1 by (rewrite app_length; cbn [length]; lia).
  rewrite nth_error_app2 by lia. rewrite Nat.sub_diag. cbn [nth_error].
  unfold map_of. rewrite Hp. reflexivity.
Qed.

(* the first step of a board starts like a scenario *)
Lemma step_start_first : forall m n body kes,
  kind_map s_steps m = IMap [] kes ->
  child Steps n (stepm [] m (DBoards Steps [(n, body)]))
  = Some (overlay_classes (cb (inherit m) body)).
Proof.
  intros m n body kes Hk. rewrite step_boards. cbn [boards_go].
  rewrite child_put_child. rewrite (kind_map_ensure Steps).
  change (kind_name Steps) with s_steps. rewrite Hk.
  rewrite board_start_new by reflexivity.
  cbn [m_fs upd_fs idx_of f_name]. rewrite str_eqb_refl.
  rewrite (inherit_ensure Steps). reflexivity.
Qed.
