(* C15 — the theorems about boards (second part of the proofs) *)
From Coq Require Import List NArith Bool Arith Lia.
Import ListNotations.
Require Import V.C15.Boards V.C15.Variants V.C15.Proofs.

(* ---------------------------------------------------------------- declarations that do not touch a field *)

Section Untouched.
  Variable x : str.
  Definition ne (n : str) : bool := negb (str_eqb n x).
  Notation HO := (head_ok ne).

  Lemma ne_neq h : ne h = true -> h <> x.
  Proof. unfold ne. rewrite negb_true_iff. apply str_eqb_neq. Qed.

  Lemma ho_neq p : HO p = true -> exists h t, p = h :: t /\ h <> x.
  Proof. destruct p as [|h t]; simpl; try easy. intro H. exists h, t. split; auto. apply ne_neq; auto. Qed.

  Lemma fx_upd_path p k m : HO p = true -> name_pres k -> find_f x (m_fs (upd_path p k m)) = find_f x (m_fs m).
  Proof.
    intros H Hk. destruct (ho_neq p H) as [h [t [-> Hn]]]. simpl.
    destruct t; simpl; apply find_upd_other; auto. intro f; reflexivity.
  Qed.

  Lemma fx_at_path p g m : HO p = true -> find_f x (m_fs (at_path p g m)) = find_f x (m_fs m).
  Proof.
    intros H. destruct (ho_neq p H) as [h [t [-> Hn]]]. simpl.
    apply find_upd_other; auto. intro f; reflexivity.
  Qed.

  Lemma fx_at_existing p g m : HO p = true -> find_f x (m_fs (at_existing p g m)) = find_f x (m_fs m).
  Proof.
    intros H. destruct (ho_neq p H) as [h [t [-> Hn]]]. simpl.
    destruct (find_f h (m_fs m)) as [f|]; auto. destruct (f_comp f); auto. simpl.
    apply find_mod_other; auto. intro f'; reflexivity.
  Qed.

  Lemma fx_del_path p m : HO p = true -> find_f x (m_fs (del_path p m)) = find_f x (m_fs m).
  Proof.
    intros H. destruct (ho_neq p H) as [h [t [-> Hn]]]. simpl.
    destruct t.
    - simpl. apply find_del_other; auto.
    - destruct (find_f h (m_fs m)) as [f|]; auto.
      match goal with |- context [if ?c then _ else _] => destruct c end; simpl.
      + apply find_del_other; auto.
      + apply find_mod_other; auto. intro f'; reflexivity.
  Qed.

  (* only the connections of the map change *)
  Definition fs_same (g : imap -> imap) : Prop := forall m, m_fs (g m) = m_fs m.

  Lemma fx_at_path' p g m : (p = [] /\ fs_same g) \/ HO p = true ->
    find_f x (m_fs (at_path p g m)) = find_f x (m_fs m).
  Proof. intros [[-> H] | H]; [simpl; rewrite H; auto | apply fx_at_path; auto]. Qed.

  Lemma fx_at_existing' p g m : (p = [] /\ fs_same g) \/ HO p = true ->
    find_f x (m_fs (at_existing p g m)) = find_f x (m_fs m).
  Proof. intros [[-> H] | H]; [simpl; rewrite H; auto | apply fx_at_existing; auto]. Qed.

  Definition PU (d : decl) : Prop :=
    forall sc m, top_ok ne sc d = true -> find_f x (m_fs (stepm sc m d)) = find_f x (m_fs m).

  Lemma steps_untouched ds : Forall PU ds ->
    forall sc m, HO sc = true -> find_f x (m_fs (stepsm sc m ds)) = find_f x (m_fs m).
  Proof.
    induction 1 as [|d ds Hd _ IH]; intros sc m Hs; auto.
    rewrite stepsm_cons. rewrite IH by auto. apply Hd.
    destruct sc; simpl in *; auto. discriminate.
  Qed.

  Lemma step_untouched : forall d, PU d.
  Proof.
    induction d using decl_ind'; intros sc m Hok.
    - assert (Hp : HO (sc ++ path) = true) by (destruct sc; simpl in *; auto).
      rewrite step_key. destruct body as [ds|].
      + rewrite steps_untouched by auto. apply fx_upd_path; auto with np.
      + apply fx_upd_path; auto with np.
    - assert (Hp : HO (sc ++ p) = true) by (destruct sc; simpl in *; auto).
      rewrite step_null. rewrite fx_del_path by auto. apply fx_upd_path; auto with np.
    - assert (Hs : HO (sc ++ s) = true /\ HO (sc ++ d) = true).
      { destruct sc; simpl in *; auto. apply andb_prop in Hok. auto. }
      destruct Hs as [Hs Hd].
      rewrite step_edge. cbv zeta.
      rewrite fx_at_path'.
      + rewrite !fx_upd_path by auto with np.
        apply fx_at_path'.
        destruct (loc_ok ne sc s d Hs) as [E | E]; auto. left; split; auto. intro; reflexivity.
      + destruct (loc_ok ne sc s d Hs) as [E | E]; auto. left; split; auto. intro; reflexivity.
    - assert (Hs : HO (sc ++ s) = true).
      { destruct sc; simpl in *; auto. apply andb_prop in Hok. tauto. }
      rewrite step_edge_null. cbv zeta. apply fx_at_existing'.
      destruct (loc_ok ne sc s d Hs) as [E | E]; auto. left; split; auto. intro; reflexivity.
    - assert (Hs : HO (sc ++ s) = true).
      { destruct sc; simpl in *; auto. apply andb_prop in Hok. tauto. }
      rewrite step_edge_set. cbv zeta.
      destruct (edge_found sc s d i m); auto. apply fx_at_existing'.
      destruct (loc_ok ne sc s d Hs) as [E | E]; auto. left; split; auto. intro; reflexivity.
    - destruct sc as [|h t]; simpl in Hok; try discriminate.
      rewrite step_boards_nested. reflexivity.
  Qed.

  (* boards blocks leave every field that is not layers / scenarios / steps alone *)
  Hypothesis Hx : nb x = true.

  Lemma kind_neq k : kind_name k <> x.
  Proof.
    intro E. subst x. rewrite nb_kind in Hx. discriminate.
  Qed.

  Lemma fx_reorder m : find_f x (m_fs (reorder m)) = find_f x (m_fs m).
  Proof.
    assert (B : forall n, is_board_name n = true -> n <> x).
    { intros n Hn E. subst n. unfold nb in Hx. rewrite Hn in Hx. discriminate. }
    assert (O : forall n fs, is_board_name n = true -> find_f x (opt_list (find_f n fs)) = None).
    { intros n fs Hn. destruct (find_f n fs) as [f|] eqn:E; simpl; auto.
      apply find_some_name in E. rewrite E.
      destruct (str_eqb n x) eqn:E2; auto. apply str_eqb_eq in E2. exfalso. eapply B; eauto. }
    unfold reorder. simpl. rewrite !find_app.
    rewrite !O by reflexivity.
    rewrite !find_del_other by (apply B; reflexivity).
    destruct (find_f x (m_fs m)); reflexivity.
  Qed.

  Lemma fx_boards_go k bs : forall m, find_f x (m_fs (boards_go k bs m)) = find_f x (m_fs m).
  Proof.
    induction bs as [|[name body] tl IH]; intro m; simpl; auto.
    rewrite IH. unfold put_child. simpl.
    rewrite find_upd_other by (try apply kind_neq; intro f; reflexivity).
    destruct (board_start_parent k name (kind_map (kind_name k) m) m) as [E | E]; rewrite E; auto.
    apply fx_reorder.
  Qed.

  Definition untouched (ds : list decl) : bool := forallb (fun d => is_boards d || top_ok ne [] d) ds.

  (* a field that no declaration of the body names is what it was before the body *)
  Lemma untouched_cb ds : untouched ds = true -> forall m, find_f x (m_fs (cb m ds)) = find_f x (m_fs m).
  Proof.
    change (untouched ds = true -> forall m, find_f x (m_fs (stepsm [] m ds)) = find_f x (m_fs m)).
    induction ds as [|d ds IH]; intros H m; auto.
    simpl in H. apply andb_prop in H as [H1 H2].
    rewrite stepsm_cons, IH by auto.
    destruct d; simpl in H1; try (apply step_untouched; exact H1).
    rewrite step_boards, fx_boards_go. simpl.
    apply find_upd_other; [apply kind_neq | apply np_with_map].
  Qed.
End Untouched.

(* ---------------------------------------------------------------- the theorems on the IR *)

Lemma cb_single m d : cb m [d] = stepm [] m d.
Proof. reflexivity. Qed.

(* A scenario is: the declarations of its base before it (child boards removed), the board label dropped,
   then its own declarations. *)
Theorem scenario_is_base_plus_own :
  forall pre s body,
    wf_top pre = true -> fresh Scenarios s (cb empty_map pre) ->
    child Scenarios s (cb empty_map (pre ++ [DBoards Scenarios [(s, body)]]))
    = Some (overlay_classes (cb (del_label (cb empty_map (strip pre))) body)).
Proof.
  intros pre s body W F. rewrite cb_app, cb_single, scenario_start by auto.
  unfold inherit. rewrite no_leak_ir by auto. reflexivity.
Qed.

Lemma no_label_decl d : top_ok (ne s_label) [] d = true -> is_label_decl d = false.
Proof.
  destruct d as [[|n [|? ?]] ? ?|[|n [|? ?]]| | | |]; simpl; auto; unfold ne; rewrite negb_true_iff; auto.
Qed.

Lemma base_before_no_label pre : untouched s_label pre = true -> base_before pre = strip pre.
Proof.
  unfold base_before, untouched, strip. induction pre as [|d pre IH]; auto.
  intro H. cbn [forallb] in H. apply andb_prop in H as [H1 H2].
  cbn [filter]. destruct (is_boards d) eqn:B; cbn [negb].
  - apply IH; auto.
  - cbn [filter]. cbn [orb] in H1. rewrite (no_label_decl d H1). cbn [negb]. f_equal. apply IH; auto.
Qed.

Lemma untouched_strip x ds : untouched x ds = true -> untouched x (strip ds) = true.
Proof.
  unfold untouched, strip. induction ds as [|d ds IH]; simpl; auto.
  intro H. apply andb_prop in H as [H1 H2]. destruct (is_boards d) eqn:E; simpl; auto.
  rewrite E. simpl in H1. rewrite H1. auto.
Qed.

(* the same in the form the harness checks on the implementation: the scenario is the root board of the
   flat program `base_before pre ++ body` (when no declaration before it names the board label) *)
Theorem scenario_is_flat_program :
  forall pre s body,
    wf_top pre = true -> untouched s_label pre = true -> fresh Scenarios s (cb empty_map pre) ->
    child Scenarios s (cb empty_map (pre ++ [DBoards Scenarios [(s, body)]]))
    = Some (overlay_classes (cb empty_map (base_before pre ++ body))).
Proof.
  intros pre s body W U F. rewrite scenario_is_base_plus_own by auto.
  rewrite base_before_no_label by auto. rewrite cb_app.
  assert (E : del_label (cb empty_map (strip pre)) = cb empty_map (strip pre)).
  { unfold del_label. rewrite del_none.
    - destruct (cb empty_map (strip pre)); reflexivity.
    - rewrite untouched_cb; auto. apply untouched_strip; auto. }
  rewrite E. reflexivity.
Qed.

(* A step after the first: a copy of the previous step (its boards and label removed), then the step's own
   declarations; every field of the previous step that the step does not name is in the step unchanged. *)
Theorem step_includes_previous :
  forall m n body pfs pf pm kes,
    kind_map s_steps m = IMap (pfs ++ [pf]) kes ->
    find_f n (pfs ++ [pf]) = None ->
    f_comp pf = Some pm ->
    child Steps n (stepm [] m (DBoards Steps [(n, body)])) = Some (overlay_classes (cb (inherit pm) body))
    /\ forall x, nb x = true -> x <> s_label -> untouched x body = true ->
         find_f x (m_fs (cb (inherit pm) body)) = find_f x (m_fs pm).
Proof.
  intros m n body pfs pf pm kes Hk Hn Hp. split.
  - eapply step_start_next; eauto.
  - intros x Hx Hl U. rewrite untouched_cb by auto.
    unfold inherit, del_label. simpl.
    rewrite find_del_other by auto.
    change (fun f => negb (is_board_fld f)) with (K nb). apply keep_find; auto.
Qed.

Theorem first_step_is_base_plus_own :
  forall m n body kes,
    kind_map s_steps m = IMap [] kes ->
    child Steps n (stepm [] m (DBoards Steps [(n, body)])) = Some (overlay_classes (cb (inherit m) body)).
Proof. intros. eapply step_start_first; eauto. Qed.

(* A layer starts from an empty map: it is its own declarations compiled on nothing, so it has no field
   (object, connection end point) that its own body does not name. *)
Theorem layer_starts_empty :
  forall m l body,
    fresh Layers l m ->
    child Layers l (stepm [] m (DBoards Layers [(l, body)])) = Some (cb empty_map body)
    /\ (forall x, nb x = true -> untouched x body = true -> find_f x (m_fs (cb empty_map body)) = None).
Proof.
  intros m l body F. split; [apply layer_start; auto |].
  intros x Hx U. rewrite untouched_cb by auto. reflexivity.
Qed.

(* ---------------------------------------------------------------- siblings of the same kind *)

Lemma board_start_km k name km m n' :
  k <> Steps -> n' <> name ->
  find_f n' (m_fs (fst (snd (board_start k name km m)))) = find_f n' (m_fs km).
Proof.
  intros Hk Hn. unfold board_start.
  destruct (match find_f name (m_fs km) with Some cf => f_comp cf | None => None end); cbn [fst snd]; auto.
  destruct k; try congruence; cbn [fst snd m_fs]; apply find_upd_other; auto with np.
Qed.

Lemma child_kind_map k n m :
  child k n m = match find_f n (m_fs (kind_map (kind_name k) m)) with Some cf => f_comp cf | None => None end.
Proof.
  unfold child, kind_map. destruct (find_f (kind_name k) (m_fs m)) as [kf|]; auto.
  unfold map_of. destruct (f_comp kf); reflexivity.
Qed.

(* Declaring (or re-opening) a layer or a scenario leaves every other board of the same kind untouched. *)
Theorem sibling_untouched :
  forall m k name body n',
    k <> Steps -> n' <> name ->
    child k n' (stepm [] m (DBoards k [(name, body)])) = child k n' m.
Proof.
  intros m k name body n' Hk Hn. rewrite step_boards. cbn [boards_go].
  rewrite kind_map_ensure.
  rewrite (child_kind_map k n' m).
  unfold child, put_child. cbn [m_fs].
  rewrite find_upd_same by (intro f; reflexivity). cbn [f_comp set_comp m_fs].
  rewrite find_upd_other by (auto; intro f; reflexivity).
  rewrite board_start_km by auto. reflexivity.
Qed.
