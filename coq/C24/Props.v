(* C24 — Constant-near shapes are placed outside the diagram on the requested side.  Statements only.
   [layout main pts ns] is the model of d2near.Layout: [main] = what boundingBox sees in g.Objects
   (any number of shapes with any boxes and label data), [pts] = route points of the main edges,
   [ns] = the constant nears in any number, order and mix of the 8 constants, any sizes, any label
   position strings.  [bounding_box main pts] is the bounding box of the whole main diagram; since
   40b9f8452 it includes the shapes whose near is another shape ([GObjNear], treated like [GMain]). *)
From Coq Require Import ZArith QArith List Bool String.
Open Scope string_scope.
Import ListNotations.
Require Import V.C24.Model V.C24.Proofs.
Open Scope Q_scope.

(* Every near lies outside the bounding box of the main diagram on each side its constant names, at
   distance >= margin for every margin <= pad = 20 (tol >= 0 is the rounding slack of the checker). *)
Theorem C24_near_outside_on_side :
  forall main pts ns n p margin tol,
    has_shape_b main = true -> forallb label_dims_ok_b ns = true ->
    margin <= pad -> 0 <= tol ->
    In (n, p) (combine ns (layout main pts ns)) ->
    side_ok_b margin tol (bounding_box main pts) (n_key n) (near_box n p) = true.
Proof. exact thm_outside. Qed.

(* top-center / bottom-center nears are centred in x on that box, center-left / center-right in y:
   also when other centre nears were placed before them. *)
Theorem C24_center_nears_centred :
  forall main pts ns n p tol,
    has_shape_b main = true -> forallb label_dims_ok_b ns = true -> 0 <= tol ->
    In (n, p) (combine ns (layout main pts ns)) ->
    center_ok_b tol (bounding_box main pts) (n_key n) (near_box n p) = true.
Proof. exact thm_centered. Qed.

(* "Outside the bounding box" read concretely: every near keeps distance >= 20 on its named sides from
   every main shape and from the box of its outside label ... *)
Theorem C24_near_clear_of_every_shape :
  forall main pts ns n p g b hl lp lw lh,
    forallb label_dims_ok_b ns = true ->
    In g main -> plain g = GMain b hl lp lw lh ->      (* g is a shape: GMain or GObjNear *)
    In (n, p) (combine ns (layout main pts ns)) ->
    side_ok_b pad 0 (box_bb b) (n_key n) (near_box n p) = true /\
    match label_box b hl lp lw lh with
    | Some l => side_ok_b pad 0 (box_bb l) (n_key n) (near_box n p) = true
    | None => True
    end.
Proof. exact thm_clear_of_shapes. Qed.

(* ... and from every route point of the main edges. *)
Theorem C24_near_clear_of_every_route_point :
  forall main pts ns n p q,
    has_shape_b main = true -> forallb label_dims_ok_b ns = true ->
    In q pts ->
    In (n, p) (combine ns (layout main pts ns)) ->
    side_ok_b pad 0 (pt_bb q) (n_key n) (near_box n p) = true.
Proof. exact thm_clear_of_routes. Qed.

(* Centre-first ordering: a left/right near is beside every top-center/bottom-center near, a corner near
   is above/below every center-left/center-right near (distance >= 20), whatever the main diagram is. *)
Theorem C24_later_nears_clear_of_center_nears :
  forall main pts ns c pc d pd margin tol,
    forallb label_dims_ok_b ns = true -> margin <= pad -> 0 <= tol ->
    In (c, pc) (combine ns (layout main pts ns)) ->
    In (d, pd) (combine ns (layout main pts ns)) ->
    clear_of_b margin tol (n_key c) (near_box c pc) (n_key d) (near_box d pd) = true.
Proof. exact thm_clear_of_centers. Qed.

(* History.  Before 40b9f8452 boundingBox skipped every shape with a near key, also those whose near is
   another shape ([layout_pinned]: those shapes do not exist for the placement).  Then the statement
     forall main pts ns n p, has_shape_b main = true -> forallb label_dims_ok_b ns = true ->
       In (n, p) (combine ns (layout_pinned main pts ns)) ->
       side_ok_b 0 0 (bounding_box main pts) (n_key n) (near_box n p) = true
   was false: in  b; a: {near: b; width: 800; height: 400}; r: R {near: bottom-right}  (boxes as dagre
   lays them out) the bottom-right near was put at (73,253), inside the 800x400 shape at (113,0). *)
Theorem C24_pinned_code_refuted_by_object_near :
  let p := (73 # 1, 253 # 1) in
  has_shape_b cex_main = true /\ forallb label_dims_ok_b [cex_near] = true /\
  In (cex_near, p) (combine [cex_near] (layout_pinned cex_main [] [cex_near])) /\
  side_ok_b 0 0 (bounding_box cex_main []) BottomRight (near_box cex_near p) = false /\
  boxes_overlap_b (near_box cex_near p) (mkbox 113 0 800 400) = true.
Proof. exact thm_pinned_refuted. Qed.

(* The repaired code places the same near at (933,420), as C24_near_outside_on_side demands. *)
Theorem C24_repaired_code_example :
  In (cex_near, (933 # 1, 420 # 1)) (combine [cex_near] (layout cex_main [] [cex_near])).
Proof. exact thm_repaired_example. Qed.

(* non-vacuity: a one-shape diagram with a labelled top-left near satisfies the hypotheses *)
Example C24_hyps_satisfiable :
  let main := [GMain (mkbox 0 0 50 60) true None 10 20] in
  let ns := [mknear TopLeft 30 40 (Some (bytes_of "OUTSIDE_BOTTOM_CENTER")) 12 21] in
  has_shape_b main = true /\ forallb label_dims_ok_b ns = true /\ 0 <= pad /\
  In (hd (mknear TopLeft 0 0 None 0 0) ns, ((-50) # 1, (-81) # 1)) (combine ns (layout main [] ns)).
Proof. repeat split; vm_compute; try congruence. left. reflexivity. Qed.

(* two nears: a top-center title and a top-left corner (hypotheses of the centre-first theorem) *)
Example C24_center_first_hyps_satisfiable :
  let main := [GMain (mkbox 0 0 50 60) true None 10 20] in
  let ns := [mknear TopLeft 30 40 None 0 0; mknear TopCenter 300 40 None 0 0] in
  forallb label_dims_ok_b ns = true /\
  In (mknear TopLeft 30 40 None 0 0, ((-700) # 4, (-60) # 1)) (combine ns (layout main [] ns)) /\
  In (mknear TopCenter 300 40 None 0 0, ((-500) # 4, (-60) # 1)) (combine ns (layout main [] ns)).
Proof. vm_compute. repeat split; auto. Qed.

Example C24_shape_hyps_satisfiable :
  In (GObjNear (mkbox 113 0 800 400) true None 8 21) cex_main /\
  plain (GObjNear (mkbox 113 0 800 400) true None 8 21) = GMain (mkbox 113 0 800 400) true None 8 21.
Proof. split; [right; left; reflexivity | reflexivity]. Qed.

Print Assumptions C24_near_outside_on_side.
Print Assumptions C24_center_nears_centred.
Print Assumptions C24_near_clear_of_every_shape.
Print Assumptions C24_near_clear_of_every_route_point.
Print Assumptions C24_later_nears_clear_of_center_nears.
Print Assumptions C24_pinned_code_refuted_by_object_near.
Print Assumptions C24_repaired_code_example.
