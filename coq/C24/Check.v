(* Executable checker for C24 cases.  The harness lays a d2 script out with the real pipeline
   (d2lib.Compile: compiler, real text ruler, LayoutNested, dagre, d2near.Layout) and passes
     main  : what boundingBox sees in g.Objects before the nears are injected (boxes, labels),
     pts   : the route points of the edges boundingBox looks at,
     nears : per constant near its key, size, label data and the TopLeft the implementation gave it,
   all numbers as exact rationals (every float64 is a dyadic rational). *)
From Coq Require Import ZArith QArith List Bool NArith.
Import ListNotations.
Require Import V.Lib.RunCases.
Require Export V.C24.Model.
Open Scope Q_scope.

Definition qz (z : Z) : Q := inject_Z z.
Definition qd (m : Z) (e : N) : Q := Qmake m (match e with N0 => 1%positive | Npos p => Pos.pow 2 p end).   (* m / 2^e *)

Inductive case := Case (main : list gobj) (pts : list (Q * Q)) (nears : list (nearobj * (Q * Q))).

Definition tol : Q := 1 # 1000000.

Definition pt_close (a b : Q * Q) : bool := close_b tol (fst a) (fst b) && close_b tol (snd a) (snd b).

Fixpoint all_pairs {A} (f : A -> A -> bool) (l : list A) : bool :=
  match l with
  | [] => true
  | x :: t => forallb (fun y => f x y && f y x) t && all_pairs f t
  end.

(* codes: 1 model TopLeft <> implementation TopLeft (tolerance 1e-6) for some near;
          2 hypothesis "label dimensions of the nears are >= 0" (text ruler) false;
          10 a near is not outside the main bounding box on a named side (exact, margin 0);
          11 a center near is not centred (1e-6); 12 distance to the box < 20 (1e-6);
          13 a later-phase near is not clear of a centre near placed before it.
   10-12 are evaluated against the box of the whole main diagram (also the shapes whose near is another
   shape: GObjNear) when the main diagram has at least one shape (otherwise there is no box). *)
Definition check_case (c : case) : list N :=
  match c with
  | Case main pts nears =>
      let ns := map fst nears in
      let impl := map snd nears in
      let model := layout main pts ns in
      let corr := list_eqb pt_close model impl in
      let hyp_dims := forallb label_dims_ok_b ns in
      let m := bounding_box main pts in          (* bounding box of the whole main diagram *)
      let boxes := map (fun p => (n_key (fst p), near_box (fst p) (snd p))) nears in
      let applies := has_shape_b main in
      let side := forallb (fun kb => side_ok_b 0 0 m (fst kb) (snd kb)) boxes in
      let margin := forallb (fun kb => side_ok_b pad tol m (fst kb) (snd kb)) boxes in
      let centred := forallb (fun kb => center_ok_b tol m (fst kb) (snd kb)) boxes in
      let clear := all_pairs (fun c d => clear_of_b pad tol (fst c) (snd c) (fst d) (snd d)) boxes in
      flag corr 1 ++ flag hyp_dims 2
      ++ flag (implb' applies side) 10 ++ flag (implb' applies centred) 11
      ++ flag (implb' applies margin) 12 ++ flag clear 13
  end.
