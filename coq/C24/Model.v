(* C24 — constant-near placement.  Model of d2layouts/d2near/layout.go: [boundingBox], [place] and the
   three-phase loop of [Layout] (vertical-centre nears, then horizontal-centre nears, then corners; the
   nears of a phase are appended to g.Objects only after the whole phase has been placed), plus the part of
   lib/label that boundingBox uses (FromString, IsOutside, GetPointOnBox for outside positions).
   Numbers are exact rationals; +Inf/-Inf of the Go code are the [None] of [range].
   Strings (near keys, label positions) are byte lists and are searched with [contains] like the Go code
   does with strings.Contains. *)
From Coq Require Import ZArith QArith Qminmax List Bool String Ascii NArith.
Import ListNotations.
Open Scope Q_scope.

(* ---------- strings ---------- *)
Definition bytes := list N.
Definition bytes_of (s : string) : bytes := map N_of_ascii (list_ascii_of_string s).

Fixpoint beq (a b : bytes) : bool :=
  match a, b with
  | [], [] => true
  | x :: a', y :: b' => N.eqb x y && beq a' b'
  | _, _ => false
  end.

Fixpoint prefix_b (p s : bytes) : bool :=
  match p, s with
  | [], _ => true
  | x :: p', y :: s' => N.eqb x y && prefix_b p' s'
  | _ :: _, [] => false
  end.

(* strings.Contains *)
Fixpoint contains (needle hay : bytes) : bool :=
  prefix_b needle hay || match hay with [] => false | _ :: t => contains needle t end.

(* ---------- near keys ---------- *)
Inductive nearkey := TopLeft | TopCenter | TopRight | CenterLeft | CenterRight
                   | BottomLeft | BottomCenter | BottomRight.

Definition key_name (k : nearkey) : string :=
  match k with
  | TopLeft => "top-left" | TopCenter => "top-center" | TopRight => "top-right"
  | CenterLeft => "center-left" | CenterRight => "center-right"
  | BottomLeft => "bottom-left" | BottomCenter => "bottom-center" | BottomRight => "bottom-right"
  end.

Definition key_has (word : string) (k : nearkey) : bool := contains (bytes_of word) (bytes_of (key_name k)).

(* the three sets of Layout, in the order they are processed *)
Definition phase_of (k : nearkey) : nat :=
  match k with
  | TopCenter | BottomCenter => 0%nat          (* VerticalCenterNears *)
  | CenterLeft | CenterRight => 1%nat          (* HorizontalCenterNears *)
  | _ => 2%nat                                 (* NonCenterNears *)
  end.

(* ---------- label positions (lib/label) ---------- *)
Inductive lpos :=
| OutsideTopLeft | OutsideTopCenter | OutsideTopRight
| OutsideLeftTop | OutsideLeftMiddle | OutsideLeftBottom
| OutsideRightTop | OutsideRightMiddle | OutsideRightBottom
| OutsideBottomLeft | OutsideBottomCenter | OutsideBottomRight
| InsideTopLeft | InsideTopCenter | InsideTopRight
| InsideMiddleLeft | InsideMiddleCenter | InsideMiddleRight
| InsideBottomLeft | InsideBottomCenter | InsideBottomRight
| BorderTopLeft | BorderTopCenter | BorderTopRight
| BorderLeftTop | BorderLeftMiddle | BorderLeftBottom
| BorderRightTop | BorderRightMiddle | BorderRightBottom
| BorderBottomLeft | BorderBottomCenter | BorderBottomRight
| UnlockedTop | UnlockedMiddle | UnlockedBottom
| Unset.

Definition lpos_name (p : lpos) : string :=
  match p with
  | OutsideTopLeft => "OUTSIDE_TOP_LEFT" | OutsideTopCenter => "OUTSIDE_TOP_CENTER" | OutsideTopRight => "OUTSIDE_TOP_RIGHT"
  | OutsideLeftTop => "OUTSIDE_LEFT_TOP" | OutsideLeftMiddle => "OUTSIDE_LEFT_MIDDLE" | OutsideLeftBottom => "OUTSIDE_LEFT_BOTTOM"
  | OutsideRightTop => "OUTSIDE_RIGHT_TOP" | OutsideRightMiddle => "OUTSIDE_RIGHT_MIDDLE" | OutsideRightBottom => "OUTSIDE_RIGHT_BOTTOM"
  | OutsideBottomLeft => "OUTSIDE_BOTTOM_LEFT" | OutsideBottomCenter => "OUTSIDE_BOTTOM_CENTER" | OutsideBottomRight => "OUTSIDE_BOTTOM_RIGHT"
  | InsideTopLeft => "INSIDE_TOP_LEFT" | InsideTopCenter => "INSIDE_TOP_CENTER" | InsideTopRight => "INSIDE_TOP_RIGHT"
  | InsideMiddleLeft => "INSIDE_MIDDLE_LEFT" | InsideMiddleCenter => "INSIDE_MIDDLE_CENTER" | InsideMiddleRight => "INSIDE_MIDDLE_RIGHT"
  | InsideBottomLeft => "INSIDE_BOTTOM_LEFT" | InsideBottomCenter => "INSIDE_BOTTOM_CENTER" | InsideBottomRight => "INSIDE_BOTTOM_RIGHT"
  | BorderTopLeft => "BORDER_TOP_LEFT" | BorderTopCenter => "BORDER_TOP_CENTER" | BorderTopRight => "BORDER_TOP_RIGHT"
  | BorderLeftTop => "BORDER_LEFT_TOP" | BorderLeftMiddle => "BORDER_LEFT_MIDDLE" | BorderLeftBottom => "BORDER_LEFT_BOTTOM"
  | BorderRightTop => "BORDER_RIGHT_TOP" | BorderRightMiddle => "BORDER_RIGHT_MIDDLE" | BorderRightBottom => "BORDER_RIGHT_BOTTOM"
  | BorderBottomLeft => "BORDER_BOTTOM_LEFT" | BorderBottomCenter => "BORDER_BOTTOM_CENTER" | BorderBottomRight => "BORDER_BOTTOM_RIGHT"
  | UnlockedTop => "UNLOCKED_TOP" | UnlockedMiddle => "UNLOCKED_MIDDLE" | UnlockedBottom => "UNLOCKED_BOTTOM"
  | Unset => ""
  end.

Definition all_lpos : list lpos :=
  [OutsideTopLeft; OutsideTopCenter; OutsideTopRight; OutsideLeftTop; OutsideLeftMiddle; OutsideLeftBottom;
   OutsideRightTop; OutsideRightMiddle; OutsideRightBottom; OutsideBottomLeft; OutsideBottomCenter; OutsideBottomRight;
   InsideTopLeft; InsideTopCenter; InsideTopRight; InsideMiddleLeft; InsideMiddleCenter; InsideMiddleRight;
   InsideBottomLeft; InsideBottomCenter; InsideBottomRight;
   BorderTopLeft; BorderTopCenter; BorderTopRight; BorderLeftTop; BorderLeftMiddle; BorderLeftBottom;
   BorderRightTop; BorderRightMiddle; BorderRightBottom; BorderBottomLeft; BorderBottomCenter; BorderBottomRight;
   UnlockedTop; UnlockedMiddle; UnlockedBottom].

(* label.FromString *)
Definition from_string (s : bytes) : lpos :=
  match find (fun p => beq (bytes_of (lpos_name p)) s) all_lpos with Some p => p | None => Unset end.

(* label.Position.IsOutside *)
Definition is_outside (p : lpos) : bool :=
  match p with
  | OutsideTopLeft | OutsideTopCenter | OutsideTopRight | OutsideBottomLeft | OutsideBottomCenter | OutsideBottomRight
  | OutsideLeftTop | OutsideLeftMiddle | OutsideLeftBottom | OutsideRightTop | OutsideRightMiddle | OutsideRightBottom => true
  | _ => false
  end.

(* ---------- geometry ---------- *)
Record box := mkbox { bx : Q; by_ : Q; bw : Q; bh : Q }.

(* label.Position.GetPointOnBox for the outside positions (the only ones boundingBox asks for) *)
Definition point_on_box (p : lpos) (b : box) (padding w h : Q) : Q * Q :=
  let x := bx b in let y := by_ b in
  let cx := bx b + bw b / 2 in let cy := by_ b + bh b / 2 in
  match p with
  | OutsideTopLeft => (x - padding, y - (padding + h))
  | OutsideTopCenter => (cx - w / 2, y - (padding + h))
  | OutsideTopRight => (x + (bw b - w - padding), y - (padding + h))
  | OutsideLeftTop => (x - (padding + w), y + padding)
  | OutsideLeftMiddle => (x - (padding + w), cy - h / 2)
  | OutsideLeftBottom => (x - (padding + w), y + (bh b - h - padding))
  | OutsideRightTop => (x + (bw b + padding), y + padding)
  | OutsideRightMiddle => (x + (bw b + padding), cy - h / 2)
  | OutsideRightBottom => (x + (bw b + padding), y + (bh b - h - padding))
  | OutsideBottomLeft => (x + padding, y + (bh b + padding))
  | OutsideBottomCenter => (cx - w / 2, y + (bh b + padding))
  | OutsideBottomRight => (x + (bw b - w - padding), y + (bh b + padding))
  | _ => (x, y)
  end.

Definition label_padding : Q := 5.    (* label.PADDING *)
Definition pad : Q := 20.             (* d2near.pad *)

(* an interval that starts as (+Inf, -Inf) *)
Definition range := option (Q * Q).
Definition ext (r : range) (lo hi : Q) : range :=
  match r with
  | None => Some (lo, hi)
  | Some (a, b) => Some (Qmin a lo, Qmax b hi)
  end.
Definition rlo (r : range) : Q := match r with Some (a, _) => a | None => 0 end.
Definition rhi (r : range) : Q := match r with Some (_, b) => b | None => 0 end.

(* what boundingBox sees in g.Objects *)
Inductive gobj :=
| GMain (b : box) (has_label : bool) (lp : option bytes) (lw lh : Q)
      (* NearKey == nil and no near container above: Box, Label.Value != "", LabelPosition, LabelDimensions *)
| GNear (k : nearkey) (b : box)          (* an already placed constant near *)
| GObjNear (b : box) (has_label : bool) (lp : option bytes) (lw lh : Q).
      (* a shape of the main diagram whose near is ANOTHER SHAPE (NearKey != nil but IsConstantNear() is false),
         or a descendant of such a shape.  Since 40b9f8452 boundingBox treats it like every other shape
         (before, it was skipped: [add_obj0] applied to the raw object) *)

Definition bbstate := (range * range)%type.

Definition add_box (s : bbstate) (b : box) : bbstate :=
  (ext (fst s) (bx b) (bx b + bw b), ext (snd s) (by_ b) (by_ b + bh b)).

Definition label_box (b : box) (has_label : bool) (lp : option bytes) (lw lh : Q) : option box :=
  if has_label then
    match lp with
    | Some s => let p := from_string s in
                if is_outside p
                then let '(lx, ly) := point_on_box p b label_padding lw lh in Some (mkbox lx ly lw lh)
                else None
    | None => None
    end
  else None.

(* boundingBox's loop body as it was before 40b9f8452 *)
Definition add_obj0 (s : bbstate) (g : gobj) : bbstate :=
  match g with
  | GMain b hl lp lw lh =>
      let s1 := add_box s b in
      match label_box b hl lp lw lh with Some l => add_box s1 l | None => s1 end
  | GNear k b =>
      match k with
      | TopCenter | BottomCenter => (ext (fst s) (bx b) (bx b + bw b), snd s)
      | CenterLeft | CenterRight => (fst s, ext (snd s) (by_ b) (by_ b + bh b))
      | _ => s
      end
  | GObjNear _ _ _ _ _ => s
  end.

(* a shape whose near is another shape is a plain shape of the diagram *)
Definition plain (g : gobj) : gobj :=
  match g with GObjNear b hl lp lw lh => GMain b hl lp lw lh | _ => g end.

(* boundingBox's loop body now: IsConstantNear() / inConstantNear() instead of NearKey != nil /
   OuterNearContainer() != nil *)
Definition add_obj (s : bbstate) (g : gobj) : bbstate := add_obj0 s (plain g).

Definition add_pt (s : bbstate) (p : Q * Q) : bbstate :=
  (ext (fst s) (fst p) (fst p), ext (snd s) (snd p) (snd p)).

Definition bb_fold (objs : list gobj) (pts : list (Q * Q)) : bbstate :=
  fold_left add_pt pts (fold_left add_obj objs (None, None)).

Record bbox := mkbb { x1 : Q; y1 : Q; x2 : Q; y2 : Q }.

(* d2near.boundingBox; [pts] are the route points of the edges whose ends are not inside a near container *)
Definition bounding_box (objs : list gobj) (pts : list (Q * Q)) : bbox :=
  match objs with
  | [] => mkbb 0 0 0 0
  | _ => let s := bb_fold objs pts in mkbb (rlo (fst s)) (rlo (snd s)) (rhi (fst s)) (rhi (snd s))
  end.

(* ---------- place ---------- *)
Record nearobj := mknear { n_key : nearkey; n_w : Q; n_h : Q; n_lp : option bytes; n_lw : Q; n_lh : Q }.

Inductive lside := LTop | LLeft | LRight | LBottom.

(* the if/else-if chain on *obj.LabelPosition *)
Definition label_side (lp : option bytes) : option lside :=
  match lp with
  | None => None
  | Some s =>
      if contains (bytes_of "INSIDE") s then None
      else if contains (bytes_of "_TOP_") s then Some LTop
      else if contains (bytes_of "_LEFT_") s then Some LLeft
      else if contains (bytes_of "_RIGHT_") s then Some LRight
      else if contains (bytes_of "_BOTTOM_") s then Some LBottom
      else None
  end.

Definition place (n : nearobj) (bb : bbox) : Q * Q :=
  let w := x2 bb - x1 bb in
  let h := y2 bb - y1 bb in
  let '(x, y) :=
    match n_key n with
    | TopLeft => (x1 bb - n_w n - pad, y1 bb - n_h n - pad)
    | TopCenter => (x1 bb + w / 2 - n_w n / 2, y1 bb - n_h n - pad)
    | TopRight => (x2 bb + pad, y1 bb - n_h n - pad)
    | CenterLeft => (x1 bb - n_w n - pad, y1 bb + h / 2 - n_h n / 2)
    | CenterRight => (x2 bb + pad, y1 bb + h / 2 - n_h n / 2)
    | BottomLeft => (x1 bb - n_w n - pad, y2 bb + pad)
    | BottomCenter => (x2 bb - w / 2 - n_w n / 2, y2 bb + pad)
    | BottomRight => (x2 bb + pad, y2 bb + pad)
    end in
  match label_side (n_lp n) with
  | Some LTop => if key_has "bottom" (n_key n) then (x, y + n_lh n) else (x, y)
  | Some LLeft => if key_has "right" (n_key n) then (x + n_lw n, y) else (x, y)
  | Some LRight => if key_has "left" (n_key n) then (x - n_lw n, y) else (x, y)
  | Some LBottom => if key_has "top" (n_key n) then (x, y - n_lh n) else (x, y)
  | None => (x, y)
  end.

(* ---------- Layout ---------- *)
Definition near_box (n : nearobj) (p : Q * Q) : box := mkbox (fst p) (snd p) (n_w n) (n_h n).

(* objects appended to g.Objects at the end of phase [ph] (descendants of near containers are GOther and
   contribute nothing, so they are left out) *)
Definition placed (ph : nat) (bb : bbox) (ns : list nearobj) : list gobj :=
  flat_map (fun n => if Nat.eqb (phase_of (n_key n)) ph then [GNear (n_key n) (near_box n (place n bb))] else []) ns.

Record phases := mkph { bb0 : bbox; bb1 : bbox; bb2 : bbox }.

Definition layout_phases (main : list gobj) (pts : list (Q * Q)) (ns : list nearobj) : phases :=
  let b0 := bounding_box main pts in
  let o1 := main ++ placed 0 b0 ns in
  let b1 := bounding_box o1 pts in
  let o2 := o1 ++ placed 1 b1 ns in
  let b2 := bounding_box o2 pts in
  mkph b0 b1 b2.

Definition phase_bb (ph : phases) (k : nearkey) : bbox :=
  match phase_of k with O => bb0 ph | S O => bb1 ph | _ => bb2 ph end.

(* final TopLeft of every constant near, in the order of constantNearGraphs *)
Definition layout (main : list gobj) (pts : list (Q * Q)) (ns : list nearobj) : list (Q * Q) :=
  let ph := layout_phases main pts ns in
  map (fun n => place n (phase_bb ph (n_key n))) ns.

(* ---------- the property predicate ---------- *)
Definition is_top k := match k with TopLeft | TopCenter | TopRight => true | _ => false end.
Definition is_bottom k := match k with BottomLeft | BottomCenter | BottomRight => true | _ => false end.
Definition is_left k := match k with TopLeft | CenterLeft | BottomLeft => true | _ => false end.
Definition is_right k := match k with TopRight | CenterRight | BottomRight => true | _ => false end.
Definition is_hcenter k := match k with TopCenter | BottomCenter => true | _ => false end.   (* centred in x *)
Definition is_vcenter k := match k with CenterLeft | CenterRight => true | _ => false end.   (* centred in y *)

Definition implb' (a b : bool) := if a then b else true.

(* the near box [b] lies outside the box [m], at distance >= margin, on every side its key names
   (tol: slack for float rounding, 0 in the theorems) *)
Definition side_ok_b (margin tol : Q) (m : bbox) (k : nearkey) (b : box) : bool :=
  implb' (is_top k) (Qle_bool (by_ b + bh b + margin) (y1 m + tol)) &&
  implb' (is_bottom k) (Qle_bool (y2 m + margin) (by_ b + tol)) &&
  implb' (is_left k) (Qle_bool (bx b + bw b + margin) (x1 m + tol)) &&
  implb' (is_right k) (Qle_bool (x2 m + margin) (bx b + tol)).

Definition close_b (tol a b : Q) : bool := Qle_bool (a - b) tol && Qle_bool (b - a) tol.

(* ...and its centre coincides with the centre of [m] along the axis its key calls "center" *)
Definition center_ok_b (tol : Q) (m : bbox) (k : nearkey) (b : box) : bool :=
  implb' (is_hcenter k) (close_b tol (bx b + bw b / 2) ((x1 m + x2 m) / 2)) &&
  implb' (is_vcenter k) (close_b tol (by_ b + bh b / 2) ((y1 m + y2 m) / 2)).

(* nears placed in a later phase stay clear of the centre nears placed before them: a left/right near [c]
   is beside every top-center/bottom-center near [d]; a corner near [c] is above/below every
   center-left/center-right near [d] *)
Definition is_corner k := match k with TopLeft | TopRight | BottomLeft | BottomRight => true | _ => false end.
Definition clear_of_b (margin tol : Q) (kc : nearkey) (c : box) (kd : nearkey) (d : box) : bool :=
  implb' (is_hcenter kd)
    (implb' (is_left kc) (Qle_bool (bx c + bw c + margin) (bx d + tol)) &&
     implb' (is_right kc) (Qle_bool (bx d + bw d + margin) (bx c + tol))) &&
  implb' (is_vcenter kd && is_corner kc)
    (implb' (is_top kc) (Qle_bool (by_ c + bh c + margin) (by_ d + tol)) &&
     implb' (is_bottom kc) (Qle_bool (by_ d + bh d + margin) (by_ c + tol))).

(* the placement as it was before 40b9f8452: shapes whose near is another shape did not exist for boundingBox *)
Definition drop_obj_near (main : list gobj) : list gobj :=
  filter (fun g => match g with GObjNear _ _ _ _ _ => false | _ => true end) main.
(* two boxes share interior points *)
Definition Qlt_b (a b : Q) : bool := negb (Qle_bool b a).
Definition boxes_overlap_b (a b : box) : bool :=
  Qlt_b (bx a) (bx b + bw b) && Qlt_b (bx b) (bx a + bw a) &&
  Qlt_b (by_ a) (by_ b + bh b) && Qlt_b (by_ b) (by_ a + bh a).

(* hypotheses of the theorems, as booleans the checker evaluates *)
Definition label_dims_ok_b (n : nearobj) : bool := Qle_bool 0 (n_lw n) && Qle_bool 0 (n_lh n).
Definition has_shape_b (main : list gobj) : bool := existsb (fun g => match plain g with GMain _ _ _ _ _ => true | _ => false end) main.

Definition layout_pinned (main : list gobj) (pts : list (Q * Q)) (ns : list nearobj) : list (Q * Q) :=
  layout (drop_obj_near main) pts ns.
