From Coq Require Import ZArith QArith Qminmax List Bool String Ascii NArith Lia Lqa.
Import ListNotations.
Require Import V.C24.Model.
Open Scope Q_scope.

(* ------------------------------------------------------------------ ranges *)
(* [covers r lo hi]: the interval has been started and contains [lo,hi] *)
Definition covers (r : range) (lo hi : Q) : Prop :=
  match r with Some (a, b) => a <= lo /\ hi <= b | None => False end.
(* [rsub r r']: r' is r or a wider interval *)
Definition rsub (r r' : range) : Prop :=
  match r, r' with
  | None, _ => True
  | Some (a, b), Some (a', b') => a' <= a /\ b <= b'
  | Some _, None => False
  end.

Lemma rsub_refl r : rsub r r.
Proof. destruct r as [[a b]|]; simpl; auto. split; apply Qle_refl. Qed.

Lemma rsub_trans r s t : rsub r s -> rsub s t -> rsub r t.
Proof.
  destruct r as [[a b]|], s as [[c d]|], t as [[e f]|]; simpl; auto; try tauto.
  intros [? ?] [? ?]. split; eapply Qle_trans; eauto.
Qed.

Lemma ext_covers r lo hi : covers (ext r lo hi) lo hi.
Proof.
  destruct r as [[a b]|]; simpl.
  - split; [apply Q.le_min_r | apply Q.le_max_r].
  - split; apply Qle_refl.
Qed.

Lemma ext_sub r lo hi : rsub r (ext r lo hi).
Proof.
  destruct r as [[a b]|]; simpl; auto. split; [apply Q.le_min_l | apply Q.le_max_l].
Qed.

Lemma ext_mono r r' lo hi : rsub r r' -> rsub (ext r lo hi) (ext r' lo hi).
Proof.
  destruct r as [[a b]|], r' as [[a' b']|]; simpl; try tauto.
  - intros [H1 H2]. split.
    + apply Q.min_glb; [eapply Qle_trans; [apply Q.le_min_l | exact H1] | apply Q.le_min_r].
    + apply Q.max_lub; [eapply Qle_trans; [exact H2 | apply Q.le_max_l] | apply Q.le_max_r].
  - intros _. split; [apply Q.le_min_r | apply Q.le_max_r].
  - intros _. split; apply Qle_refl.
Qed.

Lemma covers_sub r r' lo hi : covers r lo hi -> rsub r r' -> covers r' lo hi.
Proof.
  destruct r as [[a b]|], r' as [[a' b']|]; simpl; try tauto.
  intros [? ?] [? ?]. split; eapply Qle_trans; eauto.
Qed.

Lemma covers_lohi r lo hi : covers r lo hi -> rlo r <= lo /\ hi <= rhi r.
Proof. destruct r as [[a b]|]; simpl; tauto. Qed.

Lemma rsub_lohi r r' lo hi : covers r lo hi -> rsub r r' -> rlo r' <= rlo r /\ rhi r <= rhi r'.
Proof. destruct r as [[a b]|], r' as [[a' b']|]; simpl; tauto. Qed.

(* ------------------------------------------------------------------ fold states *)
Definition ssub (s s' : bbstate) : Prop := rsub (fst s) (fst s') /\ rsub (snd s) (snd s').

Lemma ssub_refl s : ssub s s. Proof. split; apply rsub_refl. Qed.
Lemma ssub_trans s t u : ssub s t -> ssub t u -> ssub s u.
Proof. intros [? ?] [? ?]; split; eapply rsub_trans; eauto. Qed.

Lemma add_box_ext s b : ssub s (add_box s b).
Proof. split; apply ext_sub. Qed.
Lemma add_box_mono s s' b : ssub s s' -> ssub (add_box s b) (add_box s' b).
Proof. intros [? ?]; split; apply ext_mono; assumption. Qed.

Lemma add_obj0_ext s g : ssub s (add_obj0 s g).
Proof.
  destruct g as [b hl lp lw lh | k b | b' hl' lp' lw' lh']; simpl.
  - destruct (label_box b hl lp lw lh).
    + eapply ssub_trans; apply add_box_ext.
    + apply add_box_ext.
  - destruct k; try apply ssub_refl; split; simpl; try apply rsub_refl; apply ext_sub.
  - apply ssub_refl.
Qed.

Lemma add_obj0_mono s s' g : ssub s s' -> ssub (add_obj0 s g) (add_obj0 s' g).
Proof.
  intro H. destruct g as [b hl lp lw lh | k b | b' hl' lp' lw' lh']; simpl.
  - destruct (label_box b hl lp lw lh); repeat apply add_box_mono; exact H.
  - destruct H as [H1 H2]. destruct k; split; simpl; try assumption; apply ext_mono; assumption.
  - exact H.
Qed.

Lemma add_obj_ext s g : ssub s (add_obj s g).
Proof. apply add_obj0_ext. Qed.
Lemma add_obj_mono s s' g : ssub s s' -> ssub (add_obj s g) (add_obj s' g).
Proof. apply add_obj0_mono. Qed.

Lemma add_pt_ext s p : ssub s (add_pt s p).
Proof. split; apply ext_sub. Qed.
Lemma add_pt_mono s s' p : ssub s s' -> ssub (add_pt s p) (add_pt s' p).
Proof. intros [? ?]; split; apply ext_mono; assumption. Qed.

Section Folds.
  Context {A : Type} (f : bbstate -> A -> bbstate).
  Hypothesis f_ext : forall s a, ssub s (f s a).
  Hypothesis f_mono : forall s s' a, ssub s s' -> ssub (f s a) (f s' a).

  Lemma fold_ext l : forall s, ssub s (fold_left f l s).
  Proof.
    induction l as [|a l IH]; intro s; simpl; [apply ssub_refl|].
    eapply ssub_trans; [apply f_ext | apply IH].
  Qed.

  Lemma fold_mono l : forall s s', ssub s s' -> ssub (fold_left f l s) (fold_left f l s').
  Proof.
    induction l as [|a l IH]; intros s s' H; simpl; [exact H|]. apply IH, f_mono, H.
  Qed.
End Folds.

Lemma bb_fold_app main extra pts : ssub (bb_fold main pts) (bb_fold (main ++ extra) pts).
Proof.
  unfold bb_fold. rewrite fold_left_app.
  apply (fold_mono add_pt add_pt_mono).
  apply (fold_ext add_obj add_obj_ext).
Qed.

(* everything an element contributes is covered by the final state *)
Definition obj_covered0 (s : bbstate) (g : gobj) : Prop :=
  match g with
  | GMain b hl lp lw lh =>
      covers (fst s) (bx b) (bx b + bw b) /\ covers (snd s) (by_ b) (by_ b + bh b) /\
      match label_box b hl lp lw lh with
      | Some l => covers (fst s) (bx l) (bx l + bw l) /\ covers (snd s) (by_ l) (by_ l + bh l)
      | None => True
      end
  | GNear k b =>
      (is_hcenter k = true -> covers (fst s) (bx b) (bx b + bw b)) /\
      (is_vcenter k = true -> covers (snd s) (by_ b) (by_ b + bh b))
  | GObjNear _ _ _ _ _ => True
  end.

Lemma obj_covered0_sub s s' g : obj_covered0 s g -> ssub s s' -> obj_covered0 s' g.
Proof.
  intros H [S1 S2]. destruct g as [b hl lp lw lh | k b | b' hl' lp' lw' lh']; simpl in *; auto.
  - destruct H as (H1 & H2 & H3). repeat split; try (eapply covers_sub; eauto).
    destruct (label_box b hl lp lw lh); auto. destruct H3; split; eapply covers_sub; eauto.
  - destruct H as [H1 H2]. split; intro E; eapply covers_sub; eauto.
Qed.

Lemma add_obj0_covers s g : obj_covered0 (add_obj0 s g) g.
Proof.
  destruct g as [b hl lp lw lh | k b | b' hl' lp' lw' lh']; simpl; auto.
  - destruct (label_box b hl lp lw lh) as [l|] eqn:E; simpl.
    + repeat split; try apply ext_covers.
      * eapply covers_sub; [apply ext_covers | apply ext_sub].
      * eapply covers_sub; [apply ext_covers | apply ext_sub].
    + repeat split; apply ext_covers.
  - destruct k; simpl; split; intro E; try discriminate; apply ext_covers.
Qed.

Definition obj_covered (s : bbstate) (g : gobj) : Prop := obj_covered0 s (plain g).
Lemma obj_covered_sub s s' g : obj_covered s g -> ssub s s' -> obj_covered s' g.
Proof. apply obj_covered0_sub. Qed.
Lemma add_obj_covers s g : obj_covered (add_obj s g) g.
Proof. apply add_obj0_covers. Qed.

Lemma bb_fold_covers objs pts g : In g objs -> obj_covered (bb_fold objs pts) g.
Proof.
  intro H. apply in_split in H as (l1 & l2 & ->).
  unfold bb_fold. rewrite fold_left_app. simpl.
  eapply obj_covered_sub; [apply add_obj_covers|].
  eapply ssub_trans; [apply (fold_ext add_obj add_obj_ext) | apply (fold_ext add_pt add_pt_ext)].
Qed.

Lemma bb_fold_covers_pt objs pts p : In p pts ->
  covers (fst (bb_fold objs pts)) (fst p) (fst p) /\ covers (snd (bb_fold objs pts)) (snd p) (snd p).
Proof.
  intro H. apply in_split in H as (l1 & l2 & ->).
  unfold bb_fold. rewrite fold_left_app. simpl.
  set (s := fold_left add_pt l1 _).
  pose proof (fold_ext add_pt add_pt_ext l2 (add_pt s p)) as [S1 S2].
  split.
  - eapply covers_sub; [|exact S1]. simpl. apply ext_covers.
  - eapply covers_sub; [|exact S2]. simpl. apply ext_covers.
Qed.

(* ------------------------------------------------------------------ bounding boxes *)
Definition bb_le (inner outer : bbox) : Prop :=
  x1 outer <= x1 inner /\ x2 inner <= x2 outer /\ y1 outer <= y1 inner /\ y2 inner <= y2 outer.

Lemma has_shape_in main : has_shape_b main = true ->
  exists g b hl lp lw lh, In g main /\ plain g = GMain b hl lp lw lh.
Proof.
  unfold has_shape_b. rewrite existsb_exists. intros [g [Hin Hg]].
  destruct (plain g) as [b hl lp lw lh| |] eqn:E; try discriminate. exists g, b, hl, lp, lw, lh. split; [exact Hin | exact E].
Qed.

Lemma bounding_box_nonempty objs pts : objs <> [] ->
  bounding_box objs pts =
  let s := bb_fold objs pts in mkbb (rlo (fst s)) (rlo (snd s)) (rhi (fst s)) (rhi (snd s)).
Proof. destruct objs; [congruence | reflexivity]. Qed.

Lemma in_nonempty {A} (x : A) l : In x l -> l <> [].
Proof. destruct l; simpl; [tauto | congruence]. Qed.

(* the box of the main diagram is inside every later bounding box *)
Lemma main_bb_le main extra pts : has_shape_b main = true ->
  bb_le (bounding_box main pts) (bounding_box (main ++ extra) pts).
Proof.
  intro H. apply has_shape_in in H as (g & b & hl & lp & lw & lh & Hin & Hp).
  rewrite !bounding_box_nonempty by
    (eapply in_nonempty; try apply in_or_app; eauto).
  cbv zeta. pose proof (bb_fold_covers main pts _ Hin) as C. unfold obj_covered in C. rewrite Hp in C.
  destruct C as (C1 & C2 & _).
  pose proof (bb_fold_app main extra pts) as [S1 S2].
  pose proof (rsub_lohi _ _ _ _ C1 S1). pose proof (rsub_lohi _ _ _ _ C2 S2).
  unfold bb_le; simpl. tauto.
Qed.

(* the y-range ignores top-center / bottom-center nears; the x-range ignores center-left / center-right *)
Lemma fold_pts_snd pts : forall s s', snd s = snd s' ->
  snd (fold_left add_pt pts s) = snd (fold_left add_pt pts s').
Proof.
  induction pts as [|p l IH]; intros s s' E; simpl; [exact E|]. apply IH. simpl. rewrite E. reflexivity.
Qed.

Lemma fold_hcenter_snd extra : Forall (fun g => match g with GNear k _ => is_hcenter k = true | _ => False end) extra ->
  forall s, snd (fold_left add_obj extra s) = snd s.
Proof.
  induction 1 as [|g l Hg _ IH]; intro s; simpl; [reflexivity|].
  rewrite IH. destruct g as [| k b |]; try tauto. unfold add_obj. destruct k; simpl in *; try discriminate; reflexivity.
Qed.

Lemma placed_phase0 bb ns :
  Forall (fun g => match g with GNear k _ => is_hcenter k = true | _ => False end) (placed 0 bb ns).
Proof.
  unfold placed. induction ns as [|n l IH]; simpl; [constructor|].
  destruct (Nat.eqb (phase_of (n_key n)) 0) eqn:E; simpl; [|exact IH].
  constructor; [|exact IH]. destruct (n_key n); simpl in *; try discriminate; reflexivity.
Qed.

Lemma phase1_y_same main pts ns : main <> [] ->
  let ph := layout_phases main pts ns in
  y1 (bb1 ph) = y1 (bb0 ph) /\ y2 (bb1 ph) = y2 (bb0 ph).
Proof.
  intros Hne ph. unfold ph, layout_phases; simpl.
  rewrite (bounding_box_nonempty main) by exact Hne.
  rewrite bounding_box_nonempty by (destruct main; [congruence | discriminate]).
  cbv zeta. simpl.
  set (b0 := bounding_box_nonempty main pts Hne). clearbody b0.
  match goal with |- context [placed 0 ?bb ns] => set (B := bb) end.
  assert (E : snd (bb_fold (main ++ placed 0 B ns) pts) = snd (bb_fold main pts)).
  { unfold bb_fold. rewrite fold_left_app. apply fold_pts_snd. apply fold_hcenter_snd, placed_phase0. }
  rewrite E. split; reflexivity.
Qed.

(* ------------------------------------------------------------------ place *)
Definition side_ok (margin tol : Q) (m : bbox) (k : nearkey) (b : box) : Prop :=
  (is_top k = true -> by_ b + bh b + margin <= y1 m + tol) /\
  (is_bottom k = true -> y2 m + margin <= by_ b + tol) /\
  (is_left k = true -> bx b + bw b + margin <= x1 m + tol) /\
  (is_right k = true -> x2 m + margin <= bx b + tol).

Lemma implb'_true a b : implb' a b = true <-> (a = true -> b = true).
Proof. destruct a, b; simpl; intuition congruence. Qed.

Lemma side_ok_b_iff margin tol m k b : side_ok_b margin tol m k b = true <-> side_ok margin tol m k b.
Proof.
  unfold side_ok_b, side_ok. rewrite !andb_true_iff, !implb'_true, !Qle_bool_iff. tauto.
Qed.

Definition center_ok (tol : Q) (m : bbox) (k : nearkey) (b : box) : Prop :=
  (is_hcenter k = true -> bx b + bw b / 2 - (x1 m + x2 m) / 2 <= tol /\ (x1 m + x2 m) / 2 - (bx b + bw b / 2) <= tol) /\
  (is_vcenter k = true -> by_ b + bh b / 2 - (y1 m + y2 m) / 2 <= tol /\ (y1 m + y2 m) / 2 - (by_ b + bh b / 2) <= tol).

Lemma center_ok_b_iff tol m k b : center_ok_b tol m k b = true <-> center_ok tol m k b.
Proof.
  unfold center_ok_b, center_ok, close_b. rewrite !andb_true_iff, !implb'_true, !andb_true_iff, !Qle_bool_iff. tauto.
Qed.

Lemma label_dims_ok n : label_dims_ok_b n = true -> 0 <= n_lw n /\ 0 <= n_lh n.
Proof. unfold label_dims_ok_b. rewrite andb_true_iff, !Qle_bool_iff. tauto. Qed.

(* place puts the box outside [bb] with margin pad on the named sides, centred where the key says center,
   for every key, every label position string and all sizes *)
Lemma place_ok n bb : label_dims_ok_b n = true ->
  let b := near_box n (place n bb) in
  side_ok pad 0 bb (n_key n) b /\
  (is_hcenter (n_key n) = true -> bx b + bw b / 2 == (x1 bb + x2 bb) / 2) /\
  (is_vcenter (n_key n) = true -> by_ b + bh b / 2 == (y1 bb + y2 bb) / 2).
Proof.
  intro Hd. apply label_dims_ok in Hd as [Hw Hh].
  unfold place, near_box, side_ok, pad.
  destruct n as [k w h lp lw lh]; simpl in *.
  destruct (label_side lp) as [[]|]; destruct k; cbn; repeat split; intros; try discriminate; try lra; try field.
Qed.

Lemma side_ok_le margin m bb k b : side_ok margin 0 bb k b -> bb_le m bb -> side_ok margin 0 m k b.
Proof.
  unfold side_ok, bb_le. intros (A & B & C & D) (E & F & G & H).
  repeat split; intro K; [specialize (A K) | specialize (B K) | specialize (C K) | specialize (D K)]; lra.
Qed.

Lemma side_ok_weaken margin tol m k b : margin <= pad -> 0 <= tol -> side_ok pad 0 m k b -> side_ok margin tol m k b.
Proof.
  unfold side_ok. intros Hm Ht (A & B & C & D).
  repeat split; intro K; [specialize (A K) | specialize (B K) | specialize (C K) | specialize (D K)]; lra.
Qed.

(* ------------------------------------------------------------------ Layout *)
Lemma in_combine_map {A B} (f : A -> B) l a b : In (a, b) (combine l (map f l)) -> In a l /\ b = f a.
Proof.
  induction l as [|x l IH]; simpl; [tauto|].
  intros [E|H]; [inversion E; subst; auto | destruct (IH H); auto].
Qed.

Lemma phase_bb_le main pts ns k : has_shape_b main = true ->
  bb_le (bounding_box main pts) (phase_bb (layout_phases main pts ns) k).
Proof.
  intro H. unfold phase_bb, layout_phases; simpl.
  destruct (phase_of k) as [|[|p]].
  - unfold bb_le; repeat split; apply Qle_refl.
  - apply main_bb_le, H.
  - rewrite <- app_assoc. apply main_bb_le, H.
Qed.

Lemma thm_outside main pts ns n p margin tol :
  has_shape_b main = true -> forallb label_dims_ok_b ns = true ->
  margin <= pad -> 0 <= tol ->
  In (n, p) (combine ns (layout main pts ns)) ->
  side_ok_b margin tol (bounding_box main pts) (n_key n) (near_box n p) = true.
Proof.
  intros Hs Hd Hm Ht Hin. unfold layout in Hin. apply in_combine_map in Hin as [Hn ->].
  rewrite forallb_forall in Hd. specialize (Hd n Hn).
  apply side_ok_b_iff, side_ok_weaken; try assumption.
  eapply side_ok_le; [apply place_ok, Hd | apply phase_bb_le, Hs].
Qed.

Lemma thm_centered main pts ns n p tol :
  has_shape_b main = true -> forallb label_dims_ok_b ns = true -> 0 <= tol ->
  In (n, p) (combine ns (layout main pts ns)) ->
  center_ok_b tol (bounding_box main pts) (n_key n) (near_box n p) = true.
Proof.
  intros Hs Hd Ht Hin. unfold layout in Hin. apply in_combine_map in Hin as [Hn ->].
  rewrite forallb_forall in Hd. specialize (Hd n Hn).
  destruct (place_ok n (phase_bb (layout_phases main pts ns) (n_key n)) Hd) as (_ & Hh & Hv).
  apply center_ok_b_iff. unfold center_ok. split; intro K.
  - specialize (Hh K). assert (E : phase_of (n_key n) = 0%nat) by (destruct (n_key n); simpl in *; try discriminate; reflexivity).
    unfold phase_bb in *. rewrite E in *. simpl bb0 in *. lra.
  - specialize (Hv K). assert (E : phase_of (n_key n) = 1%nat) by (destruct (n_key n); simpl in *; try discriminate; reflexivity).
    unfold phase_bb in *. rewrite E in *.
    assert (Hne : main <> []) by (apply has_shape_in in Hs as (g0 & b & hl & lp & lw & lh & Hi & _); eapply in_nonempty; eauto).
    destruct (phase1_y_same main pts ns Hne) as [E1 E2]. cbv zeta in E1, E2.
    change (bb0 (layout_phases main pts ns)) with (bounding_box main pts) in E1, E2.
    rewrite E1, E2 in Hv. lra.
Qed.

(* concrete reading of "outside the bounding box": clear of every shape, outside label and route point *)
Definition box_bb (b : box) : bbox := mkbb (bx b) (by_ b) (bx b + bw b) (by_ b + bh b).
Definition pt_bb (p : Q * Q) : bbox := mkbb (fst p) (snd p) (fst p) (snd p).

Lemma covers_bb_le objs pts b : objs <> [] ->
  covers (fst (bb_fold objs pts)) (bx b) (bx b + bw b) -> covers (snd (bb_fold objs pts)) (by_ b) (by_ b + bh b) ->
  bb_le (box_bb b) (bounding_box objs pts).
Proof.
  intros Hne C1 C2. rewrite bounding_box_nonempty by exact Hne. cbv zeta.
  apply covers_lohi in C1, C2. unfold bb_le, box_bb; simpl. tauto.
Qed.

Lemma thm_clear_of_shapes main pts ns n p g b hl lp lw lh :
  forallb label_dims_ok_b ns = true ->
  In g main -> plain g = GMain b hl lp lw lh ->
  In (n, p) (combine ns (layout main pts ns)) ->
  side_ok_b pad 0 (box_bb b) (n_key n) (near_box n p) = true /\
  match label_box b hl lp lw lh with
  | Some l => side_ok_b pad 0 (box_bb l) (n_key n) (near_box n p) = true
  | None => True
  end.
Proof.
  intros Hd Hm Hp Hin.
  assert (Hs : has_shape_b main = true).
  { unfold has_shape_b. rewrite existsb_exists. exists g; split; [exact Hm | rewrite Hp; reflexivity]. }
  pose proof (thm_outside main pts ns n p pad 0 Hs Hd (Qle_refl _) (Qle_refl _) Hin) as H.
  apply side_ok_b_iff in H.
  pose proof (bb_fold_covers main pts _ Hm) as C. unfold obj_covered in C. rewrite Hp in C.
  destruct C as (C1 & C2 & C3).
  assert (Hne : main <> []) by (eapply in_nonempty; eauto).
  split.
  - apply side_ok_b_iff. eapply side_ok_le; [exact H | apply covers_bb_le; assumption].
  - destruct (label_box b hl lp lw lh) as [l|]; [|exact I]. destruct C3 as [C3 C4].
    apply side_ok_b_iff. eapply side_ok_le; [exact H | apply covers_bb_le; assumption].
Qed.

Lemma thm_clear_of_routes main pts ns n p q :
  has_shape_b main = true -> forallb label_dims_ok_b ns = true ->
  In q pts ->
  In (n, p) (combine ns (layout main pts ns)) ->
  side_ok_b pad 0 (pt_bb q) (n_key n) (near_box n p) = true.
Proof.
  intros Hs Hd Hq Hin.
  pose proof (thm_outside main pts ns n p pad 0 Hs Hd (Qle_refl _) (Qle_refl _) Hin) as H.
  apply side_ok_b_iff in H. apply side_ok_b_iff. eapply side_ok_le; [exact H|].
  assert (Hne : main <> []) by (apply has_shape_in in Hs as (g0 & b & hl & lp & lw & lh & Hi & _); eapply in_nonempty; eauto).
  rewrite bounding_box_nonempty by exact Hne. cbv zeta.
  destruct (bb_fold_covers_pt main pts q Hq) as [C1 C2].
  apply covers_lohi in C1, C2. unfold bb_le, pt_bb; simpl. tauto.
Qed.

(* ------------------------------------------------------------------ centre-first ordering *)
Definition clear_of (margin tol : Q) (kc : nearkey) (c : box) (kd : nearkey) (d : box) : Prop :=
  (is_hcenter kd = true ->
     (is_left kc = true -> bx c + bw c + margin <= bx d + tol) /\
     (is_right kc = true -> bx d + bw d + margin <= bx c + tol)) /\
  (is_vcenter kd = true -> is_corner kc = true ->
     (is_top kc = true -> by_ c + bh c + margin <= by_ d + tol) /\
     (is_bottom kc = true -> by_ d + bh d + margin <= by_ c + tol)).

Lemma clear_of_b_iff margin tol kc c kd d : clear_of_b margin tol kc c kd d = true <-> clear_of margin tol kc c kd d.
Proof.
  unfold clear_of_b, clear_of.
  rewrite !andb_true_iff, !implb'_true, !andb_true_iff, !implb'_true, !Qle_bool_iff. tauto.
Qed.

Lemma in_placed ph bb ns n : In n ns -> phase_of (n_key n) = ph ->
  In (GNear (n_key n) (near_box n (place n bb))) (placed ph bb ns).
Proof.
  intros Hn E. unfold placed. apply in_flat_map. exists n. split; [exact Hn|].
  rewrite E, Nat.eqb_refl. left; reflexivity.
Qed.

Lemma thm_clear_of_centers main pts ns c pc d pd margin tol :
  forallb label_dims_ok_b ns = true -> margin <= pad -> 0 <= tol ->
  In (c, pc) (combine ns (layout main pts ns)) ->
  In (d, pd) (combine ns (layout main pts ns)) ->
  clear_of_b margin tol (n_key c) (near_box c pc) (n_key d) (near_box d pd) = true.
Proof.
  intros Hd Hm Ht Hc Hdd. unfold layout in Hc, Hdd.
  apply in_combine_map in Hc as [Hcn ->]. apply in_combine_map in Hdd as [Hdn ->].
  rewrite forallb_forall in Hd.
  destruct (place_ok c (phase_bb (layout_phases main pts ns) (n_key c)) (Hd c Hcn)) as ((T & B & L & R) & _ & _).
  apply clear_of_b_iff. unfold clear_of.
  set (ph := layout_phases main pts ns) in *.
  set (bc := near_box c (place c (phase_bb ph (n_key c)))) in *.
  split.
  - (* d is a top-center / bottom-center near, placed in phase 0 against bb0 *)
    intro Kd.
    assert (Ed : phase_of (n_key d) = 0%nat) by (destruct (n_key d); simpl in *; try discriminate; reflexivity).
    assert (Ebd : phase_bb ph (n_key d) = bb0 ph) by (unfold phase_bb; rewrite Ed; reflexivity).
    rewrite Ebd.
    set (bd := near_box d (place d (bb0 ph))).
    assert (Hin1 : In (GNear (n_key d) bd) (main ++ placed 0 (bb0 ph) ns))
      by (apply in_or_app; right; apply in_placed; assumption).
    (* both later bounding boxes cover d's x-extent *)
    assert (Cov : phase_of (n_key c) <> 0%nat ->
                  x1 (phase_bb ph (n_key c)) <= bx bd /\ bx bd + bw bd <= x2 (phase_bb ph (n_key c))).
    { intro Hph. unfold phase_bb. destruct (phase_of (n_key c)) as [|[|q]]; [congruence| |].
      - unfold ph, layout_phases; simpl bb1.
        rewrite bounding_box_nonempty by (eapply in_nonempty; exact Hin1). cbv zeta. simpl x1; simpl x2.
        destruct (bb_fold_covers _ pts _ Hin1) as [C _]. apply covers_lohi, C, Kd.
      - unfold ph, layout_phases; simpl bb2.
        match goal with |- context [bounding_box (?o1 ++ ?e) pts] => set (O1 := o1); set (E := e) end.
        assert (Hin2 : In (GNear (n_key d) bd) (O1 ++ E)) by (apply in_or_app; left; exact Hin1).
        rewrite bounding_box_nonempty by (eapply in_nonempty; exact Hin2). cbv zeta. simpl x1; simpl x2.
        destruct (bb_fold_covers _ pts _ Hin2) as [C _]. apply covers_lohi, C, Kd. }
    split; intro K.
    + assert (Hph : phase_of (n_key c) <> 0%nat) by (destruct (n_key c); simpl in *; discriminate).
      specialize (L K). destruct (Cov Hph). unfold pad in *. lra.
    + assert (Hph : phase_of (n_key c) <> 0%nat) by (destruct (n_key c); simpl in *; discriminate).
      specialize (R K). destruct (Cov Hph). unfold pad in *. lra.
  - (* d is a center-left / center-right near (phase 1), c a corner (phase 2) *)
    intros Kd Kc.
    assert (Ed : phase_of (n_key d) = 1%nat) by (destruct (n_key d); simpl in *; try discriminate; reflexivity).
    assert (Ec : phase_of (n_key c) = 2%nat) by (destruct (n_key c); simpl in *; try discriminate; reflexivity).
    assert (Ebd : phase_bb ph (n_key d) = bb1 ph) by (unfold phase_bb; rewrite Ed; reflexivity).
    assert (Ebc : phase_bb ph (n_key c) = bb2 ph) by (unfold phase_bb; rewrite Ec; reflexivity).
    rewrite Ebd.
    set (bd := near_box d (place d (bb1 ph))).
    rewrite Ebc in T, B. unfold bc in *. rewrite Ebc in *.
    assert (Cov : y1 (bb2 ph) <= by_ bd /\ by_ bd + bh bd <= y2 (bb2 ph)).
    { unfold ph, layout_phases; simpl bb2.
      match goal with |- context [bounding_box (?o1 ++ ?e) pts] => set (O1 := o1); set (E := e) end.
      assert (Hin2 : In (GNear (n_key d) bd) (O1 ++ E)).
      { apply in_or_app; right. unfold E, bd, ph, layout_phases; simpl bb1. apply in_placed; assumption. }
      rewrite bounding_box_nonempty by (eapply in_nonempty; exact Hin2). cbv zeta. simpl y1; simpl y2.
      destruct (bb_fold_covers _ pts _ Hin2) as [_ C]. apply covers_lohi, C, Kd. }
    destruct Cov. split; intro K; [specialize (T K) | specialize (B K)]; unfold pad in *; lra.
Qed.

(* ------------------------------------------------------------------ history: before 40b9f8452 *)
(* the diagram   b;  a: {near: b; width: 800; height: 400};  r: R {near: bottom-right}   as dagre lays it out *)
Definition cex_main : list gobj :=
  [GMain (mkbox 0 167 53 66) true None 8 21; GObjNear (mkbox 113 0 800 400) true None 8 21].
Definition cex_near : nearobj := mknear BottomRight 54 66 None 9 21.

(* the pinned boundingBox did not see the 800x400 shape: the bottom-right near landed inside it *)
Lemma thm_pinned_refuted :
  let p := (73 # 1, 253 # 1) in
  has_shape_b cex_main = true /\ forallb label_dims_ok_b [cex_near] = true /\
  In (cex_near, p) (combine [cex_near] (layout_pinned cex_main [] [cex_near])) /\
  side_ok_b 0 0 (bounding_box cex_main []) BottomRight (near_box cex_near p) = false /\
  boxes_overlap_b (near_box cex_near p) (mkbox 113 0 800 400) = true.
Proof. vm_compute. repeat split; try reflexivity. left. reflexivity. Qed.

(* the repaired code puts it at (933,420) *)
Lemma thm_repaired_example :
  In (cex_near, (933 # 1, 420 # 1)) (combine [cex_near] (layout cex_main [] [cex_near])).
Proof. vm_compute. left. reflexivity. Qed.
