(* Lemmas that tie the theorems of Proofs.v to the predicates Check.v executes. *)
From Coq Require Import ZArith QArith Qabs List Bool NArith.
Import ListNotations.
Require Import V.C20.Model V.C20.Proofs V.C20.Check.
Open Scope Q_scope.

(* for a rectangular end, [end_ok] IS the border predicate of the visual extent at the property's tolerance *)
Lemma end_ok_rect v p : end_ok v true [] p = on_extent_border_b tol v p.
Proof. reflexivity. Qed.

Lemma default_route_plain_end_ok rnd (rnd_half : forall q, Qabs (rnd q - q) <= 1 # 2) bs bd :
  box_ok bs -> box_ok bd ->
  snd (trace_side rnd false (mkend bs None None) [box_center bs; box_center bd]) <> 0%nat ->
  snd (trace_side rnd true (mkend bd None None)
         (rev (fst (trace_side rnd false (mkend bs None None) [box_center bs; box_center bd])))) <> 0%nat ->
  exists p q, default_route rnd (mkend bs None None) (mkend bd None None) = [p; q] /\
    end_ok (plain_vis bs) true [] p = true /\ end_ok (plain_vis bd) true [] q = true.
Proof.
  intros Hs Hd H1 H2.
  destruct (default_route_plain rnd rnd_half bs bd Hs Hd H1 H2) as [p [q [E [A B]]]].
  exists p, q. split; [exact E|].
  split; (eapply on_union_border_mono; [|eassumption]; discriminate).
Qed.
