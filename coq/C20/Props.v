(* C20 — Connections start at their source and end at their destination.

   Statements only.  Everything is over exact rationals and for ALL boxes (w, h >= 0), segments, polylines of any
   length and any rounding function [rnd] to within half a unit (the code's math.Round, [qround], is one; a float64
   tie resolved the other way is another).  The property is COMPOSITIONAL AND PARTIAL: the theorems say that the
   Go post-processing (Box.Intersections, the dagre chop loop, the rectangular branch of TraceToShape, DefaultRouter)
   puts an end point on the border of a piece of the extent WHENEVER the segment it looks at meets that piece, and
   leaves the point where the engine put it otherwise; that "otherwise", dagre / ELK themselves, the spacing
   adjustments after routing and TraceToShapeBorder for non-rectangular shapes are hypotheses / search only. *)
From Coq Require Import ZArith QArith Qabs List Bool NArith.
Import ListNotations.
Require Import V.C20.Model V.C20.Proofs V.C20.Check V.C20.Link.
Open Scope Q_scope.

Section AnyRounding.
Variable rnd : Q -> Q.
Hypothesis rnd_half : forall q, Qabs (rnd q - q) <= 1 # 2.

(* geo.Box.Intersections: every returned point is within half a pixel (Chebyshev) of a point that lies on the
   segment AND on one of the four sides of the box; in particular within half a pixel of the box border *)
Theorem C20_chop_lands_on_border : forall b s p,
  box_ok b -> In p (box_intersections rnd b s) ->
  near_border_b (1 # 2) b p = true /\
  exists e, on_segment s e /\ on_border b e /\ close (1 # 2) p e.
Proof. exact (box_intersections_on_border rnd rnd_half). Qed.

(* the chop loop of dagre's Layout, any polyline with >= 2 points: the result has >= 2 points; its first point is on
   the border of the Src box (1/2 px) if some visited segment met it, and is the polyline's first point otherwise;
   its last point is on the border of the Dst box if some segment met it, and the polyline's last point otherwise *)
Theorem C20_chop_loop_ends : forall src dst pts d,
  box_ok src -> box_ok dst -> (2 <= length pts)%nat ->
  (2 <= length (chop rnd src dst pts))%nat /\
  (chop_src_hit rnd src dst pts = true -> near_border_b (1 # 2) src (hd d (chop rnd src dst pts)) = true) /\
  (chop_src_hit rnd src dst pts = false -> hd d (chop rnd src dst pts) = hd d pts) /\
  (chop_dst_hit rnd src dst pts = true -> near_border_b (1 # 2) dst (last (chop rnd src dst pts) d) = true) /\
  (chop_dst_hit rnd src dst pts = false -> last (chop rnd src dst pts) d = last pts d).
Proof. exact (chop_spec rnd rnd_half). Qed.

(* Edge.TraceToShape, rectangular shapes, as dagre and ELK call it (box or 3d/multiple offset box, outside label box,
   outside icon box): if a piece stopped the edge (k <> 0) the traced end point is within half a pixel of the border of
   that piece -- one of the boxes the code derives from the box or from the offset box --, and if none did the points
   are the given ones (at the destination possibly without some leading points that lie inside the label/icon box) *)
Theorem C20_traced_endpoints_on_border_rect : forall is_dst b dx dy lab ic pts l k,
  dims_ok_b b lab ic = true ->
  trace_side rnd is_dst (mkend (modifier_box b dx dy (hd (0, 0) pts)) lab ic) pts = (l, k) ->
  (k <> 0%nat ->
     exists piece p,
       (In piece (code_pieces (mkend b lab ic)) \/ In piece (code_pieces (mkend (shifted_box b dx dy) lab ic))) /\
       hd_error l = Some p /\ near_border_b (1 # 2) piece p = true) /\
  (k = 0%nat -> (exists n, l = skipn n pts) /\ (is_dst = false -> l = pts)).
Proof. exact (traced_rect_with_modifier rnd rnd_half). Qed.

(* DefaultRouter / d2grid between two plain rectangles (no outside label/icon, no 3d/multiple), end to end with the
   predicate Check.v evaluates: if the centre-to-centre segment meets both boxes, both ends are on the border of the
   visual extent within the property's tolerance *)
Theorem C20_default_route_plain_rect : forall bs bd,
  box_ok bs -> box_ok bd ->
  snd (trace_side rnd false (mkend bs None None) [box_center bs; box_center bd]) <> 0%nat ->
  snd (trace_side rnd true (mkend bd None None)
         (rev (fst (trace_side rnd false (mkend bs None None) [box_center bs; box_center bd])))) <> 0%nat ->
  exists p q, default_route rnd (mkend bs None None) (mkend bd None None) = [p; q] /\
    end_ok (plain_vis bs) true [] p = true /\ end_ok (plain_vis bd) true [] q = true.
Proof. exact (default_route_plain_end_ok rnd rnd_half). Qed.
End AnyRounding.

(* the code's rounding is one such rounding *)
Theorem C20_go_round_within_half : forall q, Qabs (qround q - q) <= 1 # 2.
Proof. exact qround_half. Qed.

(* the border predicate Check.v executes is the stated one *)
Theorem C20_border_predicate_reflects : forall t sds,
  on_union_border_b t sds = true <->
  (exists s, In s sds /\ Qabs s <= t) /\ (forall s, In s sds -> - t <= s).
Proof. exact on_union_border_iff. Qed.

(* ---- the unguarded statements are false for the faithful model: genuine defects, replayed on the real code ---- *)

(* container <-> own descendant, routed centre to centre: the container's end stays at its centre *)
Theorem C20_default_route_container_refuted :
  exists bs bd, box_ok bs /\ box_ok bd /\
    hd (0, 0) (default_route qround (mkend bs None None) (mkend bd None None)) = box_center bs /\
    on_extent_border_b 100 (plain_vis bs) (hd (0, 0) (default_route qround (mkend bs None None) (mkend bd None None))) = false.
Proof. exact default_route_container_refuted. Qed.

(* the same for the chop loop: a polyline that never leaves the source box keeps its first point *)
Theorem C20_chop_container_refuted :
  exists src dst pts, box_ok src /\ box_ok dst /\ (2 <= length pts)%nat /\
    chop_src_hit qround src dst pts = false /\
    on_extent_border_b 50 (plain_vis src) (hd (0, 0) (chop qround src dst pts)) = false.
Proof. exact chop_container_refuted. Qed.

(* DefaultRouter ignores the 3d / multiple offset box *)
Theorem C20_default_route_3d_refuted :
  exists bs bd, box_ok bs /\ box_ok bd /\
    on_extent_border_b 1 (mkvis bs 15 15 None None) (hd (0, 0) (default_route qround (mkend bs None None) (mkend bd None None))) = false.
Proof. exact default_route_3d_refuted. Qed.

(* the source's outside icon box is built with MAX_ICON_SIZE instead of the drawn size *)
Theorem C20_source_icon_size_refuted :
  exists bs bd, box_ok bs /\ box_ok bd /\
    on_extent_border_b 1 (mkvis bs 0 0 None (Some (OLeftMiddle, 32)))
      (hd (0, 0) (default_route qround (mkend bs None (Some (OLeftMiddle, 64))) (mkend bd None None))) = false.
Proof. exact source_icon_size_refuted. Qed.

(* ---- the hypotheses are satisfiable by non-trivial instances ---- *)
Example C20_chop_lands_on_border_satisfiable :
  box_ok (mkbox 0 0 100 60) /\ In (50, 0) (box_intersections qround (mkbox 0 0 100 60) ((50, -40), (50, 100))).
Proof. split; [split; discriminate|]. vm_compute. left. reflexivity. Qed.

Example C20_chop_loop_ends_satisfiable :
  chop_src_hit qround (mkbox 0 0 100 60) (mkbox 0 200 100 60) [(50, 30); (50, 120); (50, 230)] = true /\
  chop_dst_hit qround (mkbox 0 0 100 60) (mkbox 0 200 100 60) [(50, 30); (50, 120); (50, 230)] = true /\
  chop qround (mkbox 0 0 100 60) (mkbox 0 200 100 60) [(50, 30); (50, 120); (50, 230)] = [(50, 60); (50, 120); (50, 200)].
Proof. vm_compute. repeat split. Qed.

Example C20_traced_endpoints_on_border_rect_satisfiable :
  dims_ok_b (mkbox 0 0 100 60) (Some (OTopCenter, 40, 20)) None = true /\
  snd (trace_side qround false (mkend (modifier_box (mkbox 0 0 100 60) 15 15 (50, 0)) (Some (OTopCenter, 40, 20)) None)
         [(50, 0); (50, -100)]) = 1%nat.
Proof. vm_compute. split; reflexivity. Qed.

Example C20_default_route_plain_rect_satisfiable :
  pts_close 0 (default_route qround (mkend (mkbox 0 0 100 60) None None) (mkend (mkbox 0 200 100 60) None None))
              [(50, 60); (50, 200)] = true.
Proof. vm_compute. reflexivity. Qed.

Print Assumptions C20_chop_lands_on_border.
Print Assumptions C20_chop_loop_ends.
Print Assumptions C20_traced_endpoints_on_border_rect.
Print Assumptions C20_default_route_plain_rect.
Print Assumptions C20_go_round_within_half.
Print Assumptions C20_border_predicate_reflects.
Print Assumptions C20_default_route_container_refuted.
Print Assumptions C20_chop_container_refuted.
Print Assumptions C20_default_route_3d_refuted.
Print Assumptions C20_source_icon_size_refuted.
