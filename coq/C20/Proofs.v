From Coq Require Import ZArith QArith Qminmax Qround Qabs List Bool NArith Lia Lqa.
Import ListNotations.
Require Import V.C20.Model.
Open Scope Q_scope.

(* ------------------------------------------------------------------ booleans on Q *)
Lemma lt_b_false a b : lt_b a b = false -> b <= a.
Proof. unfold lt_b. intro H. apply negb_false_iff in H. apply Qle_bool_iff in H. exact H. Qed.

Lemma lt_b_true a b : lt_b a b = true -> a < b.
Proof.
  unfold lt_b. intro H. apply negb_true_iff in H.
  destruct (Qlt_le_dec a b) as [L|L]; [exact L|].
  apply Qle_bool_iff in L. congruence.
Qed.

Lemma Qle_bool_false a b : Qle_bool a b = false -> b < a.
Proof.
  intro H. destruct (Qlt_le_dec b a) as [L|L]; [exact L|]. apply Qle_bool_iff in L. congruence.
Qed.

Lemma Qabs_le_iff x d : Qabs x <= d <-> - d <= x /\ x <= d.
Proof. apply Qabs_Qle_condition. Qed.

(* ------------------------------------------------------------------ math.Round *)
Lemma qround_close q : Qabs (qround q - q) <= 1 # 2.
Proof.
  unfold qround. apply Qabs_le_iff.
  destruct (Qle_bool 0 q) eqn:E.
  - pose proof (Qfloor_le (q + (1#2))) as H1. pose proof (Qlt_floor (q + (1#2))) as H2.
    rewrite inject_Z_plus in H2. change (inject_Z 1) with 1 in H2. split; lra.
  - pose proof (Qfloor_le (- q + (1#2))) as H1. pose proof (Qlt_floor (- q + (1#2))) as H2.
    rewrite inject_Z_plus in H2. change (inject_Z 1) with 1 in H2. split; lra.
Qed.

(* ------------------------------------------------------------------ everything below holds for any rounding to
   within half a unit; the code's math.Round ([qround]) is one (qround_close) *)
Section WithRnd.
Variable rnd : Q -> Q.
Hypothesis rnd_close : forall q, Qabs (rnd q - q) <= 1 # 2.
Local Notation intersection_point := (Model.intersection_point rnd).
Local Notation box_intersections := (Model.box_intersections rnd).
Local Notation chop_go := (Model.chop_go rnd).
Local Notation chop_hits := (Model.chop_hits rnd).
Local Notation chop := (Model.chop rnd).
Local Notation chop_src_hit := (Model.chop_src_hit rnd).
Local Notation chop_dst_hit := (Model.chop_dst_hit rnd).
Local Notation try_box := (Model.try_box rnd).
Local Notation trace_side := (Model.trace_side rnd).
Local Notation trace_to_shape := (Model.trace_to_shape rnd).
Local Notation default_route := (Model.default_route rnd).

(* ------------------------------------------------------------------ IntersectionPoint *)
Lemma cramer_x (udx vdx uvdx udy vdy uvdy : Q) : ~ (udy * vdx - udx * vdy == 0) ->
  (vdx * uvdy - vdy * uvdx) / (udy * vdx - udx * vdy) * udx
  - (udx * uvdy - udy * uvdx) / (udy * vdx - udx * vdy) * vdx == uvdx.
Proof. intros. field. assumption. Qed.

Lemma cramer_y (udx vdx uvdx udy vdy uvdy : Q) : ~ (udy * vdx - udx * vdy == 0) ->
  (vdx * uvdy - vdy * uvdx) / (udy * vdx - udx * vdy) * udy
  - (udx * uvdy - udy * uvdx) / (udy * vdx - udx * vdy) * vdy == uvdy.
Proof. intros. field. assumption. Qed.

Lemma intersection_point_spec u0 u1 v0 v1 p :
  intersection_point u0 u1 v0 v1 = Some p ->
  exists e, on_segment (u0, u1) e /\ on_segment (v0, v1) e /\ close (1 # 2) p e.
Proof.
  unfold Model.intersection_point.
  set (udx := px u1 - px u0). set (vdx := px v1 - px v0). set (uvdx := px v0 - px u0).
  set (udy := py u1 - py u0). set (vdy := py v1 - py v0). set (uvdy := py v0 - py u0).
  set (denom := udy * vdx - udx * vdy).
  destruct (Qeq_bool denom 0) eqn:ED; [discriminate|].
  set (s := (vdx * uvdy - vdy * uvdx) / denom).
  set (t := (udx * uvdy - udy * uvdx) / denom).
  destruct (lt_b s 0 || lt_b 1 s || lt_b t 0 || lt_b 1 t) eqn:ER; [discriminate|].
  intro H. inversion H; subst p; clear H.
  apply orb_false_iff in ER as [ER E4]. apply orb_false_iff in ER as [ER E3].
  apply orb_false_iff in ER as [E1 E2].
  apply lt_b_false in E1, E2, E3, E4.
  assert (Dn : ~ denom == 0).
  { intro D. apply Qeq_bool_iff in D. congruence. }
  exists (px u0 + s * udx, py u0 + s * udy). split; [|split].
  - exists s. simpl. split; [split; assumption|]. split; reflexivity.
  - exists t. simpl. split; [split; assumption|].
    fold vdx vdy. split.
    + assert (X : s * udx - t * vdx == uvdx) by (apply cramer_x; exact Dn).
      unfold uvdx in X. lra.
    + assert (Y : s * udy - t * vdy == uvdy) by (apply cramer_y; exact Dn).
      unfold uvdy in Y. lra.
  - unfold close, px, py; cbn [fst snd].
    pose proof (rnd_close (s * udx)) as Rx. pose proof (rnd_close (s * udy)) as Ry.
    apply Qabs_le_iff in Rx, Ry. destruct Rx, Ry.
    split; (apply Qabs_le_iff; split; lra).
Qed.

(* ------------------------------------------------------------------ sides and the border *)
Lemma side_on_border b sd e : box_ok b -> In sd (sides b) -> on_segment sd e -> on_border b e.
Proof.
  intros [Hw Hh] HI [k [[K0 K1] [EX EY]]].
  unfold sides in HI. simpl in HI.
  destruct HI as [<-|[<-|[<-|[<-|[]]]]]; unfold b_tl, b_tr, b_br, b_bl, px, py in *; simpl in *; unfold on_border, px, py.
  - right. split; [left; lra|]. split; nra.
  - left. split; [right; lra|]. split; nra.
  - right. split; [right; lra|]. split; nra.
  - left. split; [left; lra|]. split; nra.
Qed.

Lemma sd_box_le b p t :
  sd_box b p <= t <-> (bx b - px p <= t /\ px p - (bx b + bw b) <= t) /\ (by_ b - py p <= t /\ py p - (by_ b + bh b) <= t).
Proof. unfold sd_box. rewrite !Q.max_lub_iff. tauto. Qed.

Lemma sd_box_ge b p t :
  t <= sd_box b p <-> (t <= bx b - px p \/ t <= px p - (bx b + bw b)) \/ (t <= by_ b - py p \/ t <= py p - (by_ b + bh b)).
Proof. unfold sd_box. rewrite !Q.max_le_iff. tauto. Qed.

Lemma near_border_iff tol b p :
  near_border_b tol b p = true <-> - tol <= sd_box b p /\ sd_box b p <= tol.
Proof. unfold near_border_b. rewrite Qle_bool_iff. apply Qabs_le_iff. Qed.

Lemma close_border_near b e p d :
  box_ok b -> on_border b e -> close d p e -> near_border_b d b p = true.
Proof.
  intros [Hw Hh] OB [CX CY]. apply near_border_iff.
  apply Qabs_le_iff in CX, CY. destruct CX as [CX1 CX2], CY as [CY1 CY2].
  rewrite sd_box_le, sd_box_ge.
  unfold on_border in OB.
  destruct OB as [[[E|E] [Y1 Y2]]|[[E|E] [X1 X2]]]; split; try (repeat split; lra).
Qed.

Lemma in_box_intersections b s p :
  In p (box_intersections b s) ->
  exists sd, In sd (sides b) /\ intersection_point (fst s) (snd s) (fst sd) (snd sd) = Some p.
Proof.
  unfold Model.box_intersections. intro H. apply in_flat_map in H as [sd [H1 H2]].
  exists sd. split; [exact H1|].
  destruct (intersection_point (fst s) (snd s) (fst sd) (snd sd)); simpl in H2; [|contradiction].
  destruct H2 as [->|[]]. reflexivity.
Qed.

(* every point Box.Intersections returns is within half a pixel (the code's math.Round) of a point that lies on
   the segment and on one of the four sides of the box *)
Lemma box_intersections_on_border b s p :
  box_ok b -> In p (box_intersections b s) ->
  near_border_b (1 # 2) b p = true /\
  exists e, on_segment s e /\ on_border b e /\ close (1 # 2) p e.
Proof.
  intros OK HI. apply in_box_intersections in HI as [sd [HS HP]].
  apply intersection_point_spec in HP as [e [E1 [E2 E3]]].
  assert (OB : on_border b e).
  { apply (side_on_border b sd); auto. }
  split.
  - eapply close_border_near; eauto.
  - exists e. destruct s; auto.
Qed.

(* ------------------------------------------------------------------ the chop loop *)
Definition near (b : box) (p : pt) : Prop := near_border_b (1 # 2) b p = true.

Lemma hd_in_near b s p l : box_ok b -> box_intersections b s = p :: l -> near b p.
Proof.
  intros OK E. apply (box_intersections_on_border b s p OK). rewrite E. left; reflexivity.
Qed.

Lemma last_app_single {A} (l : list A) (x d : A) : last (l ++ [x]) d = x.
Proof. apply last_last. Qed.

Lemma last_cons_app {A} (a : A) (l : list A) (x d : A) : last (a :: l ++ [x]) d = x.
Proof. change (a :: l ++ [x]) with ((a :: l) ++ [x]). apply last_last. Qed.

(* first point *)
Lemma chop_go_first src dst (s0 : pt) : box_ok src ->
  forall rest prev start mid sh,
    (sh = true -> near src start) -> (sh = false -> start = s0) ->
    exists h tl, chop_go src dst prev rest start mid = h :: tl /\
      (fst (chop_hits src dst prev rest sh) = true -> near src h) /\
      (fst (chop_hits src dst prev rest sh) = false -> h = s0).
Proof.
  intros OK. induction rest as [|cur rest IH]; intros prev start mid sh H1 H2; simpl.
  - exists start, (rev mid). auto.
  - destruct (box_intersections src (prev, cur)) as [|p l] eqn:ES.
    + destruct (box_intersections dst (prev, cur)) as [|q l'] eqn:EDs.
      * apply IH; auto.
      * exists start, (rev mid ++ [q]). simpl. auto.
    + assert (NP : near src p) by (eapply hd_in_near; eauto).
      destruct (box_intersections dst (prev, cur)) as [|q l'] eqn:EDs.
      * apply IH; [auto|discriminate].
      * exists p, (rev [] ++ [q]). simpl. split; [reflexivity|]. split; [auto|discriminate].
Qed.

(* last point *)
Lemma chop_go_last src dst (d : pt) : box_ok dst ->
  forall rest prev start mid sh,
    last (start :: rev mid) d = prev ->
    (snd (chop_hits src dst prev rest sh) = true -> near dst (last (chop_go src dst prev rest start mid) d)) /\
    (snd (chop_hits src dst prev rest sh) = false -> last (chop_go src dst prev rest start mid) d = last (prev :: rest) d).
Proof.
  intros OK. induction rest as [|cur rest IH]; intros prev start mid sh J.
  - simpl. split; [discriminate|]. intros _. exact J.
  - cbn [Model.chop_go Model.chop_hits].
    destruct (box_intersections dst (prev, cur)) as [|q l'] eqn:EDs.
    + destruct (box_intersections src (prev, cur)) as [|p l] eqn:ES.
      * specialize (IH cur start (cur :: mid) sh).
        assert (J' : last (start :: rev (cur :: mid)) d = cur) by (simpl rev; apply last_cons_app).
        specialize (IH J'). destruct IH as [A B]. split; [exact A|].
        intro H. rewrite (B H). reflexivity.
      * specialize (IH cur p (cur :: []) true).
        assert (J' : last (p :: rev [cur]) d = cur) by reflexivity.
        specialize (IH J'). destruct IH as [A B]. split; [exact A|].
        intro H. rewrite (B H). reflexivity.
    + assert (NQ : near dst q) by (eapply hd_in_near; eauto).
      destruct (box_intersections src (prev, cur)) as [|p l] eqn:ES; simpl snd;
        (split; [intros _; rewrite last_cons_app; exact NQ | discriminate]).
Qed.

Lemma chop_go_length src dst : forall rest prev start mid,
  (mid <> [] \/ rest <> []) -> (2 <= length (chop_go src dst prev rest start mid))%nat.
Proof.
  induction rest as [|cur rest IH]; intros prev start mid H.
  - simpl. destruct H as [H|H]; [|congruence]. rewrite rev_length. destruct mid; [congruence|simpl; lia].
  - cbn [Model.chop_go].
    destruct (box_intersections src (prev, cur)) as [|p l];
    destruct (box_intersections dst (prev, cur)) as [|q l'].
    + apply IH. left; discriminate.
    + simpl. rewrite app_length. simpl. lia.
    + apply IH. left; discriminate.
    + simpl. lia.
Qed.

Theorem chop_spec src dst pts (d : pt) :
  box_ok src -> box_ok dst -> (2 <= length pts)%nat ->
  (2 <= length (chop src dst pts))%nat /\
  (chop_src_hit src dst pts = true -> near src (hd d (chop src dst pts))) /\
  (chop_src_hit src dst pts = false -> hd d (chop src dst pts) = hd d pts) /\
  (chop_dst_hit src dst pts = true -> near dst (last (chop src dst pts) d)) /\
  (chop_dst_hit src dst pts = false -> last (chop src dst pts) d = last pts d).
Proof.
  intros OKs OKd L. destruct pts as [|p0 rest]; [simpl in L; lia|].
  unfold Model.chop, Model.chop_src_hit, Model.chop_dst_hit.
  split; [|split; [|split]].
  - apply chop_go_length. right. destruct rest; [simpl in L; lia|discriminate].
  - intro H.
    destruct (chop_go_first src dst p0 OKs rest p0 p0 [] false) as [h [tl [E [A B]]]]; [discriminate|auto|].
    rewrite E. simpl. auto.
  - intro H.
    destruct (chop_go_first src dst p0 OKs rest p0 p0 [] false) as [h [tl [E [A B]]]]; [discriminate|auto|].
    rewrite E. simpl. auto.
  - apply (chop_go_last src dst d OKd rest p0 p0 [] false). reflexivity.
Qed.

(* ------------------------------------------------------------------ TraceToShape, rectangular branch *)
Lemma outer_from_in pos : forall l best, outer_from pos best l = best \/ In (outer_from pos best l) l.
Proof.
  induction l as [|q l IH]; intro best; simpl; [left; reflexivity|].
  destruct (better pos q best).
  - destruct (IH q) as [E|I]; [right; left; symmetry; exact E | right; right; exact I].
  - destruct (IH best) as [E|I]; [left; exact E | right; right; exact I].
Qed.

Lemma pick_outer_in pos ints d : ints <> [] -> In (pick_outer pos ints d) ints.
Proof.
  destruct ints as [|p [|q l]]; intro H; [congruence|left; reflexivity|].
  unfold pick_outer. destruct (outer_from_in pos (q :: l) p) as [E|I]; [rewrite E; left; reflexivity | right; exact I].
Qed.

Lemma pick_first_in ints d : ints <> [] -> In (pick_first ints d) ints.
Proof. destruct ints; intro H; [congruence|left; reflexivity]. Qed.

Lemma move_end_hd p pts : pts <> [] -> hd_error (move_end p pts) = Some p.
Proof.
  destruct pts as [|p0 [|p1 [|p2 r]]]; intro H; try congruence; try reflexivity.
  simpl. destruct (short_seg p1 p); reflexivity.
Qed.

Lemma skip_inside_suffix b : forall pts, exists n, skip_inside b pts = skipn n pts.
Proof.
  induction pts as [|p0 tl IH]; [exists 0%nat; reflexivity|].
  simpl. destruct tl as [|p1 [|p2 r]]; try (exists 0%nat; reflexivity).
  destruct (box_contains b p1); [|exists 0%nat; reflexivity].
  destruct IH as [n E]. exists (S n). exact E.
Qed.

Lemma try_box_spec loop b pick pts l h :
  box_ok b -> (forall ints d, ints <> [] -> In (pick ints d) ints) ->
  try_box loop b pick pts = (l, h) ->
  (h = true -> exists p, hd_error l = Some p /\ near b p) /\
  (h = false -> (exists n, l = skipn n pts) /\ (loop = false -> l = pts)).
Proof.
  intros OK PK. unfold Model.try_box.
  set (l1 := if loop then skip_inside b pts else pts).
  assert (S1 : (exists n, l1 = skipn n pts) /\ (loop = false -> l1 = pts)).
  { unfold l1. destruct loop; [split; [apply skip_inside_suffix|discriminate] | split; [exists 0%nat; reflexivity|reflexivity]]. }
  destruct (seg_of l1) as [s|] eqn:ES.
  - destruct (box_intersections b s) as [|i ints] eqn:EI.
    + intro H; inversion H; subst. split; [discriminate|auto].
    + intro H; inversion H; subst. split; [|discriminate]. intros _.
      exists (pick (i :: ints) (snd s)). split.
      * apply move_end_hd. destruct l1; [discriminate|discriminate].
      * apply (box_intersections_on_border b s); [exact OK|]. rewrite EI. apply PK. discriminate.
  - intro H; inversion H; subst. split; [discriminate|auto].
Qed.

Definition pieces_ok (o : endobj) : Prop := forall b, In b (code_pieces o) -> box_ok b.

Lemma skipn_skipn {A} (n m : nat) (l : list A) : skipn n (skipn m l) = skipn (m + n) l.
Proof.
  revert l; induction m as [|m IH]; intro l; [reflexivity|].
  destruct l; [destruct n; reflexivity|]. simpl. apply IH.
Qed.

(* the traced end: when a piece stopped the edge the new end point is within half a pixel of that piece's border;
   when nothing did, the points are the given ones (the destination loop may only have dropped leading points) *)
Lemma trace_side_spec is_dst o pts l k :
  pieces_ok o -> trace_side is_dst o pts = (l, k) ->
  (k <> 0%nat -> exists b p, In b (code_pieces o) /\ hd_error l = Some p /\ near b p) /\
  (k = 0%nat -> (exists n, l = skipn n pts) /\ (is_dst = false -> l = pts)).
Proof.
  intros OK. unfold Model.trace_side, pieces_ok, code_pieces in *.
  destruct (e_label o) as [[[pos lw] lh]|] eqn:EL.
  - destruct (try_box is_dst (label_box pos (e_box o) lw lh) (pick_outer pos) pts) as [l1 h1] eqn:T1.
    apply try_box_spec in T1 as [A1 B1]; [|apply OK; left; reflexivity|apply pick_outer_in].
    simpl fst; simpl snd. destruct h1.
    + intro H; injection H as <- <-. split; [|discriminate]. intros _.
      destruct (A1 eq_refl) as [p [P1 P2]]. exists (label_box pos (e_box o) lw lh), p. split; [left; reflexivity|auto].
    + destruct (B1 eq_refl) as [[n1 N1] F1].
      destruct (e_icon o) as [[ipos sz]|] eqn:EI.
      * destruct (try_box is_dst (icon_box ipos (e_box o) sz) (pick_outer ipos) l1) as [l2 h2] eqn:T2.
        apply try_box_spec in T2 as [A2 B2]; [|apply OK; right; left; reflexivity|apply pick_outer_in].
        simpl fst; simpl snd. destruct h2.
        -- intro H; injection H as <- <-. split; [|discriminate]. intros _.
           destruct (A2 eq_refl) as [p [P1 P2]]. exists (icon_box ipos (e_box o) sz), p.
           split; [right; left; reflexivity|auto].
        -- destruct (B2 eq_refl) as [[n2 N2] F2].
           destruct (try_box false (e_box o) pick_first l2) as [l3 h3] eqn:T3.
           apply try_box_spec in T3 as [A3 B3]; [|apply OK; right; right; left; reflexivity|apply pick_first_in].
           simpl fst; simpl snd. destruct h3; intro H; injection H as <- <-.
           ++ split; [|discriminate]. intros _. destruct (A3 eq_refl) as [p [P1 P2]].
              exists (e_box o), p. split; [right; right; left; reflexivity|auto].
           ++ split; [congruence|]. intros _. destruct (B3 eq_refl) as [_ F3]. rewrite (F3 eq_refl).
              split; [exists (n1 + n2)%nat; rewrite N2, N1; apply skipn_skipn|].
              intro D. rewrite (F2 D). apply F1; exact D.
      * simpl fst; simpl snd.
        destruct (try_box false (e_box o) pick_first l1) as [l3 h3] eqn:T3.
        apply try_box_spec in T3 as [A3 B3]; [|apply OK; right; left; reflexivity|apply pick_first_in].
        simpl fst; simpl snd. destruct h3; intro H; injection H as <- <-.
        -- split; [|discriminate]. intros _. destruct (A3 eq_refl) as [p [P1 P2]].
           exists (e_box o), p. split; [right; left; reflexivity|auto].
        -- split; [congruence|]. intros _. destruct (B3 eq_refl) as [_ F3]. rewrite (F3 eq_refl).
           split; [exists n1; exact N1|exact F1].
  - simpl fst; simpl snd.
    destruct (e_icon o) as [[ipos sz]|] eqn:EI.
    + destruct (try_box is_dst (icon_box ipos (e_box o) sz) (pick_outer ipos) pts) as [l2 h2] eqn:T2.
      apply try_box_spec in T2 as [A2 B2]; [|apply OK; left; reflexivity|apply pick_outer_in].
      simpl fst; simpl snd. destruct h2.
      * intro H; injection H as <- <-. split; [|discriminate]. intros _.
        destruct (A2 eq_refl) as [p [P1 P2]]. exists (icon_box ipos (e_box o) sz), p.
        split; [left; reflexivity|auto].
      * destruct (B2 eq_refl) as [[n2 N2] F2].
        destruct (try_box false (e_box o) pick_first l2) as [l3 h3] eqn:T3.
        apply try_box_spec in T3 as [A3 B3]; [|apply OK; right; left; reflexivity|apply pick_first_in].
        simpl fst; simpl snd. destruct h3; intro H; injection H as <- <-.
        -- split; [|discriminate]. intros _. destruct (A3 eq_refl) as [p [P1 P2]].
           exists (e_box o), p. split; [right; left; reflexivity|auto].
        -- split; [congruence|]. intros _. destruct (B3 eq_refl) as [_ F3]. rewrite (F3 eq_refl).
           split; [exists n2; exact N2|exact F2].
    + simpl fst; simpl snd.
      destruct (try_box false (e_box o) pick_first pts) as [l3 h3] eqn:T3.
      apply try_box_spec in T3 as [A3 B3]; [|apply OK; left; reflexivity|apply pick_first_in].
      simpl fst; simpl snd. destruct h3; intro H; injection H as <- <-.
      * split; [|discriminate]. intros _. destruct (A3 eq_refl) as [p [P1 P2]].
        exists (e_box o), p. split; [left; reflexivity|auto].
      * split; [congruence|]. intros _. destruct (B3 eq_refl) as [_ F3]. rewrite (F3 eq_refl).
        split; [exists 0%nat; reflexivity|reflexivity].
Qed.

(* pieces have non-negative sizes as soon as the box, the label and the icon have *)
Definition dims_ok_b (b : box) (lab : option (opos * Q * Q)) (ic : option (opos * Q)) : bool :=
  box_ok_b b &&
  match lab with Some (_, lw, lh) => Qle_bool 0 lw && Qle_bool 0 lh | None => true end &&
  match ic with Some (_, sz) => Qle_bool 0 sz | None => true end.

Lemma box_ok_b_iff b : box_ok_b b = true <-> box_ok b.
Proof. unfold box_ok_b, box_ok. rewrite andb_true_iff, !Qle_bool_iff. tauto. Qed.

Lemma pieces_ok_dims b b' lab ic :
  dims_ok_b b lab ic = true -> bw b' == bw b -> bh b' == bh b -> pieces_ok (mkend b' lab ic).
Proof.
  unfold dims_ok_b. rewrite !andb_true_iff. intros [[OK L] I] EW EH.
  apply box_ok_b_iff in OK. destruct OK as [W H].
  intros p HP. unfold code_pieces in HP; simpl in HP.
  apply in_app_or in HP as [HP|HP]; [|apply in_app_or in HP as [HP|HP]].
  - destruct lab as [[[pos lw] lh]|]; [|contradiction]. destruct HP as [<-|[]].
    apply andb_true_iff in L as [L1 L2]. apply Qle_bool_iff in L1, L2.
    unfold box_ok, label_box, PADDING; simpl. split; lra.
  - destruct ic as [[pos sz]|]; [|contradiction]. destruct HP as [<-|[]].
    apply Qle_bool_iff in I. unfold box_ok, icon_box; simpl. split; exact I.
  - destruct HP as [<-|[]]. unfold box_ok. rewrite EW, EH. split; assumption.
Qed.

(* dagre and ELK: TraceToShape on the box or on the 3d/multiple offset box *)
Theorem traced_rect_with_modifier is_dst b dx dy lab ic pts l k :
  dims_ok_b b lab ic = true ->
  trace_side is_dst (mkend (modifier_box b dx dy (hd (0, 0) pts)) lab ic) pts = (l, k) ->
  (k <> 0%nat ->
     exists piece p,
       (In piece (code_pieces (mkend b lab ic)) \/ In piece (code_pieces (mkend (shifted_box b dx dy) lab ic))) /\
       hd_error l = Some p /\ near_border_b (1 # 2) piece p = true) /\
  (k = 0%nat -> (exists n, l = skipn n pts) /\ (is_dst = false -> l = pts)).
Proof.
  intros OK T. unfold modifier_box in T.
  destruct (negb (Qeq_bool dx 0 && Qeq_bool dy 0) && lt_b (bx b + dx) (px (hd (0, 0) pts)) &&
            lt_b (py (hd (0, 0) pts)) (by_ b + bh b - dy)).
  - apply trace_side_spec in T; [|apply (pieces_ok_dims b); [exact OK|reflexivity|reflexivity]].
    destruct T as [A B]. split; [|exact B]. intro K. destruct (A K) as [pc [p [I [H N]]]].
    exists pc, p. split; [right; exact I|split; assumption].
  - apply trace_side_spec in T; [|apply (pieces_ok_dims b); [exact OK|reflexivity|reflexivity]].
    destruct T as [A B]. split; [|exact B]. intro K. destruct (A K) as [pc [p [I [H N]]]].
    exists pc, p. split; [left; exact I|split; assumption].
Qed.

(* ------------------------------------------------------------------ the visual extent *)
Lemma on_union_border_iff tol sds :
  on_union_border_b tol sds = true <->
  (exists s, In s sds /\ Qabs s <= tol) /\ (forall s, In s sds -> - tol <= s).
Proof.
  unfold on_union_border_b. rewrite andb_true_iff, existsb_exists, forallb_forall.
  split; intros [[s [I H]] F]; (split; [exists s; split; [exact I|apply Qle_bool_iff; exact H] | intros x Hx; apply Qle_bool_iff; apply F; exact Hx]).
Qed.

Definition plain_vis (b : box) : vis := mkvis b 0 0 None None.

Lemma plain_extent_border b p : near_border_b (1 # 2) b p = true -> on_extent_border_b (1 # 2) (plain_vis b) p = true.
Proof.
  intro N. apply near_border_iff in N as [N1 N2].
  unfold on_extent_border_b, extent_boxes, shape_boxes, deco_boxes, plain_vis, has_offset; simpl.
  apply on_union_border_iff. split.
  - exists (sd_box b p). split; [left; reflexivity|]. apply Qabs_le_iff. split; assumption.
  - intros s [<-|[]]. exact N1.
Qed.

(* DefaultRouter / d2grid between two plain rectangular shapes: when the centre-to-centre segment crosses both boxes
   (trace_side reports piece 3), the route is [p; q] with p on the border of the source's visual extent and q on the
   border of the destination's, within half a pixel *)
Theorem default_route_plain bs bd :
  box_ok bs -> box_ok bd ->
  let os := mkend bs None None in
  let od := mkend bd None None in
  let r1 := trace_side false os [box_center bs; box_center bd] in
  snd r1 <> 0%nat -> snd (trace_side true od (rev (fst r1))) <> 0%nat ->
  exists p q, default_route os od = [p; q] /\
    on_extent_border_b (1 # 2) (plain_vis bs) p = true /\
    on_extent_border_b (1 # 2) (plain_vis bd) q = true.
Proof.
  intros OKs OKd os od. subst os od.
  unfold Model.default_route, Model.trace_to_shape, Model.trace_side, Model.try_box, pick_first.
  cbn [e_label e_icon e_box fst snd seg_of].
  set (c1 := box_center bs). set (c2 := box_center bd).
  destruct (box_intersections bs (c2, c1)) as [|p l1] eqn:E1;
    cbn [fst snd hd move_end rev app seg_of]; [intros H; exfalso; apply H; reflexivity|].
  intros _.
  destruct (box_intersections bd (p, c2)) as [|q l2] eqn:E2;
    cbn [fst snd hd move_end rev app seg_of]; [intros H; exfalso; apply H; reflexivity|].
  intros _.
  exists p, q. split; [reflexivity|]. split; apply plain_extent_border.
  - eapply hd_in_near; eauto.
  - eapply hd_in_near; eauto.
Qed.

End WithRnd.

(* ------------------------------------------------------------------ refutations (genuine defects of the code) *)
Definition qpt (x y : Z) : pt := (inject_Z x, inject_Z y).
Definition zbox (x y w h : Z) : box := mkbox (inject_Z x) (inject_Z y) (inject_Z w) (inject_Z h).

(* 1. an edge between a container and its own descendant, routed centre to centre: the segment never leaves the
      container, nothing intersects, the container's end stays at its centre *)
Lemma default_route_container_refuted :
  exists bs bd, box_ok bs /\ box_ok bd /\
    hd (0, 0) (default_route qround (mkend bs None None) (mkend bd None None)) = box_center bs /\
    on_extent_border_b 100 (plain_vis bs) (hd (0, 0) (default_route qround (mkend bs None None) (mkend bd None None))) = false.
Proof.
  exists (zbox 0 0 400 300), (zbox 50 50 60 60). repeat split; try (vm_compute; congruence).
Qed.

(* 2. the same for the chop loop of dagre: a polyline that stays inside the source box keeps its first point *)
Lemma chop_container_refuted :
  exists src dst pts, box_ok src /\ box_ok dst /\ (2 <= length pts)%nat /\
    chop_src_hit qround src dst pts = false /\
    on_extent_border_b 50 (plain_vis src) (hd (0, 0) (chop qround src dst pts)) = false.
Proof.
  exists (zbox 0 0 400 300), (zbox 50 50 60 60), [qpt 300 150; qpt 200 100; qpt 80 80].
  repeat split; try (vm_compute; congruence). simpl; lia.
Qed.

(* 3. DefaultRouter does not switch to the offset box of a 3d / multiple shape: the end lands on the front box,
      15 px inside the copy drawn behind it *)
Lemma default_route_3d_refuted :
  exists bs bd, box_ok bs /\ box_ok bd /\
    on_extent_border_b 1 (mkvis bs 15 15 None None) (hd (0, 0) (default_route qround (mkend bs None None) (mkend bd None None))) = false.
Proof.
  exists (zbox 0 0 100 100), (zbox 300 0 100 100). repeat split; try (vm_compute; congruence).
Qed.

(* 4. at the SOURCE TraceToShape builds the outside icon box with MAX_ICON_SIZE = 64 although the icon is drawn with
      d2target.GetIconSize (32 on a 40x40 shape): the edge stops 32 px before the icon *)
Lemma source_icon_size_refuted :
  exists bs bd, box_ok bs /\ box_ok bd /\
    on_extent_border_b 1 (mkvis bs 0 0 None (Some (OLeftMiddle, 32)))
      (hd (0, 0) (default_route qround (mkend bs None (Some (OLeftMiddle, 64))) (mkend bd None None))) = false.
Proof.
  exists (zbox 100 100 40 40), (zbox (-200) 100 40 40). repeat split; try (vm_compute; congruence).
Qed.

(* ------------------------------------------------------------------ glue used by Props.v *)
Lemma qround_half : forall q, Qabs (qround q - q) <= 1 # 2.
Proof. exact qround_close. Qed.

Lemma on_union_border_mono t t' sds : t <= t' -> on_union_border_b t sds = true -> on_union_border_b t' sds = true.
Proof.
  intros L H. apply on_union_border_iff in H as [[s [I A]] F]. apply on_union_border_iff. split.
  - exists s. split; [exact I|]. eapply Qle_trans; eauto.
  - intros x Hx. specialize (F x Hx). lra.
Qed.
